#!/bin/bash
# tools/seeded_sweep_par.sh [jobs] : like seeded_sweep.sh, one property per job in parallel.
cd "$(dirname "$0")/.."
J="${1:-6}"
one() {
  P="$1"
  for d in /tmp/mutwork/$P.out/m*/; do
    [ -f "$d/meta.json" ] && [ -f "$d/patch.diff" ] || continue
    M=$(basename "$d")
    [ -d "seeded/$P-$M" ] && continue
    [ -f "/tmp/mutwork/$P.out/$M.rejected" ] && continue
    if tools/import_seeded.sh "$P" "$M" > "/tmp/mutwork/$P.out/$M.import.log" 2>&1; then
      echo "$(tail -1 "/tmp/mutwork/$P.out/$M.import.log")"
      tools/selftest.sh "$P-$M" 2>&1 | tail -1 | cut -c1-330
    else
      touch "/tmp/mutwork/$P.out/$M.rejected"; tail -3 "/tmp/mutwork/$P.out/$M.import.log"
    fi
  done
}
export -f one
ls -d /tmp/mutwork/C*.out | sed 's#.*/##; s#\.out##' | xargs -P "$J" -I{} bash -c 'one {}'

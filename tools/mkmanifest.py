#!/usr/bin/env python3
"""Regenerates /verif/MANIFEST.json from the table below (kept in one place so
that the manifest stays valid while checks are added)."""
import json, os, subprocess, sys

HERE = os.path.dirname(os.path.dirname(os.path.abspath(__file__)))

# id -> (technique, level text, level note, design ref)
CHECKS = {}
NOT_YET = {}

def load():
    with open(os.path.join(HERE, "tools", "checks.json")) as f:
        return json.load(f)

def main():
    t = load()
    props = [json.loads(l)["id"] for l in open(os.path.join(HERE, "properties.jsonl"))]
    checks = []
    na = []
    for pid in props:
        c = t["checks"].get(pid)
        if c is None:
            na.append({"property_id": pid, "reason": t["not_applicable"].get(pid, "check not built yet (work in progress); see DESIGN.md section 6")})
            continue
        checks.append({
            "property_id": pid,
            "quick_cmd": "./check %s quick" % pid,
            "thorough_cmd": "./check %s thorough" % pid,
            "evidence_file": "/verif/evidence/%s.json" % pid,
            "replay_cmd_template": "./check replay {path}",
            "engine": "vharness",
            "level_claimed": {"category": c.get("category", "exploration"), "text": c["text"], "design_ref": c["design_ref"]},
            "level_note": c["note"],
            "technique": c["technique"],
        })
    m = {
        "version": 1,
        "setup_cmd": "./check setup",
        "hooks": t["hooks"],
        "engines": [{
            "name": "vharness",
            "path": "/verif/harness",
            "serves_properties": [c["property_id"] for c in checks],
            "kind_free_text": "Go harness (module github.com/emersion/go-webdav/verifharness, replace => /repo): drives the real go-webdav code under enumerated/generated/hostile/concurrent workloads in sharded child processes while boundary monitors (reference models, recorders, tree snapshots, strace, race detector) apply deterministic oracles",
        }],
        "checks": checks,
        "notes": t["notes"],
        "not_applicable": na,
    }
    with open(os.path.join(HERE, "MANIFEST.json"), "w") as f:
        json.dump(m, f, indent=1)
        f.write("\n")
    # validate
    try:
        import jsonschema
        jsonschema.validate(m, json.load(open("/root/.vp/MANIFEST.schema.json")))
        print("MANIFEST.json valid,", len(checks), "checks,", len(na), "not claimed")
    except ImportError:
        print("jsonschema not available; MANIFEST.json written")

if __name__ == "__main__":
    main()

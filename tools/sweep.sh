#!/bin/bash
# tools/sweep.sh [tier] [seeds...]  : runs every claimed check at several seeds
# into a scratch VERIF_DIR (so /verif/evidence is not touched) and prints one
# line per run; exits non-zero if any run was not silent (exit 0).
cd "$(dirname "$0")/.."
tier="${1:-quick}"; shift
seeds="${*:-1 2 3 4 5}"
scratch="/dev/shm/sweep-$$"; mkdir -p "$scratch"; cp known_findings.json "$scratch/"
trap 'rm -rf "$scratch"' EXIT
rc=0
for p in $(python3 -c "import json;print(' '.join(c['property_id'] for c in json.load(open('MANIFEST.json'))['checks']))"); do
  for s in $seeds; do
    out=$(VERIF_SEED=$s VERIF_DIR="$scratch" ./check $p $tier 2>&1); code=$?
    echo "seed=$s exit=$code $(echo "$out" | grep '^property=' | cut -c1-160)"
    if [ $code -ne 0 ]; then rc=1; echo "$out" | grep -E "VIOLATION|INCONCLUSIVE|finding key" | head -5 | cut -c1-300; fi
  done
done
exit $rc

#!/usr/bin/env python3
"""tools/design_table.py <quick-sweep-log> <thorough-sweep-log>: rewrites the
'6.0 As built: measured workloads' table of DESIGN.md from two tools/sweep.sh
logs (seed 1 lines)."""
import re,sys
def load(path,tier):
    d={}
    for l in open(path):
        m=re.search(r'property=(C\d+) tier=%s seed=1 evaluations=(\d+) distinct_nontrivial=(\d+).*wall=([\d.]+)s'%tier,l)
        if m: d[m.group(1)]=(int(m.group(2)),int(m.group(3)),float(m.group(4)))
    return d
q=load(sys.argv[1],'quick'); t=load(sys.argv[2],'thorough')
rows=[]
for i in range(1,20):
    pid='C%02d'%i; a=q.get(pid,(0,0,0)); b=t.get(pid,(0,0,0))
    rows.append('| %s | %s | %s | %.0f s | %s | %s | %.0f s |'%(pid,format(a[0],','),format(a[1],','),a[2],format(b[0],','),format(b[1],','),b[2]))
p='/verif/DESIGN.md'; s=open(p).read()
a=s.index('| property | quick evaluations |'); b=s.index('### C01 — file server')
head='| property | quick evaluations | quick distinct | quick wall | thorough evaluations | thorough distinct | thorough wall |\n|---|---|---|---|---|---|---|\n'
s=s[:a]+head+'\n'.join(rows)+'\n\n'+s[b:]
open(p,'w').write(s); print('\n'.join(rows))

#!/usr/bin/env python3
"""Runs tools/selftest.sh for every seeded change (N at a time) and writes
seeded/RESULTS.md: one row per change with what it does, what it needs to
manifest and which finding key the check raised."""
import json, os, subprocess, sys, glob, re
from concurrent.futures import ThreadPoolExecutor
HERE=os.path.dirname(os.path.dirname(os.path.abspath(__file__)))
ids=sorted(os.path.basename(d) for d in glob.glob(os.path.join(HERE,'seeded','C*-m*')))
# SEEDED_ONLY=<regex>: run only the matching ids and keep the other rows of RESULTS.md as they are
only=os.environ.get('SEEDED_ONLY')
kept={}
if only:
    p=os.path.join(HERE,'seeded','RESULTS.md')
    if os.path.exists(p):
        for l in open(p):
            m=re.match(r'\| (C\d+-m\d+) \|',l)
            if m and not re.search(only,m.group(1)): kept[m.group(1)]=l
    ids=[i for i in ids if re.search(only,i)]
def run(i):
    meta=json.load(open(os.path.join(HERE,'seeded',i,'meta.json')))
    if meta.get('neutralised_by'):
        return i,'SELFTEST %s: NEUTRALISED by a repair of /repo (see meta.json)'%i
    r=subprocess.run([os.path.join(HERE,'tools','selftest.sh'),i],capture_output=True,text=True,errors='replace')
    line=[l for l in r.stdout.splitlines() if l.startswith('SELFTEST')]
    out=(line[-1] if line else 'SELFTEST %s: ? %s'%(i,r.stdout[-200:]))
    with open(os.environ.get('SEEDED_TABLE_LOG','/dev/shm/seeded_table.progress.log'),'a') as f: f.write(out[:400]+'\n')
    return i,out
with ThreadPoolExecutor(max_workers=int(sys.argv[1]) if len(sys.argv)>1 else 3) as ex:
    res=dict(ex.map(run,ids))
rows=[]
for i in ids:
    m=json.load(open(os.path.join(HERE,'seeded',i,'meta.json')))
    line=res[i]
    status='DETECTED' if 'DETECTED' in line else ('NEUTRALISED' if 'NEUTRALISED' in line else 'MISSED')
    key=''
    mm=re.search(r'finding key=(.*?) count=',line)
    if mm: key=mm.group(1)
    nk=re.search(r'(\d+) violation key',line)
    rows.append((i,m.get('title','').replace('|','/'),str(m.get('what_it_needs_to_manifest','')).replace('|','/').replace('\n',' ')[:260],status,(nk.group(1) if nk else '0'),key.replace('|','\\|')[:160]))
with open(os.path.join(HERE,'seeded','RESULTS.md'),'w') as f:
    f.write('| id | change | needs to manifest | quick check | keys | first finding key |\n|---|---|---|---|---|---|\n')
    lines={r[0]:'| '+' | '.join(r)+' |\n' for r in rows}
    lines.update(kept)
    def key(i):
        a,b=i.split('-m'); return (a,int(b))
    for i in sorted(lines,key=key): f.write(lines[i])
print('\n'.join('%s %s'%(r[0],r[3]) for r in rows))
print('missed:',[r[0] for r in rows if r[3] not in ('DETECTED','NEUTRALISED')])

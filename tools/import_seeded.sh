#!/bin/bash
# tools/import_seeded.sh <Cnn> <mK>
# Confirms a seeded change written by an independent sub-agent under
# /tmp/mutwork/<Cnn>.out/<mK>/ in a scratch copy of /repo's HEAD and, if it
# holds up, stores it as /verif/seeded/<Cnn>-<mK>/ (patch.diff, demonstration,
# meta.json extended with what was run). Confirmation = the patch applies, the
# repository's own suite passes with it, the demonstration fails with it and
# passes without it.
set -u
P="$1"; M="$2"
src="/tmp/mutwork/$P.out/$M"
[ -f "$src/patch.diff" ] && [ -f "$src/meta.json" ] || { echo "IMPORT $P-$M: missing files in $src"; exit 2; }
export GOFLAGS=-mod=mod GOPROXY=off GOSUMDB=off GOTOOLCHAIN=local
scratch="/dev/shm/import-$P-$M-$$"; rm -rf "$scratch"; mkdir -p "$scratch"
trap 'rm -rf "$scratch"' EXIT
copy_to=$(python3 -c "import json;print(json.load(open('$src/meta.json')).get('demo',{}).get('copy_to','.'))")
run=$(python3 -c "import json;print(json.load(open('$src/meta.json')).get('demo',{}).get('run',''))")
demos=$(cd "$src" && ls | grep -v -e '^patch.diff$' -e '^meta.json$')
fresh() { rm -rf "$scratch/repo"; mkdir -p "$scratch/repo"; git -C /repo archive HEAD | tar -x -C "$scratch/repo"; }
putdemo() { mkdir -p "$scratch/repo/$copy_to"; for d in $demos; do cp -r "$src/$d" "$scratch/repo/$copy_to/"; done; }
rundemo() { (cd "$scratch/repo/$copy_to" && timeout 900 bash -c "$run") >"$scratch/demo.$1.log" 2>&1; }
# 1. unchanged library: demonstration passes
fresh; putdemo
if ! rundemo clean; then
  # some agents give the command relative to the repository root
  if ! (cd "$scratch/repo" && timeout 900 bash -c "$run") >"$scratch/demo.clean.log" 2>&1; then
    echo "IMPORT $P-$M: REJECTED, demonstration does not pass on the unchanged library"; tail -15 "$scratch/demo.clean.log"; exit 1
  fi
  rundemo() { (cd "$scratch/repo" && timeout 900 bash -c "$run") >"$scratch/demo.$1.log" 2>&1; }
fi
# 2. patched library: suite passes, demonstration fails
fresh
if ! (cd "$scratch/repo" && git apply --whitespace=nowarn "$src/patch.diff") 2>"$scratch/apply.log"; then
  echo "IMPORT $P-$M: REJECTED, patch does not apply to /repo HEAD"; cat "$scratch/apply.log"; exit 1
fi
if ! (cd "$scratch/repo" && go build ./... && go test -vet=off -count=1 ./...) >"$scratch/suite.log" 2>&1; then
  echo "IMPORT $P-$M: REJECTED, the existing suite fails with the patch"; tail -15 "$scratch/suite.log"; exit 1
fi
putdemo
if rundemo patched; then
  echo "IMPORT $P-$M: REJECTED, demonstration passes although the patch is applied"; tail -15 "$scratch/demo.patched.log"; exit 1
fi
dst="/verif/seeded/$P-$M"; rm -rf "$dst"; mkdir -p "$dst"
cp "$src/patch.diff" "$dst/"; for d in $demos; do cp -r "$src/$d" "$dst/"; done
python3 - "$src/meta.json" "$dst/meta.json" "$P" <<'PY'
import json,sys,subprocess
m=json.load(open(sys.argv[1]))
m['property']=sys.argv[3]
m['source']='independent sub-agent given only the property text and a scratch worktree'
m['repo_head_at_confirmation']=subprocess.check_output(['git','-C','/repo','rev-parse','--short','HEAD']).decode().strip()
m['confirmed_by_lead']={'ran':['git archive HEAD | tar -x (scratch copy under /dev/shm)','demonstration on the unchanged copy: PASS','git apply patch.diff','go build ./... && go test -vet=off -count=1 ./... : PASS','demonstration on the patched copy: FAIL'],'how':'tools/import_seeded.sh'}
json.dump(m,open(sys.argv[2],'w'),indent=1,ensure_ascii=False)
PY
echo "IMPORT $P-$M: CONFIRMED -> $dst"

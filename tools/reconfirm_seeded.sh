#!/bin/bash
# tools/reconfirm_seeded.sh <id> : re-confirms a stored seeded change against
# /repo's current HEAD (after fix: commits have moved it): the patch applies,
# the repository's suite passes with it, the demonstration passes on the
# unchanged copy and fails on the patched one. Updates repo_head_at_confirmation.
set -u
id="$1"; src="/verif/seeded/$id"
[ -f "$src/patch.diff" ] && [ -f "$src/meta.json" ] || { echo "RECONFIRM $id: missing files"; exit 2; }
export GOFLAGS=-mod=mod GOPROXY=off GOSUMDB=off GOTOOLCHAIN=local
scratch="/dev/shm/reconfirm-$id-$$"; rm -rf "$scratch"; mkdir -p "$scratch"
trap 'rm -rf "$scratch"' EXIT
copy_to=$(python3 -c "import json;print(json.load(open('$src/meta.json')).get('demo',{}).get('copy_to','.'))")
run=$(python3 -c "import json;print(json.load(open('$src/meta.json')).get('demo',{}).get('run',''))")
demos=$(cd "$src" && ls | grep -v -e '^patch.diff$' -e '^meta.json$')
fresh() { rm -rf "$scratch/repo"; mkdir -p "$scratch/repo"; git -C /repo archive HEAD | tar -x -C "$scratch/repo"; }
putdemo() { mkdir -p "$scratch/repo/$copy_to"; for d in $demos; do cp -r "$src/$d" "$scratch/repo/$copy_to/"; done; }
where="$copy_to"
rundemo() { (cd "$scratch/repo/$where" && timeout 900 bash -c "$run") >"$scratch/demo.$1.log" 2>&1; }
fresh; putdemo
if ! rundemo clean; then
  where="."
  if ! rundemo clean; then echo "RECONFIRM $id: demonstration does NOT pass on the unchanged HEAD"; tail -8 "$scratch/demo.clean.log"; exit 1; fi
fi
fresh
(cd "$scratch/repo" && git apply --whitespace=nowarn "$src/patch.diff") 2>"$scratch/apply.log" || { echo "RECONFIRM $id: patch does not apply to HEAD"; cat "$scratch/apply.log"; exit 1; }
(cd "$scratch/repo" && go build ./... && go test -vet=off -count=1 ./...) >"$scratch/suite.log" 2>&1 || { echo "RECONFIRM $id: suite fails with the patch"; tail -8 "$scratch/suite.log"; exit 1; }
putdemo
if rundemo patched; then echo "RECONFIRM $id: demonstration PASSES although the patch is applied (no longer a breaking change on this HEAD)"; exit 1; fi
python3 - "$src/meta.json" <<'PY'
import json,sys,subprocess
p=sys.argv[1]; m=json.load(open(p))
m['repo_head_at_confirmation']=subprocess.check_output(['git','-C','/repo','rev-parse','--short','HEAD']).decode().strip()
json.dump(m,open(p,'w'),indent=1,ensure_ascii=False)
PY
echo "RECONFIRM $id: CONFIRMED on $(git -C /repo rev-parse --short HEAD)"

#!/bin/bash
# tools/trypatch.sh [-R] <patch-file> <property> [tier] : runs one check against
# a scratch copy of /repo's HEAD with an arbitrary patch applied (-R: reversed),
# prints the verdict lines; /repo and /verif/evidence are not touched.
set -u
cd "$(dirname "$0")/.."
rev=""; if [ "$1" = "-R" ]; then rev="-R"; shift; fi
patch="$(readlink -f "$1")"; p="$2"; tier="${3:-quick}"
export GOFLAGS=-mod=mod GOPROXY=off GOSUMDB=off GOTOOLCHAIN=local
scratch="/dev/shm/trypatch-$p-$$"; rm -rf "$scratch"; mkdir -p "$scratch/repo" "$scratch/verif"
trap 'rm -rf "$scratch"' EXIT
git -C /repo archive HEAD | tar -x -C "$scratch/repo"
(cd "$scratch/repo" && git apply $rev --whitespace=nowarn "$patch") || { echo "TRYPATCH: patch does not apply"; exit 2; }
(cd "$scratch/repo" && go build ./... && go test -vet=off -count=1 ./... >/dev/null 2>&1) && echo "TRYPATCH: suite passes with the patch" || echo "TRYPATCH: suite FAILS with the patch"
cp known_findings.json "$scratch/verif/"
VERIF_ISOLATE=1 VERIF_REPO="$scratch/repo" VERIF_DIR="$scratch/verif" ./check "$p" "$tier" >"$scratch/out" 2>&1; code=$?
echo "TRYPATCH: $p $tier exit=$code"
grep -E "finding key=|^INCONCLUSIVE|^property=" "$scratch/out" | cut -c1-400 | head -${TRYPATCH_LINES:-12}

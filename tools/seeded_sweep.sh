#!/bin/bash
# tools/seeded_sweep.sh : imports every not-yet-imported sub-agent change under
# /tmp/mutwork/*.out/m*/ and runs the selftest for each newly imported one.
cd "$(dirname "$0")/.."
for d in /tmp/mutwork/C*.out/m*/; do
  [ -f "$d/meta.json" ] && [ -f "$d/patch.diff" ] || continue
  P=$(basename "$(dirname "$d")" .out); M=$(basename "$d")
  [ -d "seeded/$P-$M" ] && continue
  [ -f "/tmp/mutwork/$P.out/$M.rejected" ] && continue
  if tools/import_seeded.sh "$P" "$M" > "/tmp/mutwork/$P.out/$M.import.log" 2>&1; then
    tail -1 "/tmp/mutwork/$P.out/$M.import.log"
    tools/selftest.sh "$P-$M" 2>&1 | tail -1 | cut -c1-330
  else
    touch "/tmp/mutwork/$P.out/$M.rejected"; tail -3 "/tmp/mutwork/$P.out/$M.import.log"
  fi
done

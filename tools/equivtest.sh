#!/bin/bash
# tools/equivtest.sh <equiv-id> : applies a property-PRESERVING change from
# /verif/equiv/<id>/patch.diff to a scratch copy of /repo's HEAD and runs the
# checks named in its meta.json: every one of them must stay silent (exit 0).
set -u
cd "$(dirname "$0")/.."
id="$1"; dir="equiv/$id"
export GOFLAGS=-mod=mod GOPROXY=off GOSUMDB=off GOTOOLCHAIN=local
scratch="/dev/shm/equivtest-$id-$$"; rm -rf "$scratch"; mkdir -p "$scratch/repo" "$scratch/verif"
trap 'rm -rf "$scratch"' EXIT
git -C /repo archive HEAD | tar -x -C "$scratch/repo"
(cd "$scratch/repo" && git apply --whitespace=nowarn "$OLDPWD/$dir/patch.diff") || { echo "EQUIV $id: patch does not apply"; exit 2; }
(cd "$scratch/repo" && go build ./... && go test -vet=off -count=1 ./... >/dev/null 2>&1) || { echo "EQUIV $id: suite fails with the patch"; exit 2; }
cp known_findings.json "$scratch/verif/"
rc=0
for p in $(python3 -c "import json;print(' '.join(json.load(open('$dir/meta.json'))['checks_run']))"); do
  # EQUIV_ONLY="C02 C17" restricts the run to some of the checks named in meta.json
  if [ -n "${EQUIV_ONLY:-}" ] && ! echo " $EQUIV_ONLY " | grep -q " $p "; then continue; fi
  VERIF_REPO="$scratch/repo" VERIF_DIR="$scratch/verif" ./check "$p" quick >"$scratch/out.$p" 2>&1; code=$?
  if [ $code -eq 0 ]; then echo "EQUIV $id: $p silent"; else echo "EQUIV $id: $p FALSE ALARM (exit $code): $(grep -m2 -E 'finding key|INCONCLUSIVE' "$scratch/out.$p" | cut -c1-300)"; rc=1; fi
done
exit $rc

#!/bin/bash
# tools/selftest.sh <seeded-id> [tier]
# Applies /verif/seeded/<id>/patch.diff to a scratch copy of /repo's HEAD,
# confirms the repository's own test suite still passes there (the change is
# one the suite cannot see), runs the check(s) named in meta.json against the
# copy and reports whether a VIOLATION was raised. Everything is removed
# afterwards. Never touches /repo or /verif/evidence.
set -u
cd "$(dirname "$0")/.."
id="$1"; tier="${2:-quick}"
dir="seeded/$id"
[ -f "$dir/patch.diff" ] || { echo "no $dir/patch.diff"; exit 2; }
export GOFLAGS=-mod=mod GOPROXY=off GOSUMDB=off GOTOOLCHAIN=local
scratch="/dev/shm/selftest-$id-$$"
rm -rf "$scratch"; mkdir -p "$scratch/repo" "$scratch/verif"
trap 'rm -rf "$scratch"' EXIT
git -C /repo archive HEAD | tar -x -C "$scratch/repo"
if ! (cd "$scratch/repo" && git apply --whitespace=nowarn "$OLDPWD/$dir/patch.diff") 2>"$scratch/apply.log"; then
  echo "SELFTEST $id: patch does not apply to /repo HEAD"; cat "$scratch/apply.log"; exit 2
fi
if ! (cd "$scratch/repo" && go build ./... && go test -vet=off -count=1 ./... >"$scratch/test.log" 2>&1); then
  echo "SELFTEST $id: the repository's own tests FAIL with the patch (not a valid seeded change)"; tail -20 "$scratch/test.log"; exit 2
fi
cp known_findings.json "$scratch/verif/"
props=$(python3 -c "import json,sys; m=json.load(open('$dir/meta.json')); p=m.get('property'); print(' '.join(p if isinstance(p,list) else [p]))")
rc=0
for p in $props; do
  out="$scratch/out.$p.txt"
  VERIF_ISOLATE=1 VERIF_REPO="$scratch/repo" VERIF_DIR="$scratch/verif" ./check "$p" "$tier" >"$out" 2>&1
  code=$?
  if [ $code -eq 1 ] && grep -q "^VIOLATION property=$p" "$out"; then
    echo "SELFTEST $id: DETECTED by $p ($tier): $(grep -c '^VIOLATION' "$out") violation key(s); first: $(grep -m1 'finding key=' "$out" | cut -c1-240)"
  else
    echo "SELFTEST $id: MISSED by $p ($tier) (exit $code): $(tail -2 "$out" | cut -c1-300)"
    rc=1
  fi
done
exit $rc

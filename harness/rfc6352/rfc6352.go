// Package rfc6352 is the harness's independent reader and writer of the two
// CardDAV REPORT request documents, addressbook-query and
// addressbook-multiget, written from the RFC 6352 DTD (DESIGN.md Appendix A)
// over the harness's own XML tree. It shares no struct, tag or helper with
// go-webdav and does not import it.
//
//	addressbook-query     ((D:allprop | D:propname | D:prop)?, filter, limit?)
//	addressbook-multiget  ((D:allprop | D:propname | D:prop)?, D:href+)
//	address-data          (allprop | prop*)              [child of D:prop]
//	prop                  EMPTY                          @name @novalue(yes|no)
//	filter                (prop-filter*)                 @test(anyof|allof)
//	prop-filter           (is-not-defined | (text-match*, param-filter*))  @name @test
//	param-filter          (is-not-defined | text-match)? @name
//	text-match            #PCDATA  @collation @negate-condition(yes|no) @match-type
//	limit                 (nresults)                     nresults: positive integer
//
// The neutral request value keeps what is written on the wire *as written*
// (an absent attribute is the empty string); applying the RFC defaults is
// left to the caller (Test(), Type(), Negated()).
package rfc6352

import (
	"fmt"
	"strings"

	"github.com/emersion/go-webdav/verifharness/davx"
	"github.com/emersion/go-webdav/verifharness/xmltree"
)

const (
	NS  = "urn:ietf:params:xml:ns:carddav"
	DAV = "DAV:"
)

// TextMatch is one text-match element.
type TextMatch struct {
	Text      string `json:"text"`
	Collation string `json:"collation,omitempty"`  // "" = attribute absent
	Negate    string `json:"negate,omitempty"`     // raw negate-condition; "" = absent (means no)
	MatchType string `json:"match_type,omitempty"` // raw match-type; "" = absent (means contains)
}

// Negated applies the default of negate-condition.
func (t *TextMatch) Negated() bool { return t.Negate == "yes" }

// Type applies the default of match-type.
func (t *TextMatch) Type() string {
	if t.MatchType == "" {
		return "contains"
	}
	return t.MatchType
}

// ParamFilter is one param-filter element.
type ParamFilter struct {
	Name         string     `json:"name"`
	IsNotDefined bool       `json:"is_not_defined,omitempty"`
	TextMatch    *TextMatch `json:"text_match,omitempty"`
}

// PropFilter is one prop-filter element.
type PropFilter struct {
	Name         string        `json:"name"`
	Test         string        `json:"test,omitempty"` // raw; "" = absent (means anyof)
	IsNotDefined bool          `json:"is_not_defined,omitempty"`
	TextMatches  []TextMatch   `json:"text_matches,omitempty"`
	Params       []ParamFilter `json:"params,omitempty"`
}

// DefaultTest applies the default of a test attribute.
func DefaultTest(raw string) string {
	if raw == "" {
		return "anyof"
	}
	return raw
}

// DataProp is one CARDDAV:prop inside address-data.
type DataProp struct {
	Name    string `json:"name"`
	NoValue string `json:"novalue,omitempty"` // raw; "" = absent
}

// AddressData is the request form of address-data.
type AddressData struct {
	AllProp bool       `json:"allprop,omitempty"`
	Props   []DataProp `json:"props,omitempty"`
	// ContentType and Version are the attributes of RFC 6352 section 10.4
	// naming the media type of the returned data; nil = attribute absent
	// (defaults "text/vcard" and "3.0").
	ContentType *string `json:"content_type,omitempty"`
	Version     *string `json:"version,omitempty"`
}

// QName is an expanded element name.
type QName struct {
	Space string `json:"space"`
	Local string `json:"local"`
}

// Selection is the optional first child (D:allprop | D:propname | D:prop).
type Selection struct {
	Form string `json:"form,omitempty"` // "", "prop", "allprop", "propname"
	// Data is the address-data element inside D:prop (nil: none).
	Data *AddressData `json:"data,omitempty"`
	// Others are the other properties named in D:prop, in order; DataPos is
	// the index among them at which address-data stands.
	Others  []QName `json:"others,omitempty"`
	DataPos int     `json:"data_pos,omitempty"`
}

// Query is an addressbook-query.
type Query struct {
	Sel         Selection    `json:"sel"`
	Test        string       `json:"test,omitempty"` // raw filter test; "" = absent
	PropFilters []PropFilter `json:"prop_filters,omitempty"`
	HasLimit    bool         `json:"has_limit,omitempty"`
	NResults    string       `json:"nresults,omitempty"` // raw text of nresults
}

// MultiGet is an addressbook-multiget. Hrefs hold the href texts as written.
type MultiGet struct {
	Sel   Selection `json:"sel"`
	Hrefs []string  `json:"hrefs"`
}

// Paths decodes the hrefs to resource paths.
func (m *MultiGet) Paths() ([]string, error) {
	l := make([]string, 0, len(m.Hrefs))
	for _, h := range m.Hrefs {
		p, err := davx.HrefPath(h)
		if err != nil {
			return nil, err
		}
		l = append(l, p)
	}
	return l, nil
}

// Request is one REPORT request document.
type Request struct {
	Query    *Query    `json:"query,omitempty"`
	MultiGet *MultiGet `json:"multiget,omitempty"`
}

// Sel returns the request's property selection (nil for an empty request).
func (r *Request) Sel() *Selection {
	switch {
	case r == nil:
		return nil
	case r.Query != nil:
		return &r.Query.Sel
	case r.MultiGet != nil:
		return &r.MultiGet.Sel
	}
	return nil
}

// Violation is one place where a document departs from the RFC 6352 grammar
// but can still be read.
type Violation struct {
	Where  string `json:"where"`  // element the rule belongs to
	Rule   string `json:"rule"`   // child-order, unknown-element, unknown-attribute, bad-enum, ...
	Code   string `json:"code"`   // abstract detail built from grammar names only
	Detail string `json:"detail"` // literal detail (values)
}

// Key is the abstract signature of the violation.
func (v Violation) Key() string { return v.Where + "." + v.Rule + " | " + v.Code }

func (v Violation) String() string {
	return fmt.Sprintf("%s: %s (%s) %s", v.Where, v.Rule, v.Code, v.Detail)
}

type reader struct {
	viol []Violation
}

func (r *reader) bad(where, rule, code, detail string) {
	r.viol = append(r.viol, Violation{Where: where, Rule: rule, Code: code, Detail: detail})
}

// Read parses and interprets one request body. err is non-nil when the body
// is not well-formed XML or its root is neither of the two reports; grammar
// departures that still allow reading are returned as violations.
func Read(body []byte) (*Request, []Violation, error) {
	root, err := xmltree.Parse(body)
	if err != nil {
		return nil, nil, err
	}
	return FromTree(root)
}

// FromTree interprets a parsed document.
func FromTree(root *xmltree.Node) (*Request, []Violation, error) {
	r := &reader{}
	switch {
	case root.Is(NS, "addressbook-query"):
		q := r.query(root)
		return &Request{Query: q}, r.viol, nil
	case root.Is(NS, "addressbook-multiget"):
		m := r.multiget(root)
		return &Request{MultiGet: m}, r.viol, nil
	}
	return nil, nil, fmt.Errorf("rfc6352: root element is %s, want {%s}addressbook-query or addressbook-multiget", root.Name(), NS)
}

func known(space string) bool { return space == NS || space == DAV }

func short(n *xmltree.Node) string {
	switch n.Space {
	case NS:
		return n.Local
	case DAV:
		return "D:" + n.Local
	case "":
		return "{}" + n.Local
	}
	return "{foreign}" + n.Local
}

// kids returns the element children of an element-content element that
// belong to the two known namespaces. Elements of other namespaces are
// extensions and skipped; an element without any namespace and character
// data other than white space are violations.
func (r *reader) kids(n *xmltree.Node, where string) []*xmltree.Node {
	var l []*xmltree.Node
	for _, c := range n.Children {
		switch c.Kind {
		case xmltree.Text:
			if strings.Trim(c.Data, " \t\r\n") != "" {
				r.bad(where, "text-in-element-content", "text", fmt.Sprintf("%q", c.Data))
			}
		case xmltree.Element:
			if known(c.Space) {
				l = append(l, c)
			} else if c.Space == "" {
				r.bad(where, "unknown-element", short(c), "element without namespace")
			}
		}
	}
	return l
}

// empty checks an EMPTY element (white space and comments are tolerated).
func (r *reader) empty(n *xmltree.Node, where string) {
	for _, c := range n.Children {
		switch c.Kind {
		case xmltree.Text:
			if strings.Trim(c.Data, " \t\r\n") != "" {
				r.bad(where, "content-in-empty-element", "text", fmt.Sprintf("%q", c.Data))
			}
		case xmltree.Element:
			r.bad(where, "content-in-empty-element", short(c), "")
		}
	}
}

// attrs checks the attribute names of a CardDAV element: un-namespaced
// attributes must be among allowed, attributes in the DAV: or CardDAV
// namespace do not exist in the grammar, foreign ones are extensions.
func (r *reader) attrs(n *xmltree.Node, where string, allowed ...string) {
	for _, a := range n.Attrs {
		switch {
		case a.Space == "":
			ok := false
			for _, k := range allowed {
				if k == a.Local {
					ok = true
				}
			}
			if !ok {
				r.bad(where, "unknown-attribute", a.Local, fmt.Sprintf("%s=%q", a.Local, a.Value))
			}
		case known(a.Space):
			r.bad(where, "namespaced-attribute", a.Local, fmt.Sprintf("{%s}%s=%q", a.Space, a.Local, a.Value))
		}
	}
}

func (r *reader) required(n *xmltree.Node, where, name string) string {
	v, ok := n.Attr(name)
	if !ok {
		r.bad(where, "missing-attribute", name, "")
	}
	return v
}

func (r *reader) enum(n *xmltree.Node, where, name string, values ...string) string {
	v, ok := n.Attr(name)
	if !ok {
		return ""
	}
	for _, k := range values {
		if k == v {
			return v
		}
	}
	// the raw value is kept; a present-but-empty attribute is reported here
	// and then reads like an absent one
	r.bad(where, "bad-enum", name, fmt.Sprintf("%s=%q", name, v))
	return v
}

// selection reads D:allprop | D:propname | D:prop.
func (r *reader) selection(n *xmltree.Node) Selection {
	switch {
	case n.Is(DAV, "allprop"):
		r.empty(n, "D:allprop")
		return Selection{Form: "allprop"}
	case n.Is(DAV, "propname"):
		r.empty(n, "D:propname")
		return Selection{Form: "propname"}
	}
	sel := Selection{Form: "prop"}
	for _, c := range n.Children {
		switch c.Kind {
		case xmltree.Text:
			if strings.Trim(c.Data, " \t\r\n") != "" {
				r.bad("D:prop", "text-in-element-content", "text", fmt.Sprintf("%q", c.Data))
			}
		case xmltree.Element:
			if c.Is(NS, "address-data") {
				if sel.Data != nil {
					r.bad("D:prop", "duplicate-element", "address-data", "")
					continue
				}
				sel.DataPos = len(sel.Others)
				sel.Data = r.addressData(c)
				continue
			}
			sel.Others = append(sel.Others, QName{c.Space, c.Local})
		}
	}
	return sel
}

func (r *reader) addressData(n *xmltree.Node) *AddressData {
	const where = "address-data"
	// content-type and version select the media type of the returned data
	r.attrs(n, where, "content-type", "version")
	ad := &AddressData{}
	if v, ok := n.Attr("content-type"); ok {
		ad.ContentType = &v
	}
	if v, ok := n.Attr("version"); ok {
		ad.Version = &v
	}
	for _, c := range r.kids(n, where) {
		switch {
		case c.Is(NS, "allprop"):
			r.attrs(c, "allprop")
			r.empty(c, "allprop")
			if ad.AllProp {
				r.bad(where, "duplicate-element", "allprop", "")
			}
			if len(ad.Props) > 0 {
				r.bad(where, "allprop-with-prop", "allprop", "")
			}
			ad.AllProp = true
		case c.Is(NS, "prop"):
			r.attrs(c, "prop", "name", "novalue")
			r.empty(c, "prop")
			if ad.AllProp {
				r.bad(where, "allprop-with-prop", "prop", "")
			}
			p := DataProp{Name: r.required(c, "prop", "name")}
			p.NoValue = r.enum(c, "prop", "novalue", "yes", "no")
			ad.Props = append(ad.Props, p)
		default:
			r.bad(where, "unknown-element", short(c), "")
		}
	}
	return ad
}

func isSelection(n *xmltree.Node) bool {
	return n.Is(DAV, "allprop") || n.Is(DAV, "propname") || n.Is(DAV, "prop")
}

func (r *reader) query(root *xmltree.Node) *Query {
	const where = "addressbook-query"
	r.attrs(root, where)
	q := &Query{}
	// slots: 0 selection, 1 filter, 2 limit
	phase, lastName := -1, ""
	seen := [3]bool{}
	for _, c := range r.kids(root, where) {
		slot := -1
		switch {
		case isSelection(c):
			slot = 0
		case c.Is(NS, "filter"):
			slot = 1
		case c.Is(NS, "limit"):
			slot = 2
		}
		if slot < 0 {
			r.bad(where, "unknown-element", short(c), "")
			continue
		}
		if seen[slot] {
			r.bad(where, "duplicate-element", short(c), "")
			continue
		}
		seen[slot] = true
		if slot < phase {
			r.bad(where, "child-order", short(c)+"-after-"+lastName, "")
		} else {
			phase, lastName = slot, short(c)
		}
		switch slot {
		case 0:
			q.Sel = r.selection(c)
		case 1:
			r.filter(c, q)
		case 2:
			r.limit(c, q)
		}
	}
	if !seen[1] {
		r.bad(where, "missing-element", "filter", "")
	}
	return q
}

func (r *reader) filter(n *xmltree.Node, q *Query) {
	const where = "filter"
	r.attrs(n, where, "test")
	q.Test = r.enum(n, where, "test", "anyof", "allof")
	for _, c := range r.kids(n, where) {
		if !c.Is(NS, "prop-filter") {
			r.bad(where, "unknown-element", short(c), "")
			continue
		}
		q.PropFilters = append(q.PropFilters, r.propFilter(c))
	}
}

func (r *reader) propFilter(n *xmltree.Node) PropFilter {
	const where = "prop-filter"
	r.attrs(n, where, "name", "test")
	pf := PropFilter{Name: r.required(n, where, "name")}
	pf.Test = r.enum(n, where, "test", "anyof", "allof")
	sawParam := false
	for _, c := range r.kids(n, where) {
		switch {
		case c.Is(NS, "is-not-defined"):
			r.attrs(c, "is-not-defined")
			r.empty(c, "is-not-defined")
			if pf.IsNotDefined {
				r.bad(where, "duplicate-element", "is-not-defined", "")
			}
			if len(pf.TextMatches) > 0 || len(pf.Params) > 0 {
				r.bad(where, "is-not-defined-with-siblings", "is-not-defined", "")
			}
			pf.IsNotDefined = true
		case c.Is(NS, "text-match"):
			if pf.IsNotDefined {
				r.bad(where, "is-not-defined-with-siblings", "text-match", "")
			}
			if sawParam {
				r.bad(where, "child-order", "text-match-after-param-filter", "")
			}
			pf.TextMatches = append(pf.TextMatches, r.textMatch(c))
		case c.Is(NS, "param-filter"):
			if pf.IsNotDefined {
				r.bad(where, "is-not-defined-with-siblings", "param-filter", "")
			}
			sawParam = true
			pf.Params = append(pf.Params, r.paramFilter(c))
		default:
			r.bad(where, "unknown-element", short(c), "")
		}
	}
	return pf
}

func (r *reader) paramFilter(n *xmltree.Node) ParamFilter {
	const where = "param-filter"
	r.attrs(n, where, "name")
	pf := ParamFilter{Name: r.required(n, where, "name")}
	count := 0
	for _, c := range r.kids(n, where) {
		switch {
		case c.Is(NS, "is-not-defined"):
			r.attrs(c, "is-not-defined")
			r.empty(c, "is-not-defined")
			count++
			pf.IsNotDefined = true
		case c.Is(NS, "text-match"):
			count++
			if pf.TextMatch != nil {
				continue
			}
			tm := r.textMatch(c)
			pf.TextMatch = &tm
		default:
			r.bad(where, "unknown-element", short(c), "")
		}
	}
	if count > 1 {
		r.bad(where, "too-many-children", "is-not-defined|text-match", "")
	}
	return pf
}

func (r *reader) textMatch(n *xmltree.Node) TextMatch {
	const where = "text-match"
	r.attrs(n, where, "collation", "negate-condition", "match-type")
	var tm TextMatch
	var sb strings.Builder
	for _, c := range n.Children {
		switch c.Kind {
		case xmltree.Text:
			sb.WriteString(c.Data)
		case xmltree.Element:
			r.bad(where, "element-in-pcdata", short(c), "")
		}
	}
	tm.Text = sb.String()
	tm.Collation, _ = n.Attr("collation")
	tm.Negate = r.enum(n, where, "negate-condition", "yes", "no")
	tm.MatchType = r.enum(n, where, "match-type", "equals", "contains", "starts-with", "ends-with")
	return tm
}

func (r *reader) limit(n *xmltree.Node, q *Query) {
	const where = "limit"
	r.attrs(n, where)
	q.HasLimit = true
	count := 0
	for _, c := range r.kids(n, where) {
		if !c.Is(NS, "nresults") {
			r.bad(where, "unknown-element", short(c), "")
			continue
		}
		count++
		if count > 1 {
			r.bad(where, "duplicate-element", "nresults", "")
			continue
		}
		r.attrs(c, "nresults")
		for _, g := range c.Children {
			if g.Kind == xmltree.Element {
				r.bad("nresults", "element-in-pcdata", short(g), "")
			}
		}
		q.NResults = strings.Trim(c.TextContent(), " \t\r\n")
		if !IsPositiveInteger(q.NResults) {
			r.bad("nresults", "bad-value", "not-a-positive-integer", fmt.Sprintf("%q", c.TextContent()))
		}
	}
	if count == 0 {
		r.bad(where, "missing-element", "nresults", "")
	}
}

// IsPositiveInteger is the grammar of nresults: a string of ASCII digits
// denoting an integer >= 1, of any size.
func IsPositiveInteger(s string) bool {
	nonZero := false
	for i := 0; i < len(s); i++ {
		if s[i] < '0' || s[i] > '9' {
			return false
		}
		nonZero = nonZero || s[i] != '0'
	}
	return nonZero
}

// PositiveInt reads a string of ASCII digits denoting an integer >= 1 that
// fits in an int64.
func PositiveInt(s string) (int64, bool) {
	if !IsPositiveInteger(s) {
		return 0, false
	}
	var v int64
	for i := 0; i < len(s); i++ {
		d := int64(s[i] - '0')
		if v > (1<<63-1-d)/10 {
			return 0, false
		}
		v = v*10 + d
	}
	return v, true
}

func (r *reader) multiget(root *xmltree.Node) *MultiGet {
	const where = "addressbook-multiget"
	r.attrs(root, where)
	m := &MultiGet{}
	seenSel, seenHref := false, false
	for _, c := range r.kids(root, where) {
		switch {
		case isSelection(c):
			if seenSel {
				r.bad(where, "duplicate-element", short(c), "")
				continue
			}
			seenSel = true
			if seenHref {
				r.bad(where, "child-order", short(c)+"-after-D:href", "")
			}
			m.Sel = r.selection(c)
		case c.Is(DAV, "href"):
			seenHref = true
			for _, g := range c.Children {
				if g.Kind == xmltree.Element {
					r.bad("D:href", "element-in-pcdata", short(g), "")
				}
			}
			m.Hrefs = append(m.Hrefs, c.TextContent())
		default:
			r.bad(where, "unknown-element", short(c), "")
		}
	}
	if !seenHref {
		r.bad(where, "missing-element", "D:href", "")
	}
	return m
}

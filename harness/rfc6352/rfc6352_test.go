package rfc6352

import (
	"encoding/json"
	"math/rand"
	"testing"

	"github.com/emersion/go-webdav/verifharness/xmltree"
)

func sample() *Query {
	return &Query{
		Sel:  Selection{Form: "prop", Data: &AddressData{Props: []DataProp{{Name: "FN"}, {Name: "EMAIL", NoValue: "yes"}}}, Others: []QName{{DAV, "getetag"}}, DataPos: 1},
		Test: "allof",
		PropFilters: []PropFilter{
			{Name: "EMAIL", TextMatches: []TextMatch{{Text: " <&> ", Negate: "yes", MatchType: "ends-with", Collation: "i;unicode-casemap"}},
				Params: []ParamFilter{{Name: "TYPE", TextMatch: &TextMatch{Text: "home"}}, {Name: "PREF", IsNotDefined: true}}},
			{Name: "NICKNAME", IsNotDefined: true},
		},
		HasLimit: true, NResults: "7",
	}
}

func TestRoundTrip(t *testing.T) {
	want, _ := json.Marshal(&Request{Query: sample()})
	for i := 0; i < 500; i++ {
		r := rand.New(rand.NewSource(int64(i)))
		body := xmltree.Render(QueryTree(sample(), &WriteOpts{R: r, SplitText: true}), xmltree.FullLex(r))
		req, viol, err := Read(body)
		if err != nil || len(viol) > 0 {
			t.Fatalf("%v %v\n%s", err, viol, body)
		}
		got, _ := json.Marshal(req)
		if string(got) != string(want) {
			t.Fatalf("want %s\ngot  %s\n%s", want, got, body)
		}
	}
}

func TestGrammar(t *testing.T) {
	for doc, key := range map[string]string{
		`<C:addressbook-multiget xmlns:C="urn:ietf:params:xml:ns:carddav" xmlns:D="DAV:"><D:href>/a</D:href><D:prop/></C:addressbook-multiget>`:                                                      "addressbook-multiget.child-order | D:prop-after-D:href",
		`<C:addressbook-query xmlns:C="urn:ietf:params:xml:ns:carddav"><C:limit><C:nresults>1</C:nresults></C:limit><C:filter/></C:addressbook-query>`:                                               "addressbook-query.child-order | filter-after-limit",
		`<C:addressbook-query xmlns:C="urn:ietf:params:xml:ns:carddav"><C:filter test="or"/></C:addressbook-query>`:                                                                                  "filter.bad-enum | test",
		`<C:addressbook-query xmlns:C="urn:ietf:params:xml:ns:carddav"><C:filter/><C:limit><C:nresults>0</C:nresults></C:limit></C:addressbook-query>`:                                               "nresults.bad-value | not-a-positive-integer",
		`<C:addressbook-query xmlns:C="urn:ietf:params:xml:ns:carddav"/>`:                                                                                                                            "addressbook-query.missing-element | filter",
		`<C:addressbook-query xmlns:C="urn:ietf:params:xml:ns:carddav"><filter xmlns="DAV:"/><C:filter/></C:addressbook-query>`:                                                                      "addressbook-query.unknown-element | D:filter",
		`<C:addressbook-query xmlns:C="urn:ietf:params:xml:ns:carddav"><C:filter><C:prop-filter name="a"><C:param-filter name="b"/><C:text-match/></C:prop-filter></C:filter></C:addressbook-query>`: "prop-filter.child-order | text-match-after-param-filter",
		`<C:addressbook-query xmlns:C="urn:ietf:params:xml:ns:carddav"><C:filter><C:prop-filter name="a"><C:text-match negate="yes"/></C:prop-filter></C:filter></C:addressbook-query>`:              "text-match.unknown-attribute | negate",
	} {
		_, viol, err := Read([]byte(doc))
		if err != nil {
			t.Fatalf("%s: %v", doc, err)
		}
		found := false
		for _, v := range viol {
			if v.Key() == key {
				found = true
			}
		}
		if !found {
			t.Errorf("%s: want violation %q, got %v", doc, key, viol)
		}
	}
	if _, _, err := Read([]byte(`<addressbook-query xmlns="DAV:"/>`)); err == nil {
		t.Errorf("wrong root namespace accepted")
	}
}

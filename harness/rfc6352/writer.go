package rfc6352

import (
	"fmt"
	"math/rand"
	"strings"
	"unicode/utf8"

	"github.com/emersion/go-webdav/verifharness/xmltree"
)

// WriteOpts steers the structural (not purely lexical) freedom the grammar
// leaves to a writer. The lexical form proper is chosen by xmltree.Render.
type WriteOpts struct {
	// R drives the choices; nil writes the plain form.
	R *rand.Rand
	// SplitText writes the character data of text-match, nresults and href
	// in several runs separated by comments or processing instructions.
	SplitText bool
}

func (o *WriteOpts) chance(k int) bool {
	return o != nil && o.R != nil && o.R.Intn(k) == 0
}

// pcdata builds the children of a #PCDATA element.
func (o *WriteOpts) pcdata(s string) []*xmltree.Node {
	if s == "" {
		return nil
	}
	if o == nil || o.R == nil || !o.SplitText || !o.chance(3) {
		return []*xmltree.Node{xmltree.Txt(s)}
	}
	// cut at rune boundaries into 2..3 non-empty runs
	var cuts []int
	for i := range s {
		if i > 0 {
			cuts = append(cuts, i)
		}
	}
	if len(cuts) == 0 {
		return []*xmltree.Node{xmltree.Txt(s)}
	}
	n := 1 + o.R.Intn(2)
	pos := map[int]bool{}
	for i := 0; i < n; i++ {
		pos[cuts[o.R.Intn(len(cuts))]] = true
	}
	var l []*xmltree.Node
	start := 0
	for i := range s {
		if pos[i] {
			l = append(l, xmltree.Txt(s[start:i]), o.separator())
			start = i
		}
	}
	l = append(l, xmltree.Txt(s[start:]))
	return l
}

func (o *WriteOpts) separator() *xmltree.Node {
	switch o.R.Intn(3) {
	case 0:
		return &xmltree.Node{Kind: xmltree.ProcInst, Local: "harness", Data: "split"}
	case 1:
		return &xmltree.Node{Kind: xmltree.Comment, Data: ""}
	}
	return &xmltree.Node{Kind: xmltree.Comment, Data: " <x> & ]]> "}
}

func el(local string, children ...*xmltree.Node) *xmltree.Node {
	return xmltree.El(NS, local, children...)
}

func setAttr(n *xmltree.Node, name, value string) {
	if value != "" {
		n.With(name, value)
	}
}

func (o *WriteOpts) textMatch(t *TextMatch) *xmltree.Node {
	n := el("text-match", o.pcdata(t.Text)...)
	setAttr(n, "collation", t.Collation)
	setAttr(n, "negate-condition", t.Negate)
	setAttr(n, "match-type", t.MatchType)
	return n
}

func (o *WriteOpts) paramFilter(p *ParamFilter) *xmltree.Node {
	n := el("param-filter").With("name", p.Name)
	if p.IsNotDefined {
		n.Add(el("is-not-defined"))
	}
	if p.TextMatch != nil {
		n.Add(o.textMatch(p.TextMatch))
	}
	return n
}

func (o *WriteOpts) propFilter(p *PropFilter) *xmltree.Node {
	n := el("prop-filter").With("name", p.Name)
	setAttr(n, "test", p.Test)
	if p.IsNotDefined {
		n.Add(el("is-not-defined"))
	}
	for i := range p.TextMatches {
		n.Add(o.textMatch(&p.TextMatches[i]))
	}
	for i := range p.Params {
		n.Add(o.paramFilter(&p.Params[i]))
	}
	return n
}

func (o *WriteOpts) selection(s *Selection) *xmltree.Node {
	switch s.Form {
	case "":
		return nil
	case "allprop":
		return xmltree.El(DAV, "allprop")
	case "propname":
		return xmltree.El(DAV, "propname")
	}
	n := xmltree.El(DAV, "prop")
	var data *xmltree.Node
	if s.Data != nil {
		data = el("address-data")
		if s.Data.ContentType != nil {
			data.With("content-type", *s.Data.ContentType)
		}
		if s.Data.Version != nil {
			data.With("version", *s.Data.Version)
		}
		if s.Data.AllProp {
			data.Add(el("allprop"))
		}
		for _, p := range s.Data.Props {
			pn := el("prop").With("name", p.Name)
			setAttr(pn, "novalue", p.NoValue)
			data.Add(pn)
		}
	}
	for i, q := range s.Others {
		if data != nil && i == s.DataPos {
			n.Add(data)
			data = nil
		}
		n.Add(xmltree.El(q.Space, q.Local))
	}
	n.Add(data)
	return n
}

// QueryTree builds the addressbook-query document of q.
func QueryTree(q *Query, o *WriteOpts) *xmltree.Node {
	root := el("addressbook-query")
	root.Add(o.selection(&q.Sel))
	f := el("filter")
	setAttr(f, "test", q.Test)
	for i := range q.PropFilters {
		f.Add(o.propFilter(&q.PropFilters[i]))
	}
	root.Add(f)
	if q.HasLimit {
		root.Add(el("limit", el("nresults", o.pcdata(q.NResults)...)))
	}
	return root
}

// MultiGetTree builds the addressbook-multiget document of m.
func MultiGetTree(m *MultiGet, o *WriteOpts) *xmltree.Node {
	root := el("addressbook-multiget")
	root.Add(o.selection(&m.Sel))
	for _, h := range m.Hrefs {
		root.Add(xmltree.El(DAV, "href", o.pcdata(h)...))
	}
	return root
}

const hexUpper = "0123456789ABCDEF"
const hexLower = "0123456789abcdef"

// EscapeHref writes path as a URI reference denoting it (RFC 3986): "/" and
// unreserved characters stay (unless r decides to escape them too),
// sub-delimiters, ":" and "@" are escaped or not at r's choice, everything
// else is percent-encoded byte-wise with upper- or lower-case hex digits.
// With absolute it becomes an absolute URI on authority.
func EscapeHref(path string, r *rand.Rand, authority string) string {
	var sb strings.Builder
	if authority != "" {
		sb.WriteString("http://" + authority)
	}
	pick := func(k int) bool { return r != nil && r.Intn(k) == 0 }
	lower := pick(3)
	for i := 0; i < len(path); i++ {
		c := path[i]
		raw := false
		switch {
		case c == '/':
			raw = true
		case c >= 'a' && c <= 'z', c >= 'A' && c <= 'Z', c >= '0' && c <= '9', strings.IndexByte("-._~", c) >= 0:
			raw = !pick(25)
		case strings.IndexByte("!$&'()*+,;=:@", c) >= 0:
			raw = !pick(2)
		}
		if raw {
			sb.WriteByte(c)
			continue
		}
		hex := hexUpper
		if lower {
			hex = hexLower
		}
		sb.WriteByte('%')
		sb.WriteByte(hex[c>>4])
		sb.WriteByte(hex[c&15])
	}
	return sb.String()
}

// ValidChars reports whether s can be carried by XML 1.0 character data
// (valid UTF-8, no control characters other than tab, LF and CR, no
// surrogate blocks, U+FFFE or U+FFFF).
func ValidChars(s string) bool {
	if !utf8.ValidString(s) {
		return false
	}
	for _, r := range s {
		switch {
		case r == 0x9 || r == 0xA || r == 0xD:
		case r < 0x20:
			return false
		case r >= 0xD800 && r <= 0xDFFF, r == 0xFFFE, r == 0xFFFF:
			return false
		}
	}
	return true
}

// Describe renders a one-line summary of a request (for notes and samples).
func (q *Query) Describe() string {
	tm, pa := 0, 0
	for _, p := range q.PropFilters {
		tm += len(p.TextMatches)
		pa += len(p.Params)
	}
	return fmt.Sprintf("query sel=%q test=%q prop-filters=%d text-matches=%d param-filters=%d limit=%v/%q",
		q.Sel.Form, q.Test, len(q.PropFilters), tm, pa, q.HasLimit, q.NResults)
}

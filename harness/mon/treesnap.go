// Package mon holds the boundary monitors that are not models: directory
// snapshots, response scanners, the strace log checker.
package mon

import (
	"crypto/sha256"
	"fmt"
	"io/ioutil"
	"os"
	"path/filepath"
	"sort"
	"strings"
	"syscall"
)

// Entry is one node of a directory snapshot.
type Entry struct {
	Dir   bool
	Data  string // file content
	MTime int64  // ns
	Ino   uint64
	Mode  os.FileMode
}

// Snap maps slash-separated paths relative to the snapshot root ("" = root
// itself) to entries.
type Snap map[string]Entry

// Snapshot walks root. A missing root yields an empty snapshot.
func Snapshot(root string) (Snap, error) {
	s := Snap{}
	err := filepath.Walk(root, func(p string, fi os.FileInfo, err error) error {
		if err != nil {
			if os.IsNotExist(err) {
				return nil
			}
			return err
		}
		rel, _ := filepath.Rel(root, p)
		if rel == "." {
			rel = ""
		}
		e := Entry{Dir: fi.IsDir(), MTime: fi.ModTime().UnixNano(), Mode: fi.Mode()}
		if st, ok := fi.Sys().(*syscall.Stat_t); ok {
			e.Ino = st.Ino
		}
		if fi.Mode().IsRegular() {
			b, err := ioutil.ReadFile(p)
			if err != nil {
				return err
			}
			e.Data = string(b)
		}
		s[filepath.ToSlash(rel)] = e
		return nil
	})
	return s, err
}

// Shape renders names, kinds and contents (no mtimes/inodes) canonically.
func (s Snap) Shape() string {
	keys := make([]string, 0, len(s))
	for k := range s {
		keys = append(keys, k)
	}
	sort.Strings(keys)
	var sb strings.Builder
	for _, k := range keys {
		e := s[k]
		if e.Dir {
			fmt.Fprintf(&sb, "%q/\n", k)
		} else {
			fmt.Fprintf(&sb, "%q=%s\n", k, DataKey(e.Data))
		}
	}
	return sb.String()
}

// DataKey renders file content for shapes: literally when short, as a digest
// when long.
func DataKey(d string) string {
	if len(d) <= 64 {
		return fmt.Sprintf("%q", d)
	}
	h := sha256.Sum256([]byte(d))
	return fmt.Sprintf("sha256:%x:%d", h[:12], len(d))
}

// Diff lists differences in names, kinds and contents; with strict also
// mtimes and inode numbers of entries present in both.
func Diff(a, b Snap, strict bool) []string {
	var d []string
	for k, ea := range a {
		eb, ok := b[k]
		if !ok {
			d = append(d, fmt.Sprintf("removed %q", k))
			continue
		}
		if ea.Dir != eb.Dir {
			d = append(d, fmt.Sprintf("kind changed %q", k))
		} else if ea.Data != eb.Data {
			d = append(d, fmt.Sprintf("content changed %q", k))
		} else if strict && (ea.MTime != eb.MTime || ea.Ino != eb.Ino) && !ea.Dir {
			d = append(d, fmt.Sprintf("file rewritten %q (mtime/inode changed)", k))
		}
	}
	for k := range b {
		if _, ok := a[k]; !ok {
			d = append(d, fmt.Sprintf("added %q", k))
		}
	}
	sort.Strings(d)
	return d
}

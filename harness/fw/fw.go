// Package fw is the small runtime-monitoring framework shared by every
// property check: a worker context that counts what was observed, a driver
// that shards a deterministic case list over child processes, merges their
// observations, matches findings against known_findings.json and writes the
// evidence file.
package fw

import (
	"encoding/json"
	"fmt"
	"hash/fnv"
	"math/rand"
	"os"
	"runtime/debug"
	"sort"
	"sync"
	_ "time/tzdata" // so that TZ works whatever the host has installed
)

// Finding is one observed violation candidate.
type Finding struct {
	// Key is the abstract signature of the failing case (DESIGN.md section 4).
	Key string `json:"key"`
	// What is a one-line human description.
	What string `json:"what"`
	// Witness is the literal failing case (JSON-able).
	Witness interface{} `json:"witness,omitempty"`
	// Count is how many cases of this run landed on Key.
	Count int64 `json:"count"`
}

// Result is what one worker (shard) observed.
type Result struct {
	Prop         string                      `json:"prop"`
	Shard        int                         `json:"shard"`
	Evaluations  int64                       `json:"evaluations"`
	Distinct     []uint64                    `json:"distinct"`
	Samples      []interface{}               `json:"samples"`
	Obs          map[string]map[string]int64 `json:"obs"`
	Findings     []Finding                   `json:"findings"`
	Inconclusive []string                    `json:"inconclusive"`
	Notes        map[string]string           `json:"notes"`
	Done         bool                        `json:"done"`
}

// Ctx is handed to a property's Run function inside a worker process.
type Ctx struct {
	Prop    string
	Tier    string
	Seed    int64
	Shard   int
	NShards int
	WorkDir string // scratch directory private to this worker (removed by the driver)

	mu        sync.Mutex
	evals     int64
	distinct  map[uint64]struct{}
	samples   []interface{}
	maxSample int
	obs       map[string]map[string]int64
	findings  map[string]*Finding
	inconc    []string
	notes     map[string]string
	journal   *os.File
	caseIdx   int64
}

func newCtx(prop, tier string, seed int64, shard, nshards int, workdir string) *Ctx {
	return &Ctx{
		Prop: prop, Tier: tier, Seed: seed, Shard: shard, NShards: nshards, WorkDir: workdir,
		distinct:  map[uint64]struct{}{},
		obs:       map[string]map[string]int64{},
		findings:  map[string]*Finding{},
		notes:     map[string]string{},
		maxSample: 4,
	}
}

// Thorough reports whether the thorough tier is running.
func (c *Ctx) Thorough() bool { return c.Tier == "thorough" }

// Pick returns q for the quick tier and t for the thorough tier.
func (c *Ctx) Pick(q, t int) int {
	if c.Thorough() {
		return t
	}
	return q
}

// Mine reports whether case number idx of a deterministic case list belongs
// to this shard. Case lists are a function of (tier, seed) only; sharding
// just deals them out.
func (c *Ctx) Mine(idx int) bool {
	return c.NShards <= 1 || idx%c.NShards == c.Shard
}

// Rand returns a PRNG determined by (seed, stream, idx) only, so that a case
// is the same whatever shard executes it.
func (c *Ctx) Rand(stream string, idx int) *rand.Rand {
	h := fnv.New64a()
	fmt.Fprintf(h, "%d|%s|%d", c.Seed, stream, idx)
	return rand.New(rand.NewSource(int64(h.Sum64())))
}

// Eval counts n executed cases.
func (c *Ctx) Eval(n int) {
	c.mu.Lock()
	c.evals += int64(n)
	c.mu.Unlock()
}

// Distinct records the abstract key of a non-trivial case.
func (c *Ctx) Distinct(key string) {
	h := fnv.New64a()
	h.Write([]byte(key))
	c.mu.Lock()
	c.distinct[h.Sum64()] = struct{}{}
	c.mu.Unlock()
}

// Sample keeps a few literal cases for the evidence file.
func (c *Ctx) Sample(v interface{}) {
	c.mu.Lock()
	if len(c.samples) < c.maxSample {
		c.samples = append(c.samples, v)
	}
	c.mu.Unlock()
}

// WantSample reports whether another sample would still be kept.
func (c *Ctx) WantSample() bool {
	c.mu.Lock()
	defer c.mu.Unlock()
	return len(c.samples) < c.maxSample
}

// Observe adds n to the counter table[key].
func (c *Ctx) Observe(table, key string, n int) {
	c.mu.Lock()
	t := c.obs[table]
	if t == nil {
		t = map[string]int64{}
		c.obs[table] = t
	}
	t[key] += int64(n)
	c.mu.Unlock()
}

// Note records a free-text remark for the evidence file.
func (c *Ctx) Note(key, text string) {
	c.mu.Lock()
	c.notes[key] = text
	c.mu.Unlock()
}

// Report records a violation candidate. The first witness per key is kept.
func (c *Ctx) Report(key, what string, witness interface{}) {
	c.mu.Lock()
	f := c.findings[key]
	if f == nil {
		f = &Finding{Key: key, What: what, Witness: witness}
		c.findings[key] = f
	}
	f.Count++
	c.mu.Unlock()
}

// Inconclusive records that something could not be decided.
func (c *Ctx) Inconclusive(reason string) {
	c.mu.Lock()
	c.inconc = append(c.inconc, reason)
	c.mu.Unlock()
}

// Journal writes the case about to be executed, so that the driver can
// attribute a process-fatal crash to it.
func (c *Ctx) Journal(v interface{}) {
	if c.journal == nil {
		return
	}
	b, err := json.Marshal(v)
	if err != nil {
		b = []byte(fmt.Sprintf("%q", fmt.Sprint(v)))
	}
	c.mu.Lock()
	c.caseIdx++
	c.journal.Truncate(0)
	c.journal.WriteAt(append(b, '\n'), 0)
	c.mu.Unlock()
}

// JournalDone clears the pending case.
func (c *Ctx) JournalDone() {
	if c.journal == nil {
		return
	}
	c.mu.Lock()
	c.journal.Truncate(0)
	c.mu.Unlock()
}

// Guard runs f, converting a panic into (panicked=true, value, stack).
func Guard(f func()) (panicked bool, val interface{}, stack string) {
	defer func() {
		if r := recover(); r != nil {
			panicked = true
			val = r
			stack = string(debug.Stack())
		}
	}()
	f()
	return
}

// resultJSON marshals the result while holding the lock (the result shares
// the live maps).
func (c *Ctx) resultJSON(done bool) []byte {
	r := c.result(done)
	c.mu.Lock()
	defer c.mu.Unlock()
	b, _ := json.Marshal(r)
	return b
}

func (c *Ctx) result(done bool) *Result {
	c.mu.Lock()
	defer c.mu.Unlock()
	r := &Result{Prop: c.Prop, Shard: c.Shard, Evaluations: c.evals, Samples: c.samples,
		Obs: c.obs, Inconclusive: c.inconc, Notes: c.notes, Done: done}
	for h := range c.distinct {
		r.Distinct = append(r.Distinct, h)
	}
	keys := make([]string, 0, len(c.findings))
	for k := range c.findings {
		keys = append(keys, k)
	}
	sort.Strings(keys)
	for _, k := range keys {
		r.Findings = append(r.Findings, *c.findings[k])
	}
	return r
}

// Property describes one check.
type Property struct {
	ID string
	// Run executes this shard's part of the workload.
	Run func(c *Ctx)
	// Replay re-executes a witness written to a replay file (optional).
	Replay func(c *Ctx, witness json.RawMessage)
	// Rule describes how cases are generated and what counts as non-trivial.
	Rule string
	// Assumptions lists what the check trusts.
	Assumptions []string
	// MinEvals / MinDistinct: below these the run is inconclusive.
	MinEvals    func(tier string) int64
	MinDistinct func(tier string) int64
	// Shards overrides the number of worker processes (default 16).
	Shards func(tier string) int
	// Race: build and run the worker with the race detector.
	Race bool
	// Timeout in seconds for one worker (watchdog; firing = inconclusive).
	TimeoutS func(tier string) int
	// Post is run in the driver after merging (optional): cross-shard checks.
	Post func(d *Merged)
	// Level is the evidence level (default "exploration").
	Level string
	// Exhaustive marks evidence exhaustive:true when the whole workload is an
	// enumeration (rare; sub-universes are flagged in Obs instead).
	Exhaustive bool
}

var registry = map[string]*Property{}

// Register adds a property check.
func Register(p *Property) { registry[p.ID] = p }

// Lookup finds a property check.
func Lookup(id string) *Property { return registry[id] }

// IDs lists registered checks.
func IDs() []string {
	var l []string
	for k := range registry {
		l = append(l, k)
	}
	sort.Strings(l)
	return l
}

// ErrString renders an error ("" for nil).
func ErrString(err error) string {
	if err == nil {
		return ""
	}
	return err.Error()
}

// FindingCount returns the number of reports made so far by this worker.
func (c *Ctx) FindingCount() int {
	c.mu.Lock()
	defer c.mu.Unlock()
	n := 0
	for _, f := range c.findings {
		n += int(f.Count)
	}
	return n
}

// NShardsOr1 returns the number of shards (at least 1).
func (c *Ctx) NShardsOr1() int {
	if c.NShards < 1 {
		return 1
	}
	return c.NShards
}

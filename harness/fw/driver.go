package fw

import (
	"crypto/sha256"
	"encoding/hex"
	"encoding/json"
	"fmt"
	"io/ioutil"
	"os"
	"os/exec"
	"path/filepath"
	"runtime"
	"sort"
	"strconv"
	"strings"
	"sync"
	"syscall"
	"time"
)

// VerifDir is where MANIFEST.json, evidence/ and known_findings.json live.
func VerifDir() string {
	if d := os.Getenv("VERIF_DIR"); d != "" {
		return d
	}
	return "/verif"
}

// Merged is the union of all shard results.
type Merged struct {
	Evaluations  int64
	Distinct     map[uint64]struct{}
	Samples      []interface{}
	Obs          map[string]map[string]int64
	Findings     map[string]*Finding
	Inconclusive []string
	Notes        map[string]string
}

// AddFinding lets a Post hook report.
func (m *Merged) AddFinding(key, what string, witness interface{}) {
	f := m.Findings[key]
	if f == nil {
		f = &Finding{Key: key, What: what, Witness: witness}
		m.Findings[key] = f
	}
	f.Count++
}

type knownEntry struct {
	Status   string `json:"status"`
	Property string `json:"property"`
	Key      string `json:"key,omitempty"`
	Commit   string `json:"commit,omitempty"`
	What     string `json:"what"`
}

type knownFile struct {
	Findings []knownEntry `json:"findings"`
}

func loadKnown() (map[string]knownEntry, error) {
	b, err := ioutil.ReadFile(filepath.Join(VerifDir(), "known_findings.json"))
	if os.IsNotExist(err) {
		return map[string]knownEntry{}, nil
	}
	if err != nil {
		return nil, err
	}
	var kf knownFile
	if err := json.Unmarshal(b, &kf); err != nil {
		return nil, err
	}
	m := map[string]knownEntry{}
	for _, e := range kf.Findings {
		if e.Status == "known" {
			m[e.Property+"\x00"+e.Key] = e
		}
	}
	return m, nil
}

func scratchBase() string {
	if d := os.Getenv("VERIF_SCRATCH"); d != "" {
		return d
	}
	if st, err := os.Stat("/dev/shm"); err == nil && st.IsDir() {
		return "/dev/shm"
	}
	return os.TempDir()
}

// Main is the entry point of the vharness binary.
func Main() {
	if len(os.Args) < 2 {
		fmt.Fprintln(os.Stderr, "usage: vharness check <id> <tier> | worker ... | replay <file> | list")
		os.Exit(2)
	}
	switch os.Args[1] {
	case "list":
		for _, id := range IDs() {
			fmt.Println(id)
		}
	case "check":
		if len(os.Args) < 4 {
			fmt.Fprintln(os.Stderr, "usage: vharness check <id> <tier>")
			os.Exit(2)
		}
		os.Exit(driverMain(os.Args[2], os.Args[3]))
	case "worker":
		os.Exit(workerMain(os.Args[2:]))
	case "replay":
		if len(os.Args) < 3 {
			fmt.Fprintln(os.Stderr, "usage: vharness replay <file>")
			os.Exit(2)
		}
		os.Exit(replayMain(os.Args[2]))
	default:
		fmt.Fprintln(os.Stderr, "unknown subcommand", os.Args[1])
		os.Exit(2)
	}
}

func seedFromEnv() int64 {
	if s := os.Getenv("VERIF_SEED"); s != "" {
		if v, err := strconv.ParseInt(s, 10, 64); err == nil {
			return v
		}
	}
	return 1
}

func sign(n int) int {
	if n < 0 {
		return -1
	}
	return 1
}

func workerMain(args []string) int {
	// worker <id> <tier> <seed> <shard> <nshards> <workdir>
	if len(args) != 6 {
		fmt.Fprintln(os.Stderr, "bad worker args")
		return 2
	}
	id, tier := args[0], args[1]
	seed, _ := strconv.ParseInt(args[2], 10, 64)
	shard, _ := strconv.Atoi(args[3])
	nshards, _ := strconv.Atoi(args[4])
	workdir := args[5]
	p := Lookup(id)
	if p == nil {
		fmt.Fprintln(os.Stderr, "unknown property", id)
		return 2
	}
	c := newCtx(id, tier, seed, shard, nshards, workdir)
	{
		name, off := time.Now().Zone()
		c.Observe("process_time_zone", fmt.Sprintf("TZ=%q: time.Local is %s (%s, UTC%+03d:%02d)", os.Getenv("TZ"), time.Local.String(), name, off/3600, (off%3600)/60*sign(off)), 1)
	}
	jf, err := os.Create(filepath.Join(workdir, "journal"))
	if err == nil {
		c.journal = jf
	}
	resPath := filepath.Join(workdir, "result.json")
	write := func(done bool) {
		b := c.resultJSON(done)
		tmp := resPath + ".tmp"
		if ioutil.WriteFile(tmp, b, 0644) == nil {
			os.Rename(tmp, resPath)
		}
	}
	stop := make(chan struct{})
	var wg sync.WaitGroup
	wg.Add(1)
	go func() {
		defer wg.Done()
		t := time.NewTicker(3 * time.Second)
		defer t.Stop()
		for {
			select {
			case <-stop:
				return
			case <-t.C:
				write(false)
			}
		}
	}()
	panicked, val, stack := Guard(func() { p.Run(c) })
	close(stop)
	wg.Wait()
	if panicked {
		if harnessPanic(stack) {
			c.Inconclusive(fmt.Sprintf("harness panic: %v\n%s", val, stack))
		} else {
			var pending interface{}
			if b, err := ioutil.ReadFile(filepath.Join(workdir, "journal")); err == nil && len(b) > 0 {
				pending = json.RawMessage(strings.TrimSpace(string(b)))
			}
			c.Report("panic|"+PanicSite(stack), fmt.Sprintf("unguarded panic in target code: %v", val),
				map[string]interface{}{"case": pending, "panic": fmt.Sprint(val), "stack": stack})
		}
	}
	write(true)
	return 0
}

// harnessPanic reports whether the innermost non-runtime frame of a panic
// stack belongs to the harness rather than to the code under test.
func harnessPanic(stack string) bool {
	site := PanicSite(stack)
	return strings.Contains(site, "verifharness") || site == "?"
}

// PanicSite extracts the innermost non-runtime function of a debug.Stack()
// taken inside a deferred recover.
func PanicSite(stack string) string {
	lines := strings.Split(stack, "\n")
	seenPanic := false
	for _, ln := range lines {
		if strings.HasPrefix(ln, "\t") || ln == "" || strings.HasPrefix(ln, "goroutine ") {
			continue
		}
		fn := ln
		if i := strings.LastIndex(fn, "("); i > 0 {
			fn = fn[:i]
		}
		if strings.HasPrefix(fn, "panic") {
			seenPanic = true
			continue
		}
		if !seenPanic {
			continue
		}
		if strings.HasPrefix(fn, "runtime.") || strings.HasPrefix(fn, "runtime/") {
			continue
		}
		return fn
	}
	return "?"
}

type shardOutcome struct {
	res     *Result
	died    bool
	timeout bool
	exit    string
	stderr  string
	journal string
}

func driverMain(id, tier string) int {
	start := time.Now()
	p := Lookup(id)
	if p == nil {
		fmt.Printf("INCONCLUSIVE property=%s unknown property\n", id)
		return 3
	}
	if tier != "quick" && tier != "thorough" {
		fmt.Printf("INCONCLUSIVE property=%s unknown tier %q\n", id, tier)
		return 3
	}
	seed := seedFromEnv()
	nshards := runtime.NumCPU()
	if nshards > 16 {
		nshards = 16
	}
	if p.Shards != nil {
		nshards = p.Shards(tier)
	}
	if s := os.Getenv("VERIF_SHARDS"); s != "" {
		if v, err := strconv.Atoi(s); err == nil && v > 0 {
			nshards = v
		}
	}
	timeoutS := 900
	if tier == "thorough" {
		timeoutS = 3 * 3600
	}
	if p.TimeoutS != nil {
		timeoutS = p.TimeoutS(tier)
	}
	base, err := ioutil.TempDir(scratchBase(), "verif-"+id+"-")
	if err != nil {
		fmt.Printf("INCONCLUSIVE property=%s cannot create scratch dir: %v\n", id, err)
		return 3
	}
	defer os.RemoveAll(base)
	os.Chmod(base, 0755) // the permission slices serve from here as an unprivileged uid

	exe, _ := os.Executable()
	if p.Race {
		if rb := os.Getenv("VHARNESS_RACE_BIN"); rb != "" {
			exe = rb
		}
	}
	outs := make([]shardOutcome, nshards)
	var wg sync.WaitGroup
	for i := 0; i < nshards; i++ {
		wg.Add(1)
		go func(i int) {
			defer wg.Done()
			wd := filepath.Join(base, fmt.Sprintf("w%d", i))
			os.MkdirAll(wd, 0755)
			outs[i] = runShard(exe, id, tier, seed, i, nshards, wd, time.Duration(timeoutS)*time.Second)
		}(i)
	}
	wg.Wait()

	m := &Merged{Distinct: map[uint64]struct{}{}, Obs: map[string]map[string]int64{},
		Findings: map[string]*Finding{}, Notes: map[string]string{}}
	for i, o := range outs {
		if o.res != nil {
			mergeResult(m, o.res)
		}
		if o.timeout {
			m.Inconclusive = append(m.Inconclusive, fmt.Sprintf("shard %d: watchdog (%ds) fired; pending case: %s", i, timeoutS, o.journal))
			continue
		}
		if o.died {
			// A process-fatal error (fatal error:, checkptr, stack exhaustion,
			// race detector abort). The journalled case is the witness.
			site := fatalSite(o.stderr)
			if strings.HasPrefix(site, "verifharness:") {
				m.Inconclusive = append(m.Inconclusive, fmt.Sprintf("shard %d died in harness code (%s): %s", i, o.exit, tail(o.stderr, 2000)))
			} else {
				m.AddFinding("fatal|"+site, "worker process died while executing a case: "+o.exit,
					map[string]interface{}{"case": json.RawMessage(nonEmptyJSON(o.journal)), "stderr_tail": tail(o.stderr, 4000)})
			}
		} else if o.res == nil || !o.res.Done {
			m.Inconclusive = append(m.Inconclusive, fmt.Sprintf("shard %d produced no complete result (%s): %s", i, o.exit, tail(o.stderr, 1000)))
		}
	}
	if p.Post != nil {
		p.Post(m)
	}

	known, err := loadKnown()
	if err != nil {
		fmt.Printf("INCONCLUSIVE property=%s cannot read known_findings.json: %v\n", id, err)
		return 3
	}
	var keys []string
	for k := range m.Findings {
		keys = append(keys, k)
	}
	sort.Strings(keys)
	violations := 0
	var knownObserved []string
	var violationLines []string
	for _, k := range keys {
		f := m.Findings[k]
		if e, ok := known[id+"\x00"+k]; ok {
			fmt.Printf("KNOWN-FINDING: property=%s key=%q count=%d :: %s\n", id, k, f.Count, oneLine(e.What))
			knownObserved = append(knownObserved, k)
			continue
		}
		violations++
		path := writeReplay(id, tier, seed, f)
		violationLines = append(violationLines, fmt.Sprintf("VIOLATION property=%s replay=%s", id, path))
		fmt.Printf("  finding key=%s count=%d: %s\n", k, f.Count, oneLine(f.What))
	}

	minE, minD := int64(1), int64(2)
	if p.MinEvals != nil {
		minE = p.MinEvals(tier)
	}
	if p.MinDistinct != nil {
		minD = p.MinDistinct(tier)
	}
	if m.Evaluations < minE {
		m.Inconclusive = append(m.Inconclusive, fmt.Sprintf("only %d evaluations observed, need %d", m.Evaluations, minE))
	}
	if int64(len(m.Distinct)) < minD {
		m.Inconclusive = append(m.Inconclusive, fmt.Sprintf("only %d distinct non-trivial cases observed, need %d", len(m.Distinct), minD))
	}

	wall := time.Since(start).Seconds()
	writeEvidence(p, tier, seed, m, violations, knownObserved, nshards, wall)

	fmt.Printf("property=%s tier=%s seed=%d evaluations=%d distinct_nontrivial=%d known_findings=%d violations=%d wall=%.1fs\n",
		id, tier, seed, m.Evaluations, len(m.Distinct), len(knownObserved), violations, wall)
	if violations > 0 {
		for _, l := range violationLines {
			fmt.Println(l)
		}
		return 1
	}
	if len(m.Inconclusive) > 0 {
		for _, r := range m.Inconclusive {
			fmt.Printf("INCONCLUSIVE property=%s %s\n", id, oneLine(r))
		}
		return 3
	}
	return 0
}

func nonEmptyJSON(s string) string {
	s = strings.TrimSpace(s)
	if s == "" || !json.Valid([]byte(s)) {
		b, _ := json.Marshal(s)
		return string(b)
	}
	return s
}

func oneLine(s string) string {
	s = strings.ReplaceAll(s, "\n", " ")
	if len(s) > 400 {
		s = s[:400] + "…"
	}
	return s
}

func tail(s string, n int) string {
	if len(s) > n {
		return s[len(s)-n:]
	}
	return s
}

// fatalSite inspects the goroutine that crashed (the first goroutine block of
// the dump): it returns the innermost frame that belongs to go-webdav or its
// codec dependencies, else a "verifharness:" marked frame when only harness
// code is on that stack, else the innermost non-runtime frame.
func fatalSite(stderr string) string {
	lines := strings.Split(stderr, "\n")
	inBlock := false
	var frames []string
	for _, ln := range lines {
		if strings.HasPrefix(ln, "goroutine ") {
			if inBlock {
				break
			}
			inBlock = true
			continue
		}
		if !inBlock {
			continue
		}
		if ln == "" {
			if len(frames) > 0 {
				break
			}
			continue
		}
		if strings.HasPrefix(ln, "\t") {
			continue
		}
		fn := ln
		if strings.HasPrefix(fn, "created by ") {
			fn = strings.TrimPrefix(fn, "created by ")
			if i := strings.Index(fn, " in goroutine"); i > 0 {
				fn = fn[:i]
			}
		} else if i := strings.LastIndex(fn, "("); i > 0 {
			fn = fn[:i]
		}
		frames = append(frames, fn)
	}
	first := ""
	harness := ""
	for _, fn := range frames {
		if strings.HasPrefix(fn, "runtime.") || strings.HasPrefix(fn, "runtime/") {
			continue
		}
		if first == "" {
			first = fn
		}
		if strings.Contains(fn, "verifharness") {
			if harness == "" {
				harness = fn
			}
			continue
		}
		if strings.Contains(fn, "github.com/emersion/") {
			return fn
		}
	}
	if harness != "" {
		return "verifharness:" + harness
	}
	if first == "" {
		return "?"
	}
	return first
}

// ShardZone is the TZ a shard's worker process runs in ("" = as inherited).
func ShardZone(shard int) string {
	return []string{"", "America/New_York", "Asia/Kolkata", "Pacific/Chatham"}[shard%4]
}

func runShard(exe, id, tier string, seed int64, shard, nshards int, wd string, timeout time.Duration) shardOutcome {
	var o shardOutcome
	stderrPath := filepath.Join(wd, "stderr")
	ef, _ := os.Create(stderrPath)
	cmd := exec.Command(exe, "worker", id, tier, strconv.FormatInt(seed, 10), strconv.Itoa(shard), strconv.Itoa(nshards), wd)
	cmd.Stdout = ef
	cmd.Stderr = ef
	cmd.Env = append(os.Environ(), "GOTRACEBACK=all", "GORACE=halt_on_error=0 exitcode=0 log_path="+filepath.Join(wd, "race"))
	// The local time zone of the serving / calling process is a platform fact
	// no property depends on: three shards in four run outside UTC (west,
	// east with a half-hour offset, and beyond +12 with a 45-minute offset).
	if tz := ShardZone(shard); tz != "" {
		cmd.Env = append(cmd.Env, "TZ="+tz)
	}
	if err := cmd.Start(); err != nil {
		o.exit = "start: " + err.Error()
		return o
	}
	done := make(chan error, 1)
	go func() { done <- cmd.Wait() }()
	var werr error
	select {
	case werr = <-done:
	case <-time.After(timeout):
		o.timeout = true
		cmd.Process.Signal(syscall.SIGQUIT)
		select {
		case werr = <-done:
		case <-time.After(20 * time.Second):
			cmd.Process.Kill()
			werr = <-done
		}
	}
	ef.Close()
	if b, err := ioutil.ReadFile(stderrPath); err == nil {
		o.stderr = string(b)
	}
	if b, err := ioutil.ReadFile(filepath.Join(wd, "journal")); err == nil {
		o.journal = strings.TrimSpace(string(b))
	}
	if b, err := ioutil.ReadFile(filepath.Join(wd, "result.json")); err == nil {
		var r Result
		if json.Unmarshal(b, &r) == nil {
			o.res = &r
		}
	}
	if werr != nil {
		o.exit = werr.Error()
		if !o.timeout {
			o.died = true
		}
	}
	return o
}

func mergeResult(m *Merged, r *Result) {
	m.Evaluations += r.Evaluations
	for _, h := range r.Distinct {
		m.Distinct[h] = struct{}{}
	}
	for _, s := range r.Samples {
		if len(m.Samples) < 6 {
			m.Samples = append(m.Samples, s)
		}
	}
	for t, kv := range r.Obs {
		mt := m.Obs[t]
		if mt == nil {
			mt = map[string]int64{}
			m.Obs[t] = mt
		}
		for k, v := range kv {
			mt[k] += v
		}
	}
	for _, f := range r.Findings {
		f := f
		if g := m.Findings[f.Key]; g != nil {
			g.Count += f.Count
		} else {
			m.Findings[f.Key] = &f
		}
	}
	m.Inconclusive = append(m.Inconclusive, r.Inconclusive...)
	for k, v := range r.Notes {
		m.Notes[k] = v
	}
}

func writeReplay(id, tier string, seed int64, f *Finding) string {
	dir := filepath.Join(VerifDir(), "replays")
	os.MkdirAll(dir, 0755)
	h := sha256.Sum256([]byte(f.Key))
	path := filepath.Join(dir, fmt.Sprintf("%s-%s.json", id, hex.EncodeToString(h[:6])))
	b, _ := json.MarshalIndent(map[string]interface{}{
		"property": id, "tier": tier, "seed": seed, "key": f.Key, "what": f.What,
		"count": f.Count, "witness": f.Witness,
	}, "", " ")
	ioutil.WriteFile(path, b, 0644)
	return path
}

func writeEvidence(p *Property, tier string, seed int64, m *Merged, violations int, knownObserved []string, nshards int, wall float64) {
	level := p.Level
	if level == "" {
		level = "exploration"
	}
	samples := m.Samples
	if samples == nil {
		samples = []interface{}{}
	}
	cov := map[string]interface{}{
		"evaluations":             m.Evaluations,
		"distinct_nontrivial":     len(m.Distinct),
		"rule":                    p.Rule,
		"samples":                 samples,
		"observations":            m.Obs,
		"known_findings_observed": nonNil(knownObserved),
		"worker_processes":        nshards,
	}
	if p.Exhaustive {
		cov["exhaustive"] = true
	}
	if len(m.Notes) > 0 {
		cov["notes"] = m.Notes
	}
	if len(m.Inconclusive) > 0 {
		cov["inconclusive"] = m.Inconclusive
	}
	ev := map[string]interface{}{
		"property_id": p.ID,
		"tier":        tier,
		"seed":        seed,
		"level":       level,
		"coverage":    cov,
		"assumptions": p.Assumptions,
		"wall_s":      wall,
		"violations":  violations,
	}
	dir := filepath.Join(VerifDir(), "evidence")
	os.MkdirAll(dir, 0755)
	b, _ := json.MarshalIndent(ev, "", " ")
	ioutil.WriteFile(filepath.Join(dir, p.ID+".json"), append(b, '\n'), 0644)
}

func replayMain(path string) int {
	b, err := ioutil.ReadFile(path)
	if err != nil {
		fmt.Fprintln(os.Stderr, err)
		return 2
	}
	var rf struct {
		Property string          `json:"property"`
		Tier     string          `json:"tier"`
		Seed     int64           `json:"seed"`
		Key      string          `json:"key"`
		Witness  json.RawMessage `json:"witness"`
	}
	if err := json.Unmarshal(b, &rf); err != nil {
		fmt.Fprintln(os.Stderr, err)
		return 2
	}
	p := Lookup(rf.Property)
	if p == nil || p.Replay == nil {
		fmt.Printf("replay not supported for %s; witness:\n%s\n", rf.Property, string(rf.Witness))
		return 2
	}
	wd, _ := ioutil.TempDir(scratchBase(), "verif-replay-")
	defer os.RemoveAll(wd)
	c := newCtx(rf.Property, rf.Tier, rf.Seed, 0, 1, wd)
	p.Replay(c, rf.Witness)
	r := c.result(true)
	for _, f := range r.Findings {
		w, _ := json.Marshal(f.Witness)
		fmt.Printf("REPRODUCED property=%s key=%s\n  %s\n  witness=%s\n", rf.Property, f.Key, f.What, string(w))
	}
	if len(r.Findings) > 0 {
		return 1
	}
	fmt.Printf("NOT-REPRODUCED property=%s key=%s\n", rf.Property, rf.Key)
	return 0
}

func nonNil(l []string) []string {
	if l == nil {
		return []string{}
	}
	return l
}

package xmltree

// Prologs are things that may stand in front of a document's root element: XML
// declarations naming every kind of encoding / version / standalone value
// (valid and not), document type declarations, processing instructions,
// comments and byte-order marks.
var Prologs = func() []string {
	var l []string
	for _, enc := range []string{"UTF-8", "utf-8", "UTF-16", "utf-16le", "UTF-32", "US-ASCII", "ascii", "ISO-8859-1", "iso-8859-15", "latin1", "windows-1252", "Shift_JIS",
		"EUC-JP", "GB2312", "Big5", "KOI8-R", "utf8", "UTF8", "x-unknown", "", " ", "UTF-8 ", "ü"} {
		l = append(l, `<?xml version="1.0" encoding="`+enc+`"?>`)
	}
	l = append(l,
		`<?xml version='1.0' encoding='ISO-8859-1' standalone='yes'?>`+"\n",
		`<?xml version="1.1"?>`, `<?xml version="1.1" encoding="UTF-16"?>`, `<?xml version="2.0"?>`, `<?xml version=""?>`, `<?xml?>`, `<?xml ?>`,
		`<?xml encoding="UTF-8"?>`, `<?xml encoding="windows-1252"?>`, `<?xml version="1.0" standalone="maybe"?>`, `<?xml version="1.0" standalone="no" encoding="UTF-16"?>`,
		`<?xml version="1.0" encoding="UTF-8"?><?xml version="1.0" encoding="UTF-16"?>`,
		"\xef\xbb\xbf"+`<?xml version="1.0" encoding="UTF-16"?>`, "\xff\xfe"+`<?xml version="1.0" encoding="UTF-16"?>`, "\xfe\xff",
		`<!DOCTYPE propfind>`, `<!DOCTYPE x SYSTEM "http://example.com/x.dtd">`, `<!DOCTYPE x [<!ENTITY a "b"><!ENTITY c "&a;&a;">]>`, `<!DOCTYPE x [<!ELEMENT x ANY>]>`+"\n",
		`<?xml version="1.0" encoding="latin1"?><!DOCTYPE x [<!ENTITY e SYSTEM "file:///etc/passwd">]>`,
		`<?pi?>`, `<?xml-stylesheet href="a.xsl"?>`, `<!-- c -->`, `<!-- c --><?pi x?><!-- d -->`+"\n\t ",
	)
	return l
}()

// Package xmltree is the harness's independent XML reader. It uses only the
// *raw* tokenizer of encoding/xml (no struct mapping, no namespace
// translation by the library) and resolves namespaces itself, producing a
// namespace-expanded tree. It is stricter than encoding/xml's Decoder: end
// tags must match, prefixes must be declared, attributes must be unique
// after expansion, there is exactly one root element and nothing but white
// space, comments and processing instructions around it.
package xmltree

import (
	"bytes"
	"encoding/xml"
	"fmt"
	"io"
	"sort"
	"strings"
)

type Kind int

const (
	Element Kind = iota
	Text
	Comment
	ProcInst
)

type Attr struct {
	Space, Local, Value string
}

type Node struct {
	Kind     Kind
	Space    string // namespace URI (elements)
	Local    string // local name (elements), target (PIs)
	Attrs    []Attr // without namespace declarations
	Children []*Node
	Data     string // text, comment or PI content
}

const xmlNS = "http://www.w3.org/XML/1998/namespace"

type nsFrame map[string]string

// Parse reads one document.
func Parse(b []byte) (*Node, error) {
	d := xml.NewDecoder(bytes.NewReader(b))
	d.Strict = true
	var root *Node
	var stack []*Node
	var rawNames []xml.Name
	nsStack := []nsFrame{{"xml": xmlNS}}
	lookup := func(prefix string) (string, bool) {
		for i := len(nsStack) - 1; i >= 0; i-- {
			if v, ok := nsStack[i][prefix]; ok {
				return v, true
			}
		}
		return "", false
	}
	for {
		tok, err := d.RawToken()
		if err == io.EOF {
			break
		}
		if err != nil {
			return nil, err
		}
		switch t := tok.(type) {
		case xml.StartElement:
			if root != nil && len(stack) == 0 {
				return nil, fmt.Errorf("xmltree: second root element <%s>", t.Name.Local)
			}
			frame := nsFrame{}
			for _, a := range t.Attr {
				if a.Name.Space == "" && a.Name.Local == "xmlns" {
					if _, dup := frame[""]; dup {
						return nil, fmt.Errorf("xmltree: duplicate xmlns declaration")
					}
					frame[""] = a.Value
				} else if a.Name.Space == "xmlns" {
					if _, dup := frame[a.Name.Local]; dup {
						return nil, fmt.Errorf("xmltree: duplicate xmlns:%s declaration", a.Name.Local)
					}
					if a.Value == "" {
						return nil, fmt.Errorf("xmltree: prefix %q undeclared with empty URI", a.Name.Local)
					}
					frame[a.Name.Local] = a.Value
				}
			}
			nsStack = append(nsStack, frame)
			n := &Node{Kind: Element, Local: t.Name.Local}
			if t.Name.Space == "" {
				n.Space, _ = lookup("")
			} else {
				uri, ok := lookup(t.Name.Space)
				if !ok {
					return nil, fmt.Errorf("xmltree: undeclared element prefix %q", t.Name.Space)
				}
				n.Space = uri
			}
			seen := map[[2]string]bool{}
			for _, a := range t.Attr {
				if (a.Name.Space == "" && a.Name.Local == "xmlns") || a.Name.Space == "xmlns" {
					continue
				}
				at := Attr{Local: a.Name.Local, Value: a.Value}
				if a.Name.Space != "" {
					uri, ok := lookup(a.Name.Space)
					if !ok {
						return nil, fmt.Errorf("xmltree: undeclared attribute prefix %q", a.Name.Space)
					}
					at.Space = uri
				}
				k := [2]string{at.Space, at.Local}
				if seen[k] {
					return nil, fmt.Errorf("xmltree: duplicate attribute {%s}%s", at.Space, at.Local)
				}
				seen[k] = true
				n.Attrs = append(n.Attrs, at)
			}
			if len(stack) == 0 {
				root = n
			} else {
				p := stack[len(stack)-1]
				p.Children = append(p.Children, n)
			}
			stack = append(stack, n)
			rawNames = append(rawNames, t.Name)
		case xml.EndElement:
			if len(stack) == 0 {
				return nil, fmt.Errorf("xmltree: unexpected end tag </%s>", t.Name.Local)
			}
			open := rawNames[len(rawNames)-1]
			if open != t.Name {
				return nil, fmt.Errorf("xmltree: end tag </%s:%s> does not match <%s:%s>", t.Name.Space, t.Name.Local, open.Space, open.Local)
			}
			stack = stack[:len(stack)-1]
			rawNames = rawNames[:len(rawNames)-1]
			nsStack = nsStack[:len(nsStack)-1]
		case xml.CharData:
			if len(stack) == 0 {
				if strings.TrimSpace(string(t)) != "" {
					return nil, fmt.Errorf("xmltree: character data outside the root element")
				}
				continue
			}
			p := stack[len(stack)-1]
			// merge adjacent runs (CDATA and text are the same thing)
			if k := len(p.Children); k > 0 && p.Children[k-1].Kind == Text {
				p.Children[k-1].Data += string(t)
			} else {
				p.Children = append(p.Children, &Node{Kind: Text, Data: string(t)})
			}
		case xml.Comment:
			if len(stack) > 0 {
				p := stack[len(stack)-1]
				p.Children = append(p.Children, &Node{Kind: Comment, Data: string(t)})
			}
		case xml.ProcInst:
			if len(stack) > 0 {
				p := stack[len(stack)-1]
				p.Children = append(p.Children, &Node{Kind: ProcInst, Local: t.Target, Data: string(t.Inst)})
			}
		case xml.Directive:
			// DOCTYPE etc.: ignored
		}
	}
	if len(stack) != 0 {
		return nil, fmt.Errorf("xmltree: unexpected EOF, <%s> not closed", stack[len(stack)-1].Local)
	}
	if root == nil {
		return nil, fmt.Errorf("xmltree: no root element")
	}
	return root, nil
}

// Is reports whether n is the element {space}local.
func (n *Node) Is(space, local string) bool {
	return n != nil && n.Kind == Element && n.Space == space && n.Local == local
}

// Elems returns the element children.
func (n *Node) Elems() []*Node {
	var l []*Node
	for _, c := range n.Children {
		if c.Kind == Element {
			l = append(l, c)
		}
	}
	return l
}

// All returns the element children named {space}local.
func (n *Node) All(space, local string) []*Node {
	var l []*Node
	for _, c := range n.Children {
		if c.Is(space, local) {
			l = append(l, c)
		}
	}
	return l
}

// First returns the first element child named {space}local or nil.
func (n *Node) First(space, local string) *Node {
	for _, c := range n.Children {
		if c.Is(space, local) {
			return c
		}
	}
	return nil
}

// TextContent concatenates the text children (not descending).
func (n *Node) TextContent() string {
	var sb strings.Builder
	for _, c := range n.Children {
		if c.Kind == Text {
			sb.WriteString(c.Data)
		}
	}
	return sb.String()
}

// DeepText concatenates all text below n.
func (n *Node) DeepText() string {
	var sb strings.Builder
	var rec func(*Node)
	rec = func(m *Node) {
		for _, c := range m.Children {
			if c.Kind == Text {
				sb.WriteString(c.Data)
			} else if c.Kind == Element {
				rec(c)
			}
		}
	}
	rec(n)
	return sb.String()
}

// Attr returns the value of the un-namespaced attribute local.
func (n *Node) Attr(local string) (string, bool) {
	for _, a := range n.Attrs {
		if a.Space == "" && a.Local == local {
			return a.Value, true
		}
	}
	return "", false
}

// HasNonSpaceText reports whether n has a non-white-space text child.
func (n *Node) HasNonSpaceText() bool {
	for _, c := range n.Children {
		if c.Kind == Text && strings.TrimSpace(c.Data) != "" {
			return true
		}
	}
	return false
}

// Name returns "{space}local".
func (n *Node) Name() string { return "{" + n.Space + "}" + n.Local }

// CmpOpts controls Equal.
type CmpOpts struct {
	IgnoreComments   bool
	IgnoreProcInst   bool
	IgnoreWhitespace bool // drop white-space-only text nodes
}

// Canon renders a canonical string of the tree under the options; two trees
// denote the same element tree iff their Canon strings are equal.
func (n *Node) Canon(o CmpOpts) string {
	var sb strings.Builder
	canon(&sb, n, o)
	return sb.String()
}

func canon(sb *strings.Builder, n *Node, o CmpOpts) {
	switch n.Kind {
	case Text:
		fmt.Fprintf(sb, "T%q", n.Data)
	case Comment:
		fmt.Fprintf(sb, "C%q", n.Data)
	case ProcInst:
		fmt.Fprintf(sb, "P%q%q", n.Local, n.Data)
	case Element:
		fmt.Fprintf(sb, "E{%s}%s[", n.Space, n.Local)
		attrs := append([]Attr(nil), n.Attrs...)
		sort.Slice(attrs, func(i, j int) bool {
			if attrs[i].Space != attrs[j].Space {
				return attrs[i].Space < attrs[j].Space
			}
			return attrs[i].Local < attrs[j].Local
		})
		for _, a := range attrs {
			fmt.Fprintf(sb, "@{%s}%s=%q", a.Space, a.Local, a.Value)
		}
		sb.WriteString("](")
		// merge adjacent text after dropping ignored nodes
		var pendingText *strings.Builder
		flush := func() {
			if pendingText != nil {
				s := pendingText.String()
				if !(o.IgnoreWhitespace && strings.TrimSpace(s) == "") && s != "" {
					fmt.Fprintf(sb, "T%q", s)
				}
				pendingText = nil
			}
		}
		for _, c := range n.Children {
			switch c.Kind {
			case Text:
				if pendingText == nil {
					pendingText = &strings.Builder{}
				}
				pendingText.WriteString(c.Data)
			case Comment:
				if o.IgnoreComments {
					continue
				}
				flush()
				canon(sb, c, o)
			case ProcInst:
				if o.IgnoreProcInst {
					continue
				}
				flush()
				canon(sb, c, o)
			default:
				flush()
				canon(sb, c, o)
			}
		}
		flush()
		sb.WriteString(")")
	}
}

// Count returns the number of nodes in the tree.
func (n *Node) Count() int {
	k := 1
	for _, c := range n.Children {
		k += c.Count()
	}
	return k
}

package xmltree

import (
	"math/rand"
	"testing"
)

func randTree(r *rand.Rand, depth int) *Node {
	spaces := []string{"", "DAV:", "urn:ietf:params:xml:ns:caldav", "urn:x:y"}
	n := El(spaces[r.Intn(len(spaces))], []string{"a", "b", "prop", "x-y"}[r.Intn(4)])
	for i := r.Intn(3); i > 0; i-- {
		a := Attr{Space: []string{"", "", "urn:x:y", "DAV:"}[r.Intn(4)], Local: []string{"k", "l", "m", "n"}[i], Value: []string{"", "v", "a<b&\"'", "é\n"}[r.Intn(4)]}
		n.Attrs = append(n.Attrs, a)
	}
	if depth > 0 {
		if r.Intn(3) == 0 {
			n.Add(Txt([]string{"t", " x ", "a<&>b]]>", "é€"}[r.Intn(4)]))
		} else {
			for i := r.Intn(4); i > 0; i-- {
				n.Add(randTree(r, depth-1))
			}
		}
	}
	return n
}

func TestRenderParseRoundTrip(t *testing.T) {
	r := rand.New(rand.NewSource(1))
	o := CmpOpts{IgnoreComments: true, IgnoreWhitespace: true}
	for i := 0; i < 20000; i++ {
		tr := randTree(r, 4)
		b := Render(tr, FullLex(r))
		back, err := Parse(b)
		if err != nil {
			t.Fatalf("parse: %v\n%s", err, b)
		}
		if back.Canon(o) != tr.Canon(o) {
			t.Fatalf("mismatch\n%s\n%s\n%s", b, tr.Canon(o), back.Canon(o))
		}
	}
}

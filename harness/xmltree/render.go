package xmltree

import (
	"fmt"
	"math/rand"
	"strings"
)

// Lex chooses the lexical form Render gives a tree. A nil *Lex (or nil R)
// renders a plain deterministic form.
type Lex struct {
	R *rand.Rand
	// Prefixes lists candidate prefixes per namespace URI.
	Prefixes map[string][]string
	// Toggle classes of variation.
	Whitespace bool // white space between children of element-only content
	Comments   bool // comments between children of element-only content
	CDATA      bool // some text as CDATA sections
	CharRefs   bool // some characters as numeric references
	DefaultNS  bool // use (and switch) default namespace declarations
	Redeclare  bool // redeclare prefixes already in scope / unused declarations
	EmptyPairs bool // <x></x> instead of <x/>
	SingleQuot bool // attribute values in single quotes
	Prolog     bool // XML declaration
	SplitText  bool // one text as several adjacent runs (escaped text next to CDATA sections)
}

// FullLex returns a Lex with every variation class on.
func FullLex(r *rand.Rand) *Lex {
	return &Lex{R: r, Whitespace: true, Comments: true, CDATA: true, CharRefs: true, DefaultNS: true,
		Redeclare: true, EmptyPairs: true, SingleQuot: true, Prolog: true, SplitText: true,
		Prefixes: map[string][]string{
			"DAV:":                           {"D", "d", "dav", "A", "x"},
			"urn:ietf:params:xml:ns:caldav":  {"C", "cal", "c", "x", "B"},
			"urn:ietf:params:xml:ns:carddav": {"C", "card", "c", "x", "B"},
		}}
}

type nsScope struct {
	parent   *nsScope
	prefixes map[string]string // prefix -> uri
	def      *string           // default namespace declared here
}

func (s *nsScope) lookup(prefix string) (string, bool) {
	for c := s; c != nil; c = c.parent {
		if v, ok := c.prefixes[prefix]; ok {
			return v, true
		}
	}
	return "", false
}

func (s *nsScope) defaultNS() string {
	for c := s; c != nil; c = c.parent {
		if c.def != nil {
			return *c.def
		}
	}
	return ""
}

// prefixesFor returns the in-scope prefixes currently bound to uri.
func (s *nsScope) prefixesFor(uri string) []string {
	seen := map[string]bool{}
	var l []string
	for c := s; c != nil; c = c.parent {
		for p, u := range c.prefixes {
			if seen[p] {
				continue
			}
			seen[p] = true
			if u == uri {
				if v, _ := s.lookup(p); v == uri {
					l = append(l, p)
				}
			}
		}
	}
	// deterministic order
	for i := 1; i < len(l); i++ {
		for j := i; j > 0 && l[j] < l[j-1]; j-- {
			l[j], l[j-1] = l[j-1], l[j]
		}
	}
	return l
}

// Render serialises the tree.
func Render(n *Node, lx *Lex) []byte {
	if lx == nil {
		lx = &Lex{}
	}
	var sb strings.Builder
	if lx.Prolog && lx.chance(2) {
		sb.WriteString(`<?xml version="1.0" encoding="utf-8"?>`)
		if lx.Whitespace && lx.chance(2) {
			sb.WriteString("\n")
		}
	}
	lx.render(&sb, n, &nsScope{prefixes: map[string]string{"xml": xmlNS}}, 0)
	if lx.Whitespace && lx.chance(2) {
		sb.WriteString("\n")
	}
	return []byte(sb.String())
}

func (lx *Lex) chance(k int) bool {
	if lx.R == nil {
		return false
	}
	return lx.R.Intn(k) == 0
}

func (lx *Lex) pickPrefix(uri string, sc *nsScope, avoid map[string]bool) string {
	cands := lx.Prefixes[uri]
	if len(cands) == 0 {
		cands = []string{"n", "ns", "p", "q"}
	}
	start := 0
	if lx.R != nil {
		start = lx.R.Intn(len(cands))
	}
	for i := 0; i < len(cands); i++ {
		p := cands[(start+i)%len(cands)]
		if avoid[p] {
			continue
		}
		return p
	}
	for i := 0; ; i++ {
		p := fmt.Sprintf("ns%d", i)
		if !avoid[p] {
			return p
		}
	}
}

func (lx *Lex) render(sb *strings.Builder, n *Node, parent *nsScope, depth int) {
	switch n.Kind {
	case Text:
		sb.WriteString(lx.escText(n.Data))
		return
	case Comment:
		sb.WriteString("<!--" + n.Data + "-->")
		return
	case ProcInst:
		sb.WriteString("<?" + n.Local + " " + n.Data + "?>")
		return
	}
	sc := &nsScope{parent: parent, prefixes: map[string]string{}}
	var decls []string
	declared := map[string]bool{} // prefixes declared on this element
	declare := func(prefix, uri string) {
		sc.prefixes[prefix] = uri
		declared[prefix] = true
		decls = append(decls, fmt.Sprintf(`xmlns:%s=%s`, prefix, lx.quoteAttr(uri)))
	}
	// Names used on this element that must keep their current binding.
	elemPrefix := ""
	used := map[string]bool{"xml": true, "xmlns": true}
	if n.Space == "" {
		if parent.defaultNS() != "" {
			empty := ""
			sc.def = &empty
			decls = append(decls, `xmlns=""`)
		}
	} else {
		useDefault := false
		if parent.defaultNS() == n.Space {
			useDefault = !lx.chance(4) || !lx.DefaultNS
		} else if lx.DefaultNS && lx.chance(3) {
			useDefault = true
		}
		if useDefault {
			if parent.defaultNS() != n.Space {
				uri := n.Space
				sc.def = &uri
				decls = append(decls, `xmlns=`+lx.quoteAttr(uri))
			}
		} else {
			inScope := parent.prefixesFor(n.Space)
			if len(inScope) > 0 && !(lx.Redeclare && lx.chance(6)) {
				elemPrefix = inScope[0]
				if lx.R != nil {
					elemPrefix = inScope[lx.R.Intn(len(inScope))]
				}
			} else {
				elemPrefix = lx.pickPrefix(n.Space, parent, map[string]bool{"xml": true, "xmlns": true})
				declare(elemPrefix, n.Space)
			}
			used[elemPrefix] = true
		}
	}
	// Attributes.
	type outAttr struct{ name, val string }
	var attrs []outAttr
	for _, a := range n.Attrs {
		name := a.Local
		if a.Space == xmlNS {
			name = "xml:" + a.Local
		} else if a.Space != "" {
			var p string
			// an in-scope prefix (after this element's declarations)
			cands := sc.prefixesFor(a.Space)
			if len(cands) > 0 {
				p = cands[0]
			} else {
				avoid := map[string]bool{}
				for d := range declared {
					avoid[d] = true
				}
				for d := range used {
					avoid[d] = true
				}
				p = lx.pickPrefix(a.Space, sc, avoid)
				declare(p, a.Space)
			}
			used[p] = true
			name = p + ":" + a.Local
		}
		attrs = append(attrs, outAttr{name, a.Value})
	}
	if lx.Redeclare && lx.chance(8) {
		// an unused declaration
		p := fmt.Sprintf("unused%d", depth)
		if !declared[p] {
			declare(p, "urn:example:unused")
		}
	}
	if lx.R != nil && len(attrs) > 1 {
		lx.R.Shuffle(len(attrs), func(i, j int) { attrs[i], attrs[j] = attrs[j], attrs[i] })
	}
	qname := n.Local
	if elemPrefix != "" {
		qname = elemPrefix + ":" + n.Local
	}
	sb.WriteString("<" + qname)
	// interleave declarations and attributes
	var parts []string
	parts = append(parts, decls...)
	for _, a := range attrs {
		parts = append(parts, a.name+"="+lx.quoteAttr(a.val))
	}
	if lx.R != nil && len(parts) > 1 && lx.chance(2) {
		lx.R.Shuffle(len(parts), func(i, j int) { parts[i], parts[j] = parts[j], parts[i] })
	}
	for _, p := range parts {
		if lx.Whitespace && lx.chance(6) {
			sb.WriteString("\n  ")
		} else {
			sb.WriteString(" ")
		}
		sb.WriteString(p)
	}
	if len(n.Children) == 0 {
		if lx.EmptyPairs && lx.chance(2) {
			sb.WriteString("></" + qname + ">")
		} else {
			sb.WriteString("/>")
		}
		return
	}
	sb.WriteString(">")
	elementOnly := true
	for _, c := range n.Children {
		if c.Kind == Text {
			elementOnly = false
		}
	}
	pad := func() {
		if !elementOnly {
			return
		}
		if lx.Comments && lx.chance(10) {
			sb.WriteString("<!-- c -->")
		}
		if lx.Whitespace && lx.chance(2) {
			sb.WriteString("\n" + strings.Repeat(" ", (depth+1)%8))
		}
	}
	for _, c := range n.Children {
		pad()
		lx.render(sb, c, sc, depth+1)
	}
	pad()
	sb.WriteString("</" + qname + ">")
}

func (lx *Lex) quoteAttr(v string) string {
	q := byte('"')
	if lx.SingleQuot && lx.chance(3) {
		q = '\''
	}
	var sb strings.Builder
	sb.WriteByte(q)
	for _, r := range v {
		switch {
		case r == '&':
			sb.WriteString("&amp;")
		case r == '<':
			sb.WriteString("&lt;")
		case r == '>':
			sb.WriteString("&gt;")
		case r == '"':
			sb.WriteString("&quot;")
		case r == '\'':
			sb.WriteString("&apos;")
		case r == '\n' || r == '\r' || r == '\t':
			fmt.Fprintf(&sb, "&#%d;", r)
		case lx.CharRefs && lx.chance(12):
			fmt.Fprintf(&sb, "&#x%X;", r)
		default:
			sb.WriteRune(r)
		}
	}
	sb.WriteByte(q)
	return sb.String()
}

func (lx *Lex) escText(s string) string {
	if s == "" {
		return ""
	}
	if rs := []rune(s); lx.SplitText && lx.R != nil && len(rs) >= 2 && lx.chance(4) {
		// the same text as two adjacent runs, each spelt on its own (a reader
		// sees several character-data events for one text)
		cut := 1 + lx.R.Intn(len(rs)-1)
		a, b := string(rs[:cut]), string(rs[cut:])
		return lx.escRun(a, lx.R.Intn(2) == 0) + lx.escRun(b, lx.R.Intn(2) == 0)
	}
	if lx.CDATA && lx.chance(5) && !strings.Contains(s, "]]>") && !strings.Contains(s, "\r") {
		return "<![CDATA[" + s + "]]>"
	}
	var sb strings.Builder
	for _, r := range s {
		switch {
		case r == '&':
			sb.WriteString("&amp;")
		case r == '<':
			sb.WriteString("&lt;")
		case r == '>':
			sb.WriteString("&gt;")
		case r == '\r':
			sb.WriteString("&#13;")
		case lx.CharRefs && lx.chance(15):
			fmt.Fprintf(&sb, "&#%d;", r)
		default:
			sb.WriteRune(r)
		}
	}
	return sb.String()
}

// escRun spells one run of text: as a CDATA section when asked for and
// possible, escaped otherwise.
func (lx *Lex) escRun(s string, cdata bool) string {
	if s == "" {
		return ""
	}
	if cdata && !strings.Contains(s, "]]>") && !strings.Contains(s, "\r") && !strings.HasSuffix(s, "]") && !strings.HasSuffix(s, "]]") {
		return "<![CDATA[" + s + "]]>"
	}
	var sb strings.Builder
	for _, r := range s {
		switch {
		case r == '&':
			sb.WriteString("&amp;")
		case r == '<':
			sb.WriteString("&lt;")
		case r == '>':
			sb.WriteString("&gt;")
		case r == '\r':
			sb.WriteString("&#13;")
		default:
			sb.WriteRune(r)
		}
	}
	return sb.String()
}

// El builds an element node.
func El(space, local string, children ...*Node) *Node {
	return &Node{Kind: Element, Space: space, Local: local, Children: children}
}

// Txt builds a text node.
func Txt(s string) *Node { return &Node{Kind: Text, Data: s} }

// With adds un-namespaced attributes (name, value pairs) and returns n.
func (n *Node) With(kv ...string) *Node {
	for i := 0; i+1 < len(kv); i += 2 {
		n.Attrs = append(n.Attrs, Attr{Local: kv[i], Value: kv[i+1]})
	}
	return n
}

// Add appends children and returns n.
func (n *Node) Add(children ...*Node) *Node {
	for _, c := range children {
		if c != nil {
			n.Children = append(n.Children, c)
		}
	}
	return n
}

// Clone deep-copies the tree.
func (n *Node) Clone() *Node {
	if n == nil {
		return nil
	}
	m := *n
	m.Attrs = append([]Attr(nil), n.Attrs...)
	m.Children = nil
	for _, c := range n.Children {
		m.Children = append(m.Children, c.Clone())
	}
	return &m
}

// Command vharness is the single binary behind every check: driver
// (`check`), shard worker (`worker`) and witness replayer (`replay`).
package main

import (
	"github.com/emersion/go-webdav/verifharness/fw"

	_ "github.com/emersion/go-webdav/verifharness/props/c01"
	_ "github.com/emersion/go-webdav/verifharness/props/c02"
	_ "github.com/emersion/go-webdav/verifharness/props/c03"
	_ "github.com/emersion/go-webdav/verifharness/props/c04"
	_ "github.com/emersion/go-webdav/verifharness/props/c05"
	_ "github.com/emersion/go-webdav/verifharness/props/c06"
	_ "github.com/emersion/go-webdav/verifharness/props/c07"
	_ "github.com/emersion/go-webdav/verifharness/props/c08"
	_ "github.com/emersion/go-webdav/verifharness/props/c09"
	_ "github.com/emersion/go-webdav/verifharness/props/c10"
	_ "github.com/emersion/go-webdav/verifharness/props/c11"
	_ "github.com/emersion/go-webdav/verifharness/props/c12"
	_ "github.com/emersion/go-webdav/verifharness/props/c13"
	_ "github.com/emersion/go-webdav/verifharness/props/c14"
	_ "github.com/emersion/go-webdav/verifharness/props/c15"
	_ "github.com/emersion/go-webdav/verifharness/props/c16"
	_ "github.com/emersion/go-webdav/verifharness/props/c17"
	_ "github.com/emersion/go-webdav/verifharness/props/c18"
	_ "github.com/emersion/go-webdav/verifharness/props/c19"
)

func main() { fw.Main() }

// Command vharness is the single binary behind every check: driver
// (`check`), shard worker (`worker`) and witness replayer (`replay`).
package main

import (
	"github.com/emersion/go-webdav/verifharness/fw"

	_ "github.com/emersion/go-webdav/verifharness/props/c19"
)

func main() { fw.Main() }

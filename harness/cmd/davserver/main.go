// Command davserver serves a directory with the real webdav.Handler and
// LocalFileSystem on a loopback port. It is the process the strace monitor
// (C03) watches. It prints "LISTEN <addr>" once ready.
package main

import (
	"fmt"
	"net"
	"net/http"
	"os"
	"strings"

	"github.com/emersion/go-webdav"
)

func main() {
	if len(os.Args) < 2 {
		fmt.Fprintln(os.Stderr, "usage: davserver <root>")
		os.Exit(2)
	}
	root := os.Args[1]
	h := &webdav.Handler{FileSystem: webdav.LocalFileSystem(root)}
	mux := http.HandlerFunc(func(w http.ResponseWriter, r *http.Request) {
		// Marker requests delimit cases in the strace log; they touch a
		// recognisable non-existent path inside the root and never reach
		// the handler.
		if strings.HasPrefix(r.URL.Path, "/__mark_") {
			os.Stat(root + r.URL.Path)
			w.WriteHeader(204)
			return
		}
		if r.URL.Path == "/__quit" {
			w.WriteHeader(204)
			go os.Exit(0)
			return
		}
		h.ServeHTTP(w, r)
	})
	ln, err := net.Listen("tcp", "127.0.0.1:0")
	if err != nil {
		fmt.Fprintln(os.Stderr, err)
		os.Exit(1)
	}
	fmt.Printf("LISTEN %s\n", ln.Addr().String())
	os.Stdout.Sync()
	http.Serve(ln, mux)
}

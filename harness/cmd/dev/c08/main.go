// Command dev-c08 is the development entry point of the C08 check.
package main

import (
	"github.com/emersion/go-webdav/verifharness/fw"
	_ "github.com/emersion/go-webdav/verifharness/props/c08"
)

func main() { fw.Main() }

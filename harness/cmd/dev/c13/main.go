// Command c13 is the development entry point of the C13 check.
package main

import (
	"github.com/emersion/go-webdav/verifharness/fw"
	_ "github.com/emersion/go-webdav/verifharness/props/c13"
)

func main() { fw.Main() }

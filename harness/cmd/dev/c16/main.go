// Command dev-c16 is the development entry point of the C16 check.
package main

import (
	"github.com/emersion/go-webdav/verifharness/fw"
	_ "github.com/emersion/go-webdav/verifharness/props/c16"
)

func main() { fw.Main() }

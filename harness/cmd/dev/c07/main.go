// Command dev-c07 is the development entry point of the C07 check.
package main

import (
	"github.com/emersion/go-webdav/verifharness/fw"

	_ "github.com/emersion/go-webdav/verifharness/props/c07"
)

func main() { fw.Main() }

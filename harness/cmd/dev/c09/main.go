// Command dev-c09 is the development entry point of the C09 check.
package main

import (
	"github.com/emersion/go-webdav/verifharness/fw"
	_ "github.com/emersion/go-webdav/verifharness/props/c09"
)

func main() { fw.Main() }

package main

import (
	"github.com/emersion/go-webdav/verifharness/fw"
	_ "github.com/emersion/go-webdav/verifharness/props/c19"
)

func main() { fw.Main() }

package c12

import (
	"bytes"
	"fmt"
	"net/http"
	"net/url"
	"strings"
	"sync"

	"github.com/emersion/go-ical"
	"github.com/emersion/go-vcard"
	"github.com/emersion/go-webdav/caldav"
	"github.com/emersion/go-webdav/carddav"
	"github.com/emersion/go-webdav/verifharness/davx"
	"github.com/emersion/go-webdav/verifharness/doubles"
	"github.com/emersion/go-webdav/verifharness/xmltree"
)

const (
	nsCal  = "urn:ietf:params:xml:ns:caldav"
	nsCard = "urn:ietf:params:xml:ns:carddav"
	host   = "dav.test"
)

// gcall is a backend call with the operation name made server-neutral.
type gcall struct {
	Op   string
	Path string
	Raw  doubles.Call
}

var opNames = map[string]string{
	"CurrentUserPrincipal": "CUP",
	"CalendarHomeSetPath":  "HSP", "AddressBookHomeSetPath": "HSP",
	"CreateCalendar": "CreateColl", "CreateAddressBook": "CreateColl",
	"ListCalendars": "ListColl", "ListAddressBooks": "ListColl",
	"GetCalendar": "GetColl", "GetAddressBook": "GetColl",
	"DeleteAddressBook": "DeleteColl",
	"GetCalendarObject": "GetObj", "GetAddressObject": "GetObj",
	"ListCalendarObjects": "ListObj", "ListAddressObjects": "ListObj",
	"QueryCalendarObjects": "QueryObj", "QueryAddressObjects": "QueryObj",
	"PutCalendarObject": "PutObj", "PutAddressObject": "PutObj",
	"DeleteCalendarObject": "DeleteObj", "DeleteAddressObject": "DeleteObj",
}

// rig is one handler over one freshly built backend double.
type rig struct {
	cs        *Case
	cal       *doubles.CalBackend
	card      *doubles.CardBackend
	h         http.Handler
	principal string
	hs        string
	colls     []string
	objs      map[string][]string // collection path -> object paths
	own       map[string]bool     // every own resource path, both trailing-slash spellings
	markers   []string            // tokens that only occur in own resources' content
	user      string              // multi-user family: the user this rig stands for ("" otherwise)
	session   *Case               // multi-user family: the session the rig belongs to
}

var (
	icalMu    sync.Mutex
	icalCache = map[string]*ical.Calendar{}
)

func calData(uid string) *ical.Calendar {
	icalMu.Lock()
	defer icalMu.Unlock()
	if c := icalCache[uid]; c != nil {
		return c
	}
	txt := "BEGIN:VCALENDAR\r\nVERSION:2.0\r\nPRODID:-//verif//EN\r\nBEGIN:VEVENT\r\nUID:" + uid +
		"\r\nDTSTAMP:20200101T000000Z\r\nDTSTART:20200102T000000Z\r\nSUMMARY:" + uid + "\r\nEND:VEVENT\r\nEND:VCALENDAR\r\n"
	c, err := ical.NewDecoder(strings.NewReader(txt)).Decode()
	if err != nil {
		panic("c12 harness: cannot build calendar: " + err.Error())
	}
	icalCache[uid] = c
	return c
}

func cardData(uid string) vcard.Card {
	c := vcard.Card{}
	c.SetValue(vcard.FieldVersion, "4.0")
	c.SetValue(vcard.FieldUID, uid)
	c.SetValue(vcard.FieldFormattedName, uid)
	return c
}

func icsText(uid string) string {
	return "BEGIN:VCALENDAR\r\nVERSION:2.0\r\nPRODID:-//verif//EN\r\nBEGIN:VEVENT\r\nUID:" + uid +
		"\r\nDTSTAMP:20200101T000000Z\r\nDTSTART:20200102T000000Z\r\nEND:VEVENT\r\nEND:VCALENDAR\r\n"
}

func vcfText(uid string) string {
	return "BEGIN:VCARD\r\nVERSION:4.0\r\nUID:" + uid + "\r\nFN:" + uid + "\r\nEND:VCARD\r\n"
}

// build makes the backend double of one user (tag distinguishes the content
// markers of different users) and a handler of its own over it.
func build(cs *Case, tag string) *rig {
	r := &rig{cs: cs, objs: map[string][]string{}, own: map[string]bool{}, user: tag}
	l := &cs.Layout
	pp := cs.prefixPath()
	addOwn := func(p string) {
		q := strings.TrimSuffix(p, "/")
		r.own[q] = true
		r.own[q+"/"] = true
	}
	r.principal = withSlash(joinNames(pp, l.User), l.PSlash)
	r.hs = withSlash(joinNames(pp, l.User, l.HS), l.HSlash)
	addOwn(r.principal)
	addOwn(r.hs)
	if cs.Server == "caldav" {
		r.cal = &doubles.CalBackend{Principal: r.principal, HomeSet: r.hs}
	} else {
		r.card = &doubles.CardBackend{Principal: r.principal, HomeSet: r.hs}
	}
	addColl := func(i int, base string, objs []Name) {
		cp := withSlash(base, l.CSlash)
		r.colls = append(r.colls, cp)
		addOwn(cp)
		name, desc := fmt.Sprintf("MRK%sname-%d", tag, i), fmt.Sprintf("MRK%sdesc-%d", tag, i)
		r.markers = append(r.markers, name, desc)
		if r.cal != nil {
			r.cal.Calendars = append(r.cal.Calendars, caldav.Calendar{Path: cp, Name: name, Description: desc, SupportedComponentSet: []string{"VEVENT"}})
		} else {
			r.card.Books = append(r.card.Books, carddav.AddressBook{Path: cp, Name: name, Description: desc})
		}
		r.objs[cp] = nil
		for j, o := range objs {
			op := joinNames(base, o)
			uid := fmt.Sprintf("MRK%suid-%d-%d", tag, i, j)
			r.markers = append(r.markers, uid)
			r.objs[cp] = append(r.objs[cp], op)
			addOwn(op)
			if r.cal != nil {
				r.cal.Objects = append(r.cal.Objects, caldav.CalendarObject{Path: op, ETag: "e" + uid, ContentLength: 100, Data: calData(uid)})
			} else {
				r.card.Objects = append(r.card.Objects, carddav.AddressObject{Path: op, ETag: "e" + uid, ContentLength: 100, Card: cardData(uid)})
			}
		}
	}
	for i, c := range l.Colls {
		addColl(i, joinNames(pp, l.User, l.HS, c.Name), c.Objs)
	}
	// Collections of the user's listing that live outside the home set.
	for i, sh := range l.Shared {
		addColl(len(l.Colls)+i, cs.sharedBase(&sh), sh.Objs)
	}
	if r.cal != nil {
		r.h = &caldav.Handler{Backend: r.cal, Prefix: cs.handlerPrefix()}
	} else {
		r.h = &carddav.Handler{Backend: r.card, Prefix: cs.handlerPrefix()}
	}
	return r
}

func (r *rig) calls() []gcall {
	var raw []doubles.Call
	if r.cal != nil {
		raw = r.cal.Calls()
	} else {
		raw = r.card.Calls()
	}
	out := make([]gcall, 0, len(raw))
	for _, c := range raw {
		op := opNames[c.Op]
		if op == "" {
			op = c.Op
		}
		out = append(out, gcall{Op: op, Path: c.Path, Raw: c})
	}
	return out
}

// sharedBase is the path (without trailing slash) of a collection outside
// the home set.
func (cs *Case) sharedBase(sh *Shared) string {
	l := &cs.Layout
	pp := cs.prefixPath()
	switch sh.Where {
	case "other-user":
		return joinNames(pp, l.OtherUser, l.HS, sh.Name)
	case "sibling":
		return joinNames(pp, l.User, l.OtherHS, sh.Name)
	}
	return joinNames(pp, l.OtherUser, l.OtherHS, sh.Name)
}

// stored returns the backend's spelling of the resource the case addresses
// ("" when the case addresses no own resource).
func (r *rig) stored() string {
	cs := r.cs
	if cs.Target == "shared" {
		sc := r.colls[len(cs.Layout.Colls)]
		switch cs.Level {
		case 3:
			return sc
		case 4:
			return r.objs[sc][0]
		}
		return ""
	}
	if cs.Target != "own" {
		return ""
	}
	switch cs.Level {
	case 1:
		return r.principal
	case 2:
		return r.hs
	case 3:
		return r.colls[0]
	case 4:
		return r.objs[r.colls[0]][0]
	}
	return ""
}

// reqPath computes the request path of a "req" case.
func (r *rig) reqPath() string {
	cs := r.cs
	l := &cs.Layout
	pp := cs.prefixPath()
	var p string
	switch {
	case cs.Level == 0:
		p = pp
	case cs.Level == 1 && cs.Target == "own":
		p = joinNames(pp, l.User)
	case cs.Level == 1:
		p = joinNames(pp, l.OtherUser)
	case cs.Level == 2 && cs.Target == "own":
		p = joinNames(pp, l.User, l.HS)
	case cs.Level == 2 && cs.Target == "foreign-user":
		p = joinNames(pp, l.OtherUser, l.HS)
	case cs.Level == 2:
		p = joinNames(pp, l.User, l.OtherHS)
	case cs.Level == 3 && cs.Target == "shared":
		p = cs.sharedBase(&l.Shared[0])
	case cs.Level == 4 && cs.Target == "shared":
		p = joinNames(cs.sharedBase(&l.Shared[0]), l.Shared[0].Objs[0])
	case cs.Level == 3 && cs.Target == "own":
		p = joinNames(pp, l.User, l.HS, l.Colls[0].Name)
	case cs.Level == 3:
		p = joinNames(pp, l.User, l.HS, l.NewColl)
	case cs.Level == 4 && cs.Target == "own":
		p = joinNames(pp, l.User, l.HS, l.Colls[0].Name, l.Colls[0].Objs[0])
	case cs.Level == 4:
		p = joinNames(pp, l.User, l.HS, l.Colls[0].Name, l.NewObj)
	default:
		p = joinNames(pp, l.User, l.HS, l.Colls[0].Name, l.Colls[0].Objs[0])
		for i := 5; i <= cs.Level; i++ {
			p = joinNames(p, l.Deeper)
		}
	}
	if cs.Odd != "" {
		return oddSpelling(p, cs.Odd, cs.OddAt, l.Deeper, cs.Slash)
	}
	if cs.Slash || p == "" {
		p += "/"
	}
	return p
}

var oddKinds = []string{"dslash", "dot", "updown"}

// oddSpelling spells the canonical path p (no trailing slash; "" = the empty
// prefix's root) with one redundant piece in front of segment number at
// (at == number of segments: after the last one): an empty segment, a "."
// segment or "<filler>/..". An empty segment after the last one only shows
// together with the trailing slash, which is then forced.
func oddSpelling(p, kind string, at int, filler Name, slash bool) string {
	var segs []string
	if p != "" {
		segs = strings.Split(p[1:], "/")
	}
	if at < 0 {
		at = 0
	}
	if at > len(segs) {
		at = len(segs)
	}
	piece := "/"
	switch kind {
	case "dot":
		piece = "/."
	case "updown":
		piece = "/" + string(filler) + "/.."
	}
	var sb strings.Builder
	for i, s := range segs {
		if i == at {
			sb.WriteString(piece)
		}
		sb.WriteByte('/')
		sb.WriteString(s)
	}
	if at == len(segs) {
		sb.WriteString(piece)
		if kind == "dslash" {
			slash = true
		}
	}
	if slash {
		sb.WriteByte('/')
	}
	return sb.String()
}

// cleanLevel is one reading of "depth below the prefix" for any spelling of a
// path: empty and "." segments do not count, ".." takes the segment before it
// away (RFC 3986 5.2.4 plus merging of slashes), and what remains has to
// start with the prefix segments. -1: not below the prefix.
func cleanLevel(p string, prefix []Name) int {
	var st []string
	for _, s := range strings.Split(p, "/") {
		switch s {
		case "", ".":
		case "..":
			if len(st) > 0 {
				st = st[:len(st)-1]
			}
		default:
			st = append(st, s)
		}
	}
	if len(st) < len(prefix) {
		return -1
	}
	for i, n := range prefix {
		if st[i] != string(n) {
			return -1
		}
	}
	return len(st) - len(prefix)
}

// rawLevel is the other reading: the path is taken literally. It has to
// start with the prefix as a string, and every "/"-separated piece after it
// (empty, "." and ".." ones too) is a segment; one trailing slash is the
// trailing-slash spelling. -1: not below the prefix.
func rawLevel(p, prefixPath string) int {
	if !strings.HasPrefix(p, prefixPath) {
		return -1
	}
	rest := p[len(prefixPath):]
	if rest != "" && rest[0] != '/' {
		return -1
	}
	rest = strings.TrimSuffix(rest, "/")
	return strings.Count(rest, "/")
}

// spell writes the path p as a request target in one of several equivalent
// escapings (RFC 3986 6.2.2: they all denote the same path).
func spell(p, mode string) string {
	const upper, lower = "0123456789ABCDEF", "0123456789abcdef"
	var sb strings.Builder
	esc := func(c byte, hex string) {
		sb.WriteByte('%')
		sb.WriteByte(hex[c>>4])
		sb.WriteByte(hex[c&15])
	}
	switch mode {
	case "over-upper", "over-lower":
		hex := upper
		if mode == "over-lower" {
			hex = lower
		}
		for i := 0; i < len(p); i++ {
			if p[i] == '/' {
				sb.WriteByte('/')
			} else {
				esc(p[i], hex)
			}
		}
		return sb.String()
	case "mixed":
		// The first byte of every segment escaped (whatever it is), lower-case
		// hex, everything that may stand raw in a path left raw.
		for i := 0; i < len(p); i++ {
			c := p[i]
			switch {
			case c == '/':
				sb.WriteByte(c)
			case i > 0 && p[i-1] == '/':
				esc(c, lower)
			case c >= 'a' && c <= 'z', c >= 'A' && c <= 'Z', c >= '0' && c <= '9', strings.IndexByte("-._~!$&'()*+,;=:@", c) >= 0:
				sb.WriteByte(c)
			default:
				esc(c, lower)
			}
		}
		return sb.String()
	}
	return (&url.URL{Path: p}).EscapedPath()
}

var spellings = []string{"over-upper", "over-lower", "mixed"}

func rawURL(p string) string {
	return (&url.URL{Scheme: "http", Host: host, Path: p}).String()
}

func (r *rig) homeSetProp() (string, string) {
	if r.cs.Server == "caldav" {
		return nsCal, "calendar-home-set"
	}
	return nsCard, "addressbook-home-set"
}

// multigetHrefs are the hrefs a REPORT multiget of the case asks for: the
// first collection's first object and a missing one.
func (r *rig) multigetHrefs() []string {
	l := &r.cs.Layout
	base := joinNames(r.cs.prefixPath(), l.User, l.HS, l.Colls[0].Name)
	return []string{r.objs[r.colls[0]][0], joinNames(base, l.NewObj)}
}

const putUID = "MRKput-uid"

// request builds the HTTP request of a "req" case.
func (r *rig) request(p string) (*http.Request, error) {
	cs := r.cs
	var body []byte
	hdr := http.Header{}
	ns := nsCal
	if cs.Server == "carddav" {
		ns = nsCard
	}
	switch cs.Method {
	case "PROPFIND":
		switch cs.Form {
		case "allprop":
			body = xmltree.Render(davx.PropFindTree("allprop", nil), nil)
		case "prop":
			hsNS, hsLocal := r.homeSetProp()
			body = xmltree.Render(davx.PropFindTree("prop", [][2]string{
				{davx.NS, "current-user-principal"}, {hsNS, hsLocal}, {davx.NS, "resourcetype"}, {davx.NS, "displayname"}, {davx.NS, "getetag"},
			}), nil)
		}
		if body != nil {
			hdr.Set("Content-Type", "application/xml; charset=utf-8")
		}
		if cs.Depth != "" {
			hdr.Set("Depth", cs.Depth)
		}
	case "MKCOL":
		if cs.Form == "body" {
			kind := "calendar"
			if cs.Server == "carddav" {
				kind = "addressbook"
			}
			body = xmltree.Render(xmltree.El(davx.NS, "mkcol", xmltree.El(davx.NS, "set", xmltree.El(davx.NS, "prop",
				xmltree.El(davx.NS, "resourcetype", xmltree.El(davx.NS, "collection"), xmltree.El(ns, kind)),
				xmltree.El(davx.NS, "displayname", xmltree.Txt("created"))))), nil)
			hdr.Set("Content-Type", "application/xml; charset=utf-8")
		}
	case "PUT":
		if cs.Server == "caldav" {
			body = []byte(icsText(putUID))
			hdr.Set("Content-Type", "text/calendar; charset=utf-8")
		} else {
			body = []byte(vcfText(putUID))
			hdr.Set("Content-Type", "text/vcard; charset=utf-8")
		}
		switch cs.Form {
		case "if-match":
			hdr.Set("If-Match", `"e1"`)
		case "if-none-match":
			hdr.Set("If-None-Match", "*")
		}
	case "REPORT":
		prop := xmltree.El(davx.NS, "prop", xmltree.El(davx.NS, "getetag"))
		if cs.Server == "caldav" {
			prop.Add(xmltree.El(nsCal, "calendar-data"))
		} else {
			prop.Add(xmltree.El(nsCard, "address-data"))
		}
		var root *xmltree.Node
		if cs.Form == "multiget" {
			local := "calendar-multiget"
			if cs.Server == "carddav" {
				local = "addressbook-multiget"
			}
			root = xmltree.El(ns, local, prop)
			for _, h := range r.multigetHrefs() {
				root.Add(xmltree.El(davx.NS, "href", xmltree.Txt(davx.EscapePath(h))))
			}
		} else if cs.Server == "caldav" {
			root = xmltree.El(nsCal, "calendar-query", prop,
				xmltree.El(nsCal, "filter", xmltree.El(nsCal, "comp-filter").With("name", "VCALENDAR")))
		} else {
			root = xmltree.El(nsCard, "addressbook-query", prop, xmltree.El(nsCard, "filter"))
		}
		body = xmltree.Render(root, nil)
		hdr.Set("Content-Type", "application/xml; charset=utf-8")
		hdr.Set("Depth", "1")
	case "PROPPATCH":
		body = xmltree.Render(xmltree.El(davx.NS, "propertyupdate", xmltree.El(davx.NS, "set", xmltree.El(davx.NS, "prop",
			xmltree.El(davx.NS, "displayname", xmltree.Txt("renamed"))))), nil)
		hdr.Set("Content-Type", "application/xml; charset=utf-8")
	case "COPY", "MOVE":
		hdr.Set("Destination", rawURL(joinNames(r.cs.prefixPath(), r.cs.Layout.User, r.cs.Layout.HS, r.cs.Layout.NewColl)))
	default:
		// The open method axis: a creation-style body where asked for.
		if cs.Form == "body" {
			root := xmltree.El(nsCal, "mkcalendar")
			if cs.Server == "carddav" {
				root = xmltree.El(nsCard, "mkaddressbook")
			}
			body = xmltree.Render(root.Add(xmltree.El(davx.NS, "set", xmltree.El(davx.NS, "prop",
				xmltree.El(davx.NS, "displayname", xmltree.Txt("created"))))), nil)
			hdr.Set("Content-Type", "application/xml; charset=utf-8")
		}
	}
	var req *http.Request
	var err error
	if body != nil {
		req, err = http.NewRequest(cs.Method, rawURL(p), bytes.NewReader(body))
	} else {
		req, err = http.NewRequest(cs.Method, rawURL(p), nil)
	}
	if err != nil {
		return nil, err
	}
	for k, v := range hdr {
		req.Header[k] = v
	}
	if cs.Spelling != "" {
		if alt := spell(p, cs.Spelling); alt != req.URL.EscapedPath() {
			req.URL.RawPath = alt
			if req.URL.EscapedPath() != alt {
				return nil, fmt.Errorf("spelling %q of %q is not accepted by net/url", alt, p)
			}
		}
	}
	return req, nil
}

package c12

import (
	"fmt"
	"math/rand"
	"net/http"
	"sync"

	"github.com/emersion/go-webdav/caldav"
	"github.com/emersion/go-webdav/carddav"
	"github.com/emersion/go-webdav/verifharness/doubles"
	"github.com/emersion/go-webdav/verifharness/fw"
)

// The multi-user family: ONE handler whose backend takes the user from the
// request context (as real multi-user servers do) serves two users, A and B,
// alternately and concurrently. Every request is judged by the same
// level -> operation and exposure oracles for the user who sent it, plus
// "nothing of the other user shows".

// layoutB derives the second user's layout from the first one's: B is the
// "other user" of A (so that A's foreign-principal requests address B's
// principal and vice versa), with the other home-set name.
func layoutB(a Layout) Layout {
	b := a
	b.User, b.OtherUser = a.OtherUser, a.User
	b.HS, b.OtherHS = a.OtherHS, a.HS
	// Collections outside the home set stay A's alone: placed by the same
	// rule for B they could be the very same path, one resource of two users,
	// which the "nothing of the other user shows" oracle does not model.
	b.Shared = nil
	return b
}

// step is one request of a session.
type step struct {
	user                        int // 0 = A, 1 = B
	method, form, depth, target string
	level                       int
	slash                       bool
	spelling                    string
}

var multiForms = []reqForm{
	{"PROPFIND", "prop", "0"}, {"PROPFIND", "allprop", "1"}, {"PROPFIND", "prop", "infinity"},
	{"MKCOL", "empty", ""}, {"GET", "", ""}, {"DELETE", "", ""}, {"REPORT", "query", ""},
}

// sessionSteps is the request list of a session: every (level, target) cell in
// one trailing-slash spelling, under the forms with teeth, asked by A then B.
func sessionSteps(cs *Case) []step {
	var l []step
	if cs.StepSeed != 0 {
		r := rand.New(rand.NewSource(cs.StepSeed))
		forms := reqForms()
		for i, n := 0, 16+r.Intn(24); i < n; i++ {
			f := forms[r.Intn(len(forms))]
			if r.Intn(2) == 0 {
				f = multiForms[r.Intn(len(multiForms))]
			}
			cl := cells[r.Intn(len(cells))]
			st := step{user: r.Intn(2), method: f.method, form: f.form, depth: f.depth, level: cl.level, target: cl.target, slash: r.Intn(2) == 0}
			if r.Intn(4) == 0 {
				st.spelling = spellings[r.Intn(len(spellings))]
			}
			l = append(l, st)
		}
		return l
	}
	for i, cl := range cells {
		for j, f := range multiForms {
			for u := 0; u < 2; u++ {
				l = append(l, step{user: u, method: f.method, form: f.form, depth: f.depth, level: cl.level, target: cl.target, slash: (i+j)%2 == 0})
			}
		}
	}
	return l
}

// execMulti runs one session.
func execMulti(c *fw.Ctx, cs *Case) {
	csA := *cs
	csB := *cs
	csB.Layout = layoutB(cs.Layout)
	if !csA.valid() || !csB.valid() {
		c.Inconclusive("C12: generated a multi-user case outside the domain")
		return
	}
	rigs := [2]*rig{build(&csA, "A"), build(&csB, "B")}
	var h http.Handler
	if cs.Server == "caldav" {
		h = &caldav.Handler{Prefix: cs.handlerPrefix(), Backend: &doubles.MultiCal{Users: map[string]*doubles.CalBackend{"A": rigs[0].cal, "B": rigs[1].cal}}}
	} else {
		h = &carddav.Handler{Prefix: cs.handlerPrefix(), Backend: &doubles.MultiCard{Users: map[string]*doubles.CardBackend{"A": rigs[0].card, "B": rigs[1].card}}}
	}
	h = doubles.WithUser(h)
	var ips [2]*doubles.InProc
	var rts [2]*doubles.AsUser
	for u := 0; u < 2; u++ {
		rigs[u].session = cs
		rigs[u].h = h
		ips[u] = &doubles.InProc{Handler: h, Record: true}
		rts[u] = &doubles.AsUser{User: rigs[u].user, Next: ips[u]}
	}
	c.Journal(cs)
	defer c.JournalDone()

	bases := [2]Case{csA, csB}
	doStep := func(st step) {
		u := st.user
		sc := bases[u]
		sc.Kind, sc.StepSeed = "req", 0
		sc.Method, sc.Form, sc.Depth, sc.Level, sc.Target, sc.Slash, sc.Spelling = st.method, st.form, st.depth, st.level, st.target, st.slash, st.spelling
		if sc.Level == 0 && len(sc.Prefix) == 0 {
			sc.Slash = true
		}
		rigs[u].cs = &sc
		// InProc.Do does not pass through asUser: stamp the user here.
		runReqAs(c, rigs[u], ips[u], rigs[1-u])
		if st.method == "MKCOL" {
			// Forget what the double created, so that the session's state (and
			// the chains' expectations) stay what the layout says. Only this
			// user's requests touch this double, and they are sequential.
			n := len(sc.Layout.Colls) + len(sc.Layout.Shared)
			if rigs[u].cal != nil && len(rigs[u].cal.Calendars) > n {
				rigs[u].cal.Calendars = rigs[u].cal.Calendars[:n]
			}
			if rigs[u].card != nil && len(rigs[u].card.Books) > n {
				rigs[u].card.Books = rigs[u].card.Books[:n]
			}
		}
	}
	doChain := func(u int, entry string) {
		cc := bases[u]
		cc.Kind, cc.Entry, cc.StepSeed = "chain", entry, 0
		rigs[u].cs = &cc
		runChain(c, &cc, rigs[u], ips[u], &http.Client{Transport: rts[u]}, rigs[1-u], false)
	}
	steps := sessionSteps(cs)

	// Phase 1: strictly alternating, one request at a time.
	doChain(0, "well-known")
	doChain(1, "well-known")
	for _, st := range steps {
		doStep(st)
	}
	doChain(1, "root")
	doChain(0, "root-slash")
	c.Observe("multi_user_sessions", cs.Server+"|sequential phase", 1)

	// Phase 2: both users at once, each from a goroutine of its own. The
	// doubles are per user and the handlers keep no state, so every request has
	// the same outcome whatever the interleaving.
	var wg sync.WaitGroup
	for u := 0; u < 2; u++ {
		wg.Add(1)
		go func(u int) {
			defer wg.Done()
			defer func() {
				if v := recover(); v != nil {
					c.Inconclusive(fmt.Sprintf("C12: panic in the concurrent phase of a multi-user session: %v", v))
				}
			}()
			doChain(u, "well-known")
			for _, st := range steps {
				if st.user == u {
					doStep(st)
				}
			}
			doChain(u, "root")
		}(u)
	}
	wg.Wait()
	c.Observe("multi_user_sessions", cs.Server+"|concurrent phase", 1)
}

// runReqAs is runReq with the rig's user stamped on the request.
func runReqAs(c *fw.Ctx, r *rig, ip *doubles.InProc, other *rig) {
	stamped := &doubles.InProc{Handler: http.HandlerFunc(func(w http.ResponseWriter, req *http.Request) {
		req.Header.Set(doubles.UserHeader, r.user)
		ip.Handler.ServeHTTP(w, req)
	}), Record: true}
	runReq(c, r, stamped, other, false)
}

package c12

import (
	"bytes"
	"fmt"
	"net/http"
	"sort"
	"strings"

	"github.com/emersion/go-ical"
	"github.com/emersion/go-vcard"
	"github.com/emersion/go-webdav/caldav"
	"github.com/emersion/go-webdav/carddav"
	"github.com/emersion/go-webdav/verifharness/davx"
	"github.com/emersion/go-webdav/verifharness/doubles"
	"github.com/emersion/go-webdav/verifharness/fw"
	"github.com/emersion/go-webdav/verifharness/xmltree"
)

// anomaly is one deviation from the level -> operation table.
type anomaly struct {
	kind string // abstract, goes into the finding key
	what string // literal
}

type observed struct {
	status int
	hdr    http.Header
	body   []byte
	calls  []gcall
}

func callList(calls []gcall) []string {
	l := make([]string, 0, len(calls))
	for _, c := range calls {
		if c.Path != "" || c.Raw.Mutating() {
			l = append(l, fmt.Sprintf("%s(%q)", c.Op, c.Path))
		} else {
			l = append(l, c.Op)
		}
	}
	return l
}

func opSig(calls []gcall) string {
	set := map[string]bool{}
	for _, c := range calls {
		set[c.Op] = true
	}
	var l []string
	for k := range set {
		l = append(l, k)
	}
	sort.Strings(l)
	if len(l) == 0 {
		return "-"
	}
	return strings.Join(l, "+")
}

func hasOp(calls []gcall, op string) bool {
	for _, c := range calls {
		if c.Op == op {
			return true
		}
	}
	return false
}

// requireOp: the operation must have been invoked, and with exactly this path.
func requireOp(calls []gcall, op, path string, out *[]anomaly) {
	var seen []string
	for _, c := range calls {
		if c.Op == op {
			if c.Path == path {
				return
			}
			seen = append(seen, c.Path)
		}
	}
	if len(seen) > 0 {
		*out = append(*out, anomaly{"path-altered:" + op, fmt.Sprintf("%s was invoked with %q, request path is %q", op, seen, path)})
		return
	}
	*out = append(*out, anomaly{"missing-op:" + op, fmt.Sprintf("%s(%q) was not invoked; calls: %v", op, path, callList(calls))})
}

// requireOpUnlessRefused: op(path) must be invoked -- unless relax is set and
// the server first looked the resource up with lookup(path), then refused
// with a 4xx without invoking op at all (existence / precondition checks in
// front of the operation are not excluded by the statement).
func requireOpUnlessRefused(o *observed, op, path, lookup string, relax bool, out *[]anomaly) {
	if relax && !hasOp(o.calls, op) && o.status/100 == 4 {
		for _, c := range o.calls {
			if c.Op == lookup && c.Path == path {
				return
			}
		}
	}
	requireOp(o.calls, op, path, out)
}

// requireLookup: an operation without path argument must have been invoked.
func requireLookup(calls []gcall, op string, out *[]anomaly) {
	if !hasOp(calls, op) {
		*out = append(*out, anomaly{"missing-op:" + op, fmt.Sprintf("%s was not invoked; calls: %v", op, callList(calls))})
	}
}

// onlyMutation: every mutating call must be op(path); op=="" means none at all.
func onlyMutation(calls []gcall, op, path string, out *[]anomaly) {
	for _, c := range calls {
		if !c.Raw.Mutating() {
			continue
		}
		if op == "" {
			*out = append(*out, anomaly{"unexpected-mutation:" + c.Op, fmt.Sprintf("%s(%q) was invoked where no mutation belongs", c.Op, c.Path)})
		} else if c.Op != op {
			*out = append(*out, anomaly{"unexpected-mutation:" + c.Op, fmt.Sprintf("%s(%q) was invoked, only %s(%q) belongs here", c.Op, c.Path, op, path)})
		} else if c.Path != path {
			*out = append(*out, anomaly{"path-altered:" + op, fmt.Sprintf("%s was invoked with %q, request path is %q", op, c.Path, path)})
		}
	}
}

// hrefsIn collects the decoded path of every {DAV:}href anywhere in a tree.
func hrefsIn(n *xmltree.Node, out *[]string) {
	if n.Is(davx.NS, "href") {
		if p, err := davx.HrefPath(n.DeepText()); err == nil {
			*out = append(*out, p)
		} else {
			*out = append(*out, n.DeepText())
		}
	}
	for _, c := range n.Elems() {
		hrefsIn(c, out)
	}
}

// exposure lists what of the current user's resources a response shows.
func (r *rig) exposure(o *observed) []string { return r.exposureExcept(o, "") }

// exposureExcept is exposure, not counting an href / Location that merely
// repeats the path skip (in either trailing-slash spelling).
func (r *rig) exposureExcept(o *observed, skip string) []string {
	var leaks []string
	skipA, skipB := "", ""
	if skip != "" {
		skipA = strings.TrimSuffix(skip, "/")
		skipB = skipA + "/"
	}
	shown := func(p string) bool { return r.own[p] && !(skip != "" && (p == skipA || p == skipB)) }
	for _, m := range r.markers {
		if bytes.Contains(o.body, []byte(m)) {
			leaks = append(leaks, "content marker "+m)
		}
	}
	if root, err := xmltree.Parse(o.body); err == nil {
		var hrefs []string
		hrefsIn(root, &hrefs)
		for _, h := range hrefs {
			if shown(h) {
				leaks = append(leaks, fmt.Sprintf("href %q", h))
			}
		}
	}
	for _, k := range []string{"Location", "Content-Location"} {
		if v := o.hdr.Get(k); v != "" {
			if p, err := davx.HrefPath(v); err == nil && shown(p) {
				leaks = append(leaks, fmt.Sprintf("%s header %q", k, v))
			}
		}
	}
	return leaks
}

type msView struct {
	ms    *davx.MultiStatus
	byRef map[string]*davx.Response
	err   error
}

func viewMS(o *observed) *msView {
	v := &msView{byRef: map[string]*davx.Response{}}
	if o.status != 207 {
		v.err = fmt.Errorf("status %d, not 207", o.status)
		return v
	}
	v.ms, v.err = davx.ReadMultiStatus(o.body)
	if v.err != nil {
		return v
	}
	for i := range v.ms.Responses {
		resp := &v.ms.Responses[i]
		if _, dup := v.byRef[resp.Paths[0]]; !dup {
			v.byRef[resp.Paths[0]] = resp
		}
	}
	return v
}

func (v *msView) paths() []string {
	var l []string
	if v.ms != nil {
		for _, r := range v.ms.Responses {
			l = append(l, r.Paths[0])
		}
	}
	return l
}

// requireHref: the multistatus must carry a response for exactly this path.
func (v *msView) requireHref(path, role string, out *[]anomaly) *davx.Response {
	if v.err != nil {
		*out = append(*out, anomaly{"no-multistatus", fmt.Sprintf("expected a multistatus with the %s %q: %v", role, path, v.err)})
		return nil
	}
	resp := v.byRef[path]
	if resp == nil {
		*out = append(*out, anomaly{"href-missing:" + role, fmt.Sprintf("no response for the %s %q; response hrefs: %q", role, path, v.paths())})
	}
	return resp
}

// requireHrefProp: property {ns}local of resp must hold href == want. must:
// the property was asked for by name, so it has to be there with 200 (under
// allprop RFC 4791 / 5397 / 6352 let a server leave these properties out).
func requireHrefProp(resp *davx.Response, ns, local, want string, must bool, out *[]anomaly) {
	if resp == nil {
		return
	}
	p, code := resp.Prop(ns, local)
	if p == nil || code != 200 {
		if must {
			*out = append(*out, anomaly{"prop-missing:" + local, fmt.Sprintf("%s not answered with 200 (status %d) in the response for %q", local, code, resp.Paths[0])})
		}
		return
	}
	var hrefs []string
	hrefsIn(p, &hrefs)
	if len(hrefs) != 1 || hrefs[0] != want {
		*out = append(*out, anomaly{"prop-href-wrong:" + local, fmt.Sprintf("%s carries %q, backend path is %q", local, hrefs, want)})
	}
}

// judge applies appendix C to one request. checked=false: don't-care cell.
func (r *rig) judge(p string, o *observed) (out []anomaly, checked bool) {
	out, checked = r.judgeTable(p, o)
	m := r.cs.Method
	if m == "MKCOL" || m == "COPY" || m == "MOVE" {
		// MKCOL is judged by the table; COPY/MOVE of a collection would
		// legitimately create at the Destination: left open.
		return out, checked
	}
	lvl := r.cs.Level
	if lvl > 5 {
		lvl = 5
	}
	// Whatever the method token and whatever the status: the backend may be
	// asked to create a collection only by a request at collection depth, and
	// then for the request path itself.
	for _, c := range o.calls {
		if c.Op != "CreateColl" {
			continue
		}
		if lvl != 3 {
			out = append(out, anomaly{"create-outside-collection-level", fmt.Sprintf("%s made the backend create a collection at %q, which is not at collection depth (status %d)", m, c.Path, o.status)})
		} else if c.Path != p {
			out = append(out, anomaly{"path-altered:CreateColl", fmt.Sprintf("%s made the backend create %q, request path is %q", m, c.Path, p)})
		}
	}
	if tableMethods[m] {
		return out, checked
	}
	// A method token outside the table (unknown to the library today, or an
	// extension method): status is left open, but a mutation must belong to
	// the level addressed, with the request path unchanged.
	below := strings.TrimSuffix(p, "/") + "/"
	for _, c := range o.calls {
		if !c.Raw.Mutating() || c.Op == "CreateColl" {
			continue
		}
		ok := false
		switch c.Op {
		case "PutObj":
			// object level; or an add-member style method on a collection (RFC 5995)
			ok = (lvl == 4 && c.Path == p) || (lvl == 3 && strings.HasPrefix(c.Path, below))
		case "DeleteObj":
			ok = lvl == 4 && c.Path == p
		case "DeleteColl":
			ok = lvl == 3 && c.Path == p
		}
		if !ok {
			out = append(out, anomaly{"unexpected-mutation:" + c.Op, fmt.Sprintf("%s made the backend run %s(%q) for a request to %q at level %d (status %d)", m, c.Op, c.Path, p, r.cs.Level, o.status)})
		}
	}
	return out, true
}

// tableMethods are the methods appendix C has rows (or explicit don't-cares) for.
var tableMethods = map[string]bool{"OPTIONS": true, "GET": true, "HEAD": true, "PUT": true, "DELETE": true, "MKCOL": true,
	"PROPFIND": true, "REPORT": true, "PROPPATCH": true, "COPY": true, "MOVE": true}

// judgeTable applies appendix C to one request. checked=false: don't-care cell.
func (r *rig) judgeTable(p string, o *observed) (out []anomaly, checked bool) {
	cs := r.cs
	stored := r.stored()
	exact := stored != "" && stored == p
	foreign := cs.Target != "own" && cs.Target != "shared"
	deep := cs.Depth != "0"
	lvl := cs.Level
	if lvl > 5 {
		lvl = 5
	}
	switch cs.Method {
	case "PROPFIND":
		onlyMutation(o.calls, "", "", &out)
		if (cs.Depth == "" || cs.Depth == "infinity") && o.status == 403 {
			// RFC 4918 9.1 lets a server refuse infinite depth; nothing else to judge.
			return out, true
		}
		byName := cs.Form == "prop"
		v := viewMS(o)
		switch lvl {
		case 0:
			requireLookup(o.calls, "CUP", &out)
			if v.err != nil {
				out = append(out, anomaly{"no-multistatus", fmt.Sprintf("root PROPFIND: %v", v.err)})
				break
			}
			found := !byName
			var seen []string
			for i := range v.ms.Responses {
				if pr, code := v.ms.Responses[i].Prop(davx.NS, "current-user-principal"); pr != nil && code == 200 {
					var hrefs []string
					hrefsIn(pr, &hrefs)
					seen = append(seen, hrefs...)
					if len(hrefs) == 1 && hrefs[0] == r.principal {
						found = true
					} else {
						found = false
						break
					}
				}
			}
			if !found {
				out = append(out, anomaly{"prop-href-wrong:current-user-principal", fmt.Sprintf("root PROPFIND does not name the principal %q (current-user-principal hrefs seen: %q)", r.principal, seen)})
			}
		case 1:
			requireLookup(o.calls, "CUP", &out)
			if exact {
				resp := v.requireHref(r.principal, "principal", &out)
				ns, local := r.homeSetProp()
				requireHrefProp(resp, ns, local, r.hs, byName, &out)
				requireHrefProp(resp, davx.NS, "current-user-principal", r.principal, byName, &out)
			} else if foreign {
				if l := r.exposure(o); len(l) > 0 {
					out = append(out, anomaly{"foreign-principal-exposes", fmt.Sprintf("response to a foreign principal path shows %q", l)})
				}
			}
		case 2:
			requireLookup(o.calls, "HSP", &out)
			if exact {
				v.requireHref(r.hs, "home-set", &out)
				if deep {
					requireLookup(o.calls, "ListColl", &out)
					for _, c := range r.colls {
						v.requireHref(c, "collection", &out)
					}
				}
			} else if foreign {
				if l := r.exposure(o); len(l) > 0 {
					out = append(out, anomaly{"foreign-home-set-exposes", fmt.Sprintf("response to a foreign home-set path shows %q", l)})
				}
			}
		case 3:
			requireOp(o.calls, "GetColl", p, &out)
			if exact {
				v.requireHref(p, "collection", &out)
				if deep {
					requireOp(o.calls, "ListObj", p, &out)
					for _, ob := range r.objs[p] {
						v.requireHref(ob, "object", &out)
					}
				}
			}
		case 4:
			requireOp(o.calls, "GetObj", p, &out)
			if exact {
				v.requireHref(p, "object", &out)
			}
		default:
			if l := r.exposure(o); len(l) > 0 {
				out = append(out, anomaly{"deeper-level-exposes", fmt.Sprintf("response to a path below object level shows %q", l)})
			}
		}
		return out, true

	case "MKCOL":
		if lvl == 3 {
			// An existing collection may be refused after a lookup (RFC 4918: 405).
			requireOpUnlessRefused(o, "CreateColl", p, "GetColl", !foreign, &out)
			onlyMutation(o.calls, "CreateColl", p, &out)
			if hasOp(o.calls, "CreateColl") && o.status/100 != 2 {
				out = append(out, anomaly{"create-not-accepted", fmt.Sprintf("MKCOL at collection level answered %d although the backend accepted", o.status)})
			}
		} else {
			onlyMutation(o.calls, "", "", &out)
			if o.status != 403 {
				out = append(out, anomaly{fmt.Sprintf("status-%d-not-403", o.status), fmt.Sprintf("MKCOL outside collection level answered %d, want 403", o.status)})
			}
		}
		return out, true

	case "DELETE":
		if cs.Server == "carddav" {
			switch lvl {
			case 3:
				requireOpUnlessRefused(o, "DeleteColl", p, "GetColl", !exact, &out)
				onlyMutation(o.calls, "DeleteColl", p, &out)
			case 4:
				requireOpUnlessRefused(o, "DeleteObj", p, "GetObj", !exact, &out)
				onlyMutation(o.calls, "DeleteObj", p, &out)
			default:
				onlyMutation(o.calls, "", "", &out)
				if o.status/100 == 2 {
					out = append(out, anomaly{"delete-not-refused", fmt.Sprintf("DELETE outside address book / object level answered %d", o.status)})
				}
			}
			return out, true
		}
		if lvl == 4 {
			requireOpUnlessRefused(o, "DeleteObj", p, "GetObj", !exact, &out)
			onlyMutation(o.calls, "DeleteObj", p, &out)
			return out, true
		}
		return nil, false

	case "GET", "HEAD", "OPTIONS":
		if lvl != 4 {
			return nil, false
		}
		requireOp(o.calls, "GetObj", p, &out)
		onlyMutation(o.calls, "", "", &out)
		return out, true

	case "PUT":
		if lvl != 4 {
			return nil, false
		}
		// A precondition (If-Match / If-None-Match) may be refused after a lookup.
		requireOpUnlessRefused(o, "PutObj", p, "GetObj", cs.Form != "none", &out)
		onlyMutation(o.calls, "PutObj", p, &out)
		for _, c := range o.calls {
			if c.Op == "PutObj" && c.Path == p {
				r.judgePutArgs(c.Raw, &out)
				break
			}
		}
		return out, true

	case "REPORT":
		if lvl != 3 {
			return nil, false
		}
		if cs.Form == "query" {
			requireOpUnlessRefused(o, "QueryObj", p, "GetColl", !exact, &out)
			onlyMutation(o.calls, "", "", &out)
			if !foreign && hasOp(o.calls, "QueryObj") {
				// The double answers both spellings of the collection path.
				v := viewMS(o)
				coll := r.colls[0]
				if cs.Target == "shared" {
					coll = r.colls[len(cs.Layout.Colls)]
				}
				for _, ob := range r.objs[coll] {
					v.requireHref(ob, "object", &out)
				}
			}
			return out, true
		}
		// multiget addressed to the own collection
		if foreign {
			return nil, false
		}
		onlyMutation(o.calls, "", "", &out)
		want := r.multigetHrefs()
		for _, c := range o.calls {
			if c.Op == "GetObj" && c.Path != want[0] && c.Path != want[1] {
				out = append(out, anomaly{"path-altered:GetObj", fmt.Sprintf("multiget invoked GetObj(%q); requested hrefs: %q", c.Path, want)})
			}
		}
		v := viewMS(o)
		for _, h := range want {
			v.requireHref(h, "object", &out)
		}
		return out, true
	}
	return nil, false
}

func (r *rig) judgePutArgs(c doubles.Call, out *[]anomaly) {
	wantIfMatch, wantIfNone := "", ""
	switch r.cs.Form {
	case "if-match":
		wantIfMatch = `"e1"`
	case "if-none-match":
		wantIfNone = "*"
	}
	var gotIfMatch, gotIfNone, uid string
	switch a := c.Arg2.(type) {
	case caldav.PutCalendarObjectOptions:
		gotIfMatch, gotIfNone = string(a.IfMatch), string(a.IfNoneMatch)
	case carddav.PutAddressObjectOptions:
		gotIfMatch, gotIfNone = string(a.IfMatch), string(a.IfNoneMatch)
	}
	switch b := c.Arg.(type) {
	case *ical.Calendar:
		if b != nil {
			for _, ch := range b.Children {
				if u := ch.Props.Get(ical.PropUID); u != nil {
					uid = u.Value
				}
			}
		}
	case vcard.Card:
		uid = b.Value(vcard.FieldUID)
	}
	if gotIfMatch != wantIfMatch || gotIfNone != wantIfNone {
		*out = append(*out, anomaly{"put-conditions-altered", fmt.Sprintf("backend got If-Match=%q If-None-Match=%q, request had %q / %q", gotIfMatch, gotIfNone, wantIfMatch, wantIfNone)})
	}
	if uid != putUID {
		*out = append(*out, anomaly{"put-body-altered", fmt.Sprintf("backend got an object with UID %q, request body had %q", uid, putUID)})
	}
}

// execReq runs one "req" case on a handler of its own and reports.
func execReq(c *fw.Ctx, cs *Case) {
	if !cs.valid() {
		c.Inconclusive("C12: generated a case outside the domain")
		return
	}
	r := build(cs, "")
	runReq(c, r, &doubles.InProc{Handler: r.h, Record: true, Shape: cs.Shape}, nil, true)
}

// runReq sends the request r.cs describes through ip (whose handler serves
// r's backend double) and judges it for r's user. other, when set, is another
// user served by the same handler: nothing of theirs may show.
func runReq(c *fw.Ctx, r *rig, ip *doubles.InProc, other *rig, journal bool) {
	cs := r.cs
	p := r.reqPath()
	req, err := r.request(p)
	if err != nil {
		c.Inconclusive(fmt.Sprintf("C12: cannot build request for %q: %v", p, err))
		return
	}
	var resp *http.Response
	var derr error
	if journal {
		c.Journal(cs)
	}
	r.calls()
	ip.Exchanges()
	panicked, pv, stack := fw.Guard(func() { resp, derr = ip.Do(req) })
	if journal {
		c.JournalDone()
	}
	c.Eval(1)
	lv := fmt.Sprintf("L%d", cs.Level)
	if cs.Level > 5 {
		lv = "L5+"
	}
	form := cs.Method
	if cs.Spelling != "" {
		form += ",respelled-target"
	}
	if cs.Odd != "" {
		form += ",odd-path"
	}
	if r.session != nil {
		form += ",multi-user"
	}
	if cs.Shape != "" {
		form += ",reshaped-body"
		c.Observe("body_shape", fmt.Sprintf("%s|%s|%s|%s", cs.Server, cs.Method, cs.Form, cs.Shape), 1)
	}
	if panicked {
		c.Report(fmt.Sprintf("%s|%s|%s|panic:%s", cs.Server, lv, form, fw.PanicSite(stack)), fmt.Sprintf("handler panicked: %v", pv), r.witness(p, nil))
		return
	}
	if derr != nil {
		c.Inconclusive(fmt.Sprintf("C12: in-process transport failed for %q: %v", p, derr))
		return
	}
	ex := ip.Exchanges()
	if len(ex) != 1 {
		c.Inconclusive(fmt.Sprintf("C12: %d exchanges recorded for one request to %q", len(ex), p))
		return
	}
	if ex[0].Path != p {
		c.Inconclusive(fmt.Sprintf("C12: handler saw path %q, intended %q", ex[0].Path, p))
		return
	}
	target := ex[0].Target
	if want := spell(p, cs.Spelling); target != want {
		c.Inconclusive(fmt.Sprintf("C12: request target on the wire is %q, intended spelling %q", target, want))
		return
	}
	o := &observed{status: resp.StatusCode, hdr: resp.Header, body: ex[0].RespBody, calls: r.calls()}
	if cs.Odd != "" {
		r.reportOdd(c, p, target, o, lv, form)
		return
	}
	anoms, checked := r.judge(p, o)
	if other != nil {
		if l := other.exposureTo(o, p); len(l) > 0 {
			anoms = append(anoms, anomaly{"exposes-another-user", fmt.Sprintf("response to user %s shows resources of user %s: %q", r.user, other.user, l)})
		}
	}

	rel := cs.Target
	if (cs.Target == "own" || cs.Target == "shared") && cs.Level >= 1 && cs.Level <= 4 {
		if r.stored() == p {
			rel = cs.Target + "-exact"
		} else {
			rel = cs.Target + "-other-slash"
		}
	}
	cell := fmt.Sprintf("%s|%s|%s", cs.Server, cs.Method, lv)
	spelling := "canonical"
	if cs.Spelling != "" {
		spelling = cs.Spelling
		if target == spell(p, "") {
			spelling += " (coincides with canonical)"
		}
	}
	if checked {
		c.Observe("cells_checked", cell+"|"+rel, 1)
		c.Distinct(fmt.Sprintf("%s|%s|%s|%s|%v|p%d|%v|%v%v%v|%s|%s|%v", cell, cs.Form, cs.Depth, rel, cs.Slash, len(cs.Prefix), cs.PrefixSlash,
			cs.Layout.PSlash, cs.Layout.HSlash, cs.Layout.CSlash, nameClass(p), cs.Spelling+cs.Shape, r.session != nil))
		c.Observe("request_target_spelling(judged cells)", spelling, 1)
		if r.session != nil {
			c.Observe("multi_user_requests(judged cells)", fmt.Sprintf("%s|user %s|%s|%s", cs.Server, r.user, cs.Method, lv), 1)
		}
	} else {
		c.Observe("cells_dont_care", cell, 1)
		same := "no-path-call"
		for _, k := range o.calls {
			if k.Path != "" {
				if k.Path == p {
					same = "request-path"
				} else {
					same = "other-path"
					break
				}
			}
		}
		c.Observe("dont_care_path_handed_to_backend", cell+"|"+same, 1)
	}
	c.Observe("status", fmt.Sprintf("%s|%d", cell, o.status), 1)
	c.Observe("backend_ops", fmt.Sprintf("%s|%s|%s", cell, rel, opSig(o.calls)), 1)
	c.Observe("request_path_class", nameClass(p), 1)
	c.Observe("prefix", fmt.Sprintf("segments=%d|trailing-slash=%v", len(cs.Prefix), cs.PrefixSlash), 1)
	if c.WantSample() && checked && cs.Level >= 3 && len(cs.Prefix) >= 2 && nameClass(p) != "plain" {
		c.Sample(r.witness(p, o))
	}
	for _, a := range anoms {
		w := r.witness(p, o)
		w["request_target"] = target
		c.Report(fmt.Sprintf("%s|%s|%s|%s", cs.Server, lv, form, a.kind), a.what, w)
	}
}

// exposureTo lists what of r's user a response to ANOTHER user's request for
// path p shows. An href that merely repeats the request path is not counted.
func (r *rig) exposureTo(o *observed, p string) []string { return r.exposureExcept(o, p) }

func (r *rig) witness(p string, o *observed) map[string]interface{} {
	w := map[string]interface{}{
		"case":           r.cs,
		"user":           r.user,
		"session":        r.session,
		"handler_prefix": fmt.Sprintf("%q", r.cs.handlerPrefix()),
		"request_path":   fmt.Sprintf("%q", p),
		"backend": map[string]interface{}{
			"principal": fmt.Sprintf("%q", r.principal), "home_set": fmt.Sprintf("%q", r.hs), "collections": fmt.Sprintf("%q", r.colls),
		},
	}
	if o != nil {
		w["status"] = o.status
		w["backend_calls"] = callList(o.calls)
		b := o.body
		if len(b) > 600 {
			b = b[:600]
		}
		w["body_head"] = fmt.Sprintf("%q", b)
	}
	return w
}

// ---- requests whose path is not spelt canonically -------------------------
//
// "Depth below the prefix" has two readings for a path with empty, "." or
// ".." segments: the depth of the cleaned path (cleanLevel; what the library
// does today) and the depth of the literal path (rawLevel; a server may take
// every piece for a segment, or find that the path does not start with the
// prefix at all). The statement does not choose, so a behaviour is accepted
// when EITHER reading allows it, and only what BOTH readings exclude is
// reported:
//
//   - the backend is asked to create a collection although the path is at
//     collection depth under neither reading (MKCOL there: 403, no mutation);
//   - a mutation that belongs to neither reading's level (rows of the table
//     that are judged for canonical paths: MKCOL, CardDAV DELETE, method tokens
//     outside the table, PROPFIND = none at all);
//   - a path argument that is not byte-identical to the request path;
//   - a PROPFIND at principal / home-set depth of a foreign name (cleaned
//     reading) that is below the prefix in the literal reading too, or below
//     object depth under both readings, showing resources of the user.
//
// Required lookups, hrefs and statuses of the table are NOT demanded here.
func (r *rig) judgeOdd(p string, o *observed, a, b int) (out []anomaly) {
	cs := r.cs
	m := cs.Method
	if m == "COPY" || m == "MOVE" {
		return nil
	}
	if a > 5 {
		a = 5
	}
	if b > 5 {
		b = 5
	}
	collOK := a == 3 || b == 3
	objOK := a == 4 || b == 4
	created := hasOp(o.calls, "CreateColl")
	if m == "MKCOL" {
		if !collOK {
			onlyMutation(o.calls, "", "", &out)
			if o.status != 403 {
				out = append(out, anomaly{fmt.Sprintf("status-%d-not-403", o.status), fmt.Sprintf("MKCOL outside collection level answered %d, want 403", o.status)})
			}
			return out
		}
		onlyMutation(o.calls, "CreateColl", p, &out)
		if created && o.status/100 != 2 {
			out = append(out, anomaly{"create-not-accepted", fmt.Sprintf("MKCOL answered %d although the backend accepted", o.status)})
		}
		if !created && o.status != 403 {
			out = append(out, anomaly{fmt.Sprintf("status-%d-neither-created-nor-403", o.status), fmt.Sprintf("MKCOL answered %d without asking the backend to create", o.status)})
		}
		return out
	}
	for _, c := range o.calls {
		if c.Op != "CreateColl" {
			continue
		}
		if !collOK {
			out = append(out, anomaly{"create-outside-collection-level", fmt.Sprintf("%s made the backend create a collection at %q, which is not at collection depth (status %d)", m, c.Path, o.status)})
		} else if c.Path != p {
			out = append(out, anomaly{"path-altered:CreateColl", fmt.Sprintf("%s made the backend create %q, request path is %q", m, c.Path, p)})
		}
	}
	mutations := func() {
		below := strings.TrimSuffix(p, "/") + "/"
		for _, c := range o.calls {
			if !c.Raw.Mutating() || c.Op == "CreateColl" {
				continue
			}
			ok := false
			switch c.Op {
			case "PutObj":
				ok = (objOK && c.Path == p) || (collOK && strings.HasPrefix(c.Path, below))
			case "DeleteObj":
				ok = objOK && c.Path == p
			case "DeleteColl":
				ok = collOK && c.Path == p
			}
			if !ok {
				out = append(out, anomaly{"unexpected-mutation:" + c.Op, fmt.Sprintf("%s made the backend run %s(%q) for a request to %q (status %d)", m, c.Op, c.Path, p, o.status)})
			}
		}
	}
	switch {
	case m == "PROPFIND":
		onlyMutation(o.calls, "", "", &out)
		for _, c := range o.calls {
			if (c.Op == "GetColl" || c.Op == "GetObj") && c.Path != p {
				out = append(out, anomaly{"path-altered:" + c.Op, fmt.Sprintf("%s was invoked with %q, request path is %q", c.Op, c.Path, p)})
			}
		}
		foreign := cs.Target != "own" && cs.Target != "shared"
		switch {
		case foreign && (a == 1 || a == 2) && b >= 1:
			if l := r.exposure(o); len(l) > 0 {
				kind := "foreign-principal-exposes"
				if a == 2 {
					kind = "foreign-home-set-exposes"
				}
				out = append(out, anomaly{kind, fmt.Sprintf("response to a foreign path shows %q", l)})
			}
		case a >= 5 && b >= 5:
			if l := r.exposure(o); len(l) > 0 {
				out = append(out, anomaly{"deeper-level-exposes", fmt.Sprintf("response to a path below object level shows %q", l)})
			}
		}
	case m == "DELETE" && cs.Server == "carddav":
		mutations()
		if !collOK && !objOK && o.status/100 == 2 {
			out = append(out, anomaly{"delete-not-refused", fmt.Sprintf("DELETE outside address book / object level answered %d", o.status)})
		}
	case !tableMethods[m]:
		mutations()
	}
	return out
}

func (r *rig) reportOdd(c *fw.Ctx, p, target string, o *observed, lv, form string) {
	cs := r.cs
	a, b := cleanLevel(p, cs.Prefix), rawLevel(p, cs.prefixPath())
	if a != cs.Level {
		c.Inconclusive(fmt.Sprintf("C12: odd spelling %q cleans to level %d, intended %d", p, a, cs.Level))
		return
	}
	if b == a {
		c.Inconclusive(fmt.Sprintf("C12: odd spelling %q is canonical", p))
		return
	}
	where := "below the prefix"
	switch {
	case cs.OddAt < len(cs.Prefix):
		where = "inside the prefix part"
	case cs.OddAt == len(cs.Prefix):
		where = "between prefix and first segment"
	case cs.OddAt >= len(cs.Prefix)+cs.Level:
		where = "after the last segment"
	}
	raw := fmt.Sprintf("R%d", b)
	if b < 0 {
		raw = "R-outside"
	} else if b > 5 {
		raw = "R5+"
	}
	c.Observe("odd_path_requests(judged)", fmt.Sprintf("%s|%s|%s|%s", cs.Server, cs.Method, cs.Odd, where), 1)
	c.Observe("odd_path_levels(cleaned reading|literal reading)", fmt.Sprintf("%s|%s|%s", cs.Method, lv, raw), 1)
	c.Observe("odd_path_status", fmt.Sprintf("%s|%s|%s|%s|%d", cs.Server, cs.Method, lv, raw, o.status), 1)
	c.Observe("odd_path_backend_ops", fmt.Sprintf("%s|%s|%s|%s|%s", cs.Server, cs.Method, lv, raw, opSig(o.calls)), 1)
	c.Distinct(fmt.Sprintf("odd|%s|%s|%s|%s|%s|%s|%d|%s|%v|p%d|%v|%s|%s", cs.Server, cs.Method, cs.Form, cs.Depth, lv, cs.Target, cs.OddAt, cs.Odd, cs.Slash, len(cs.Prefix), cs.PrefixSlash, nameClass(p), cs.Shape))
	for _, an := range r.judgeOdd(p, o, a, b) {
		w := r.witness(p, o)
		w["request_target"] = target
		w["level_cleaned_reading"] = a
		w["level_literal_reading"] = b
		c.Report(fmt.Sprintf("%s|%s|%s|%s", cs.Server, lv, form, an.kind), an.what, w)
	}
}

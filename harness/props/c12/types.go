// Package c12 decides property C12: CalDAV/CardDAV routing and discovery work
// under any mount prefix. The real caldav.Handler / carddav.Handler run over a
// recording backend double whose layout is placed below the prefix; an
// independent level -> backend-operation table (DESIGN.md appendix C) judges
// the backend call log and the response of every request, and the real
// clients' discovery chain is compared with the backend's paths.
package c12

import (
	"encoding/hex"
	"encoding/json"
	"net/url"
	"strings"
	"unicode/utf8"
)

// Name is one path segment. Its JSON form survives invalid UTF-8.
type Name string

func (n Name) MarshalJSON() ([]byte, error) {
	s := string(n)
	if utf8.ValidString(s) {
		return json.Marshal(s)
	}
	return json.Marshal(map[string]string{"hex": hex.EncodeToString([]byte(s))})
}

func (n *Name) UnmarshalJSON(b []byte) error {
	var s string
	if err := json.Unmarshal(b, &s); err == nil {
		*n = Name(s)
		return nil
	}
	var m map[string]string
	if err := json.Unmarshal(b, &m); err != nil {
		return err
	}
	raw, err := hex.DecodeString(m["hex"])
	*n = Name(raw)
	return err
}

// Coll is one collection of the layout with its object names.
type Coll struct {
	Name Name   `json:"name"`
	Objs []Name `json:"objs"`
}

// Shared is one more collection the backend lists for the user (and serves by
// its path) that does NOT live below the user's home set: a shared or delegated
// collection. It sits at collection depth below the prefix like any other.
//
//	other-user   <prefix>/<OtherUser>/<HS>/<Name>       (in another user's tree)
//	sibling      <prefix>/<User>/<OtherHS>/<Name>       (next to the home set)
//	other-both   <prefix>/<OtherUser>/<OtherHS>/<Name>
type Shared struct {
	Where string `json:"where"`
	Name  Name   `json:"name"`
	Objs  []Name `json:"objs"`
}

var sharedWheres = []string{"other-user", "sibling", "other-both"}

// Layout is what the backend double holds, relative to the prefix:
// principal = <prefix>/<User>, home set = <prefix>/<User>/<HS>,
// collections = <prefix>/<User>/<HS>/<coll>, objects = .../<coll>/<obj>.
// PSlash/HSlash/CSlash say whether the backend spells the principal, the home
// set and the collections with a trailing slash.
type Layout struct {
	User  Name   `json:"user"`
	HS    Name   `json:"hs"`
	Colls []Coll `json:"colls"`
	// Collections of the user's listing that live outside the home set.
	Shared []Shared `json:"shared,omitempty"`

	PSlash bool `json:"pslash"`
	HSlash bool `json:"hslash"`
	CSlash bool `json:"cslash"`

	// Names that are NOT part of the layout, used to address foreign or
	// missing resources.
	OtherUser Name `json:"other_user"`
	OtherHS   Name `json:"other_hs"`
	NewColl   Name `json:"new_coll"`
	NewObj    Name `json:"new_obj"`
	Deeper    Name `json:"deeper"`
}

// Case is one executed case: a single request ("req"), one run of the client
// discovery chain ("chain"), or a session of one handler serving two users
// ("multi").
type Case struct {
	Kind        string `json:"kind"`
	Server      string `json:"server"` // caldav | carddav
	Prefix      []Name `json:"prefix"`
	PrefixSlash bool   `json:"prefix_slash"` // Handler.Prefix spelled with a trailing slash ("" vs "/" when empty)
	Layout      Layout `json:"layout"`

	// req
	Method string `json:"method,omitempty"`
	Level  int    `json:"level,omitempty"`  // segments below the prefix
	Target string `json:"target,omitempty"` // own | foreign | foreign-user | missing | shared (a collection of the user's listing outside the home set, or its first object)
	Slash  bool   `json:"slash,omitempty"`  // request path spelled with a trailing slash
	Depth  string `json:"depth,omitempty"`  // PROPFIND: "", 0, 1, infinity
	Form   string `json:"form,omitempty"`   // PROPFIND: allprop|prop|nobody; MKCOL: empty|body; PUT: none|if-match|if-none-match; REPORT: query|multiget
	// Spelling of the request target: "" = Go's canonical escaping,
	// over-upper | over-lower | mixed = equivalent alternative escapings.
	Spelling string `json:"spelling,omitempty"`
	// Shape of the request body as the handler sees it ("" = as parsed off
	// the wire; otherwise one of doubles.BodyShapes): unknown length, one
	// byte per Read, (0, nil) reads, last bytes together with io.EOF. The
	// request is the same, so the table applies unchanged.
	Shape string `json:"shape,omitempty"`

	// Odd, when set, spells the request path NON-canonically: one redundant
	// piece is inserted in front of segment number OddAt of the whole path
	// (prefix segments included; OddAt == number of segments: after the last
	// one). dslash = an empty segment ("//"), dot = a "." segment, updown =
	// "<Deeper>/..". Such requests are judged by judgeOdd, not by the table.
	Odd   string `json:"odd,omitempty"`
	OddAt int    `json:"odd_at,omitempty"`

	// chain
	Entry string `json:"entry,omitempty"` // well-known | root | root-slash | principal
	// ReuseSeed != 0: after the chain the SAME client object is used for
	// unrelated calls to absolute paths (the embedded webdav.Client's Stat,
	// ReadDir, Open, RemoveAll; order and choice derive from the seed) and the
	// discovery steps are repeated after each of them.
	ReuseSeed int64 `json:"reuse_seed,omitempty"`

	// multi (one handler serving two users): 0 = the fixed step list,
	// otherwise the seed of a random step list.
	StepSeed int64 `json:"step_seed,omitempty"`
}

func joinNames(base string, names ...Name) string {
	var sb strings.Builder
	sb.WriteString(base)
	for _, n := range names {
		sb.WriteByte('/')
		sb.WriteString(string(n))
	}
	return sb.String()
}

func withSlash(p string, slash bool) string {
	if slash {
		return p + "/"
	}
	return p
}

// prefixPath is the mount point without trailing slash ("" for the empty prefix).
func (cs *Case) prefixPath() string { return joinNames("", cs.Prefix...) }

// handlerPrefix is the literal value given to Handler.Prefix.
func (cs *Case) handlerPrefix() string { return withSlash(cs.prefixPath(), cs.PrefixSlash) }

// nameClass classifies a path by what a URI writer has to do with it.
func nameClass(p string) string {
	for i := 0; i < len(p); i++ {
		c := p[i]
		if c == '%' || c == '?' || c == '#' || c < 0x20 || c == 0x7f {
			return "url-syntax"
		}
	}
	if (&url.URL{Path: p}).EscapedPath() != p {
		return "escaped"
	}
	return "plain"
}

func okName(n Name) bool {
	s := string(n)
	return s != "" && s != "." && s != ".." && !strings.Contains(s, "/") && !strings.Contains(s, "MRK")
}

// valid reports whether the case lies inside the property's domain.
func (cs *Case) valid() bool {
	for _, n := range cs.Prefix {
		if !okName(n) {
			return false
		}
	}
	l := &cs.Layout
	for _, n := range []Name{l.User, l.HS, l.OtherUser, l.OtherHS, l.NewColl, l.NewObj, l.Deeper} {
		if !okName(n) {
			return false
		}
	}
	if l.User == l.OtherUser || l.HS == l.OtherHS || len(l.Colls) == 0 || len(l.Colls[0].Objs) == 0 {
		return false
	}
	seen := map[Name]bool{l.NewColl: true}
	for _, c := range l.Colls {
		if !okName(c.Name) || seen[c.Name] {
			return false
		}
		seen[c.Name] = true
		so := map[Name]bool{l.NewObj: true}
		for _, o := range c.Objs {
			if !okName(o) || so[o] {
				return false
			}
			so[o] = true
		}
	}
	for i, sh := range l.Shared {
		if !okName(sh.Name) || seen[sh.Name] || (i == 0 && len(sh.Objs) == 0) {
			return false
		}
		ok := false
		for _, w := range sharedWheres {
			ok = ok || w == sh.Where
		}
		if !ok {
			return false
		}
		seen[sh.Name] = true
		so := map[Name]bool{l.NewObj: true}
		for _, o := range sh.Objs {
			if !okName(o) || so[o] {
				return false
			}
			so[o] = true
		}
	}
	if cs.Target == "shared" && (len(l.Shared) == 0 || cs.Level < 3 || cs.Level > 4) {
		return false
	}
	switch cs.Odd {
	case "", "dslash", "dot", "updown":
	default:
		return false
	}
	// RFC 6764 reserves the well-known URIs; the handlers answer them before
	// any routing, so a layout living there is outside the domain.
	wk := "/.well-known/" + cs.Server
	p := cs.prefixPath()
	for _, q := range []string{p, joinNames(p, l.User), joinNames(p, l.User, l.HS), joinNames(p, l.OtherUser), joinNames(p, l.User, l.OtherHS), joinNames(p, l.OtherUser, l.HS), joinNames(p, l.OtherUser, l.OtherHS)} {
		if q == wk {
			return false
		}
	}
	return true
}

package c12

import (
	"context"
	"fmt"
	"io"
	"io/ioutil"
	"math/rand"
	"net/http"
	"sort"
	"strings"

	"github.com/emersion/go-webdav"

	"github.com/emersion/go-webdav/caldav"
	"github.com/emersion/go-webdav/carddav"
	"github.com/emersion/go-webdav/verifharness/doubles"
	"github.com/emersion/go-webdav/verifharness/fw"
)

// davClient is the part of caldav.Client / carddav.Client the chain uses,
// made server-neutral.
type davClient struct {
	findPrincipal func(ctx context.Context) (string, error)
	findHomeSet   func(ctx context.Context, principal string) (string, error)
	findColls     func(ctx context.Context, hs string) ([]string, error)
	query         func(ctx context.Context, coll string) ([]string, error)
	multiget      func(ctx context.Context, coll string, paths []string) ([]string, error)
	get           func(ctx context.Context, obj string) (string, error)
	put           func(ctx context.Context, obj string) (string, error)
	// wd is the generic WebDAV client every caldav / carddav client embeds
	// (the same object FindCurrentUserPrincipal is a method of).
	wd *webdav.Client
}

func newDavClient(server string, hc *http.Client, endpoint string) (*davClient, error) {
	if server == "caldav" {
		cl, err := caldav.NewClient(hc, endpoint)
		if err != nil {
			return nil, err
		}
		paths := func(l []caldav.CalendarObject) []string {
			out := []string{}
			for _, o := range l {
				out = append(out, o.Path)
			}
			return out
		}
		return &davClient{
			wd:            cl.Client,
			findPrincipal: cl.FindCurrentUserPrincipal,
			findHomeSet:   cl.FindCalendarHomeSet,
			findColls: func(ctx context.Context, hs string) ([]string, error) {
				l, err := cl.FindCalendars(ctx, hs)
				out := []string{}
				for _, c := range l {
					out = append(out, c.Path)
				}
				return out, err
			},
			query: func(ctx context.Context, coll string) ([]string, error) {
				l, err := cl.QueryCalendar(ctx, coll, &caldav.CalendarQuery{
					CompRequest: caldav.CalendarCompRequest{Name: "VCALENDAR", AllProps: true, AllComps: true},
					CompFilter:  caldav.CompFilter{Name: "VCALENDAR"},
				})
				return paths(l), err
			},
			multiget: func(ctx context.Context, coll string, ps []string) ([]string, error) {
				l, err := cl.MultiGetCalendar(ctx, coll, &caldav.CalendarMultiGet{
					CompRequest: caldav.CalendarCompRequest{Name: "VCALENDAR", AllProps: true, AllComps: true},
					Paths:       ps,
				})
				return paths(l), err
			},
			get: func(ctx context.Context, obj string) (string, error) {
				o, err := cl.GetCalendarObject(ctx, obj)
				if err != nil {
					return "", err
				}
				return o.Path, nil
			},
			put: func(ctx context.Context, obj string) (string, error) {
				o, err := cl.PutCalendarObject(ctx, obj, calData(putUID))
				if err != nil {
					return "", err
				}
				return o.Path, nil
			},
		}, nil
	}
	cl, err := carddav.NewClient(hc, endpoint)
	if err != nil {
		return nil, err
	}
	paths := func(l []carddav.AddressObject) []string {
		out := []string{}
		for _, o := range l {
			out = append(out, o.Path)
		}
		return out
	}
	return &davClient{
		wd:            cl.Client,
		findPrincipal: cl.FindCurrentUserPrincipal,
		findHomeSet:   cl.FindAddressBookHomeSet,
		findColls: func(ctx context.Context, hs string) ([]string, error) {
			l, err := cl.FindAddressBooks(ctx, hs)
			out := []string{}
			for _, c := range l {
				out = append(out, c.Path)
			}
			return out, err
		},
		query: func(ctx context.Context, coll string) ([]string, error) {
			l, err := cl.QueryAddressBook(ctx, coll, &carddav.AddressBookQuery{DataRequest: carddav.AddressDataRequest{AllProp: true}})
			return paths(l), err
		},
		multiget: func(ctx context.Context, coll string, ps []string) ([]string, error) {
			l, err := cl.MultiGetAddressBook(ctx, coll, &carddav.AddressBookMultiGet{DataRequest: carddav.AddressDataRequest{AllProp: true}, Paths: ps})
			return paths(l), err
		},
		get: func(ctx context.Context, obj string) (string, error) {
			o, err := cl.GetAddressObject(ctx, obj)
			if err != nil {
				return "", err
			}
			return o.Path, nil
		},
		put: func(ctx context.Context, obj string) (string, error) {
			o, err := cl.PutAddressObject(ctx, obj, cardData(putUID))
			if err != nil {
				return "", err
			}
			return o.Path, nil
		},
	}, nil
}

func sameSet(a, b []string) bool {
	if len(a) != len(b) {
		return false
	}
	x := append([]string(nil), a...)
	y := append([]string(nil), b...)
	sort.Strings(x)
	sort.Strings(y)
	for i := range x {
		if x[i] != y[i] {
			return false
		}
	}
	return true
}

// execChain runs the client discovery chain of one "chain" case on a
// handler of its own.
func execChain(c *fw.Ctx, cs *Case) {
	if !cs.valid() {
		c.Inconclusive("C12: generated a case outside the domain")
		return
	}
	r := build(cs, "")
	ip := &doubles.InProc{Handler: r.h, Record: true}
	runChain(c, cs, r, ip, &http.Client{Transport: ip}, nil, true)
}

// runChain runs the chain cs describes for r's user through hc / ip. other,
// when set, is another user served by the same handler.
func runChain(c *fw.Ctx, cs *Case, r *rig, ip *doubles.InProc, hc *http.Client, other *rig, journal bool) {
	var entry string
	switch cs.Entry {
	case "well-known":
		entry = "/.well-known/" + cs.Server
	case "root":
		entry = cs.prefixPath()
	case "root-slash":
		entry = cs.prefixPath() + "/"
	case "principal":
		entry = r.principal
	}
	endpoint := "http://" + host
	if entry != "" {
		endpoint = rawURL(entry)
	}
	cl, err := newDavClient(cs.Server, hc, endpoint)
	if err != nil {
		c.Inconclusive(fmt.Sprintf("C12: cannot create client for %q: %v", endpoint, err))
		return
	}
	ctx := context.Background()
	if journal {
		c.Journal(cs)
		defer c.JournalDone()
	}
	multi := ""
	if r.session != nil {
		multi = "multi-user,"
	}
	var leaks []string
	// phase / after: set while the same client is being reused after an
	// unrelated call (reused-client family).
	phase, after := "", ""
	wire := func() []string {
		var l []string
		leaks = nil
		for _, e := range ip.Exchanges() {
			if other != nil {
				leaks = append(leaks, other.exposureTo(&observed{status: e.Status, hdr: e.RespHdr, body: e.RespBody}, e.Path)...)
			}
			ln := fmt.Sprintf("%s %s -> %d", e.Method, e.Target, e.Status)
			if loc := e.RespHdr.Get("Location"); loc != "" {
				ln += fmt.Sprintf(" Location: %q", loc)
			}
			l = append(l, ln)
		}
		return l
	}
	// step runs one client call, compares its result with the backend's
	// paths and (optionally) the backend call it must have caused.
	step := func(name, about string, want []string, needOp, needPath string, f func() ([]string, error)) {
		// The client drops the trailing slash of its endpoint path (path.Join),
		// so starting at a principal the backend spells with a trailing slash
		// asks for the other spelling: whether that is shown is left open.
		open := name == "principal" && cs.Entry == "principal" && cs.Layout.PSlash
		var got []string
		var err error
		r.calls()
		panicked, pv, stack := fw.Guard(func() { got, err = f() })
		calls := r.calls()
		w := wire()
		c.Eval(1)
		cls := nameClass(about)
		keyBase := fmt.Sprintf("%s|chain:%s|%s%sentry=%s,names=%s|", cs.Server, name, multi, phase, entryClass(name, cs.Entry), cls)
		wit := func() map[string]interface{} {
			m := map[string]interface{}{"case": cs, "session": r.session, "user": r.user, "step": name, "endpoint": endpoint, "argument": fmt.Sprintf("%q", about),
				"want": fmt.Sprintf("%q", want), "got": fmt.Sprintf("%q", got), "err": fw.ErrString(err), "wire": w, "backend_calls": callList(calls)}
			if after != "" {
				m["same_client_used_before_for"] = after
			}
			return m
		}
		ok := true
		switch {
		case open && !panicked:
			c.Observe("chain_open_cases", fmt.Sprintf("%s|entry=principal, backend spells it with trailing slash|err=%v", cs.Server, err != nil), 1)
			return
		case panicked:
			ok = false
			c.Report(keyBase+"panic:"+fw.PanicSite(stack), fmt.Sprintf("client %s panicked: %v", name, pv), wit())
		case err != nil:
			ok = false
			c.Report(keyBase+"error", fmt.Sprintf("discovery step %s failed although the backend holds the resource: %v", name, err), wit())
		case !sameSet(got, want):
			ok = false
			c.Report(keyBase+"paths-differ", fmt.Sprintf("discovery step %s returned %q, backend paths are %q", name, got, want), wit())
		}
		if len(leaks) > 0 {
			ok = false
			c.Report(keyBase+"exposes-another-user", fmt.Sprintf("responses to user %s during discovery step %s show resources of user %s: %q", r.user, name, other.user, leaks), wit())
		}
		if needOp != "" && !panicked {
			var an []anomaly
			requireOp(calls, needOp, needPath, &an)
			for _, a := range an {
				ok = false
				c.Report(keyBase+a.kind, a.what, wit())
			}
		}
		res := "ok"
		if !ok {
			res = "deviates"
		}
		if phase != "" {
			c.Observe("reused_client_steps", fmt.Sprintf("%s|%s|after %s|%s", cs.Server, name, strings.SplitN(after, " ", 2)[0], res), 1)
			c.Distinct(fmt.Sprintf("chain-reused|%s|%s|%s|%s|p%d|%v|%v%v%v|%s", cs.Server, name, cs.Entry, strings.SplitN(after, " ", 2)[0], len(cs.Prefix), cs.PrefixSlash,
				cs.Layout.PSlash, cs.Layout.HSlash, cs.Layout.CSlash, cls))
			return
		}
		c.Observe("chain_steps", fmt.Sprintf("%s|%s|entry=%s|%s", cs.Server, name, cs.Entry, res), 1)
		if len(cs.Layout.Shared) > 0 && name == "collections" {
			c.Observe("chain_collections_outside_home_set", fmt.Sprintf("%s|%s", cs.Server, res), 1)
		}
		if r.session != nil {
			c.Observe("multi_user_chain_steps", fmt.Sprintf("%s|user %s|%s|%s", cs.Server, r.user, name, res), 1)
		}
		c.Observe("chain_name_class", fmt.Sprintf("%s|%s|%s", name, cls, res), 1)
		c.Distinct(fmt.Sprintf("chain|%s|%s|%s|p%d|%v|%v%v%v|%s|%s", cs.Server, name, cs.Entry, len(cs.Prefix), cs.PrefixSlash,
			cs.Layout.PSlash, cs.Layout.HSlash, cs.Layout.CSlash, cls, multi))
		if c.WantSample() && name == "collections" && len(cs.Prefix) >= 2 && cls != "plain" {
			c.Sample(wit())
		}
	}
	one := func(f func() (string, error)) func() ([]string, error) {
		return func() ([]string, error) {
			s, err := f()
			if err != nil {
				return nil, err
			}
			return []string{s}, nil
		}
	}

	step("principal", r.principal, []string{r.principal}, "CUP", "", one(func() (string, error) { return cl.findPrincipal(ctx) }))
	// Every later step starts from the backend's own path, so that each link
	// of the chain is judged independently of the previous one.
	step("home-set", r.principal, []string{r.hs}, "HSP", "", one(func() (string, error) { return cl.findHomeSet(ctx, r.principal) }))
	step("collections", r.hs, r.colls, "ListColl", "", func() ([]string, error) { return cl.findColls(ctx, r.hs) })
	for _, coll := range r.colls {
		coll := coll
		objs := r.objs[coll]
		if objs == nil {
			objs = []string{}
		}
		step("query", coll, objs, "QueryObj", coll, func() ([]string, error) { return cl.query(ctx, coll) })
		if len(objs) > 0 {
			step("multiget", coll, objs, "GetObj", objs[0], func() ([]string, error) { return cl.multiget(ctx, coll, objs) })
		}
		for _, o := range objs {
			o := o
			step("get", o, []string{o}, "GetObj", o, one(func() (string, error) { return cl.get(ctx, o) }))
		}
	}
	// Not part of the statement's chain: the path a PUT reports back. Observed only.
	newObj := joinNames(cs.prefixPath(), cs.Layout.User, cs.Layout.HS, cs.Layout.Colls[0].Name, cs.Layout.NewObj)
	var got string
	var perr error
	r.calls()
	if panicked, _, _ := fw.Guard(func() { got, perr = cl.put(ctx, newObj) }); !panicked {
		res := "same-path"
		if perr != nil {
			res = "error"
		} else if got != newObj {
			res = "different-path"
		}
		c.Observe("put_reported_path(observed only)", fmt.Sprintf("%s|names=%s|%s", cs.Server, nameClass(newObj), res), 1)
	}
	r.calls()
	wire()
	if cs.ReuseSeed == 0 {
		return
	}

	// Reused-client family: the statement's chain is a property of the client
	// object, not of its first use. The SAME client now serves unrelated calls
	// to absolute paths (methods of the embedded webdav.Client; their own
	// results are not judged), and the discovery steps are repeated: they must
	// still return exactly the backend's paths.
	obj0 := r.objs[r.colls[0]][0]
	coll0 := r.colls[0]
	coll0Other := strings.TrimSuffix(coll0, "/")
	if coll0Other == coll0 {
		coll0Other += "/"
	}
	foreignPrincipal := joinNames(cs.prefixPath(), cs.Layout.OtherUser)
	type disturbance struct {
		name string
		f    func()
	}
	dists := []disturbance{
		{"Stat (an object)", func() { cl.wd.Stat(ctx, obj0) }},
		{"Stat (a missing object)", func() { cl.wd.Stat(ctx, newObj) }},
		{"Stat (a foreign principal path)", func() { cl.wd.Stat(ctx, foreignPrincipal) }},
		{"ReadDir (a collection)", func() { cl.wd.ReadDir(ctx, coll0, false) }},
		{"ReadDir (a collection, other trailing-slash spelling)", func() { cl.wd.ReadDir(ctx, coll0Other, false) }},
		{"ReadDir (the home set, recursive)", func() { cl.wd.ReadDir(ctx, r.hs, true) }},
		{"Open (an object)", func() {
			if rc, err := cl.wd.Open(ctx, obj0); err == nil {
				io.Copy(ioutil.Discard, rc)
				rc.Close()
			}
		}},
		// the backend double records a deletion and keeps its layout
		{"RemoveAll (a missing object)", func() { cl.wd.RemoveAll(ctx, newObj) }},
		{"GetObject (an object)", func() { cl.get(ctx, obj0) }},
	}
	rnd := rand.New(rand.NewSource(cs.ReuseSeed))
	phase = "reused-client,"
	for n, i := range rnd.Perm(len(dists)) {
		if n == 4 {
			break
		}
		d := dists[i]
		panicked, pv, stack := fw.Guard(d.f)
		r.calls()
		w := wire()
		if panicked {
			c.Report(fmt.Sprintf("%s|chain:reused-client|panic:%s", cs.Server, fw.PanicSite(stack)), fmt.Sprintf("client call %s panicked: %v", d.name, pv),
				map[string]interface{}{"case": cs, "session": r.session, "call": d.name, "wire": w})
			return
		}
		after = d.name
		step("principal", r.principal, []string{r.principal}, "CUP", "", one(func() (string, error) { return cl.findPrincipal(ctx) }))
		if n == 3 {
			step("home-set", r.principal, []string{r.hs}, "HSP", "", one(func() (string, error) { return cl.findHomeSet(ctx, r.principal) }))
			step("collections", r.hs, r.colls, "ListColl", "", func() ([]string, error) { return cl.findColls(ctx, r.hs) })
			step("get", obj0, []string{obj0}, "GetObj", obj0, one(func() (string, error) { return cl.get(ctx, obj0) }))
		}
	}
}

// entryClass: only the first step depends on where the client starts.
func entryClass(step, entry string) string {
	if step == "principal" {
		return entry
	}
	return "any"
}

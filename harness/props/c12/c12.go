package c12

import (
	"encoding/json"
	"fmt"
	"math/rand"
	"strings"
	"unicode"

	"github.com/emersion/go-webdav/verifharness/doubles"
	"github.com/emersion/go-webdav/verifharness/fw"
)

// ---- fixed name sets of the structural product ----------------------------

type nameSet struct {
	id     string
	prefix []Name // up to 3 segments
	lay    Layout // names only; slash style and collection count come from the layout style
	shared []Shared
}

var nameSets = []nameSet{
	{"plain", []Name{"dav", "v1", "x"}, Layout{
		User: "alice", HS: "calendars", OtherUser: "alice2", OtherHS: "contacts", NewColl: "newcoll", NewObj: "new.ics", Deeper: "deeper",
		Colls: []Coll{{"work", []Name{"ev1.ics", "ev2.ics"}}, {"home", nil}, {"work2", []Name{"a"}}}},
		[]Shared{{"other-user", "team", []Name{"t1.ics"}}, {"sibling", "family", nil}, {"other-both", "board", []Name{"b"}}}},
	{"hostile", []Name{"d v", "50%", "ü.日"}, Layout{
		User: "al ice@ex.org", HS: "c%61l?", OtherUser: "bo#b", OtherHS: "...", NewColl: "n&w <c>", NewObj: "né w%2F.ics", Deeper: ".d",
		Colls: []Coll{{"w#rk;1", []Name{"e?1 .ics", "%zz"}}, {"h\tme", nil}, {"😀", []Name{"a+b=c"}}}},
		[]Shared{{"sibling", "sh ared%", []Name{"o?"}}, {"other-user", "té#m", []Name{"x y"}}, {"other-both", "&;=", nil}}},
	// The other user and the other home set differ from the own ones in
	// letter case only (paths are case-sensitive: they are other resources).
	{"case", []Name{"Dav", "dav", "DAV"}, Layout{
		User: "alice", HS: "Calendars", OtherUser: "Alice", OtherHS: "calendars", NewColl: "Work", NewObj: "EV1.ics", Deeper: "deeper",
		Colls: []Coll{{"work", []Name{"ev1.ics", "Ev1.ics"}}, {"WORK", nil}, {"wOrk", []Name{"a"}}}},
		[]Shared{{"other-user", "Team", []Name{"ev1.ics"}}, {"sibling", "team", nil}, {"other-both", "TEAM", []Name{"a"}}}},
	// Every segment is the same string: the arithmetic may not confuse the
	// prefix with what lies below it.
	{"repeat", []Name{"a", "a", "a"}, Layout{
		User: "a", HS: "a", OtherUser: "aa", OtherHS: "a.", NewColl: "a a", NewObj: "a'", Deeper: "a",
		Colls: []Coll{{"a", []Name{"a", "a.a"}}, {"a%", nil}, {"a;", []Name{"a"}}}},
		[]Shared{{"other-both", "aa", []Name{"a"}}, {"other-user", "a=", nil}, {"sibling", "a~", []Name{"a", "aa"}}}},
}

// layout styles: how the backend spells its paths and how many collections.
type layStyle struct {
	id                     string
	pslash, hslash, cslash bool
	ncoll                  int
	nshared                int // collections of the user's listing that live outside the home set
}

// The first nFull styles get every request form; the styles after them only
// the forms with teeth (lightForms), and the cells of their own.
const nFull = 3

var layStyles = []layStyle{
	{"slashes", true, true, true, 2, 0},
	{"no-slashes", false, false, false, 1, 0},
	{"mixed", true, false, true, 3, 0},
	{"elsewhere", false, true, true, 2, 3},
}

func mkLayout(ns *nameSet, st *layStyle) Layout {
	l := ns.lay
	l.Colls = append([]Coll(nil), ns.lay.Colls[:st.ncoll]...)
	l.Shared = append([]Shared(nil), ns.shared[:st.nshared]...)
	l.PSlash, l.HSlash, l.CSlash = st.pslash, st.hslash, st.cslash
	return l
}

type cell struct {
	level  int
	target string
}

var cells = []cell{
	{0, "own"},
	{1, "own"}, {1, "foreign"},
	{2, "own"}, {2, "foreign"}, {2, "foreign-user"},
	{3, "own"}, {3, "missing"},
	{4, "own"}, {4, "missing"},
	{5, "own"},
}

// sharedCells exist in layouts with collections outside the home set.
var sharedCells = []cell{{3, "shared"}, {4, "shared"}}

type reqForm struct{ method, form, depth string }

// lightForms: the rows with teeth, for the layout styles after the full ones.
func lightForms() []reqForm {
	l := []reqForm{{"MKCOL", "empty", ""}, {"DELETE", "", ""}, {"GET", "", ""}, {"PUT", "none", ""}, {"OPTIONS", "", ""}, {"REPORT", "query", ""}, {"REPORT", "multiget", ""}}
	for _, f := range []string{"allprop", "prop"} {
		for _, d := range []string{"0", "1", "infinity"} {
			l = append(l, reqForm{"PROPFIND", f, d})
		}
	}
	return l
}

// oddForms are the request forms repeated under non-canonical spellings of
// the request path (judgeOdd has rules for them).
var oddForms = []reqForm{
	{"MKCOL", "empty", ""}, {"PROPFIND", "prop", "1"}, {"DELETE", "", ""}, {"MKCALENDAR", "body", ""},
}

func reqForms() []reqForm {
	l := []reqForm{
		{"OPTIONS", "", ""}, {"GET", "", ""}, {"HEAD", "", ""},
		{"PUT", "none", ""}, {"PUT", "if-match", ""}, {"PUT", "if-none-match", ""},
		{"DELETE", "", ""}, {"MKCOL", "empty", ""}, {"MKCOL", "body", ""},
		{"REPORT", "query", ""}, {"REPORT", "multiget", ""},
		{"PROPPATCH", "", ""}, {"COPY", "", ""}, {"MOVE", "", ""}, {"FROB", "", ""}, {"POST", "", ""},
	}
	for _, f := range []string{"allprop", "prop", "nobody"} {
		for _, d := range []string{"", "0", "1", "infinity"} {
			l = append(l, reqForm{"PROPFIND", f, d})
		}
	}
	return l
}

// respelledForms are the request forms repeated under alternative escapings
// of the request target.
var respelledForms = []reqForm{
	{"PROPFIND", "prop", "1"}, {"PROPFIND", "allprop", "0"}, {"MKCOL", "empty", ""}, {"DELETE", "", ""}, {"GET", "", ""}, {"REPORT", "query", ""},
}

// reshapedForms are the request forms repeated under every other presentation
// of the request body (doubles.BodyShapes): the ones whose handling starts
// with "is there a body?" or that decode one.
var reshapedForms = []reqForm{
	{"MKCOL", "empty", ""}, {"MKCOL", "body", ""}, {"PUT", "none", ""}, {"PROPFIND", "nobody", "1"}, {"PROPFIND", "prop", "0"},
	{"REPORT", "query", ""}, {"REPORT", "multiget", ""}, {"DELETE", "", ""},
}

// openMethods makes the method axis open: tokens the handlers have no case
// for today (WebDAV/CalDAV/CardDAV extension methods, other HTTP methods,
// lower-case spellings, made-up tokens). They are judged by their effect on
// the backend, never by their status.
var openMethods = []string{
	"MKCALENDAR", "MKADDRESSBOOK", "MKACTIVITY", "MKWORKSPACE", "MKREDIRECTREF", "MKRESOURCE", "MKCOLLECTION",
	"BIND", "UNBIND", "REBIND", "LINK", "UNLINK", "PATCH", "POST", "LOCK", "UNLOCK", "ACL", "SEARCH", "ORDERPATCH",
	"UPDATE", "CHECKIN", "CHECKOUT", "UNCHECKOUT", "VERSION-CONTROL", "BASELINE-CONTROL", "LABEL", "MERGE", "TRACE", "PURGE", "QUERY",
	"mkcol", "mkcalendar", "Mkcol", "propfind", "report", "get", "options", "X-WHATEVER", "M-SEARCH", "CREATE", "NEW",
}

func openForms() []reqForm {
	var l []reqForm
	for _, m := range openMethods {
		l = append(l, reqForm{m, "empty", ""})
		if len(m) > 2 && (m[:2] == "MK" || m[:2] == "mk" || m[:2] == "Mk") || m == "POST" || m == "CREATE" {
			l = append(l, reqForm{m, "body", ""})
		}
	}
	return l
}

var entries = []string{"well-known", "root", "root-slash", "principal"}

// ---- random names ---------------------------------------------------------

var namePool = []string{
	"dav", "a b", "50%", "%41", "%2F", "%", "%zz", "\u00fcn\u00ef\u00b7c\u00f6d\u00e9", "\u65e5\u672c\u8a9e", "...", ".hidden", "a.b.", "x?y", "?", "h#sh", "#",
	"a+b&c=d", "semi;colon", "q'\"<>&", "back\\slash", "colon:x", "~tilde", " lead", "trail ", "a%2Fb", "tab\tx", "nl\nx", "cr\rx",
	"\x7f", "\x01", "@at", "{br}", "[x]", "|", "^", "`", "\u00e9", "e\u0301", "\U0001F600", "a\u200bb", "\u202eabc", "\xff\xfe", "a\xc3", "*", "$", "!",
	"(1)", ",", "=", "&amp;", "<x>", "]]>", "..a", "a..", ". .", "-", "_", "0", "CON", "index.html", ".well-known", "caldav", "carddav",
}

var nameAlphabet = []string{
	"a", "b", "z", "A", "0", "9", " ", "%", ".", ".", "-", "_", "~", "?", "#", "&", "+", "=", ";", ":", "@", "'", "\"", "<", ">", "\\",
	"!", "$", "*", "(", ")", ",", "[", "]", "{", "}", "|", "^", "`", "\u00e9", "\u65e5", "\U0001F600", "\u200b", "\u0301", "\t", "\n", "\x7f", "\xff", "%2", "%2F", "%00",
}

func randName(r *rand.Rand) Name {
	for {
		var n Name
		if r.Intn(2) == 0 {
			n = Name(namePool[r.Intn(len(namePool))])
		} else {
			k := 1 + r.Intn(6)
			s := ""
			for i := 0; i < k; i++ {
				s += nameAlphabet[r.Intn(len(nameAlphabet))]
			}
			n = Name(s)
		}
		if okName(n) {
			return n
		}
	}
}

func distinctNames(r *rand.Rand, k int) []Name {
	seen := map[Name]bool{}
	var l []Name
	for len(l) < k {
		n := randName(r)
		if r.Intn(6) == 0 && len(l) > 0 {
			// a sibling that extends an existing name (string-prefix relation between segments)
			n = l[r.Intn(len(l))] + n
		}
		if !seen[n] && okName(n) {
			seen[n] = true
			l = append(l, n)
		}
	}
	return l
}

// swapCase changes the case of every letter that has another case.
func swapCase(s string) string {
	rs := []rune(s)
	for i, c := range rs {
		switch {
		case unicode.IsUpper(c):
			rs[i] = unicode.ToLower(c)
		case unicode.IsLower(c):
			rs[i] = unicode.ToUpper(c)
		}
	}
	return string(rs)
}

func randCase(r *rand.Rand) Case {
	cs := Case{Server: []string{"caldav", "carddav"}[r.Intn(2)], PrefixSlash: r.Intn(2) == 0}
	for i, n := 0, r.Intn(4); i < n; i++ {
		cs.Prefix = append(cs.Prefix, randName(r))
	}
	l := &cs.Layout
	us := distinctNames(r, 2)
	l.User, l.OtherUser = us[0], us[1]
	if r.Intn(6) == 0 && len(cs.Prefix) > 0 {
		// the user is called like a prefix segment
		if n := cs.Prefix[r.Intn(len(cs.Prefix))]; n != l.OtherUser {
			l.User = n
		}
	}
	hs := distinctNames(r, 2)
	l.HS, l.OtherHS = hs[0], hs[1]
	// now and then the foreign names are the own ones in another letter case
	if sw := swapCase(string(l.User)); r.Intn(5) == 0 && sw != string(l.User) && okName(Name(sw)) {
		l.OtherUser = Name(sw)
	}
	if sw := swapCase(string(l.HS)); r.Intn(5) == 0 && sw != string(l.HS) && okName(Name(sw)) {
		l.OtherHS = Name(sw)
	}
	ncoll := 1 + r.Intn(3)
	cn := distinctNames(r, ncoll+1)
	l.NewColl = cn[ncoll]
	for i := 0; i < ncoll; i++ {
		nobj := r.Intn(3)
		if i == 0 {
			nobj = 1 + r.Intn(2)
		}
		on := distinctNames(r, nobj+1)
		if i == 0 {
			l.NewObj = on[nobj]
		}
		l.Colls = append(l.Colls, Coll{Name: cn[i], Objs: on[:nobj]})
	}
	if l.NewObj == "" {
		l.NewObj = "new"
	}
	if r.Intn(4) == 0 {
		// collections of the user's listing that live outside the home set
		used := map[Name]bool{l.NewColl: true}
		for _, c := range l.Colls {
			used[c.Name] = true
		}
		for i, n := 0, 1+r.Intn(2); i < n; i++ {
			sh := Shared{Where: sharedWheres[r.Intn(len(sharedWheres))], Name: randName(r)}
			for used[sh.Name] {
				sh.Name += randName(r)
			}
			used[sh.Name] = true
			for _, o := range distinctNames(r, r.Intn(3)) {
				if o != l.NewObj {
					sh.Objs = append(sh.Objs, o)
				}
			}
			if i == 0 && len(sh.Objs) == 0 {
				sh.Objs = []Name{l.NewObj + "1"}
			}
			l.Shared = append(l.Shared, sh)
		}
	}
	l.Deeper = randName(r)
	l.PSlash, l.HSlash, l.CSlash = r.Intn(2) == 0, r.Intn(2) == 0, r.Intn(2) == 0
	if r.Intn(60) == 0 {
		cs.Kind = "multi"
		cs.StepSeed = 1 + r.Int63n(1<<40)
		return cs
	}
	if r.Intn(5) == 0 {
		cs.Kind = "chain"
		cs.Entry = entries[r.Intn(len(entries))]
		if r.Intn(4) == 0 {
			cs.ReuseSeed = 1 + r.Int63n(1<<40)
		}
		return cs
	}
	cs.Kind = "req"
	forms := reqForms()
	f := forms[r.Intn(len(forms))]
	if r.Intn(3) == 0 {
		// bias towards the rows with teeth
		f = []reqForm{{"PROPFIND", "allprop", "1"}, {"PROPFIND", "prop", "0"}, {"MKCOL", "empty", ""}, {"DELETE", "", ""}, {"PUT", "if-match", ""}, {"GET", "", ""}}[r.Intn(6)]
	}
	if r.Intn(5) == 0 {
		of := openForms()
		f = of[r.Intn(len(of))]
	}
	cs.Method, cs.Form, cs.Depth = f.method, f.form, f.depth
	cl := cells[r.Intn(len(cells))]
	cs.Level, cs.Target = cl.level, cl.target
	if cs.Level == 5 {
		cs.Level += r.Intn(3)
	}
	if len(l.Shared) > 0 && r.Intn(4) == 0 {
		cs.Level, cs.Target = 3+r.Intn(2), "shared"
	}
	cs.Slash = r.Intn(2) == 0
	if r.Intn(3) == 0 {
		cs.Spelling = spellings[r.Intn(len(spellings))]
	} else if r.Intn(5) == 0 {
		cs.Odd, cs.OddAt = oddKinds[r.Intn(len(oddKinds))], r.Intn(len(cs.Prefix)+cs.Level+1)
		if r.Intn(2) == 0 {
			of := oddForms[r.Intn(len(oddForms))]
			cs.Method, cs.Form, cs.Depth = of.method, of.form, of.depth
		}
	}
	if r.Intn(4) == 0 {
		cs.Shape = doubles.BodyShapes[r.Intn(len(doubles.BodyShapes))]
	}
	return cs
}

func execCase(c *fw.Ctx, cs *Case) {
	switch cs.Kind {
	case "chain":
		execChain(c, cs)
	case "multi":
		execMulti(c, cs)
	default:
		execReq(c, cs)
	}
}

func run(c *fw.Ctx) {
	idx := 0
	forms := reqForms()
	nStruct, nChain, nSpell, nMulti, nOpen, nShape, nOdd := 0, 0, 0, 0, 0, 0, 0
	oforms := openForms()
	lforms := lightForms()
	// Structural product, enumerated completely in both tiers.
	for _, server := range []string{"caldav", "carddav"} {
		for nsi := range nameSets {
			ns := &nameSets[nsi]
			for plen := 0; plen <= 3; plen++ {
				for _, pslash := range []bool{false, true} {
					for sti := range layStyles {
						base := Case{Server: server, Prefix: append([]Name(nil), ns.prefix[:plen]...), PrefixSlash: pslash, Layout: mkLayout(ns, &layStyles[sti])}
						for _, e := range entries {
							if c.Mine(idx) {
								cs := base
								cs.Kind, cs.Entry = "chain", e
								// every chain goes on to reuse its client
								cs.ReuseSeed = int64(nChain + 1)
								execChain(c, &cs)
							}
							idx++
							nChain++
						}
						myCells, myForms := cells, forms
						if sti >= nFull {
							myCells, myForms = append(append([]cell(nil), cells...), sharedCells...), lforms
						}
						for _, cl := range myCells {
							// Non-canonical spellings of the request path: one
							// redundant piece at every position of the path, one
							// layout style per (name set, prefix).
							if sti == (nsi+plen+1)%len(layStyles) {
								for _, f := range oddForms {
									for _, kind := range oddKinds {
										for at := 0; at <= plen+cl.level; at++ {
											if c.Mine(idx) {
												cs := base
												cs.Kind, cs.Method, cs.Form, cs.Depth = "req", f.method, f.form, f.depth
												cs.Level, cs.Target, cs.Slash = cl.level, cl.target, (at+cl.level)%2 == 0
												cs.Odd, cs.OddAt = kind, at
												execReq(c, &cs)
											}
											idx++
											nOdd++
										}
									}
								}
							}
							for _, slash := range []bool{false, true} {
								if cl.level == 0 && plen == 0 && !slash {
									continue // the empty prefix's root has one spelling, "/"
								}
								for _, f := range myForms {
									if c.Mine(idx) {
										cs := base
										cs.Kind, cs.Method, cs.Form, cs.Depth = "req", f.method, f.form, f.depth
										cs.Level, cs.Target, cs.Slash = cl.level, cl.target, slash
										execReq(c, &cs)
									}
									idx++
									nStruct++
								}
								if sti == (nsi+plen+2)%nFull {
									// the open method axis, one layout style per (name set, prefix)
									for _, f := range oforms {
										if c.Mine(idx) {
											cs := base
											cs.Kind, cs.Method, cs.Form = "req", f.method, f.form
											cs.Level, cs.Target, cs.Slash = cl.level, cl.target, slash
											execReq(c, &cs)
										}
										idx++
										nOpen++
									}
								}
								// The same decoded path under equivalent escapings of
								// the request target, for the rows with teeth.
								if (cl.level == 0 && plen == 0) || sti != (nsi+plen+1)%nFull {
									continue // "/" has no other spelling; the backend's layout style does not matter here: one per (name set, prefix)
								}
								for _, f := range respelledForms {
									for _, sp := range spellings {
										if c.Mine(idx) {
											cs := base
											cs.Kind, cs.Method, cs.Form, cs.Depth = "req", f.method, f.form, f.depth
											cs.Level, cs.Target, cs.Slash, cs.Spelling = cl.level, cl.target, slash, sp
											execReq(c, &cs)
										}
										idx++
										nSpell++
									}
								}
								// ... and under every other presentation of the request body.
								for _, f := range reshapedForms {
									for _, sh := range doubles.BodyShapes {
										if c.Mine(idx) {
											cs := base
											cs.Kind, cs.Method, cs.Form, cs.Depth = "req", f.method, f.form, f.depth
											cs.Level, cs.Target, cs.Slash, cs.Shape = cl.level, cl.target, slash, sh
											execReq(c, &cs)
										}
										idx++
										nShape++
									}
								}
							}
						}
						// One handler serving two users; one layout style per
						// (name set, prefix) so that all styles are met.
						if sti == (nsi+plen)%len(layStyles) {
							if c.Mine(idx) {
								cs := base
								cs.Kind = "multi"
								execMulti(c, &cs)
							}
							idx++
							nMulti++
						}
					}
				}
			}
		}
	}
	c.Note("exhaustive_part", fmt.Sprintf("structural product enumerated completely: 2 servers x %d name sets (plain, hostile, all-segments-equal) x prefix of 0..3 segments x 2 spellings of Handler.Prefix x %d backend layout styles "+
		"x {%d (level,target) cells x 2 trailing-slash spellings x %d request forms (16 methods/variants + PROPFIND 3 bodies x 4 Depth values) = %d requests; %d client discovery chains from 4 entry points}; "+
		"%d requests repeat the rows with teeth (%d request forms) under 3 equivalent escapings of the request target (every byte %%XX upper-case, every byte %%xx lower-case, first byte of each segment escaped + sub-delims raw); "+
		"%d multi-user sessions (one handler, two users from the request context: chains and %d requests alternating A,B, then the same concurrently); "+
		"%d requests of the open method axis (%d further method tokens, %d forms counting those repeated with a creation-style body, every cell, one layout style per name set and prefix); "+
		"%d requests repeat %d body-sensitive request forms under the 4 other presentations of the request body (unknown length, one byte per Read with (0, nil) for a zero-length Read, (0, nil) before every delivery, last bytes together with io.EOF); "+
		"the last layout style (collections of the user's listing outside the home set: in another user's tree, next to the home set, both) gets %d request forms and %d more cells (such a collection and its first object); "+
		"every discovery chain goes on to reuse its client (4 of 9 unrelated calls to absolute paths, the principal step after each, the other steps at the end); "+
		"%d requests spell the path non-canonically (%d request forms x {empty segment, '.', 'x/..'} x every position of the path, every cell, one layout style per name set and prefix)",
		len(nameSets), len(layStyles), len(cells), len(forms), nStruct, nChain, nSpell, len(respelledForms), nMulti, len(sessionSteps(&Case{})), nOpen, len(openMethods), len(oforms), nShape, len(reshapedForms),
		len(lforms), len(sharedCells), nOdd, len(oddForms)))

	// Random names and random cells on top.
	n := c.Pick(40000, 600000)
	for i := 0; i < n; i++ {
		if !c.Mine(i) {
			continue
		}
		cs := randCase(c.Rand("c12", i))
		csB := cs
		csB.Layout = layoutB(cs.Layout)
		if !cs.valid() || (cs.Kind == "multi" && !csB.valid()) {
			c.Observe("random_cases", "skipped: outside the domain (well-known collision)", 1)
			continue
		}
		c.Observe("random_cases", cs.Kind, 1)
		execCase(c, &cs)
	}
}

// post makes a run that did not reach every judged cell of the table, or in
// which a link of the discovery chain never succeeded, inconclusive.
func post(m *fw.Merged) {
	checked := map[string]bool{}
	for k := range m.Obs["cells_checked"] {
		// server|method|level|relation
		n := 0
		for i := 0; i < len(k); i++ {
			if k[i] == '|' {
				n++
				if n == 3 {
					checked[k[:i]] = true
					break
				}
			}
		}
	}
	var missing []string
	need := func(server, method string, levels ...int) {
		for _, l := range levels {
			if k := fmt.Sprintf("%s|%s|L%d", server, method, l); !checked[k] {
				missing = append(missing, k)
			}
		}
	}
	for _, s := range []string{"caldav", "carddav"} {
		need(s, "PROPFIND", 0, 1, 2, 3, 4, 5)
		need(s, "MKCOL", 0, 1, 2, 3, 4, 5)
		need(s, "GET", 4)
		need(s, "HEAD", 4)
		need(s, "OPTIONS", 4)
		need(s, "PUT", 4)
		need(s, "DELETE", 4)
		need(s, "REPORT", 3)
		for _, om := range openMethods {
			need(s, om, 0, 1, 2, 3, 4, 5)
		}
		for _, st := range []string{"principal", "home-set", "collections", "query", "multiget", "get"} {
			for _, e := range entries {
				if m.Obs["chain_steps"][fmt.Sprintf("%s|%s|entry=%s|ok", s, st, e)] == 0 {
					missing = append(missing, fmt.Sprintf("chain %s|%s|entry=%s never succeeded", s, st, e))
				}
			}
		}
	}
	need("carddav", "DELETE", 0, 1, 2, 3, 5)
	for _, s := range []string{"caldav", "carddav"} {
		for _, u := range []string{"A", "B"} {
			for l := 0; l <= 5; l++ {
				if k := fmt.Sprintf("%s|user %s|PROPFIND|L%d", s, u, l); m.Obs["multi_user_requests(judged cells)"][k] == 0 {
					missing = append(missing, "multi-user "+k)
				}
			}
			if k := fmt.Sprintf("%s|user %s|principal|ok", s, u); m.Obs["multi_user_chain_steps"][k] == 0 {
				missing = append(missing, "multi-user chain "+k)
			}
		}
		for _, ph := range []string{"sequential phase", "concurrent phase"} {
			if m.Obs["multi_user_sessions"][s+"|"+ph] == 0 {
				missing = append(missing, "multi-user "+s+" "+ph)
			}
		}
	}
	for _, sp := range spellings {
		if m.Obs["request_target_spelling(judged cells)"][sp] == 0 {
			missing = append(missing, "request-target spelling "+sp)
		}
	}
	for _, s := range []string{"caldav", "carddav"} {
		for _, meth := range []string{"MKCOL", "PROPFIND", "DELETE", "MKCALENDAR"} {
			for _, kind := range oddKinds {
				for _, where := range []string{"inside the prefix part", "between prefix and first segment", "below the prefix", "after the last segment"} {
					if k := fmt.Sprintf("%s|%s|%s|%s", s, meth, kind, where); m.Obs["odd_path_requests(judged)"][k] == 0 {
						missing = append(missing, "odd path spelling "+k)
					}
				}
			}
		}
		for _, st := range []string{"principal", "home-set", "collections", "get"} {
			n := int64(0)
			for k, v := range m.Obs["reused_client_steps"] {
				if strings.HasPrefix(k, s+"|"+st+"|") && strings.HasSuffix(k, "|ok") {
					n += v
				}
			}
			if n == 0 {
				missing = append(missing, "reused client: "+s+" "+st+" never succeeded")
			}
		}
		if m.Obs["chain_collections_outside_home_set"][s+"|ok"] == 0 {
			missing = append(missing, "chain with collections outside the home set: "+s+" never succeeded")
		}
		for _, l := range []string{"L3", "L4"} {
			if k := fmt.Sprintf("%s|PROPFIND|%s|shared-exact", s, l); m.Obs["cells_checked"][k] == 0 {
				missing = append(missing, k)
			}
		}
	}
	if len(missing) > 0 {
		m.Inconclusive = append(m.Inconclusive, fmt.Sprintf("C12: judged cells / chain links never observed: %v", missing))
	}
}

func init() {
	fw.Register(&fw.Property{
		ID:  "C12",
		Run: run,
		Replay: func(c *fw.Ctx, w json.RawMessage) {
			var wit struct {
				Case    *Case `json:"case"`
				Session *Case `json:"session"`
			}
			if json.Unmarshal(w, &wit) != nil {
				return
			}
			if wit.Session != nil {
				execCase(c, wit.Session)
			} else if wit.Case != nil {
				execCase(c, wit.Case)
			}
		},
		Rule: "The real caldav.Handler / carddav.Handler run over a recording backend double whose layout (principal, home set, collections, objects) is placed below the mount prefix. " +
			"Structural product (enumerated completely, both tiers): server x 4 fixed name sets (plain, hostile, all-equal segments, foreign names differing from the own ones in letter case only) x prefix of 0..3 segments x both spellings of Handler.Prefix x 3 layout styles x (level 0..5, own/foreign/missing target) x trailing-slash spelling x every request form; " +
			"plus the client discovery chain (FindCurrentUserPrincipal, Find*HomeSet, Find*s, Query*, MultiGet*, Get*Object) over net/http's client and an in-process transport from 4 entry points (well-known URI, prefix root in both spellings, principal). " +
			"The rows with teeth are repeated under three equivalent escapings of the request target (the decoded path is identical; RFC 3986 6.2.2). " +
			"Open method axis: every cell is also sent under further method tokens (MKCALENDAR, MKADDRESSBOOK, MKACTIVITY, BIND, LINK, PATCH, POST, LOCK, ACL, SEARCH, lower-case spellings, made-up tokens, with and without a creation-style body) and judged by backend effect only: whatever the status, the backend is asked to create a collection only by a request at collection depth and for the request path; other mutations must belong to the level addressed. This creation rule holds for every method except MKCOL (own row) and COPY/MOVE (left open). " +
			"Multi-user family: ONE handler whose backend takes the user from the request context serves users A and B alternately, then concurrently (requests and discovery chains); every request is judged for its own user, and nothing of the other user may show. " +
			"Layouts with collections outside the home set: a fourth layout style (and one random layout in four) lets the backend list, for the user, collections that live in another user's tree, next to the home set, or both (shared / delegated collections; they sit at collection depth like any other): the chain must return them, the home-set listing must carry them, and they and their objects are cells of their own. " +
			"Reused-client family: every structural chain (one random chain in four) goes on to use the SAME client object for 4 of 9 unrelated calls to absolute paths (Stat, ReadDir, Open, RemoveAll of the embedded webdav.Client, GetObject) and repeats the principal step after each, the other steps at the end: still exactly the backend's paths. " +
			"Odd-path family: 4 request forms are repeated with one redundant piece (empty segment, '.', 'x/..') at every position of the request path, the prefix part included. 'Depth below the prefix' has two readings for such a path (depth of the cleaned path; depth of the literal path, which may also not start with the prefix at all): a behaviour is accepted when either reading allows it, and reported when both exclude it - a collection created at collection depth under neither reading (MKCOL there: 403 and no mutation), a mutation that belongs to neither reading's level, a path argument not byte-identical to the request path, resources of the user shown for a foreign principal / home-set path or below object depth. " +
			"Random part: seeded random hostile segment names (spaces, %, ?, #, unicode, dots, controls, invalid UTF-8), random layouts and random cells (levels up to 7). " +
			"Oracle: DESIGN.md appendix C (level -> backend operation, path argument byte-identical to the request path); cells the table leaves open are executed and tabulated but not judged. " +
			"evaluations = requests + client calls judged or tabulated; distinct_nontrivial = distinct (server, method, level, request form, Depth, target relation, slash spellings, prefix length, layout style, name class) of judged cells and chain steps.",
		Assumptions: []string{
			"the level -> operation table is applied to requests that lie below the prefix and are spelt canonically: no empty, '.' or '..' segments, no '/' inside a segment (a prefix that is only a string-prefix of the first segment is outside the domain)",
			"non-canonical spellings (odd-path family): required lookups, hrefs and statuses of the table are not demanded; only what both readings of 'depth below the prefix' exclude is reported. What a PROPFIND of an own principal / home set in an odd spelling shows is left open, as is everything about a path that does not start with the prefix literally - except that no collection may be created there and MKCOL answers 403",
			"reused-client family: the results (and errors) of the unrelated calls themselves are not judged, only panics; the backend double records a deletion and keeps its layout",
			"multi-user family: only user A has collections outside the home set (the same placement rule for B could name the same path, one resource of two users)",
			"no layout path coincides with /.well-known/caldav|carddav (reserved by RFC 6764; the handlers answer it before routing)",
			"a principal / home-set path that differs from the backend's only by the trailing slash: the lookup must happen, whether the resource is shown is left open",
			"cells the table marks don't-care (PUT/GET/HEAD/OPTIONS/REPORT off their level, CalDAV DELETE off object level, PROPPATCH/COPY/MOVE/unknown methods everywhere) accept every behaviour; only panics are reported there",
			"CardDAV DELETE outside address-book/object level: any non-2xx status is accepted (the statement names 403 only for collection creation); 403 vs other is tabulated",
			"levels below object level: nothing of the user's resources may be shown and nothing mutated; status and read-only backend calls are left open",
			"the recording backend double answers lookups by exact path and accepts every mutation",
			"method tokens outside the table: every status is accepted; only backend effects are judged (an add-member style PutObj below a collection path is accepted at collection depth)",
			"multi-user family: a response may repeat the request path as an href even when that path belongs to the other user; any other href or content of the other user counts as exposure",
			"the path a PUT reports back to the client (Location) is tabulated, not judged (not part of the statement's chain)",
		},
		MinEvals:    func(t string) int64 { return 100000 },
		MinDistinct: func(t string) int64 { return 20000 },
		Post:        post,
	})
}

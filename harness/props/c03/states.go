package c03

import (
	"fmt"
	"io/ioutil"
	"net/http"
	"net/http/httptest"
	"os"
	"path/filepath"
	"strings"
	"syscall"

	"github.com/emersion/go-webdav"
	"github.com/emersion/go-webdav/verifharness/fw"
	"github.com/emersion/go-webdav/verifharness/mon"
)

// Two slices in which it is not the request string that is hostile but the
// state the request meets (the statement quantifies over every path "after
// arbitrary prior histories" and over the directory the server "was
// configured to serve"):
//
// missing root   The configured directory does not exist yet, nor do two of
//                its ancestors. Whatever is answered, nothing may appear
//                outside the configured directory - its missing ancestors are
//                outside.
//
// link histories The tree holds relative symbolic links with dot-dot targets
//                that resolve INSIDE the root. COPY / MOVE take them, or the
//                collections around them, to shallower and deeper places, and
//                the results are then read, written, listed and deleted. A
//                link whose target text is carried along verbatim points
//                outside from its new place; next to the root lie canaries
//                under exactly the names such links would reach.

type stateStep struct {
	Method    string `json:"method"`
	Path      string `json:"path"`
	Dest      string `json:"dest,omitempty"`
	Depth     string `json:"depth,omitempty"`
	Overwrite string `json:"overwrite,omitempty"`
}

func (s *sandbox) serveStep(c *fw.Ctx, h http.Handler, slice string, st stateStep, trace []stateStep) bool {
	ok, _ := s.serveStepRec(c, h, slice, st, trace)
	return ok
}

// serveStepRec is serveStep that also hands back the recorded answer (nil
// after a panic).
func (s *sandbox) serveStepRec(c *fw.Ctx, h http.Handler, slice string, st stateStep, trace []stateStep) (bool, *httptest.ResponseRecorder) {
	var req *http.Request
	if st.Method == "PUT" {
		req = httptest.NewRequest(st.Method, "http://dav.test"+st.Path, strings.NewReader("written by a later request"))
	} else {
		req = httptest.NewRequest(st.Method, "http://dav.test"+st.Path, nil)
	}
	if st.Dest != "" {
		req.Header.Set("Destination", st.Dest)
	}
	if st.Depth != "" {
		req.Header.Set("Depth", st.Depth)
	}
	if st.Overwrite != "" {
		req.Header.Set("Overwrite", st.Overwrite)
	}
	before := s.outside()
	rec := httptest.NewRecorder()
	c.Journal(map[string]interface{}{"slice": slice, "step": st, "trace": trace})
	panicked, pv, stack := fw.Guard(func() { h.ServeHTTP(rec, req) })
	c.JournalDone()
	c.Eval(1)
	if panicked {
		c.Report(slice+"|panic|"+fw.PanicSite(stack), fmt.Sprintf("handler panicked: %v", pv), map[string]interface{}{"slice": slice, "trace": trace})
		return false, nil
	}
	after := s.outside()
	c.Observe("state_slices", fmt.Sprintf("%s: %s -> %d", slice, st.Method, rec.Code), 1)
	ok := true
	// One defect, one key: everything that follows from a link which a MOVE
	// has carried to another depth with its target text unchanged.
	moved := strings.HasSuffix(slice, "first=MOVE")
	const movedKey = "|a later request leaves the root through the moved link"
	if d := mon.Diff(before, after, true); len(d) > 0 {
		ok = false
		k := fmt.Sprintf("%s|%s|outside-changed", slice, st.Method)
		if moved {
			k = slice + movedKey
		}
		c.Report(k,
			fmt.Sprintf("%s %s (Destination %q) changed something outside the served directory: %v", st.Method, st.Path, st.Dest, d),
			map[string]interface{}{"slice": slice, "trace": trace, "status": rec.Code, "diff": d})
	}
	hay := rec.Body.String()
	for k, vs := range rec.Header() {
		hay += "\n" + k + ": " + strings.Join(vs, ",")
	}
	for _, t := range s.tokens {
		if strings.HasPrefix(t, "CANARYDATA") && strings.Contains(hay, t) {
			ok = false
			k := fmt.Sprintf("%s|%s|canary-content-in-response", slice, st.Method)
			if moved {
				k = slice + movedKey
			}
			c.Report(k,
				fmt.Sprintf("%s %s returned the content of a file outside the root (%q)", st.Method, st.Path, t),
				map[string]interface{}{"slice": slice, "trace": trace, "status": rec.Code, "body": trunc(hay, 400)})
			break
		}
	}
	return ok, rec
}

func runMissingRoot(c *fw.Ctx) {
	if c.Shard != 0 {
		return
	}
	sb, err := newSandbox(filepath.Join(c.WorkDir, "c03-missing-root-q7x9z"))
	if err != nil {
		c.Inconclusive(err.Error())
		return
	}
	defer os.RemoveAll(sb.base)
	// the sandbox's own root exists; the configured one does not
	for vi, rel := range []string{"l1/l2/not-there/yet/" + rootName, "l1/not-there/" + rootName, "not-there/a/b/c/" + rootName} {
		configured := filepath.Join(sb.base, rel)
		for si, spelled := range []string{configured, configured + "/"} {
			h := &webdav.Handler{FileSystem: webdav.LocalFileSystem(spelled)}
			saved := sb.root
			sb.root = configured
			var trace []stateStep
			for _, st := range []stateStep{
				{Method: "OPTIONS", Path: "/"}, {Method: "PROPFIND", Path: "/", Depth: "1"}, {Method: "GET", Path: "/f.txt"},
				{Method: "PUT", Path: "/f.txt"}, {Method: "PUT", Path: "/d/f.txt"}, {Method: "MKCOL", Path: "/d"}, {Method: "MKCOL", Path: "/d/e"}, {Method: "MKCOL", Path: "/"},
				{Method: "DELETE", Path: "/f.txt"}, {Method: "DELETE", Path: "/"}, {Method: "COPY", Path: "/f.txt", Dest: "/g.txt"}, {Method: "MOVE", Path: "/d", Dest: "/e"},
				{Method: "PUT", Path: "/after.txt"}, {Method: "PROPFIND", Path: "/", Depth: "infinity"},
			} {
				trace = append(trace, st)
				sb.serveStep(c, h, fmt.Sprintf("missing-root/%d", vi), st, trace)
			}
			sb.root = saved
			c.Distinct(fmt.Sprintf("missing-root|%d|%d", vi, si))
			// whatever the requests left below the sandbox is removed again
			for _, top := range []string{"l1/l2/not-there", "l1/not-there", "not-there"} {
				os.RemoveAll(filepath.Join(sb.base, top))
			}
		}
	}
}

// Special members: the collections a request names hold members that cannot be
// read or copied - a Unix socket, a symbolic link that leads nowhere, one that
// leads to itself, a file without permissions. COPY, MOVE and DELETE meet them
// on their walk, with every kind of Destination (new, an existing collection,
// an existing file, nested) and every Overwrite / Depth header. Whatever is
// answered: nothing outside changes, and when the answer is a multi-status
// (RFC 4918 allows one that names the member that failed) its paths are judged
// like every other reported path.
var specialKinds = map[string]string{"/plain": "none", "/withsock": "socket", "/withlink": "dangling-link", "/withloop": "link-loop", "/withdeny": "no-permission",
	"/withlink/sub": "dangling-link", "/withsock/sub/zz.sock": "socket", "/withlink/sub/zz-dangling": "dangling-link"}

func (s *sandbox) buildSpecialTree() (skipped []string, err error) {
	os.RemoveAll(s.root)
	for _, d := range []string{"plain/sub", "withsock/sub", "withlink/sub", "withloop/sub", "withdeny/sub", "old/keep"} {
		if err := os.MkdirAll(filepath.Join(s.root, d), 0755); err != nil {
			return nil, err
		}
	}
	for _, f := range []string{"plain/a.txt", "plain/sub/b.txt", "withsock/a.txt", "withsock/sub/b.txt", "withlink/a.txt", "withlink/sub/b.txt", "withloop/a.txt", "withloop/sub/b.txt",
		"withdeny/a.txt", "withdeny/sub/b.txt", "old/keep/k", "oldfile.txt"} {
		if err := ioutil.WriteFile(filepath.Join(s.root, f), []byte("content of "+f), 0644); err != nil {
			return nil, err
		}
	}
	// the special members sort after their ordinary neighbours, so that a
	// walk has copied something before it meets them
	if err := syscall.Mknod(filepath.Join(s.root, "withsock/sub/zz.sock"), syscall.S_IFSOCK|0644, 0); err != nil {
		skipped = append(skipped, "socket: "+err.Error())
	}
	if err := os.Symlink("nowhere", filepath.Join(s.root, "withlink/sub/zz-dangling")); err != nil {
		skipped = append(skipped, "dangling-link: "+err.Error())
	}
	if err := os.Symlink("zz-loop", filepath.Join(s.root, "withloop/sub/zz-loop")); err != nil {
		skipped = append(skipped, "link-loop: "+err.Error())
	}
	if err := ioutil.WriteFile(filepath.Join(s.root, "withdeny/sub/zz-denied"), []byte("x"), 0); err != nil {
		skipped = append(skipped, "no-permission: "+err.Error())
	}
	return skipped, nil
}

func runSpecialMembers(c *fw.Ctx) {
	sb, err := newSandbox(filepath.Join(c.WorkDir, "c03-special-members-q7x9z"))
	if err != nil {
		c.Inconclusive(err.Error())
		return
	}
	defer os.RemoveAll(sb.base)
	h := &webdav.Handler{FileSystem: webdav.LocalFileSystem(sb.root)}
	sources := []string{"/plain", "/withsock", "/withlink", "/withloop", "/withdeny", "/withlink/sub", "/withsock/sub/zz.sock", "/withlink/sub/zz-dangling"}
	dests := [][2]string{{"/new", "new"}, {"/old", "existing-collection"}, {"/oldfile.txt", "existing-file"}, {"/old/keep", "nested-existing"}, {"/plain/sub/new", "nested-new"}}
	var steps []stateStep
	for _, src := range sources {
		for _, d := range dests {
			for _, ow := range []string{"", "T", "F"} {
				for _, depth := range []string{"", "infinity", "0"} {
					steps = append(steps, stateStep{Method: "COPY", Path: src, Dest: d[0], Overwrite: ow, Depth: depth})
				}
				steps = append(steps, stateStep{Method: "MOVE", Path: src, Dest: d[0], Overwrite: ow})
			}
		}
		steps = append(steps, stateStep{Method: "DELETE", Path: src})
	}
	// listings where no symbolic link is met (those are out of scope)
	for _, p := range []string{"/plain", "/withsock", "/withsock/sub/zz.sock", "/withdeny"} {
		for _, depth := range []string{"0", "1", "infinity"} {
			steps = append(steps, stateStep{Method: "PROPFIND", Path: p, Depth: depth})
		}
	}
	destKind := map[string]string{}
	for _, d := range dests {
		destKind[d[0]] = d[1]
	}
	for i, st := range steps {
		if !c.Mine(i) {
			continue
		}
		skipped, err := sb.buildSpecialTree()
		if err != nil {
			c.Inconclusive("special members: " + err.Error())
			return
		}
		for _, sk := range skipped {
			c.Observe("special-members", "could not be made: "+sk, 1)
		}
		slice := fmt.Sprintf("special-members|%s", specialKinds[st.Path])
		code := sb.specialStep(c, h, slice, st)
		if code == 0 {
			continue
		}
		c.Distinct(fmt.Sprintf("special-members|%s|%s|%s|ow=%s|depth=%s", st.Method, st.Path, destKind[st.Dest], st.Overwrite, st.Depth))
		c.Observe("special-members", fmt.Sprintf("%s %s -> %s: %d", st.Method, specialKinds[st.Path], destKind[st.Dest], code), 1)
	}
}

// specialStep serves one request of the special-members slice and judges it;
// it returns the status (0 after a panic).
func (s *sandbox) specialStep(c *fw.Ctx, h http.Handler, slice string, st stateStep) int {
	trace := []stateStep{st}
	_, rec := s.serveStepRec(c, h, slice, st, trace)
	if rec == nil {
		return 0
	}
	if rec.Code == 207 {
		scope := []string{st.Path}
		if st.Dest != "" {
			scope = append(scope, st.Dest)
		}
		s.checkHrefs(c, slice+"|"+st.Method, map[string]interface{}{"slice": slice, "trace": trace, "status": rec.Code, "body": trunc(rec.Body.String(), 600)},
			rec.Body.Bytes(), scope, true, false, inProcSender(h))
	}
	return rec.Code
}

func (s *sandbox) replaySpecialMembers(c *fw.Ctx, slice string, trace []stateStep) {
	if _, err := s.buildSpecialTree(); err != nil {
		fmt.Println("special members:", err)
		return
	}
	h := &webdav.Handler{FileSystem: webdav.LocalFileSystem(s.root)}
	for _, st := range trace {
		fmt.Printf("step %+v -> status %d\n", st, s.specialStep(c, h, slice, st))
	}
}

// buildLinkHistoryTree: links with dot-dot targets that stay inside the root.
func (s *sandbox) buildLinkHistoryTree() error {
	os.RemoveAll(s.root)
	for _, d := range []string{"docs", "a/b", "a/c", "deep/er/est", "flat"} {
		if err := os.MkdirAll(filepath.Join(s.root, d), 0755); err != nil {
			return err
		}
	}
	for f, data := range map[string]string{"shared.txt": "inside shared", "notes.txt": "inside notes", "a/side.txt": "inside side", "a/c/leaf.txt": "leaf", "deep/er/top.txt": "inside top"} {
		if err := ioutil.WriteFile(filepath.Join(s.root, f), []byte(data), 0644); err != nil {
			return err
		}
	}
	for _, l := range [][2]string{
		{"docs/current", "../shared.txt"}, {"a/b/notes", "../../notes.txt"}, {"a/b/side", "../side.txt"}, {"a/b/up", ".."}, {"a/b/cdir", "../c"},
		{"deep/er/est/top", "../top.txt"}, {"deep/er/est/root-notes", "../../../notes.txt"}, {"docs/a-dir", "../a"},
	} {
		if err := os.Symlink(l[1], filepath.Join(s.root, l[0])); err != nil {
			return err
		}
	}
	return nil
}

func runLinkHistories(c *fw.Ctx) {
	sb, err := newSandbox(filepath.Join(c.WorkDir, "c03-link-histories-q7x9z"))
	if err != nil {
		c.Inconclusive(err.Error())
		return
	}
	defer os.RemoveAll(sb.base)
	// canaries under the names the links would reach from a shallower place
	for rel, content := range map[string]string{
		"l1/l2/shared.txt": "CANARYDATA-l2-shared-91ab", "l1/l2/notes.txt": "CANARYDATA-l2-notes-22cd", "l1/notes.txt": "CANARYDATA-l1-notes-73ef", "notes.txt": "CANARYDATA-base-notes-04aa",
		"l1/l2/side.txt": "CANARYDATA-l2-side-5b5b", "l1/l2/top.txt": "CANARYDATA-l2-top-6c6c", "l1/l2/c/leaf.txt": "CANARYDATA-l2-c-leaf-7d7d", "l1/l2/a/side.txt": "CANARYDATA-l2-a-side-8e8e",
		"l1/side.txt": "CANARYDATA-l1-side-9f9f", "l1/top.txt": "CANARYDATA-l1-top-a0a0",
	} {
		p := filepath.Join(sb.base, rel)
		os.MkdirAll(filepath.Dir(p), 0755)
		if err := ioutil.WriteFile(p, []byte(content), 0644); err != nil {
			c.Inconclusive(err.Error())
			return
		}
		sb.canaries[rel] = content
		sb.tokens = append(sb.tokens, content)
	}
	h := &webdav.Handler{FileSystem: webdav.LocalFileSystem(sb.root)}
	sources := []string{"/docs/current", "/a/b/notes", "/a/b/side", "/a/b/up", "/a/b/cdir", "/deep/er/est/top", "/deep/er/est/root-notes", "/docs/a-dir",
		"/docs", "/a/b", "/a", "/deep/er/est", "/deep/er", "/deep"}
	dests := []string{"/moved", "/flat/moved", "/deep/er/est/moved", "/a/c/moved"}
	idx := 0
	for _, m := range []string{"COPY", "MOVE"} {
		for _, src := range sources {
			for _, dst := range dests {
				for _, depth := range []string{"", "0"} {
					if depth == "0" && m == "MOVE" {
						continue
					}
					idx++
					if !c.Mine(idx) {
						continue
					}
					if strings.HasPrefix(dst, src+"/") {
						continue // into itself: refused, nothing to follow up
					}
					if err := sb.buildLinkHistoryTree(); err != nil {
						c.Inconclusive("link histories: " + err.Error())
						return
					}
					trace := []stateStep{{Method: m, Path: src, Dest: dst, Depth: depth}}
					slice := "link-history|first=" + m
					if !sb.serveStep(c, h, slice, trace[0], trace) {
						continue
					}
					c.Distinct(fmt.Sprintf("link-history|%s|%s|%s|%s", m, src, dst, depth))
					// use what the request left at the destination: the entry
					// itself and everything a link there could name
					var follow []stateStep
					for _, sub := range []string{"", "/current", "/notes", "/side", "/up", "/cdir", "/cdir/leaf.txt", "/top", "/root-notes", "/a-dir", "/a-dir/side.txt",
						"/b/notes", "/b/side", "/b/up", "/b/cdir/leaf.txt", "/est/top", "/est/root-notes", "/er/est/top", "/er/est/root-notes", "/up/side.txt", "/b/up/side.txt"} {
						p := dst + sub
						follow = append(follow, stateStep{Method: "GET", Path: p}, stateStep{Method: "PROPFIND", Path: p, Depth: "1"}, stateStep{Method: "PUT", Path: p},
							stateStep{Method: "PUT", Path: p + "/draft.txt"}, stateStep{Method: "MKCOL", Path: p + "/newdir"})
					}
					follow = append(follow, stateStep{Method: "PROPFIND", Path: dst, Depth: "infinity"}, stateStep{Method: "COPY", Path: dst, Dest: "/again"},
						stateStep{Method: "GET", Path: "/again"}, stateStep{Method: "DELETE", Path: dst})
					for _, st := range follow {
						trace = append(trace, st)
						if !sb.serveStep(c, h, slice, st, trace) {
							break
						}
					}
				}
			}
		}
	}
}

package c03

import (
	"path"
	"regexp"
	"strconv"
	"strings"
)

// splitByMarkers joins unfinished/resumed lines and groups the log's lines
// by the marker request that precedes them. A marker is the server's stat of
// <root>/__mark_<n>.
func splitByMarkers(log, root string) map[int][]string {
	pending := map[string]string{}
	var lines []string
	for _, ln := range strings.Split(log, "\n") {
		if ln == "" {
			continue
		}
		i := strings.IndexByte(ln, ' ')
		if i < 0 {
			continue
		}
		pid, rest := ln[:i], strings.TrimLeft(ln[i:], " ")
		switch {
		case strings.HasSuffix(rest, "<unfinished ...>"):
			pending[pid] = strings.TrimSuffix(rest, "<unfinished ...>")
		case strings.HasPrefix(rest, "<... "):
			if j := strings.Index(rest, " resumed>"); j >= 0 {
				lines = append(lines, pending[pid]+rest[j+len(" resumed>"):])
				delete(pending, pid)
			}
		default:
			lines = append(lines, rest)
		}
	}
	segs := map[int][]string{}
	cur := 0
	// (however the root is spelled in the server's configuration)
	markRe := regexp.MustCompile(`/__mark_(\d+)"`)
	for _, ln := range lines {
		if m := markRe.FindStringSubmatch(ln); m != nil {
			cur, _ = strconv.Atoi(m[1])
			continue
		}
		if strings.HasPrefix(ln, "---") || strings.HasPrefix(ln, "+++") {
			continue
		}
		segs[cur] = append(segs[cur], ln)
	}
	return segs
}

type violation struct{ kind, line, path string }

var quoted = regexp.MustCompile(`"((?:[^"\\]|\\.)*)"`)
var fdAnno = regexp.MustCompile(`(?:AT_FDCWD|\d+)<([^>]*)>`)

func unescapeStrace(s string) string {
	if !strings.Contains(s, `\`) {
		return s
	}
	if u, err := strconv.Unquote(`"` + s + `"`); err == nil {
		return u
	}
	return s
}

func mutating(line string) bool {
	name := line
	if i := strings.IndexByte(line, '('); i > 0 {
		name = line[:i]
	}
	switch name {
	case "unlink", "unlinkat", "rename", "renameat", "renameat2", "mkdir", "mkdirat", "rmdir", "link", "linkat", "symlink", "symlinkat",
		"truncate", "ftruncate", "chmod", "fchmodat", "chown", "fchownat", "lchown", "utimensat", "mknod", "mknodat", "creat", "setxattr", "removexattr":
		return true
	case "open", "openat", "openat2":
		return strings.Contains(line, "O_CREAT") || strings.Contains(line, "O_WRONLY") || strings.Contains(line, "O_RDWR") || strings.Contains(line, "O_TRUNC") || strings.Contains(line, "O_APPEND")
	}
	return false
}

func inside(p, root string) bool { return p == root || strings.HasPrefix(p, root+"/") }

// rootMutation reports whether the request addresses the root itself with a
// mutating method (its cleaned target or destination is "/"): the kernel
// then needs the root's parent directory.
func rootMutation(cs Case) bool {
	switch cs.Method {
	case "DELETE", "MOVE", "COPY", "MKCOL", "PUT":
		return true // decided per path below: only the root path itself and a read-only open of its parent are tolerated
	}
	return false
}

// inspect applies the three rules to the system calls of one case.
func inspect(lines []string, sb *sandbox, cs Case, cwd string) (out []violation, judged, unresolved int) {
	parent := path.Dir(sb.root)
	for _, ln := range lines {
		// collect candidate paths: quoted strings resolved against the
		// directory annotation that precedes them
		annos := fdAnno.FindAllStringSubmatchIndex(ln, -1)
		for _, m := range quoted.FindAllStringSubmatchIndex(ln, -1) {
			s := unescapeStrace(ln[m[2]:m[3]])
			if s == "" {
				continue
			}
			p := s
			if !strings.HasPrefix(p, "/") {
				dir := ""
				for _, a := range annos {
					if a[0] < m[0] {
						dir = ln[a[2]:a[3]]
					}
				}
				if dir == "" {
					unresolved++
					continue
				}
				p = dir + "/" + s
			}
			judged++
			p = path.Clean(p)
			mut := mutating(ln)
			switch {
			case inside(p, sb.root):
				continue
			case p == parent && !mut && rootMutation(cs) && strings.Contains(ln, "O_RDONLY"):
				// os.RemoveAll/Rename of the root itself opens its parent read-only
				continue
			case cwd != "" && p == path.Clean(cwd) && !mut && statCall(ln):
				// os.Getwd (behind filepath.Abs of a directory configured
				// relatively) looks at the process's own working directory;
				// no request decides that path
				continue
			case inside(p, sb.base):
				out = append(out, violation{"in-sandbox-outside-root", ln, p})
			case strings.Contains(p, tok):
				out = append(out, violation{"token-path-outside-root", ln, p})
			case mut:
				out = append(out, violation{"mutation-outside-root", ln, p})
			}
		}
		// a dirfd annotation pointing outside the root with a mutating call
		for _, a := range annos {
			d := path.Clean(ln[a[2]:a[3]])
			if strings.HasPrefix(ln[a[0]:a[1]], "AT_FDCWD") {
				continue
			}
			if !inside(d, sb.root) && inside(d, sb.base) && !(d == parent && rootMutation(cs)) {
				out = append(out, violation{"dirfd-outside-root", ln, d})
			}
		}
	}
	return out, judged, unresolved
}

// statCall reports whether the line is a call that only reads the metadata of
// the path it names.
func statCall(line string) bool {
	for _, c := range []string{"newfstatat(", "fstatat64(", "stat(", "lstat(", "statx(", "getcwd("} {
		if i := strings.Index(line, c); i >= 0 && i < 24 {
			return true
		}
	}
	return false
}

var _ = fwUnused

func fwUnused() {}

package c03

import (
	"bufio"
	"bytes"
	"fmt"
	"io/ioutil"
	"net"
	"net/http"
	"os"
	"os/exec"
	"path/filepath"
	"strings"
	"time"

	"github.com/emersion/go-webdav/verifharness/fw"
	"github.com/emersion/go-webdav/verifharness/mon"
)

// rawRequest writes one HTTP/1.1 request with the given raw request-target
// and headers and reads the whole reply (Connection: close).
func rawRequest(addr, method, target string, hdr [][2]string, body string) (result, error) {
	conn, err := net.DialTimeout("tcp", addr, 10*time.Second)
	if err != nil {
		return result{}, err
	}
	defer conn.Close()
	conn.SetDeadline(time.Now().Add(60 * time.Second))
	if _, err := conn.Write([]byte(rawRequestText(method, target, hdr, body))); err != nil {
		return result{NoReply: true}, nil
	}
	raw, _ := ioutil.ReadAll(conn)
	if len(raw) == 0 {
		return result{NoReply: true}, nil
	}
	resp, err := http.ReadResponse(bufio.NewReader(bytes.NewReader(raw)), &http.Request{Method: method})
	if err != nil {
		// not a parsable response: keep the raw bytes for the scan
		return result{Status: 0, Body: raw, NoReply: true}, nil
	}
	b, _ := ioutil.ReadAll(resp.Body)
	return result{Status: resp.StatusCode, Header: resp.Header, Body: b}, nil
}

// wireSender sends a reported href back, as it was reported, as the request
// target of a PROPFIND Depth 0 on a connection of its own.
func wireSender(addr string) sender {
	return func(raw, p string) (int, []byte, error) {
		if raw == "" || strings.ContainsAny(raw, " \t\r\n") {
			return 0, nil, fmt.Errorf("the href cannot stand in a request line as it is")
		}
		res, err := rawRequest(addr, "PROPFIND", raw, [][2]string{{"Depth", "0"}}, "")
		if err != nil {
			return 0, nil, fmt.Errorf("connection failed")
		}
		if res.NoReply {
			return 0, nil, fmt.Errorf("no reply")
		}
		return res.Status, res.Body, nil
	}
}

func straceUsable() bool {
	if _, err := exec.LookPath("strace"); err != nil {
		return false
	}
	out, err := exec.Command("strace", "-f", "-qq", "-e", "trace=%file", "-o", "/dev/null", "/bin/true").CombinedOutput()
	return err == nil && !bytes.Contains(out, []byte("Operation not permitted"))
}

// runWire sends raw request lines over TCP to a davserver child, traced by
// strace when ptrace is available.
func runWire(c *fw.Ctx) {
	bin := os.Getenv("VHARNESS_DAVSERVER")
	if bin == "" {
		c.Note("wire_channel", "skipped: davserver binary not provided (VHARNESS_DAVSERVER)")
		c.Inconclusive("wire channel unavailable: VHARNESS_DAVSERVER not set")
		return
	}
	sb, err := newSandbox(filepath.Join(c.WorkDir, "c03-wire-q7x9z"))
	if err != nil {
		c.Inconclusive(err.Error())
		return
	}
	defer os.RemoveAll(sb.base)
	sb.resetRoot("tree")
	traced := straceUsable()
	logPath := filepath.Join(c.WorkDir, "strace.log")
	// every server process of a run (one per shard) is configured with another
	// spelling of the same root; those that need the root as the working
	// directory are left to the in-process channel (the root is removed and
	// rebuilt between cases)
	wireSpellings := []string{"", "trailing-slash", "double-slash", "dot-segment", "detour-and-back", "relative", "relative-dot-slash"}
	spelling := wireSpellings[c.Shard%len(wireSpellings)]
	spelled, workdir := sb.spell(spelling)
	if workdir == "" {
		workdir = "/"
	}
	var cmd *exec.Cmd
	if traced {
		cmd = exec.Command("strace", "-f", "-y", "-qq", "-s", "4096",
			"-e", "trace=%file,unlinkat,renameat,renameat2,mkdirat,linkat,symlinkat,truncate,ftruncate,chdir,fchdir",
			"-o", logPath, bin, spelled)
	} else {
		cmd = exec.Command(bin, spelled)
		if c.Shard == 0 {
			c.Note("strace_monitor", "inconclusive: ptrace/strace not usable here; canary and response monitors decide")
		}
	}
	cmd.Dir = workdir
	out, _ := cmd.StdoutPipe()
	if err := cmd.Start(); err != nil {
		c.Inconclusive("cannot start davserver: " + err.Error())
		return
	}
	exited := make(chan struct{})
	go func() { cmd.Wait(); close(exited) }()
	defer func() {
		select {
		case <-exited:
		default:
			cmd.Process.Kill()
			<-exited
		}
	}()
	lineCh := make(chan string, 1)
	go func() {
		sc := bufio.NewScanner(out)
		if sc.Scan() {
			lineCh <- sc.Text()
		} else {
			lineCh <- ""
		}
	}()
	addr := ""
	select {
	case l := <-lineCh:
		addr = strings.TrimPrefix(l, "LISTEN ")
	case <-time.After(60 * time.Second):
	}
	if addr == "" {
		c.Inconclusive("davserver did not report its address")
		return
	}
	mark := func(n int) { rawRequest(addr, "GET", fmt.Sprintf("/__mark_%d", n), nil, "") }

	type done struct {
		idx int
		cs  Case
	}
	var executed []done
	cur := "tree"
	pristineSnap, _ := mon.Snapshot(sb.root)
	pristine := pristineSnap.Shape()
	n := 0
	for i, cs := range cases(c, true) {
		if !c.Mine(i) {
			continue
		}
		cs.Root = spelling
		if cur != cs.State {
			sb.resetRoot(cs.State)
			cur = cs.State
			s, _ := mon.Snapshot(sb.root)
			pristine = s.Shape()
		}
		before := sb.outside()
		n++
		mark(n)
		target, hdr, body := wireForm(cs)
		c.Journal(cs)
		res, err := rawRequest(addr, cs.Method, target, hdr, body)
		c.JournalDone()
		if err != nil {
			c.Inconclusive("wire request failed: " + err.Error())
			return
		}
		after := sb.outside()
		sb.check(c, cs, res, before, after, wireSender(addr))
		executed = append(executed, done{n, cs})
		if s, _ := mon.Snapshot(sb.root); s.Shape() != pristine {
			sb.resetRoot(cs.State)
		}
	}
	mark(n + 1)
	rawRequest(addr, "GET", "/__quit", nil, "")
	select {
	case <-exited:
	case <-time.After(30 * time.Second):
	}
	if !traced {
		return
	}
	b, err := ioutil.ReadFile(logPath)
	if err != nil {
		c.Inconclusive("cannot read strace log: " + err.Error())
		return
	}
	segs := splitByMarkers(string(b), sb.root)
	checked := 0
	for _, d := range executed {
		lines := segs[d.idx]
		c.Observe("strace", "syscalls-inspected", len(lines))
		checked++
		vs, judged, unresolved := inspect(lines, sb, d.cs, workdir)
		c.Observe("strace", "paths judged (root spelled: "+spelling+")", judged)
		if unresolved > 0 {
			c.Observe("strace", "relative strings without a directory annotation, not judged (root spelled: "+spelling+")", unresolved)
		}
		for _, v := range vs {
			c.Report(fmt.Sprintf("%s|%s|wire|%s|syscall-outside-root|%s", d.cs.Method, d.cs.Channel, d.cs.Form, v.kind),
				fmt.Sprintf("system call outside the served directory: %s", v.line),
				map[string]interface{}{"case": d.cs, "syscall": v.line, "path": v.path})
		}
	}
	c.Observe("strace", "cases-attributed", checked)
	if c.Shard == 0 {
		c.Note("strace_monitor", "active")
	}
	if checked > 0 {
		total := 0
		for _, l := range segs {
			total += len(l)
		}
		if total == 0 {
			c.Inconclusive("strace log holds no attributable system calls")
		}
	}
}

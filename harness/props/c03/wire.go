package c03

import (
	"bufio"
	"bytes"
	"fmt"
	"io/ioutil"
	"net"
	"net/http"
	"os"
	"os/exec"
	"path/filepath"
	"strings"
	"time"

	"github.com/emersion/go-webdav/verifharness/fw"
	"github.com/emersion/go-webdav/verifharness/mon"
)

// rawRequest writes one HTTP/1.1 request with the given raw request-target
// and headers and reads the whole reply (Connection: close).
func rawRequest(addr, method, target string, hdr [][2]string, body string) (result, error) {
	conn, err := net.DialTimeout("tcp", addr, 10*time.Second)
	if err != nil {
		return result{}, err
	}
	defer conn.Close()
	var sb strings.Builder
	fmt.Fprintf(&sb, "%s %s HTTP/1.1\r\nHost: dav.test\r\nConnection: close\r\n", method, target)
	for _, h := range hdr {
		fmt.Fprintf(&sb, "%s: %s\r\n", h[0], h[1])
	}
	fmt.Fprintf(&sb, "Content-Length: %d\r\n\r\n%s", len(body), body)
	conn.SetDeadline(time.Now().Add(60 * time.Second))
	if _, err := conn.Write([]byte(sb.String())); err != nil {
		return result{NoReply: true}, nil
	}
	raw, _ := ioutil.ReadAll(conn)
	if len(raw) == 0 {
		return result{NoReply: true}, nil
	}
	resp, err := http.ReadResponse(bufio.NewReader(bytes.NewReader(raw)), &http.Request{Method: method})
	if err != nil {
		// not a parsable response: keep the raw bytes for the scan
		return result{Status: 0, Body: raw, NoReply: true}, nil
	}
	b, _ := ioutil.ReadAll(resp.Body)
	return result{Status: resp.StatusCode, Header: resp.Header, Body: b}, nil
}

func straceUsable() bool {
	if _, err := exec.LookPath("strace"); err != nil {
		return false
	}
	out, err := exec.Command("strace", "-f", "-qq", "-e", "trace=%file", "-o", "/dev/null", "/bin/true").CombinedOutput()
	return err == nil && !bytes.Contains(out, []byte("Operation not permitted"))
}

// runWire sends raw request lines over TCP to a davserver child, traced by
// strace when ptrace is available.
func runWire(c *fw.Ctx) {
	bin := os.Getenv("VHARNESS_DAVSERVER")
	if bin == "" {
		c.Note("wire_channel", "skipped: davserver binary not provided (VHARNESS_DAVSERVER)")
		c.Inconclusive("wire channel unavailable: VHARNESS_DAVSERVER not set")
		return
	}
	sb, err := newSandbox(filepath.Join(c.WorkDir, "c03-wire-q7x9z"))
	if err != nil {
		c.Inconclusive(err.Error())
		return
	}
	defer os.RemoveAll(sb.base)
	sb.resetRoot("tree")
	traced := straceUsable()
	logPath := filepath.Join(c.WorkDir, "strace.log")
	var cmd *exec.Cmd
	if traced {
		cmd = exec.Command("strace", "-f", "-y", "-qq", "-s", "4096",
			"-e", "trace=%file,unlinkat,renameat,renameat2,mkdirat,linkat,symlinkat,truncate,ftruncate,chdir,fchdir",
			"-o", logPath, bin, sb.root)
	} else {
		cmd = exec.Command(bin, sb.root)
		if c.Shard == 0 {
			c.Note("strace_monitor", "inconclusive: ptrace/strace not usable here; canary and response monitors decide")
		}
	}
	cmd.Dir = "/"
	out, _ := cmd.StdoutPipe()
	if err := cmd.Start(); err != nil {
		c.Inconclusive("cannot start davserver: " + err.Error())
		return
	}
	exited := make(chan struct{})
	go func() { cmd.Wait(); close(exited) }()
	defer func() {
		select {
		case <-exited:
		default:
			cmd.Process.Kill()
			<-exited
		}
	}()
	lineCh := make(chan string, 1)
	go func() {
		sc := bufio.NewScanner(out)
		if sc.Scan() {
			lineCh <- sc.Text()
		} else {
			lineCh <- ""
		}
	}()
	addr := ""
	select {
	case l := <-lineCh:
		addr = strings.TrimPrefix(l, "LISTEN ")
	case <-time.After(60 * time.Second):
	}
	if addr == "" {
		c.Inconclusive("davserver did not report its address")
		return
	}
	mark := func(n int) { rawRequest(addr, "GET", fmt.Sprintf("/__mark_%d", n), nil, "") }

	type done struct {
		idx int
		cs  Case
	}
	var executed []done
	cur := "tree"
	pristineSnap, _ := mon.Snapshot(sb.root)
	pristine := pristineSnap.Shape()
	n := 0
	for i, cs := range cases(c, true) {
		if !c.Mine(i) {
			continue
		}
		if cur != cs.State {
			sb.resetRoot(cs.State)
			cur = cs.State
			s, _ := mon.Snapshot(sb.root)
			pristine = s.Shape()
		}
		before := sb.outside()
		n++
		mark(n)
		var hdr [][2]string
		target := cs.Str
		body := ""
		if cs.Method == "PUT" {
			body = "hostile upload"
		}
		if cs.Channel == "destination" {
			target = cs.Source
			hdr = append(hdr, [2]string{"Destination", cs.Str})
		} else if cs.Method == "COPY" || cs.Method == "MOVE" {
			hdr = append(hdr, [2]string{"Destination", "/copied-" + tok})
		}
		if cs.Depth != "" {
			hdr = append(hdr, [2]string{"Depth", cs.Depth})
		}
		c.Journal(cs)
		res, err := rawRequest(addr, cs.Method, target, hdr, body)
		c.JournalDone()
		if err != nil {
			c.Inconclusive("wire request failed: " + err.Error())
			return
		}
		after := sb.outside()
		sb.check(c, cs, res, before, after, nil)
		executed = append(executed, done{n, cs})
		if s, _ := mon.Snapshot(sb.root); s.Shape() != pristine {
			sb.resetRoot(cs.State)
		}
	}
	mark(n + 1)
	rawRequest(addr, "GET", "/__quit", nil, "")
	select {
	case <-exited:
	case <-time.After(30 * time.Second):
	}
	if !traced {
		return
	}
	b, err := ioutil.ReadFile(logPath)
	if err != nil {
		c.Inconclusive("cannot read strace log: " + err.Error())
		return
	}
	segs := splitByMarkers(string(b), sb.root)
	checked := 0
	for _, d := range executed {
		lines := segs[d.idx]
		c.Observe("strace", "syscalls-inspected", len(lines))
		checked++
		for _, v := range inspect(lines, sb, d.cs) {
			c.Report(fmt.Sprintf("%s|%s|wire|%s|syscall-outside-root|%s", d.cs.Method, d.cs.Channel, d.cs.Form, v.kind),
				fmt.Sprintf("system call outside the served directory: %s", v.line),
				map[string]interface{}{"case": d.cs, "syscall": v.line, "path": v.path})
		}
	}
	c.Observe("strace", "cases-attributed", checked)
	if c.Shard == 0 {
		c.Note("strace_monitor", "active")
	}
	if checked > 0 {
		total := 0
		for _, l := range segs {
			total += len(l)
		}
		if total == 0 {
			c.Inconclusive("strace log holds no attributable system calls")
		}
	}
}

// Package c03: the file server never touches anything outside the served
// directory. Three monitors: (1) system calls of a separate davserver process
// recorded by strace, (2) canary files around the root compared before and
// after every request, (3) response scan + href round trip.
package c03

import (
	"bufio"
	"encoding/json"
	"fmt"
	"io/ioutil"
	"math/rand"
	"net/http"
	"net/http/httptest"
	"net/url"
	"os"
	"path"
	"path/filepath"
	"strings"
	"time"

	"github.com/emersion/go-webdav"
	"github.com/emersion/go-webdav/verifharness/davx"
	"github.com/emersion/go-webdav/verifharness/fw"
	"github.com/emersion/go-webdav/verifharness/mon"
)

// Case is one hostile request.
type Case struct {
	Method string `json:"method"`
	// Channel: "target" (the hostile string is the request path) or
	// "destination" (it is the Destination header of a COPY/MOVE).
	Channel string `json:"channel"`
	// Wire: the string is raw request-line / header text sent over TCP;
	// otherwise it is the decoded URL path (target) or the header value
	// (destination) handed to the handler in-process.
	Wire   bool   `json:"wire"`
	Form   string `json:"form"`  // grammar class
	Str    string `json:"str"`   // the hostile string
	State  string `json:"state"` // pre-state of the root: "empty" | "tree"
	Depth  string `json:"depth,omitempty"`
	Source string `json:"source,omitempty"` // for channel=destination
	Root   string `json:"root,omitempty"`   // spelling of the configured root ("" = clean absolute path)
	// Parsed: Str is raw request-line / header text (as with Wire), but the
	// request is read by net/http's request reader in-process and handed to
	// the handler without a socket.
	Parsed bool `json:"parsed,omitempty"`
	// Body: "" = no body; otherwise the request carries a well-formed XML
	// body of its method with an XML Content-Type: "allprop" | "propname" |
	// "prop" (PROPFIND), "update" (PROPPATCH).
	Body      string `json:"body,omitempty"`
	Overwrite string `json:"overwrite,omitempty"` // Overwrite header of a COPY/MOVE ("" = absent)
	// Prior: the requests that were served since the pre-state was built and
	// changed it (the case meets what they left, not the pristine pre-state).
	Prior []Case `json:"prior,omitempty"`
}

// raw reports whether Str is request-line / header text rather than a decoded
// path.
func (cs Case) raw() bool { return cs.Wire || cs.Parsed }

func (cs Case) kind() string {
	switch {
	case cs.Wire:
		return "wire"
	case cs.Parsed:
		return "parsed"
	}
	return "inproc"
}

// xmlBody returns the well-formed request body of the given variant.
func xmlBody(variant string) string {
	const head = `<?xml version="1.0" encoding="utf-8"?>`
	switch variant {
	case "allprop":
		return head + `<D:propfind xmlns:D="DAV:"><D:allprop/></D:propfind>`
	case "propname":
		return head + `<D:propfind xmlns:D="DAV:"><D:propname/></D:propfind>`
	case "prop":
		return head + `<D:propfind xmlns:D="DAV:"><D:prop><D:resourcetype/><D:getcontentlength/><D:getetag/><D:displayname/><X:nosuch xmlns:X="urn:c03"/></D:prop></D:propfind>`
	case "update":
		return head + `<D:propertyupdate xmlns:D="DAV:" xmlns:X="urn:c03"><D:set><D:prop><X:colour>blue</X:colour><D:displayname>n</D:displayname></D:prop></D:set><D:remove><D:prop><X:stale/></D:prop></D:remove></D:propertyupdate>`
	}
	return ""
}

const xmlContentType = `application/xml; charset="utf-8"`

type sandbox struct {
	base     string // <workdir>/c03-…
	root     string // base/l1/l2/root-…
	canaries map[string]string
	tokens   []string // canary names and contents: must never appear in a response
}

const rootName = "served-root-k3j5h7"

func newSandbox(dir string) (*sandbox, error) {
	s := &sandbox{base: dir, root: filepath.Join(dir, "l1", "l2", rootName), canaries: map[string]string{}}
	if err := os.MkdirAll(s.root, 0755); err != nil {
		return nil, err
	}
	add := func(rel, content string) error {
		p := filepath.Join(dir, rel)
		os.MkdirAll(filepath.Dir(p), 0755)
		s.canaries[rel] = content
		s.tokens = append(s.tokens, content, filepath.Base(rel))
		return ioutil.WriteFile(p, []byte(content), 0644)
	}
	add("l1/l2/CANARYNAME-sibling.txt", "CANARYDATA-sibling-8f3a1c")
	add("l1/l2/CANARYNAME-sibdir/CANARYNAME-inner.txt", "CANARYDATA-inner-77b2e0")
	add("l1/CANARYNAME-up1.txt", "CANARYDATA-up1-5d9c44")
	add("CANARYNAME-up2.txt", "CANARYDATA-up2-e01b7a")
	add("l1/l2/"+rootName+"-evil/CANARYNAME-prefix.txt", "CANARYDATA-prefix-c4d2aa") // sibling sharing the root's name as prefix
	os.MkdirAll(filepath.Join(dir, "l1", "l2", "CANARYNAME-emptydir"), 0755)
	s.tokens = append(s.tokens, "CANARYNAME-emptydir")
	return s, nil
}

// resetRoot rebuilds the served directory in the given pre-state.
func (s *sandbox) resetRoot(state string) error {
	os.RemoveAll(s.root)
	if fi, err := os.Lstat(s.root); err == nil && !fi.IsDir() {
		os.Remove(s.root)
	}
	if err := os.MkdirAll(s.root, 0755); err != nil {
		return err
	}
	if state == "tree" {
		os.MkdirAll(filepath.Join(s.root, "sub", "deep"), 0755)
		ioutil.WriteFile(filepath.Join(s.root, "file.txt"), []byte("in-root file"), 0644)
		ioutil.WriteFile(filepath.Join(s.root, "sub", "inner.txt"), []byte("in-root inner"), 0644)
		ioutil.WriteFile(filepath.Join(s.root, "sub", "deep", "leaf"), []byte("leaf"), 0644)
		// names a sloppy path computation confuses with dot segments, at the
		// top level and below it; "profile" next to ".profile" makes a lost
		// dot address another existing resource
		os.MkdirAll(filepath.Join(s.root, ".cfg"), 0755)
		os.MkdirAll(filepath.Join(s.root, "sub", "..."), 0755)
		ioutil.WriteFile(filepath.Join(s.root, ".profile"), []byte("dot profile"), 0644)
		ioutil.WriteFile(filepath.Join(s.root, "profile"), []byte("plain profile!"), 0644)
		ioutil.WriteFile(filepath.Join(s.root, "..data"), []byte("dotdot data"), 0644)
		ioutil.WriteFile(filepath.Join(s.root, "..."), nil, 0644)
		ioutil.WriteFile(filepath.Join(s.root, ".cfg", "app.ini"), []byte("ini"), 0644)
		ioutil.WriteFile(filepath.Join(s.root, "sub", ".hidden"), []byte("hidden"), 0644)
		// names with code points that are valid UTF-8 but not XML characters
		// (an href writer that stops escaping them lets the XML layer alter them)
		ioutil.WriteFile(filepath.Join(s.root, "a\uFFFEb.txt"), []byte("fffe"), 0644)
		ioutil.WriteFile(filepath.Join(s.root, "sub", "\uFFFF"), []byte("ffff"), 0644)
		ioutil.WriteFile(filepath.Join(s.root, "sub", "caf\u00e9 \u4e2d\u6587 %41+~'()"), []byte("mixed"), 0644)
		ioutil.WriteFile(filepath.Join(s.root, "sub", "..."+"", "x"), []byte("x"), 0644)
		// a name whose bytes may travel raw in a request target although a
		// URL writer would escape them
		ioutil.WriteFile(filepath.Join(s.root, "sub", rawName), []byte("raw bytes name"), 0644)
	}
	return nil
}

// outside snapshots the sandbox without the served directory.
func (s *sandbox) outside() mon.Snap {
	snap, _ := mon.Snapshot(s.base)
	rel, _ := filepath.Rel(s.base, s.root)
	rel = filepath.ToSlash(rel)
	for k := range snap {
		if k == rel || strings.HasPrefix(k, rel+"/") {
			delete(snap, k)
		}
	}
	// directory mtimes of the root's parent change when the root itself is
	// removed/re-created by the harness; compare files strictly, directories
	// by existence only (mon.Diff ignores directory mtimes).
	return snap
}

// rootSpellings are the ways the same served directory can be configured;
// the property quantifies over the served directory, not over how its path
// was written down.
var rootSpellings = []string{"trailing-slash", "double-slash", "dot-segment", "detour-and-back", "relative", "relative-dot-slash", "dot", "dot-slash"}

// handler returns a handler serving the sandbox root configured in the given
// spelling, and a function that undoes the change of working directory the
// relative spellings need.
func (s *sandbox) handler(spelling string) (http.Handler, func()) {
	spelled, chdir := s.spell(spelling)
	undo := func() {}
	if chdir != "" {
		if cwd, err := os.Getwd(); err == nil && os.Chdir(chdir) == nil {
			undo = func() { os.Chdir(cwd) }
		} else {
			spelled = s.root
		}
	}
	return &webdav.Handler{FileSystem: webdav.LocalFileSystem(spelled)}, undo
}

// spell gives the configured root in the given spelling and the working
// directory a relative spelling needs ("" = any).
func (s *sandbox) spell(spelling string) (spelled, chdir string) {
	dir, base := filepath.Dir(s.root), filepath.Base(s.root)
	spelled = s.root
	switch spelling {
	case "trailing-slash":
		spelled = s.root + "/"
	case "double-slash":
		spelled = dir + "//" + base
	case "dot-segment":
		spelled = dir + "/./" + base
	case "detour-and-back":
		spelled = dir + "/CANARYNAME-emptydir/../" + base
	case "relative":
		spelled, chdir = base, dir
	case "relative-dot-slash":
		spelled, chdir = "./"+base+"/", dir
	case "dot":
		spelled, chdir = ".", s.root
	case "dot-slash":
		spelled, chdir = "./", s.root
	}
	return spelled, chdir
}

const tok = "zzTOKzz"

// rawName: every byte of it is accepted as it is in a request target by Go's
// request reader, and most of them are escaped when a URL is written.
const rawName = "q\"r|s^t{u}`v\u00e9.txt"

// forms enumerates the traversal grammar. Each entry is (class, string);
// strings are *decoded* paths when wire=false and raw request-line/header
// text when wire=true.
func forms(wire bool, r *rand.Rand, nRandom int) [][2]string {
	var l [][2]string
	add := func(class, s string) { l = append(l, [2]string{class, s}) }
	targets := []string{"CANARYNAME-sibling.txt", "CANARYNAME-sibdir/CANARYNAME-inner.txt", "CANARYNAME-sibdir", rootName + "-evil/CANARYNAME-prefix.txt", tok}
	ups := map[int][]string{1: targets, 2: {"CANARYNAME-up1.txt", "l2/CANARYNAME-sibling.txt", tok}, 3: {"CANARYNAME-up2.txt", "l1/CANARYNAME-up1.txt", tok}}
	for k := 1; k <= 12; k++ {
		ts := ups[k]
		if ts == nil {
			ts = []string{tok, "etc/passwd"}
		}
		for _, t := range ts {
			add(fmt.Sprintf("dotdot-x%d", min(k, 4)), "/"+strings.Repeat("../", k)+t)
			if k <= 3 {
				add("dotdot-after-existing-dir", "/sub/"+strings.Repeat("../", k+1)+t)
				add("dotdot-after-missing-dir", "/nonexistent/"+strings.Repeat("../", k+1)+t)
				add("dotdot-no-leading-slash", strings.Repeat("../", k)+t)
				add("dotdot-double-slash", "//"+strings.Repeat("..//", k)+t)
				add("dotdot-dot-mix", "/./"+strings.Repeat(".././", k)+t)
				if wire {
					add("pct-2e2e", "/"+strings.Repeat("%2e%2e/", k)+t)
					add("pct-2E2E-2F", "/"+strings.Repeat("%2E%2E%2F", k)+t)
					add("pct-dotdot-2f", "/"+strings.Repeat("..%2f", k)+t)
					add("pct-double-encoded", "/"+strings.Repeat("%252e%252e/", k)+t)
					add("pct-5c", "/"+strings.Repeat("..%5c", k)+t)
					add("absolute-url", "http://dav.test/"+strings.Repeat("../", k)+t)
					add("overlong-utf8", "/"+strings.Repeat("%c0%ae%c0%ae/", k)+t)
				} else {
					add("pct-literal-after-decoding", "/"+strings.Repeat("%2e%2e/", k)+t)
					add("overlong-utf8", "/"+strings.Repeat("\xc0\xae\xc0\xae/", k)+t)
				}
				add("backslash", "/"+strings.Repeat("..\\", k)+t)
				add("backslash-mixed", "/sub\\"+strings.Repeat("..\\../", k)+t)
			}
		}
	}
	for _, t := range []string{"/", "/sub", "/sub/", "/.cfg", "/sub/...", "/.profile", "/..data", "/..."} {
		add("plain", t)
	}
	for _, t := range []string{"/..", "/../", "/.", "/./", "//", "/sub/..", "/sub/../..", "/sub/../../", "/sub/./../..", "/file.txt/..", "/file.txt/../..", "/...", "/..../x" + tok, "/.. /" + tok, "/..;/" + tok, "/..%00/" + tok} {
		add("trailing-or-bare", t)
	}
	if wire {
		// Spellings of the request target of resources that exist: with a
		// query component, in absolute form, with bytes sent raw that a URL
		// writer escapes, with escapes a URL writer does not use. They name
		// the same resources as the plain spelling.
		for _, p := range []string{"/", "/sub", "/sub/", "/file.txt", "/sub/deep/", "/.cfg", "/sub/inner.txt"} {
			for _, q := range []string{"?", "?list", "?x=/../../" + tok, "?%2e%2e/%2e%2e/" + tok, "??", "?a=1&b=http://dav.test/sub"} {
				add("spelling-query", p+q)
			}
			add("spelling-absolute", "http://dav.test"+p)
			add("spelling-absolute", "http://dav.test:8080"+p+"?list")
			add("spelling-absolute", "HTTP://other.example"+p+"?")
		}
		for _, t := range []string{"/a\uFFFEb.txt", "/sub/\uFFFF", "/sub/" + rawName, "/sub/" + rawName + "?list", "/sub/./deep/../" + rawName, "http://dav.test/sub/" + rawName,
			"/sub/caf\u00e9%20\u4e2d\u6587%20%2541+~'()", "/sub/\u00e9/../"} {
			add("spelling-raw-bytes", t)
		}
		for _, t := range []string{"/%73ub", "/%73%75%62/", "/sub%2Finner.txt", "/%2E%63fg", "/sub%2f%2e%2e%2fsub/", "/file%2etxt", "/sub/%2e%2e%2e"} {
			add("spelling-escapes", t)
		}
		for _, t := range []string{"/%00" + tok, "/sub%00/../../" + tok, "/%2e%2e%00/" + tok, "*", "/" + tok + "?x=../../y", "/" + tok + "#/../..", "//dav.test/../" + tok, "http://dav.test", "http://dav.test:80/../../" + tok, "/\t../" + tok, "/%ff%fe/../../" + tok} {
			add("wire-special", t)
		}
	} else {
		for _, t := range []string{"", ".", "..", "sub", tok, "/\x00" + tok, "/sub\x00/../../" + tok, "\x00", "/../\x00", "/\xff\xfe/../../" + tok, "/" + tok + "\n/../..", "/\r\n" + tok} {
			add("inproc-special", t)
		}
	}
	alphabet := []string{"/", "/", "..", "..", ".", "%2e", "%2f", "%5c", "\\", "%00", "sub", "file.txt", tok, "CANARYNAME-sibling.txt", "l2", "l1", rootName, "%", "%zz", "é", "\xff", " ", ";", "?", "#", "%252e", "..;", "%2e%2e"}
	for i := 0; i < nRandom; i++ {
		n := 1 + r.Intn(10)
		var sb strings.Builder
		if r.Intn(6) != 0 {
			sb.WriteString("/")
		}
		for j := 0; j < n; j++ {
			sb.WriteString(alphabet[r.Intn(len(alphabet))])
			if r.Intn(2) == 0 {
				sb.WriteString("/")
			}
		}
		s := sb.String()
		if !wire {
			if u, err := url.PathUnescape(s); err == nil && r.Intn(2) == 0 {
				s = u
			}
		}
		if strings.ContainsAny(s, "\r\n") {
			continue
		}
		add("random", s)
	}
	return l
}

func min(a, b int) int {
	if a < b {
		return a
	}
	return b
}

// hostileSources are traversal spellings (valid as raw request targets and as
// decoded paths) of resources that exist in the "tree" pre-state.
var hostileSources = []string{"/../file.txt", "/sub/../../sub/", "//sub//deep/..", "/./file.txt", "/sub/deep/../../../../file.txt", "/../../../sub/./"}

var targetMethods = []string{"OPTIONS", "GET", "HEAD", "PUT", "DELETE", "MKCOL", "PROPFIND", "COPY", "MOVE", "PROPPATCH", "FOO"}

// cases builds the deterministic case list of one channel kind.
func cases(c *fw.Ctx, wire bool) []Case {
	r := c.Rand("c03-forms", map[bool]int{false: 0, true: 1}[wire])
	nRandom := c.Pick(150, 20000)
	if wire {
		nRandom = c.Pick(40, 2500)
	}
	fs := forms(wire, r, nRandom)
	var l []Case
	for fi, f := range fs {
		states := []string{"tree"}
		if fi%5 == 0 || c.Thorough() {
			states = []string{"tree", "empty"}
		}
		for _, st := range states {
			for _, m := range targetMethods {
				if wire && !c.Thorough() && f[0] != "wire-special" && fi%3 != 0 && (m == "OPTIONS" || m == "HEAD" || m == "FOO" || m == "PROPPATCH") {
					continue
				}
				cs := Case{Method: m, Channel: "target", Wire: wire, Form: f[0], Str: f[1], State: st}
				switch m {
				case "PROPFIND":
					// with and without a request body of the method's own
					cs.Depth = []string{"0", "1", "infinity"}[fi%3]
					cs.Body = []string{"", "allprop", "prop", "propname"}[(fi/3)%4]
				case "PROPPATCH":
					// a body the XML layer refuses (none) and one it accepts
					l = append(l, cs)
					cs.Body = "update"
				}
				l = append(l, cs)
			}
			for mi, m := range []string{"COPY", "MOVE"} {
				srcs := []string{"/file.txt", "/sub"}
				if fi%4 == 1 || c.Thorough() {
					// both channels hostile at once: a traversal spelling of
					// an existing source
					srcs = append(srcs, hostileSources[(fi/4)%len(hostileSources)])
				}
				for si, src := range srcs {
					if st == "empty" {
						continue
					}
					if !c.Thorough() && src == "/sub" && fi%2 == 0 {
						continue
					}
					cs := Case{Method: m, Channel: "destination", Wire: wire, Form: f[0], Str: f[1], State: st, Source: src}
					cs.Overwrite = []string{"", "T", "F"}[(fi+mi+si)%3]
					if m == "COPY" {
						cs.Depth = []string{"", "infinity", "0"}[(fi/3+si)%3]
					}
					l = append(l, cs)
				}
			}
		}
	}
	return l
}

type result struct {
	Status  int
	Header  http.Header
	Body    []byte
	NoReply bool
}

// unmappable reports whether a decoded request path cannot be mapped below
// the root (not absolute after cleaning, or containing NUL): such a request
// must be refused with 4xx.
func unmappable(p string) bool {
	return strings.Contains(p, "\x00") || !strings.HasPrefix(path.Clean(p), "/")
}

// requestPaths gives the decoded paths the request names: the request path
// and, for COPY/MOVE, the Destination path. ok is false where the string is
// one that net/http (request target) or a URL reader (Destination) does not
// accept at all; such a request has no path and must be refused.
func requestPaths(cs Case) (target string, targetOK bool, dest string, destOK bool, hasDest bool) {
	t := cs.Str
	if cs.Channel == "destination" {
		t = cs.Source
	}
	if cs.raw() {
		// the way a server reads a request target: an absolute-URL form
		// contributes its path
		if u, err := url.ParseRequestURI(t); err == nil {
			target, targetOK = u.Path, true
		}
	} else {
		target, targetOK = t, true
	}
	if cs.Method != "COPY" && cs.Method != "MOVE" {
		return
	}
	hasDest = true
	d := "/copied-" + tok
	if cs.Channel == "destination" {
		d = cs.Str
		if cs.raw() {
			d = strings.Trim(d, " \t") // header values arrive without surrounding blanks
		}
	}
	if u, err := url.Parse(d); err == nil && d != "" {
		dest, destOK = u.Path, true
	}
	return
}

// sender sends a path back as PROPFIND Depth 0: p is the decoded path, raw
// the href text as reported.
type sender func(raw, p string) (status int, body []byte, err error)

func (s *sandbox) check(c *fw.Ctx, cs Case, res result, before, after mon.Snap, send sender) {
	c.Eval(1)
	c.Observe("status", fmt.Sprintf("%s %d", cs.Method, res.Status), 1)
	chanKind := cs.kind()
	c.Observe("forms", fmt.Sprintf("%s|%s|%s", chanKind, cs.Channel, cs.Form), 1)
	c.Distinct(fmt.Sprintf("%s|%s|%s|%s|%s", chanKind, cs.Channel, cs.Form, cs.Method, cs.State))
	if cs.Body != "" {
		c.Observe("request-bodies", fmt.Sprintf("%s %s -> %d", cs.Method, cs.Body, res.Status), 1)
	}
	if cs.Channel == "destination" {
		c.Observe("destination-headers", fmt.Sprintf("%s overwrite=%q depth=%q -> %d", cs.Method, cs.Overwrite, cs.Depth, res.Status), 1)
	}
	keyBase := fmt.Sprintf("%s|%s|%s|%s", cs.Method, cs.Channel, chanKind, cs.Form)
	if cs.Root != "" {
		keyBase += "|root=" + cs.Root
		c.Observe("root-spellings", cs.Root, 1)
	}
	// (2) canaries
	if d := mon.Diff(before, after, true); len(d) > 0 {
		c.Report(keyBase+"|outside-changed", fmt.Sprintf("request changed something outside the served directory: %v", d),
			map[string]interface{}{"case": cs, "status": res.Status, "diff": d})
	}
	// (3) response scan
	hay := string(res.Body)
	for k, vs := range res.Header {
		hay += "\n" + k + ": " + strings.Join(vs, ",")
	}
	for _, t := range s.tokens {
		if !strings.Contains(hay, t) {
			continue
		}
		if strings.HasPrefix(t, "CANARYDATA") {
			c.Report(keyBase+"|canary-content-in-response", fmt.Sprintf("response contains the content of a file outside the root (%q)", t),
				map[string]interface{}{"case": cs, "status": res.Status, "body": trunc(hay, 600)})
			break
		}
		// a canary *name* may be echoed from the request itself (error texts);
		// it is a disclosure only when the request did not carry it
		if !strings.Contains(cs.Str, t) {
			c.Report(keyBase+"|canary-name-in-response", fmt.Sprintf("response names %q, which lives outside the root and was not part of the request", t),
				map[string]interface{}{"case": cs, "status": res.Status, "body": trunc(hay, 600)})
			break
		}
	}
	// unmappable paths must be refused, whatever the method and whatever else
	// the request carries. In-process the decoded path is known exactly; a raw
	// request target / header is decoded the way net/http and a URL reader
	// decode it (a target net/http does not accept is refused by net/http).
	target, targetOK, dest, destOK, hasDest := requestPaths(cs)
	refusalOwed := false
	if !res.NoReply {
		bad := !targetOK || unmappable(target)
		if cs.Channel == "destination" {
			bad = hasDest && (!destOK || unmappable(dest))
		}
		if cs.Wire && cs.Method == "OPTIONS" && cs.Str == "*" {
			bad = false // "OPTIONS *" addresses the server, not a path; net/http answers it itself
		}
		refusalOwed = bad
		if bad {
			c.Observe("unmappable", fmt.Sprintf("%s %d", chanKind, res.Status), 1)
			if res.Status < 400 || res.Status > 499 {
				c.Report(fmt.Sprintf("%s|%s|unmappable-path|status=%d", cs.Method, cs.Channel, res.Status),
					fmt.Sprintf("a path that cannot be mapped below the root was answered %d, not 4xx", res.Status),
					map[string]interface{}{"case": cs, "status": res.Status, "body": trunc(string(res.Body), 300)})
			}
		}
	}
	// hrefs: inside the namespace, inside what the request names, round trip
	// (an answer to a request that had to be refused is one finding, above)
	if res.Status == 207 && send != nil && !refusalOwed {
		var scope []string
		if targetOK {
			scope = append(scope, target)
		}
		if hasDest && destOK {
			scope = append(scope, dest)
		}
		s.checkHrefs(c, keyBase, map[string]interface{}{"case": cs}, res.Body, scope, targetOK && (!hasDest || destOK), cs.Body == "propname", send)
	}
}

// checkHrefs judges the paths a multi-status body reports: each is usable as
// a request path of the served namespace, names the resource the request
// names or a member of it (scope: the request path and the Destination path;
// scopeKnown is false when one of them could not be decoded), and - unless
// the entry reports a failure on that resource (DAV:status >= 400), which the
// resource need not have survived - addresses the same resource when sent
// back.
func (s *sandbox) checkHrefs(c *fw.Ctx, keyBase string, wit map[string]interface{}, body []byte, scope []string, scopeKnown bool, namesOnly bool, send sender) {
	with := func(kv ...interface{}) map[string]interface{} {
		m := map[string]interface{}{}
		for k, v := range wit {
			m[k] = v
		}
		for i := 0; i+1 < len(kv); i += 2 {
			m[kv[i].(string)] = kv[i+1]
		}
		return m
	}
	ms, err := davx.ReadMultiStatus(body)
	if err != nil {
		c.Report(keyBase+"|unreadable-multistatus", "multi-status not readable: "+err.Error(), with("body", trunc(string(body), 600)))
		return
	}
	seenHref := map[string]bool{}
	for i, r := range ms.Responses {
		for _, raw := range r.Hrefs {
			if seenHref[raw] {
				c.Report(keyBase+"|duplicate-href", fmt.Sprintf("href %q is reported for two resources of one answer", raw), with("href", raw))
			}
			seenHref[raw] = true
		}
		if i >= 40 {
			break
		}
		for _, raw := range r.Hrefs {
			c.Observe("hrefs", "examined", 1)
			// The statement's reading: the reported href, sent back as a
			// request path, must address the same resource. Parse it the
			// way a server parses a request target (an absolute URL form
			// contributes its path).
			raw = strings.TrimSpace(raw)
			u, err := url.ParseRequestURI(raw)
			if err != nil || !strings.HasPrefix(u.Path, "/") || strings.Contains(u.Path, "\x00") {
				c.Report(keyBase+"|href-outside-namespace", fmt.Sprintf("href %q is not usable as a request path inside the served namespace", raw), with("href", raw))
				continue
			}
			p := u.Path
			if scopeKnown && len(scope) > 0 {
				in := false
				cp := path.Clean(p)
				for _, sc := range scope {
					sc = path.Clean(sc)
					if sc == "/" || cp == sc || strings.HasPrefix(cp, sc+"/") {
						in = true
					}
				}
				if !in {
					c.Report(keyBase+"|href-outside-request-scope", fmt.Sprintf("href %q names neither a resource the request names (%q) nor a member of one", raw, scope), with("href", raw, "scope", scope))
					continue
				}
			}
			if r.Status != nil && r.Status.Code >= 400 {
				c.Observe("hrefs", "failure entries (not sent back)", 1)
				continue
			}
			c.Observe("hrefs", "round-tripped", 1)
			s.roundTrip(c, keyBase, with, send, r, raw, p, namesOnly)
		}
	}
}

// roundTrip sends the reported path back as PROPFIND Depth 0 and compares
// with the file the path denotes inside the root.
func (s *sandbox) roundTrip(c *fw.Ctx, keyBase string, with func(...interface{}) map[string]interface{}, send sender, r davx.Response, raw, p string, namesOnly bool) {
	code, body, err := send(raw, p)
	if err != nil {
		if pe, ok := err.(panicErr); ok {
			c.Report(keyBase+"|href-round-trip-panic", fmt.Sprintf("PROPFIND of reported href %q panicked: %v", p, pe.v), with("href", p))
		} else {
			c.Observe("hrefs", "not sent back: "+err.Error(), 1)
		}
		return
	}
	wit := with("href", p, "status", code, "body", trunc(string(body), 500))
	if code != 207 {
		c.Report(keyBase+"|href-does-not-address-a-resource", fmt.Sprintf("reported href %q answered %d when sent back as a request path", p, code), wit)
		return
	}
	ms, err := davx.ReadMultiStatus(body)
	if err != nil || len(ms.Responses) != 1 {
		c.Report(keyBase+"|href-round-trip-unreadable", fmt.Sprintf("PROPFIND Depth 0 of %q did not give one response", p), wit)
		return
	}
	// what is really there
	local := filepath.Join(s.root, filepath.FromSlash(path.Clean(p)))
	fi, err := os.Stat(local)
	if err != nil {
		c.Report(keyBase+"|href-names-nothing-in-root", fmt.Sprintf("reported href %q names nothing inside the root", p), wit)
		return
	}
	same := func(a, b davx.Response) bool {
		if namesOnly {
			return true // the answer to a propname request carries no values to compare
		}
		ra, ca := a.Prop(davx.NS, "resourcetype")
		rb, cb := b.Prop(davx.NS, "resourcetype")
		if ra != nil && rb != nil && ca == 200 && cb == 200 && (ra.First(davx.NS, "collection") != nil) != (rb.First(davx.NS, "collection") != nil) {
			return false
		}
		for _, n := range []string{"getcontentlength", "getetag"} {
			pa, ca := a.Prop(davx.NS, n)
			pb, cb := b.Prop(davx.NS, n)
			if ca == 200 && cb == 200 && pa != nil && pb != nil && strings.TrimSpace(pa.TextContent()) != strings.TrimSpace(pb.TextContent()) {
				return false
			}
		}
		return true
	}
	back := ms.Responses[0]
	rt, _ := back.Prop(davx.NS, "resourcetype")
	isColl := rt != nil && rt.First(davx.NS, "collection") != nil
	if isColl != fi.IsDir() || !same(r, back) {
		c.Report(keyBase+"|href-addresses-a-different-resource", fmt.Sprintf("reported href %q describes another resource when sent back", p), wit)
	}
}

type panicErr struct{ v interface{} }

func (p panicErr) Error() string { return fmt.Sprint("panic: ", p.v) }

// inProcSender sends a reported path back through the handler.
func inProcSender(h http.Handler) sender {
	return func(raw, p string) (int, []byte, error) {
		req := httptest.NewRequest("PROPFIND", "http://dav.test/", nil)
		req.URL = &url.URL{Scheme: "http", Host: "dav.test", Path: p}
		req.RequestURI = req.URL.RequestURI()
		req.Header.Set("Depth", "0")
		rec := httptest.NewRecorder()
		if panicked, pv, _ := fw.Guard(func() { h.ServeHTTP(rec, req) }); panicked {
			return 0, nil, panicErr{pv}
		}
		return rec.Code, rec.Body.Bytes(), nil
	}
}

func trunc(s string, n int) string {
	if len(s) > n {
		return s[:n] + "…"
	}
	return s
}

// --- in-process channel -------------------------------------------------------

func runInProc(c *fw.Ctx) {
	sb, err := newSandbox(filepath.Join(c.WorkDir, "c03-inproc-q7x9z"))
	if err != nil {
		c.Inconclusive(err.Error())
		return
	}
	defer os.RemoveAll(sb.base)
	cur := ""
	pristine := ""
	// Histories: of every 24 consecutive cases of a shard, 8 are served one
	// after the other without the pre-state being rebuilt in between, so that
	// a hostile string meets whatever the requests before it have left (files
	// and collections under clamped names, a missing root, a root that is a
	// file). The monitors do not depend on the state.
	seq := 0
	dirty := false
	var prior []Case
	one := func(i int, cs Case) bool {
		seq++
		inHistory := (seq/8)%3 == 1
		if cur != cs.State || pristine == "" || (dirty && (!inHistory || len(prior) >= 8)) {
			if err := sb.resetRoot(cs.State); err != nil {
				c.Inconclusive(err.Error())
				return false
			}
			cur = cs.State
			s, _ := mon.Snapshot(sb.root)
			pristine = s.Shape()
			dirty, prior = false, nil
		}
		if dirty {
			cs.Prior = append([]Case(nil), prior...)
			c.Observe("histories", fmt.Sprintf("cases served after %d state-changing request(s)", len(prior)), 1)
		}
		h, undo := sb.handler(cs.Root)
		before := sb.outside()
		res := serveInProc(c, h, cs)
		after := sb.outside()
		sb.check(c, cs, res, before, after, inProcSender(h))
		undo()
		shape := pristine
		if s, err := mon.Snapshot(sb.root); err == nil {
			shape = s.Shape()
		} else {
			shape = "unreadable"
		}
		if shape != pristine || dirty {
			// (after the first change every request counts as part of the history)
			dirty = true
			p := cs
			p.Prior = nil
			prior = append(prior, p)
		}
		if c.WantSample() && i%97 == 3 {
			c.Sample(map[string]interface{}{"case": cs, "status": res.Status})
		}
		return true
	}
	// listings of every collection of the tree under every spelling of the root
	li := 0
	for _, sp := range append([]string{""}, rootSpellings...) {
		for _, p := range []string{"/", "/sub", "/sub/", "/.cfg", "/sub/...", "/sub/deep/"} {
			for _, d := range []string{"0", "1", "infinity"} {
				li++
				if !c.Mine(li) {
					continue
				}
				if !one(li, Case{Method: "PROPFIND", Channel: "target", Form: "plain-listing", Str: p, State: "tree", Depth: d, Root: sp}) {
					return
				}
			}
		}
	}
	n := c.NShardsOr1()
	for i, cs := range cases(c, false) {
		if !c.Mine(i) {
			continue
		}
		// half of the cases run against the clean spelling, the other half
		// rotate through the others (thorough: every third case clean)
		if k := i / n; k%c.Pick(2, 3) != 0 {
			cs.Root = rootSpellings[(k/2)%len(rootSpellings)]
		}
		if !one(i, cs) {
			return
		}
	}
	// the raw request lines and headers of the wire channel, read by
	// net/http's request reader and handed to the handler without a socket:
	// every answer is judged in full here (the handler is at hand for the
	// round trip of every href)
	off := len(cases(c, false))
	for i, cs := range cases(c, true) {
		if !c.Mine(off + i) {
			continue
		}
		if !c.Thorough() && i%3 != 0 && !strings.HasPrefix(cs.Form, "spelling-") && cs.Form != "wire-special" && cs.Form != "plain" && cs.Form != "trailing-or-bare" {
			continue // quick: a third of the grammar's bulk, all of the rest
		}
		cs.Wire, cs.Parsed = false, true
		if !one(off+i, cs) {
			return
		}
	}
}

// wireForm gives the request target, the headers and the body of a case whose
// string is raw request text.
func wireForm(cs Case) (target string, hdr [][2]string, body string) {
	target = cs.Str
	if cs.Method == "PUT" {
		body = "hostile upload"
	}
	if cs.Body != "" {
		body = xmlBody(cs.Body)
		hdr = append(hdr, [2]string{"Content-Type", xmlContentType})
	}
	if cs.Channel == "destination" {
		target = cs.Source
		hdr = append(hdr, [2]string{"Destination", cs.Str})
	} else if cs.Method == "COPY" || cs.Method == "MOVE" {
		hdr = append(hdr, [2]string{"Destination", "/copied-" + tok})
	}
	if cs.Depth != "" {
		hdr = append(hdr, [2]string{"Depth", cs.Depth})
	}
	if cs.Overwrite != "" {
		hdr = append(hdr, [2]string{"Overwrite", cs.Overwrite})
	}
	return
}

func rawRequestText(method, target string, hdr [][2]string, body string) string {
	var sb strings.Builder
	fmt.Fprintf(&sb, "%s %s HTTP/1.1\r\nHost: dav.test\r\nConnection: close\r\n", method, target)
	for _, h := range hdr {
		fmt.Fprintf(&sb, "%s: %s\r\n", h[0], h[1])
	}
	fmt.Fprintf(&sb, "Content-Length: %d\r\n\r\n%s", len(body), body)
	return sb.String()
}

func serveInProc(c *fw.Ctx, h http.Handler, cs Case) result {
	var req *http.Request
	if cs.Parsed {
		// the request is read from its bytes by net/http's request reader,
		// as on a connection; what that reader refuses never reaches the
		// handler (a server answers 400)
		target, hdr, body := wireForm(cs)
		var err error
		req, err = http.ReadRequest(bufio.NewReader(strings.NewReader(rawRequestText(cs.Method, target, hdr, body))))
		if err != nil {
			c.Observe("parsed-delivery", "refused by the request reader", 1)
			return result{Status: 400}
		}
		c.Observe("parsed-delivery", "handed to the handler", 1)
	} else {
		var body *strings.Reader
		switch {
		case cs.Body != "":
			body = strings.NewReader(xmlBody(cs.Body))
		case cs.Method == "PUT":
			body = strings.NewReader("hostile upload")
		}
		if body != nil {
			req = httptest.NewRequest(cs.Method, "http://dav.test/", body)
		} else {
			req = httptest.NewRequest(cs.Method, "http://dav.test/", nil)
		}
		if cs.Body != "" {
			req.Header.Set("Content-Type", xmlContentType)
		}
		if cs.Channel == "target" {
			req.URL = &url.URL{Scheme: "http", Host: "dav.test", Path: cs.Str}
			if cs.Method == "COPY" || cs.Method == "MOVE" {
				req.Header.Set("Destination", "/copied-"+tok)
			}
		} else {
			req.URL = &url.URL{Scheme: "http", Host: "dav.test", Path: cs.Source}
			req.Header["Destination"] = []string{cs.Str}
		}
		// a request has the request target it was read from; here: the one a
		// URL writer produces for the path
		req.RequestURI = req.URL.RequestURI()
		if cs.Depth != "" {
			req.Header.Set("Depth", cs.Depth)
		}
		if cs.Overwrite != "" {
			req.Header.Set("Overwrite", cs.Overwrite)
		}
	}
	rec := httptest.NewRecorder()
	c.Journal(cs)
	panicked, pv, stack := fw.Guard(func() { h.ServeHTTP(rec, req) })
	c.JournalDone()
	if panicked {
		c.Report("panic|"+fw.PanicSite(stack), fmt.Sprintf("handler panicked: %v", pv), cs)
		return result{Status: 500, NoReply: true}
	}
	r := rec.Result()
	b, _ := ioutil.ReadAll(r.Body)
	return result{Status: rec.Code, Header: r.Header, Body: b}
}

func init() {
	fw.Register(&fw.Property{
		ID: "C03",
		Run: func(c *fw.Ctx) {
			runInProc(c)
			runMissingRoot(c)
			runLinkHistories(c)
			runSpecialMembers(c)
			runWire(c)
		},
		Replay: func(c *fw.Ctx, w json.RawMessage) {
			var wit struct {
				Case Case `json:"case"`
			}
			if json.Unmarshal(w, &wit) != nil || wit.Case.Method == "" {
				json.Unmarshal(w, &wit.Case)
			}
			sb, err := newSandbox(filepath.Join(c.WorkDir, "c03-replay-q7x9z"))
			if err != nil {
				return
			}
			defer os.RemoveAll(sb.base)
			var sw struct {
				Slice string      `json:"slice"`
				Trace []stateStep `json:"trace"`
			}
			if json.Unmarshal(w, &sw) == nil && strings.HasPrefix(sw.Slice, "special-members") && len(sw.Trace) > 0 {
				sb.replaySpecialMembers(c, sw.Slice, sw.Trace)
				return
			}
			sb.resetRoot(wit.Case.State)
			h, undo := sb.handler(wit.Case.Root)
			defer undo()
			for _, p := range wit.Case.Prior {
				p.Parsed, p.Wire = p.Parsed || p.Wire, false
				ph, pundo := sb.handler(p.Root)
				serveInProc(c, ph, p)
				pundo()
			}
			before := sb.outside()
			cs := wit.Case
			cs.Wire = false
			cs.Parsed = cs.Parsed || wit.Case.Wire
			res := serveInProc(c, h, cs)
			sb.check(c, cs, res, before, sb.outside(), inProcSender(h))
			fmt.Printf("case %+v -> status %d body %.200q\n", cs, res.Status, string(res.Body))
		},
		Rule: "grammar of traversal forms (dot-dot x1..12 aimed at canaries next to and above the root, '.', empty segments, leading '//', trailing '/.' '/..', %2e%2e, %2f, %5c, backslashes, %00/raw NUL, overlong/invalid UTF-8, absolute-URL and scheme-relative forms, relative paths, a sibling directory sharing the root's name as prefix) plus seeded random strings, crossed with every method in both channels (request target, Destination header) against two pre-states; in-process (decoded path set directly), in-process through net/http's request reader (raw request lines and headers), and over real TCP with raw request lines into davserver processes traced by strace (one per shard, each configured with another spelling of the root). " +
			"Further dimensions: PROPFIND / PROPPATCH with and without a well-formed XML body of the method; spellings of the request target of existing resources (query component, absolute form, bytes sent raw that a URL writer escapes, unusual escapes); Overwrite and Depth headers and traversal spellings of the source in the Destination channel; histories (8 of every 24 cases of a shard meet what the cases before them left); state slices: missing root, link histories, special members (collections holding a socket, a dangling link, a link loop, a file without permissions, under COPY / MOVE / DELETE with every kind of Destination). " +
			"Monitors: canary snapshot (names, kinds, bytes, mtimes, inodes) outside the root before/after each request; response scan for canary names/contents; every href of every multi-status body (whatever the method, in every channel) must parse as a request path, name the request's resource, its Destination or a member of them, and - unless its entry reports a failure (DAV:status >= 400) - describe the same resource when sent back as PROPFIND Depth 0 (over the socket as the literal request target); unmappable paths (decoded path known in-process; raw targets decoded the way net/http decodes them) must get 4xx from every method; strace log: no path outside the root that lies in the sandbox, carries the case token or is mutated. distinct_nontrivial = distinct (channel kind, channel, form class, method, pre-state).",
		Assumptions: []string{
			"symbolic links inside the root are out of scope (WebDAV cannot create them; the quantifier is over request strings)",
			"removing or re-creating the root directory itself (DELETE / and traversal forms that clean to /) is inside the served directory; the OS needs a read-only open of the root's parent for that, which the strace rule allows for exactly those requests",
			"requests net/http rejects before the handler runs (400) count as refused; 'OPTIONS *' over a socket is answered by net/http itself and is not a path",
			"an entry of a multi-status body that reports a failure on a member (RFC 4918 9.8.5) may name the member below the source or below the Destination, and that member need not exist afterwards: only namespace and scope are judged for it",
			"the values of an answer to a propname request are not compared on the round trip (there are none); kind and existence are",
			"if ptrace is unavailable the strace monitor is inconclusive and the evidence says so; the canary and response monitors still decide",
		},
		MinEvals:    func(t string) int64 { return 3000 },
		MinDistinct: func(t string) int64 { return 300 },
		TimeoutS: func(t string) int {
			if t == "thorough" {
				return 3600
			}
			return 900
		},
	})
}

var _ = time.Now

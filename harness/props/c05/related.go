package c05

import (
	"fmt"
	"io/ioutil"
	"net/url"
	"os"
	"path/filepath"
	"strings"
	"unicode"

	"github.com/emersion/go-webdav"
)

// ---------------------------------------------------------------------------
// Related names: siblings that a careless comparison would take for one
// another. The oracle is the one of every LocalFileSystem mutator: the
// directory afterwards equals the reference effect on exactly the named
// resource, every other entry (the look-alike sibling first of all) untouched.

type relatedGroup struct {
	Relation string
	Names    []string
}

var relatedGroups = []relatedGroup{
	{"case (ASCII)", []string{"notes.txt", "Notes.txt", "NOTES.TXT"}},
	{"case (ASCII)", []string{"Album", "album", "ALBUM"}},
	{"case (non-ASCII)", []string{"ÉTÉ.txt", "été.txt", "Été.txt"}},
	{"case (non-ASCII)", []string{"ΣΑΣ", "σας", "σασ"}},
	{"case (non-ASCII)", []string{"straße", "STRASSE", "strasse", "STRAẞE"}},
	{"case (non-ASCII)", []string{"İstanbul", "istanbul", "ıstanbul", "Istanbul"}},
	{"case (non-ASCII)", []string{"ДОКУМЕНТ", "документ", "Документ"}},
	{"normalisation (NFC/NFD)", []string{"\u00e9.txt", "e\u0301.txt"}},
	{"normalisation (NFC/NFD)", []string{"\u00c5", "A\u030a", "\u212b"}},
	{"normalisation (NFC/NFD)", []string{"\uac00", "\u1100\u1161"}},
	{"normalisation (NFC/NFD)", []string{"\ufb01le", "file", "f\u0131le"}},
	{"trailing dot or space", []string{"a", "a.", "a ", "a..", " a"}},
	{"trailing dot or space", []string{"report.txt", "report.txt.", "report.txt ", "report .txt"}},
	{"byte prefix", []string{"a", "a.txt", "ab", "a.txt.bak", "a.tx"}},
	{"byte prefix", []string{"日", "日本", "日本語", "日本語.txt"}},
	{"percent look-alike", []string{"a b", "a%20b", "a+b", "a%2520b"}},
	{"percent look-alike", []string{"A", "%41", "%2541", "a"}},
	{"percent look-alike", []string{"é", "%C3%A9", "%c3%a9"}},
	{"percent look-alike", []string{"a%2Fb", "a%2fb", "a%252Fb"}},
	{"percent look-alike", []string{"x#y", "x%23y", "q?", "q%3F"}},
	{"percent look-alike", []string{"100%", "100%25", "100%2525"}},
	{"markup look-alike", []string{"&", "&amp;", "&#38;", "&amp;amp;"}},
	{"markup look-alike", []string{"<", "&lt;", "%3C", "&#60;"}},
}

func swapCase(s string) string {
	return strings.Map(func(c rune) rune {
		if unicode.IsUpper(c) {
			return unicode.ToLower(c)
		}
		if unicode.IsLower(c) {
			return unicode.ToUpper(c)
		}
		return c
	}, s)
}

// derivedGroup builds look-alikes of a generated hostile name.
func (e *env) derivedGroup() relatedGroup {
	for {
		s := genSeg(e.r)
		rs := []rune(s)
		cands := []string{s, swapCase(s), strings.ToUpper(s), strings.ToLower(s), s + ".", s + " ", s + "x", string(rs[:len(rs)-1]),
			url.PathEscape(s), (&url.URL{Path: s}).EscapedPath()}
		if u, err := url.PathUnescape(s); err == nil {
			cands = append(cands, u)
		}
		seen := map[string]bool{}
		var names []string
		for _, c := range cands {
			if validSeg(c) && !seen[c] && len(c) <= 200 {
				seen[c] = true
				names = append(names, c)
			}
		}
		if len(names) >= 3 {
			e.r.Shuffle(len(names)-1, func(i, j int) { names[i+1], names[j+1] = names[j+1], names[i+1] })
			if len(names) > 5 {
				names = names[:5]
			}
			return relatedGroup{"derived from a generated name (case, suffix, prefix, escaping)", names}
		}
	}
}

// volumeKeepsApart checks on the plain os level, outside the served tree,
// that the volume stores all names of the group as distinct entries.
func (e *env) volumeKeepsApart(names []string) bool {
	dir, err := ioutil.TempDir(e.c.WorkDir, "probe-")
	if err != nil {
		return false
	}
	defer os.RemoveAll(dir)
	for _, n := range names {
		p := filepath.Join(dir, n)
		if _, err := os.Lstat(p); err == nil {
			return false
		}
		if err := ioutil.WriteFile(p, []byte(n), 0644); err != nil {
			return false
		}
	}
	ents, err := ioutil.ReadDir(dir)
	return err == nil && len(ents) == len(names)
}

func (e *env) exists(abs string) (present, dir bool) {
	st, err := os.Lstat(e.diskPath(abs))
	if err != nil {
		return false, false
	}
	return true, st.IsDir()
}

func (e *env) nf(abs string, dir bool) nameForm { return e.anyForm(segsOf(abs), dir) }

func join(dir, name string) string { return absPath(cat(segsOf(dir), name)) }

// readBack: everything in the collection is reported as it is on disk.
func (e *env) readBack(dirAbs string, allForms bool) {
	e.statBack = map[string]bool{}
	ents, err := ioutil.ReadDir(e.diskPath(dirAbs))
	if err != nil {
		e.c.Inconclusive("C05: cannot read " + dirAbs + ": " + err.Error())
		return
	}
	for _, fi := range ents {
		p := join(dirAbs, fi.Name())
		fs := e.forms(segsOf(p), fi.IsDir())
		if !allForms {
			fs = []nameForm{fs[0], fs[e.r.Intn(len(fs))]}
		}
		for _, f := range fs {
			e.doStat(p, f)
		}
		if fi.IsDir() {
			continue
		}
		e.doStatFileSlash(p)
		if b, err := ioutil.ReadFile(e.diskPath(p)); err == nil {
			e.doOpen(p, e.nf(p, false), b)
		}
	}
	fs := e.forms(segsOf(dirAbs), true)
	e.doReadDir(dirAbs, fs[e.r.Intn(len(fs))], false)
	e.doReadDir(dirAbs, fs[e.r.Intn(len(fs))], true)
}

func (e *env) put(abs string, data []byte) {
	if err := ioutil.WriteFile(e.diskPath(abs), data, 0644); err != nil {
		e.c.Inconclusive("C05: cannot write " + abs + ": " + err.Error())
	}
}

// relatedOp runs one operation from a to b (siblings in gdir) chosen by what
// is there now.
func (e *env) relatedOp(rel, gdir, a, b string) {
	pa, pb := join(gdir, a), join(gdir, b)
	aP, aD := e.exists(pa)
	obs := func(what string) { e.c.Observe("related names: operations by relation", rel+": "+what, 1) }
	if !aP {
		if e.r.Intn(3) == 0 {
			obs("Mkdir beside its look-alike")
			e.localMutate("Mkdir", pa, "", e.nf(pa, true), nameForm{}, nil, nil, nil, false)
		} else {
			obs("Create beside its look-alike")
			e.localMutate("Create", pa, "", e.nf(pa, false), nameForm{}, nil, nil, genData(e.r, false), false)
		}
		return
	}
	if !aD && e.r.Intn(5) == 0 {
		obs("Create over an existing file beside its look-alike")
		e.localMutate("Create", pa, "", e.nf(pa, false), nameForm{}, nil, nil, genData(e.r, false), false)
		return
	}
	bP, bD := e.exists(pb)
	dst, how := pb, "onto absent look-alike"
	switch {
	case bP && bD && e.r.Intn(4) != 0:
		// into the look-alike collection, keeping the own name: Album -> album/Album
		dst, how = join(pb, a), "into look-alike collection under own name"
	case bP:
		how = "onto existing look-alike"
	}
	dP, dD := e.exists(dst)
	if e.r.Intn(2) == 0 {
		co := copyCombos[e.r.Intn(len(copyCombos))]
		obs("Copy " + how)
		e.localMutate("Copy", pa, dst, e.nf(pa, aD), e.nf(dst, aD || dD), co, nil, nil, dP && co != nil && co.NoOverwrite)
	} else {
		mo := moveCombos[e.r.Intn(len(moveCombos))]
		obs("Move " + how)
		e.localMutate("Move", pa, dst, e.nf(pa, aD), e.nf(dst, aD || dD), nil, mo, nil, dP && mo != nil && mo.NoOverwrite)
	}
}

func (e *env) relatedPhase() {
	groups := []relatedGroup{
		relatedGroups[(e.idx*3)%len(relatedGroups)],
		relatedGroups[(e.idx*3+1)%len(relatedGroups)],
		relatedGroups[(e.idx*3+2)%len(relatedGroups)],
		e.derivedGroup(),
	}
	for gi, g := range groups {
		if !e.volumeKeepsApart(g.Names) {
			e.c.Observe("related names: groups", g.Relation+": skipped, the volume does not keep these names apart", 1)
			continue
		}
		e.c.Observe("related names: groups", g.Relation, 1)
		gdir := absPath(cat(e.ep.Segs, fmt.Sprintf("g%d %%#", gi)))
		if err := os.Mkdir(e.diskPath(gdir), 0755); err != nil {
			e.c.Inconclusive("C05: mkdir: " + err.Error())
			return
		}
		for i, n := range g.Names {
			p := join(gdir, n)
			role := e.r.Intn(4)
			if i == 0 {
				role = e.r.Intn(2) * 2 // file or collection
			}
			switch role {
			case 0, 1:
				e.put(p, append([]byte(fmt.Sprintf("content of %q #%d ", n, i)), genData(e.r, false)...))
			case 2:
				os.Mkdir(e.diskPath(p), 0755)
				e.put(join(p, "inner.txt"), []byte(fmt.Sprintf("inside %q", n)))
				e.put(join(p, g.Names[0]), []byte(fmt.Sprintf("%q inside %q", g.Names[0], n)))
			}
		}
		e.readBack(gdir, true)
		type pair struct{ a, b string }
		var pairs []pair
		for _, a := range g.Names {
			for _, b := range g.Names {
				if a != b {
					pairs = append(pairs, pair{a, b})
				}
			}
		}
		e.r.Shuffle(len(pairs), func(i, j int) { pairs[i], pairs[j] = pairs[j], pairs[i] })
		if len(pairs) > 10 {
			pairs = pairs[:10]
		}
		for _, p := range pairs {
			e.relatedOp(g.Relation, gdir, p.a, p.b)
		}
		e.readBack(gdir, false)
		// remove one, the look-alikes stay
		n := g.Names[e.r.Intn(len(g.Names))]
		if ok, d := e.exists(join(gdir, n)); ok {
			e.c.Observe("related names: operations by relation", g.Relation+": RemoveAll beside its look-alikes", 1)
			e.localMutate("RemoveAll", join(gdir, n), "", e.nf(join(gdir, n), d), nameForm{}, nil, nil, nil, false)
		}
		e.readBack(gdir, false)
	}
}

// ---------------------------------------------------------------------------
// Boundary-length names: the final component sits at 200..255 bytes (NAME_MAX
// on the usual volumes is 255 bytes, not characters), in 1/2/3/4-byte UTF-8;
// one deep path per scenario approaches PATH_MAX. Every name goes through the
// whole matrix, including the second Create onto the now existing name and
// Copy/Move onto existing names, then is read back byte for byte.

var longLens = []int{200, 220, 230, 232, 233, 234, 235, 236, 237, 238, 239, 240, 241, 242, 243, 244, 245, 246, 247, 248, 249, 250, 251, 252, 253, 254, 255}
var longUnits = []string{"a", "é", "日", "😀"}

// boundaryName is exactly n bytes long: lead, then unit repeated, padded with
// ASCII, then ext.
func boundaryName(n int, lead, unit, ext string) string {
	var sb strings.Builder
	sb.WriteString(lead)
	for sb.Len()+len(unit)+len(ext) <= n {
		sb.WriteString(unit)
	}
	for sb.Len()+len(ext) < n {
		sb.WriteByte('x')
	}
	return sb.String() + ext
}

// volumeTakes probes on the plain os level whether the volume accepts a file
// and a directory of that name.
func (e *env) volumeTakes(name string) bool {
	dir, err := ioutil.TempDir(e.c.WorkDir, "probe-")
	if err != nil {
		return false
	}
	defer os.RemoveAll(dir)
	if err := ioutil.WriteFile(filepath.Join(dir, name), []byte("x"), 0644); err != nil {
		return false
	}
	os.Remove(filepath.Join(dir, name))
	return os.Mkdir(filepath.Join(dir, name), 0755) == nil
}

func (e *env) openBack(abs string) {
	if b, err := ioutil.ReadFile(e.diskPath(abs)); err == nil {
		e.doOpen(abs, e.nf(abs, false), b)
	}
}

// matrix drives one file name (in the existing collection dir) through every
// operation; n2, n3 are further absent names of the same kind, dn a name for a
// collection.
func (e *env) matrix(class, dir, n1, n2, n3, dn string) {
	obs := func(what string) { e.c.Observe(e.opsTable(), class+": "+what, 1) }
	p1, p2, p3, pd := join(dir, n1), join(dir, n2), join(dir, n3), join(dir, dn)
	cr := func(p string, big bool) {
		e.localMutate("Create", p, "", e.nf(p, false), nameForm{}, nil, nil, genData(e.r, big), false)
	}
	obs("first Create")
	cr(p1, false)
	for _, f := range e.forms(segsOf(p1), false) {
		e.doStat(p1, f)
	}
	e.doStatFileSlash(p1)
	e.openBack(p1)
	obs("second Create onto the existing name")
	cr(p1, e.r.Intn(4) == 0)
	e.openBack(p1)
	obs("Copy to an absent name")
	e.localMutate("Copy", p1, p2, e.nf(p1, false), e.nf(p2, false), copyCombos[e.r.Intn(len(copyCombos))], nil, nil, false)
	obs("second Create onto a copied name")
	cr(p2, false)
	obs("Copy onto an existing name")
	e.localMutate("Copy", p1, p2, e.nf(p1, false), e.nf(p2, false), copyCombos[e.r.Intn(3)], nil, nil, false)
	e.openBack(p2)
	obs("Copy onto an existing name with NoOverwrite (refusal)")
	e.localMutate("Copy", p1, p2, e.nf(p1, false), e.nf(p2, false), &webdav.CopyOptions{NoOverwrite: true}, nil, nil, true)
	obs("Move to an absent name")
	e.localMutate("Move", p2, p3, e.nf(p2, false), e.nf(p3, false), nil, moveCombos[e.r.Intn(len(moveCombos))], nil, false)
	obs("Move onto an existing name with NoOverwrite (refusal)")
	e.localMutate("Move", p1, p3, e.nf(p1, false), e.nf(p3, false), nil, &webdav.MoveOptions{NoOverwrite: true}, nil, true)
	obs("Move onto an existing name")
	e.localMutate("Move", p1, p3, e.nf(p1, false), e.nf(p3, false), nil, moveCombos[e.r.Intn(2)], nil, false)
	e.openBack(p3)
	obs("Mkdir, Create inside twice, list, copy the collection, RemoveAll")
	e.localMutate("Mkdir", pd, "", e.nf(pd, true), nameForm{}, nil, nil, nil, false)
	in := join(pd, n1)
	cr(in, false)
	cr(in, false)
	e.openBack(in)
	fs := e.forms(segsOf(pd), true)
	e.doReadDir(pd, fs[e.r.Intn(len(fs))], e.r.Intn(2) == 0)
	e.localMutate("Copy", pd, p1, e.nf(pd, true), e.nf(p1, true), copyCombos[e.r.Intn(len(copyCombos))], nil, nil, false)
	e.localMutate("RemoveAll", pd, "", e.nf(pd, true), nameForm{}, nil, nil, nil, false)
	e.localMutate("RemoveAll", p3, "", e.nf(p3, false), nameForm{}, nil, nil, nil, false)
}

func (e *env) longPhase() {
	dir := absPath(cat(e.ep.Segs, "long"))
	if err := os.Mkdir(e.diskPath(dir), 0755); err != nil {
		e.c.Inconclusive("C05: mkdir: " + err.Error())
		return
	}
	ncomb := len(longLens) * len(longUnits)
	for j := 0; j < 6; j++ {
		k := (e.idx*6 + j) % ncomb
		n, unit := longLens[k%len(longLens)], longUnits[k/len(longLens)]
		ext := []string{"", ".txt", ".html"}[e.r.Intn(3)]
		class := fmt.Sprintf("%d bytes of %d-byte characters", n, len(unit))
		n1 := boundaryName(n, "", unit, ext)
		n2 := boundaryName(n, "y", unit, ext)
		n3 := boundaryName(n, "z", unit, "")
		dn := boundaryName(n, "d", unit, "")
		if !e.volumeTakes(n1) || !e.volumeTakes(n2) || !e.volumeTakes(n3) || !e.volumeTakes(dn) {
			e.c.Observe("boundary-length names: skipped, the volume refuses the name itself", class, 1)
			continue
		}
		e.c.Observe("boundary-length names: final component", class, 1)
		e.matrix(class, dir, n1, n2, n3, dn)
	}
	e.readBack(dir, false)

	// One deep path: a chain of 200-byte collections so that the full host
	// path of the file approaches PATH_MAX (4096), leaving ~250 bytes for
	// whatever sibling the backend may need while writing.
	seg := strings.Repeat("k", 200)
	deep := absPath(e.ep.Segs)
	for len(e.diskPath(deep))+201 < 3800 {
		deep = join(deep, seg)
	}
	if err := os.MkdirAll(e.diskPath(deep), 0755); err != nil {
		e.c.Observe("boundary-length names: skipped, the volume refuses the name itself", "deep path", 1)
		return
	}
	if err := ioutil.WriteFile(filepath.Join(e.diskPath(deep), "probe"), []byte("x"), 0644); err != nil {
		e.c.Observe("boundary-length names: skipped, the volume refuses the name itself", "deep path", 1)
		return
	}
	os.Remove(filepath.Join(e.diskPath(deep), "probe"))
	class := fmt.Sprintf("deep path, host path of about %d bytes", len(e.diskPath(deep))/100*100)
	e.c.Observe("boundary-length names: final component", class, 1)
	e.matrix(class, deep, "f.txt", "g \u00e9%#.txt", "h.bin", "sub")
	e.readBack(deep, false)
}

// Package c05 decides C05: the WebDAV client and server agree on names,
// metadata and content. The real webdav.Client talks to the real
// webdav.Handler (in process through a genuine HTTP/1.1 serialisation, and in
// one slice over TCP); what the client returns is compared with what the
// backend holds (the directory on disk for LocalFileSystem, the stored
// FileInfo of an in-memory FileSystem carrying arbitrary metadata), and what
// the backend receives is compared with what the client was asked to do.
package c05

import (
	"bytes"
	"context"
	"encoding/json"
	"fmt"
	"html"
	"io"
	"io/ioutil"
	"math/rand"
	"net/http"
	"net/http/httptest"
	"net/url"
	"os"
	"path"
	"path/filepath"
	"regexp"
	"sort"
	"strconv"
	"strings"
	"time"

	"github.com/emersion/go-webdav"
	"github.com/emersion/go-webdav/verifharness/doubles"
	"github.com/emersion/go-webdav/verifharness/fw"
	"github.com/emersion/go-webdav/verifharness/mon"
)

// ---------------------------------------------------------------------------
// Reference name resolution (independent of path.Join)

// resolve is the reference for "relative names are resolved against the
// endpoint path": absolute names are taken as they are; a relative name is
// appended to the endpoint path taken as a collection, and dot segments are
// removed.
func resolve(epSegs []string, name string) string {
	if strings.HasPrefix(name, "/") {
		return name
	}
	stack := append([]string(nil), epSegs...)
	for _, s := range strings.Split(name, "/") {
		switch s {
		case "", ".":
		case "..":
			if len(stack) > 0 {
				stack = stack[:len(stack)-1]
			}
		default:
			stack = append(stack, s)
		}
	}
	return absPath(stack)
}

func trimSlash(p string) string {
	if p != "/" {
		p = strings.TrimSuffix(p, "/")
	}
	return p
}

// sameRes: two paths name the same resource (a collection may be written with
// or without its trailing slash).
func sameRes(a, b string) bool { return trimSlash(a) == trimSlash(b) }

// xform names how got differs from want (the "transformation" part of a key).
func xform(want, got string) string {
	h := xform1(want, got)
	if h == "altered" && len(want) > 1 && len(got) > 1 && (strings.HasSuffix(want, "/") || strings.HasSuffix(got, "/")) {
		if h2 := xform1(strings.TrimSuffix(want, "/"), strings.TrimSuffix(got, "/")); h2 != "same" {
			return h2
		}
	}
	return h
}

func xform1(want, got string) string {
	esc := (&url.URL{Path: want}).EscapedPath()
	unesc, uerr := url.PathUnescape(want)
	unq, qerr := strconv.Unquote(want)
	switch {
	case got == want:
		return "same"
	case got == "":
		return "dropped"
	case want == "":
		return "invented"
	case got == esc || got == url.PathEscape(want) || got == url.QueryEscape(want):
		return "url-escaped"
	case uerr == nil && got == unesc:
		return "url-unescaped"
	case got == html.EscapeString(want):
		return "xml-escaped"
	case got == html.UnescapeString(want):
		return "xml-unescaped"
	case got == strconv.Quote(want) || got == `"`+want+`"`:
		return "quoted"
	case qerr == nil && got == unq:
		return "unquoted"
	case sameRes(want, got):
		return "trailing-slash"
	case path.Clean(want) == got:
		return "cleaned"
	case strings.ToValidUTF8(want, "\uFFFD") == got:
		return "utf8-replaced"
	case strings.HasPrefix(want, got):
		return "truncated"
	case strings.TrimSpace(want) == got:
		return "trimmed"
	case strings.HasSuffix(got, want):
		return "prefixed"
	case strings.HasSuffix(want, got):
		return "prefix-stripped"
	}
	return "altered"
}

var codeRe = regexp.MustCompile(`\b([1-5][0-9][0-9]) [A-Z]`)

func errClass(err error) string {
	if err == nil {
		return "nil"
	}
	if m := codeRe.FindStringSubmatch(err.Error()); m != nil {
		return "error " + m[1]
	}
	return "error"
}

// ---------------------------------------------------------------------------
// Scenario environment

type witness struct {
	Kind      string `json:"kind,omitempty"` // "" = generated tree, "related", "long", "own"
	Backend   string `json:"backend"`
	Transport string `json:"transport"`
	Scenario  int    `json:"scenario"`
	Endpoint  string `json:"endpoint"`
	Op        string `json:"op"`
	Name      string `json:"name"` // Go-quoted
	Dest      string `json:"dest,omitempty"`
	Options   string `json:"options,omitempty"`
	Want      string `json:"want,omitempty"`
	Got       string `json:"got,omitempty"`
}

type env struct {
	c         *fw.Ctx
	kind      string // "" | "related" | "long" | "own"
	backend   string // "local" | "mem"
	transport string // "inproc" | "tcp"
	idx       int
	ep        endpointSpec
	epURL     string
	cl        *webdav.Client
	r         *rand.Rand
	t         *tree
	ctx       context.Context

	root string
	lfs  webdav.LocalFileSystem
	mem  *doubles.MemFS

	statBack map[string]bool
	freshN   int
	// readerKind: how the in-memory backend's Open delivers content.
	readerKind string
}

func (e *env) report(op, field, how, what string, w witness) {
	w.Backend, w.Transport, w.Scenario, w.Endpoint, w.Op = e.backend, e.transport, e.idx, e.epURL, op
	w.Kind = e.kind
	if len(what) > 400 {
		what = strings.ToValidUTF8(what[:400], "") + "..."
	}
	e.c.Report(op+" | "+field+" | "+how, what, w)
}

func q(s string) string { return strconv.Quote(s) }

// count records one executed client operation in the evidence tables.
func (e *env) count(op, form, name string) {
	c := e.c
	c.Eval(1)
	c.Observe("operations", op+" "+form, 1)
	fl := nameFlags(name)
	for _, f := range strings.Split(fl, "+") {
		c.Observe("name-features (per operation)", f, 1)
	}
	c.Distinct(e.backend + "|" + op + "|" + form + "|" + e.ep.Suffix + "|" + fl)
}

// call runs one client operation, turning a panic into a finding.
func (e *env) call(op string, w witness, f func()) bool {
	panicked, pv, stack := fw.Guard(f)
	if panicked {
		e.report(op, "panic", fw.PanicSite(stack), fmt.Sprintf("client/handler panicked: %v", pv), w)
		return false
	}
	return true
}

// ---------------------------------------------------------------------------
// Name forms

type nameForm struct{ form, name string }

// forms lists the ways the resource with absolute segments segs can be named
// to the client of this endpoint.
func (e *env) forms(segs []string, dir bool) []nameForm {
	abs := absPath(segs)
	l := []nameForm{{"abs", abs}}
	if dir && abs != "/" {
		l = append(l, nameForm{"abs/", abs + "/"})
	}
	pre := e.ep.Segs
	outside := len(segs) < len(pre)
	for i := 0; !outside && i < len(pre); i++ {
		outside = segs[i] != pre[i]
	}
	if outside {
		// a resource beside the endpoint collection: climb with ".."
		if len(segs) > 0 {
			up := strings.Repeat("../", len(pre)) + strings.Join(segs, "/")
			l = append(l, nameForm{"rel-up", up})
		}
		return l
	}
	rel := segs[len(pre):]
	if len(rel) == 0 {
		return append(l, nameForm{"rel-empty", ""})
	}
	rs := strings.Join(rel, "/")
	l = append(l, nameForm{"rel", rs}, nameForm{"rel-dot", "./" + rs})
	k := e.r.Intn(len(rel))
	dd := cat(rel[:k], "zz", "..")
	dd = append(dd, rel[k:]...)
	l = append(l, nameForm{"rel-dotdot", strings.Join(dd, "/")})
	if dir {
		l = append(l, nameForm{"rel/", rs + "/"})
	}
	return l
}

func (e *env) anyForm(segs []string, dir bool) nameForm {
	l := e.forms(segs, dir)
	return l[e.r.Intn(len(l))]
}

func (e *env) fresh() string {
	e.freshN++
	for {
		s := genSeg(e.r)
		if e.r.Intn(3) == 0 {
			s = fmt.Sprintf("n%d %s", e.freshN, s)
		}
		if validSeg(s) {
			return s
		}
	}
}

// ---------------------------------------------------------------------------
// What the backend holds

type wantInfo struct {
	Path    string
	Loose   bool // LocalFileSystem collection: any spelling that cleans to Path
	IsDir   bool
	Size    int64
	ModTime time.Time
	MIME    string
	ETag    string
}

func segsOf(abs string) []string {
	abs = strings.Trim(abs, "/")
	if abs == "" {
		return nil
	}
	return strings.Split(abs, "/")
}

func (e *env) diskPath(abs string) string {
	return filepath.Join(append([]string{e.root}, segsOf(abs)...)...)
}

// want returns what the backend holds at abs (canonical path without trailing
// slash).
func (e *env) want(abs string) (wantInfo, bool) {
	abs = trimSlash(abs)
	if e.backend == "mem" {
		n := e.t.byPath[abs]
		if n == nil {
			return wantInfo{}, false
		}
		i := n.Info
		return wantInfo{Path: i.Path, IsDir: i.IsDir, Size: i.Size, ModTime: i.ModTime, MIME: i.MIMEType, ETag: i.ETag}, true
	}
	st, err := os.Lstat(e.diskPath(abs))
	if err != nil {
		return wantInfo{}, false
	}
	w := wantInfo{Path: abs, IsDir: st.IsDir(), Loose: st.IsDir()}
	if !st.IsDir() {
		w.Size = st.Size()
		w.ModTime = st.ModTime()
		// entity tag and content type are the backend's own choice: take them
		// from the backend's FileInfo (LocalFileSystem.Stat called directly).
		bfi, err := e.lfs.Stat(e.ctx, abs)
		if err != nil {
			e.c.Inconclusive(fmt.Sprintf("C05: LocalFileSystem.Stat(%q) failed directly: %v", abs, err))
			return wantInfo{}, false
		}
		w.MIME, w.ETag = bfi.MIMEType, bfi.ETag
	}
	return w, true
}

// canon maps a reported path to the canonical path of the resource it names.
func (e *env) canon(p string) string {
	if e.backend == "mem" {
		return trimSlash(p)
	}
	if !strings.HasPrefix(p, "/") {
		return p
	}
	return path.Clean(p)
}

// listing is the reference for ReadDir: the collection itself plus direct
// members (or all descendants), as canonical paths.
func (e *env) listing(abs string, recursive bool) []string {
	abs = trimSlash(abs)
	l := []string{abs}
	if e.backend == "mem" {
		dir := segsOf(abs)
		for _, n := range e.t.Nodes {
			if under(n.Segs, dir) && (recursive || len(n.Segs) == len(dir)+1) {
				l = append(l, absPath(n.Segs))
			}
		}
		return l
	}
	var walk func(dir string)
	walk = func(dir string) {
		ents, err := ioutil.ReadDir(e.diskPath(dir))
		if err != nil {
			e.c.Inconclusive(fmt.Sprintf("C05: cannot read %q: %v", dir, err))
			return
		}
		for _, fi := range ents {
			p := trimSlash(dir) + "/" + fi.Name()
			if dir == "/" {
				p = "/" + fi.Name()
			}
			l = append(l, p)
			if fi.IsDir() && recursive {
				walk(p)
			}
		}
	}
	walk(abs)
	return l
}

// checkInfo compares a FileInfo returned by the client with what the backend
// holds. Collections: path and kind only.
func (e *env) checkInfo(op string, w witness, want wantInfo, got *webdav.FileInfo) {
	if got == nil {
		e.report(op, "result", "nil FileInfo without error", "nil FileInfo", w)
		return
	}
	pathOK := got.Path == want.Path
	if want.Loose {
		spelling := "canonical"
		if !pathOK {
			pathOK = strings.HasPrefix(got.Path, "/") && path.Clean(got.Path) == want.Path
			spelling = "trailing slash"
			if got.Path != want.Path+"/" {
				spelling = "other spelling that cleans to the path (accepted, must Stat back)"
				e.c.Note("local: example of a non-canonical collection path", fmt.Sprintf("%s of %q at %s reported the collection %q as %q", op, w.Name, e.epURL, want.Path, got.Path))
			}
		}
		if pathOK {
			e.c.Observe("local: spelling of reported collection paths", spelling, 1)
		}
	}
	if !pathOK {
		w.Want, w.Got = q(want.Path), q(got.Path)
		e.report(op, "path", xform(want.Path, got.Path), fmt.Sprintf("path %q reported as %q", want.Path, got.Path), w)
	}
	if got.IsDir != want.IsDir {
		w.Want, w.Got = fmt.Sprint(want.IsDir), fmt.Sprint(got.IsDir)
		e.report(op, "kind", "flipped", fmt.Sprintf("%q: IsDir=%v, backend says %v", want.Path, got.IsDir, want.IsDir), w)
		return
	}
	if want.IsDir {
		return
	}
	if got.Size != want.Size {
		w.Want, w.Got = fmt.Sprint(want.Size), fmt.Sprint(got.Size)
		e.report(op, "size", "altered", fmt.Sprintf("%q: size %d, backend says %d", want.Path, got.Size, want.Size), w)
	}
	if want.ModTime.IsZero() {
		if !got.ModTime.IsZero() {
			w.Want, w.Got = "zero", got.ModTime.UTC().Format(time.RFC3339Nano)
			e.report(op, "modtime", "invented", fmt.Sprintf("%q: backend has no modification time, client reports %v", want.Path, got.ModTime), w)
		}
	} else if got.ModTime.Unix() != want.ModTime.Unix() {
		w.Want, w.Got = want.ModTime.UTC().Format(time.RFC3339Nano), got.ModTime.UTC().Format(time.RFC3339Nano)
		how := "altered"
		if got.ModTime.IsZero() {
			how = "dropped"
		} else if d := got.ModTime.Unix() - want.ModTime.Unix(); d >= -14*3600 && d <= 14*3600 {
			how = "zone-shifted"
		}
		e.report(op, "modtime", how, fmt.Sprintf("%q: modification time %s, backend says %s", want.Path, w.Got, w.Want), w)
	}
	if got.MIMEType != want.MIME {
		w.Want, w.Got = q(want.MIME), q(got.MIMEType)
		e.report(op, "content-type", xform(want.MIME, got.MIMEType), fmt.Sprintf("%q: content type %q, backend says %q", want.Path, got.MIMEType, want.MIME), w)
	}
	if got.ETag != want.ETag {
		w.Want, w.Got = q(want.ETag), q(got.ETag)
		e.report(op, "etag", xform(want.ETag, got.ETag), fmt.Sprintf("%q: entity tag %q, backend says %q", want.Path, got.ETag, want.ETag), w)
	}
}

func (e *env) observeMeta(w wantInfo) {
	if w.IsDir || e.backend != "mem" {
		return
	}
	c := e.c
	for _, f := range strings.Split(tagClass(w.ETag), "+") {
		c.Observe("mem: entity-tag features", f, 1)
	}
	mc := "plain"
	if w.MIME == "" {
		mc = "empty"
	} else if strings.Contains(w.MIME, ";") {
		mc = "with-parameters"
	}
	if strings.ContainsAny(w.MIME, "<&>'\"") {
		mc += "+xml-meta"
	}
	c.Observe("mem: content-type classes", mc, 1)
	c.Observe("mem: modification-time classes", timeClass(w.ModTime), 1)
	c.Observe("mem: size classes", sizeClass(w.Size), 1)
}

// ---------------------------------------------------------------------------
// Read operations

func (e *env) doStat(abs string, f nameForm) {
	want, ok := e.want(abs)
	if !ok {
		return
	}
	w := witness{Name: q(f.name)}
	var fi *webdav.FileInfo
	var err error
	if !e.call("Stat", w, func() { fi, err = e.cl.Stat(e.ctx, f.name) }) {
		return
	}
	e.count("Stat", f.form, f.name)
	e.observeMeta(want)
	if err != nil {
		w.Want, w.Got = q(want.Path), err.Error()
		e.report("Stat", "result", errClass(err), fmt.Sprintf("Stat(%q) fails on an existing resource: %v", f.name, err), w)
		return
	}
	e.checkInfo("Stat", w, want, fi)
}

func (e *env) doOpen(abs string, f nameForm, data []byte) {
	w := witness{Name: q(f.name)}
	var got []byte
	var err error
	if !e.call("Open", w, func() {
		var rc io.ReadCloser
		rc, err = e.cl.Open(e.ctx, f.name)
		if err == nil {
			got, err = ioutil.ReadAll(rc)
			rc.Close()
		}
	}) {
		return
	}
	e.count("Open", f.form, f.name)
	e.c.Observe("content sizes", sizeBucket(len(data)), 1)
	if e.backend == "mem" {
		e.c.Observe("mem: Open by reader behaviour of the backend", e.readerKind, 1)
		for _, ps := range probeSizes {
			if len(data) == ps {
				e.c.Observe("mem: Open of boundary-sized files (reader behaviour, bytes)", fmt.Sprintf("%s, %d", e.readerKind, ps), 1)
			}
		}
	}
	if err != nil {
		w.Got = err.Error()
		e.report("Open", "result", errClass(err), fmt.Sprintf("Open(%q) fails on an existing file: %v", f.name, err), w)
		return
	}
	if !bytes.Equal(got, data) {
		w.Want, w.Got = mon.DataKey(string(data)), mon.DataKey(string(got))
		e.report("Open", "bytes", bytesDiff(data, got), fmt.Sprintf("Open(%q): %d bytes read, backend holds %d", f.name, len(got), len(data)), w)
	}
}

func sizeBucket(n int) string {
	switch {
	case n == 0:
		return "0"
	case n < 1024:
		return "<1KiB"
	case n < 65536:
		return "<64KiB"
	default:
		return "<=256KiB"
	}
}

func bytesDiff(want, got []byte) string {
	switch {
	case len(got) < len(want) && bytes.HasPrefix(want, got):
		return "truncated"
	case len(got) > len(want) && bytes.HasPrefix(got, want):
		return "extended"
	case len(got) == len(want):
		return "altered"
	}
	return "altered-length"
}

func (e *env) doReadDir(abs string, f nameForm, recursive bool) {
	op := "ReadDir"
	if recursive {
		op = "ReadDir(recursive)"
	}
	w := witness{Name: q(f.name)}
	var got []webdav.FileInfo
	var err error
	if !e.call(op, w, func() { got, err = e.cl.ReadDir(e.ctx, f.name, recursive) }) {
		return
	}
	e.count(op, f.form, f.name)
	if err != nil {
		w.Got = err.Error()
		e.report(op, "result", errClass(err), fmt.Sprintf("ReadDir(%q, %v) fails on an existing collection: %v", f.name, recursive, err), w)
		return
	}
	wantPaths := e.listing(abs, recursive)
	e.c.Observe("listing sizes", listBucket(len(wantPaths)), 1)
	wantSet := map[string]bool{}
	for _, p := range wantPaths {
		wantSet[p] = true
	}
	seen := map[string]int{}
	var extras []webdav.FileInfo
	var matched []*webdav.FileInfo
	membersOK := true
	for i := range got {
		fi := &got[i]
		k := e.canon(fi.Path)
		if !wantSet[k] {
			extras = append(extras, *fi)
			continue
		}
		seen[k]++
		if seen[k] == 2 {
			ww := w
			ww.Got = q(fi.Path)
			membersOK = false
			e.report(op, "members", "duplicate", fmt.Sprintf("ReadDir(%q, %v) lists %q more than once", f.name, recursive, fi.Path), ww)
			continue
		}
		if seen[k] == 1 {
			matched = append(matched, fi)
		}
	}
	var missing []string
	for _, p := range wantPaths {
		if seen[p] == 0 {
			missing = append(missing, p)
		}
	}
	if len(extras) > 0 || len(missing) > 0 {
		membersOK = false
	}
	// Metadata and the Stat round trip are judged only when the membership is
	// right: with mangled paths an entry may land on another resource's name
	// and every field would differ for that one reason.
	if membersOK {
		for _, fi := range matched {
			wi, ok := e.want(e.canon(fi.Path))
			if !ok {
				continue
			}
			e.observeMeta(wi)
			e.checkInfo("ReadDir", w, wi, fi)
			e.checkStatBack("ReadDir", w, fi)
		}
	}
	// An extra entry that is a transformation of a missing one is one path
	// defect, not a membership defect.
	for _, x := range extras {
		explained := false
		for i, m := range missing {
			wp := m
			if wi, ok := e.want(m); ok {
				wp = wi.Path
			}
			if h := xform(wp, x.Path); h != "altered" {
				ww := w
				ww.Want, ww.Got = q(wp), q(x.Path)
				e.report("ReadDir", "path", h, fmt.Sprintf("ReadDir(%q, %v) reports %q as %q", f.name, recursive, wp, x.Path), ww)
				missing = append(missing[:i], missing[i+1:]...)
				explained = true
				break
			}
		}
		if explained {
			continue
		}
		ww := w
		ww.Got = q(x.Path)
		how := "extra"
		if _, ok := e.want(e.canon(x.Path)); ok {
			how = "extra (resource outside the requested scope)"
		}
		e.report(op, "members", how, fmt.Sprintf("ReadDir(%q, %v) lists %q which is not the collection or a member in scope", f.name, recursive, x.Path), ww)
	}
	for _, m := range missing {
		ww := w
		ww.Want = q(m)
		how := "missing descendant"
		switch {
		case m == trimSlash(abs):
			how = "missing the collection itself"
		case len(segsOf(m)) == len(segsOf(abs))+1:
			how = "missing direct member"
		}
		e.report(op, "members", how, fmt.Sprintf("ReadDir(%q, %v) does not list %q", f.name, recursive, m), ww)
	}
}

func listBucket(n int) string {
	switch {
	case n <= 1:
		return "1 (empty collection)"
	case n <= 5:
		return "2-5"
	case n <= 20:
		return "6-20"
	}
	return ">20"
}

// checkStatBack: a listed path must be accepted back by Stat and describe the
// same resource.
func (e *env) checkStatBack(op string, w witness, fi *webdav.FileInfo) {
	if e.statBack[fi.Path] {
		return
	}
	e.statBack[fi.Path] = true
	w.Want = q(fi.Path)
	var fi2 *webdav.FileInfo
	var err error
	if !e.call("Stat", w, func() { fi2, err = e.cl.Stat(e.ctx, fi.Path) }) {
		return
	}
	e.count("Stat", "listed-path", fi.Path)
	if err != nil || fi2 == nil {
		w.Got = fw.ErrString(err)
		e.report(op, "path", "not accepted back by Stat: "+errClass(err), fmt.Sprintf("listed path %q is refused by Stat: %v", fi.Path, err), w)
		return
	}
	same := fi2.IsDir == fi.IsDir && e.canon(fi2.Path) == e.canon(fi.Path)
	if same && !fi.IsDir {
		same = fi2.Size == fi.Size && fi2.ETag == fi.ETag && fi2.MIMEType == fi.MIMEType && fi2.ModTime.Equal(fi.ModTime)
	}
	if !same {
		w.Got = fmt.Sprintf("%+v", *fi2)
		e.report(op, "path", "addresses a different resource", fmt.Sprintf("Stat of listed path %q describes %+v, the listing said %+v", fi.Path, *fi2, *fi), w)
		return
	}
	if !fi.IsDir {
		e.checkOpenBack(op, w, fi)
	}
}

// checkOpenBack: the listed path of a file, given to Open, delivers that
// file's bytes (Stat is not the only way a path is "addressed again").
func (e *env) checkOpenBack(op string, w witness, fi *webdav.FileInfo) {
	var data []byte
	if e.backend == "mem" {
		n := e.t.byPath[e.canon(fi.Path)]
		if n == nil || n.Dir || !n.Openable {
			return
		}
		if mf := e.mem.Files[e.canon(fi.Path)]; mf == nil || !bytes.Equal(mf.Data, n.Data) {
			return // replaced or removed by a mutator meanwhile
		}
		data = n.Data
	} else {
		b, err := ioutil.ReadFile(e.diskPath(e.canon(fi.Path)))
		if err != nil {
			return
		}
		data = b
	}
	var got []byte
	var err, rerr error
	if !e.call("Open", w, func() {
		var rc io.ReadCloser
		rc, err = e.cl.Open(e.ctx, fi.Path)
		if err == nil {
			got, rerr = ioutil.ReadAll(rc)
			rc.Close()
		}
	}) {
		return
	}
	e.count("Open", "listed-path", fi.Path)
	if err != nil {
		w.Got = err.Error()
		e.report(op, "path", "not accepted back by Open: "+errClass(err), fmt.Sprintf("listed path %q is refused by Open: %v", fi.Path, err), w)
		return
	}
	if rerr != nil || !bytes.Equal(got, data) {
		w.Want, w.Got = mon.DataKey(string(data)), mon.DataKey(string(got))+" read error: "+fw.ErrString(rerr)
		e.report(op, "path", "Open delivers other bytes: "+bytesDiff(data, got), fmt.Sprintf("Open of listed path %q: %d bytes read (read error %v), backend holds %d", fi.Path, len(got), rerr, len(data)), w)
	}
}

// readPhase: Stat every resource under every name form, list every
// collection both ways, read every file.
func (e *env) readPhase() {
	for _, n := range e.t.Nodes {
		abs := absPath(n.Segs)
		for _, f := range e.forms(n.Segs, n.Dir) {
			e.doStat(abs, f)
		}
		if n.Dir {
			for _, rec := range []bool{false, true} {
				fs := e.forms(n.Segs, true)
				e.doReadDir(abs, fs[e.r.Intn(len(fs))], rec)
				if len(fs) > 1 {
					e.doReadDir(abs, fs[e.r.Intn(len(fs))], rec)
				}
			}
			continue
		}
		e.doStatFileSlash(abs)
		if e.backend == "mem" && !n.Openable {
			continue
		}
		e.doOpen(abs, e.anyForm(n.Segs, false), n.Data)
		e.doOpenFileSlash(abs, n.Data)
	}
}

// backendStat asks the backend directly (not through HTTP) about a name.
func (e *env) backendStat(name string) (*webdav.FileInfo, error) {
	if e.backend == "mem" {
		return e.mem.Stat(e.ctx, name)
	}
	return e.lfs.Stat(e.ctx, name)
}

// doStatFileSlash: a plain file named by its absolute path plus a trailing
// slash. Whether that names the file is the backend's decision (both backends
// here resolve it to the file); the server may also refuse. But if Stat
// succeeds, everything it reports must be the backend's own answer for that
// very name.
func (e *env) doStatFileSlash(abs string) {
	name := abs + "/"
	ref, rerr := e.backendStat(name)
	if rerr != nil || ref == nil {
		e.c.Observe("file named with a trailing slash", "backend refuses the name itself (not judged)", 1)
		return
	}
	w := witness{Name: q(name)}
	var fi *webdav.FileInfo
	var err error
	if !e.call("Stat", w, func() { fi, err = e.cl.Stat(e.ctx, name) }) {
		return
	}
	e.count("Stat", "abs/ (file)", name)
	if err != nil {
		e.c.Observe("file named with a trailing slash", "Stat refused: "+errClass(err)+" (accepted)", 1)
		return
	}
	e.c.Observe("file named with a trailing slash", "Stat answered, compared with the backend's own answer", 1)
	want := wantInfo{Path: ref.Path, IsDir: ref.IsDir, Size: ref.Size, ModTime: ref.ModTime, MIME: ref.MIMEType, ETag: ref.ETag}
	if fi != nil && sameRes(fi.Path, ref.Path) {
		want.Path = fi.Path // either spelling of the same name
	}
	e.checkInfo("Stat", w, want, fi)
}

// doOpenFileSlash: same name form for Open; a refusal is accepted, bytes are not.
func (e *env) doOpenFileSlash(abs string, data []byte) {
	name := abs + "/"
	if ref, rerr := e.backendStat(name); rerr != nil || ref == nil || ref.IsDir {
		return
	}
	w := witness{Name: q(name)}
	var got []byte
	var err, rerr error
	if !e.call("Open", w, func() {
		var rc io.ReadCloser
		rc, err = e.cl.Open(e.ctx, name)
		if err == nil {
			got, rerr = ioutil.ReadAll(rc)
			rc.Close()
		}
	}) {
		return
	}
	e.count("Open", "abs/ (file)", name)
	if err != nil {
		e.c.Observe("file named with a trailing slash", "Open refused: "+errClass(err)+" (accepted)", 1)
		return
	}
	e.c.Observe("file named with a trailing slash", "Open answered, bytes compared", 1)
	if rerr != nil || !bytes.Equal(got, data) {
		w.Want, w.Got = mon.DataKey(string(data)), mon.DataKey(string(got))+" read error: "+fw.ErrString(rerr)
		e.report("Open", "bytes", bytesDiff(data, got), fmt.Sprintf("Open(%q): %d bytes read (read error %v), backend holds %d", name, len(got), rerr, len(data)), w)
	}
}

// ---------------------------------------------------------------------------
// Mutators against the recording in-memory backend

func optString(op string, co *webdav.CopyOptions, mo *webdav.MoveOptions) string {
	switch op {
	case "Copy":
		if co == nil {
			return "nil"
		}
		return fmt.Sprintf("NoRecursive=%v NoOverwrite=%v", co.NoRecursive, co.NoOverwrite)
	case "Move":
		if mo == nil {
			return "nil"
		}
		return fmt.Sprintf("NoOverwrite=%v", mo.NoOverwrite)
	}
	return ""
}

var mutating = map[string]bool{"Create": true, "RemoveAll": true, "Mkdir": true, "Copy": true, "Move": true}

func (e *env) memExists(abs string) bool { return e.mem.Files[trimSlash(abs)] != nil }

// memMutate runs one mutator and checks the single call the backend received.
func (e *env) memMutate(op string, src, dst nameForm, co *webdav.CopyOptions, mo *webdav.MoveOptions, data []byte) {
	w := witness{Name: q(src.name), Options: optString(op, co, mo)}
	if op == "Copy" || op == "Move" {
		w.Dest = q(dst.name)
	}
	wantSrc := resolve(e.ep.Segs, src.name)
	wantDst := resolve(e.ep.Segs, dst.name)
	var backendFails bool
	switch op {
	case "Mkdir":
		backendFails = e.memExists(wantSrc)
	case "RemoveAll", "Copy", "Move":
		backendFails = !e.memExists(wantSrc)
	}
	e.mem.Calls()
	var err error
	if !e.call(op, w, func() {
		switch op {
		case "Mkdir":
			err = e.cl.Mkdir(e.ctx, src.name)
		case "RemoveAll":
			err = e.cl.RemoveAll(e.ctx, src.name)
		case "Copy":
			err = e.cl.Copy(e.ctx, src.name, dst.name, co)
		case "Move":
			err = e.cl.Move(e.ctx, src.name, dst.name, mo)
		case "Create":
			var wc io.WriteCloser
			wc, err = e.cl.Create(e.ctx, src.name)
			if err == nil {
				writeChunks(e.r, wc, data)
				err = wc.Close()
			}
		}
	}) {
		return
	}
	form := src.form
	if op == "Copy" || op == "Move" {
		form += " -> " + dst.form
		e.c.Observe("option combinations", op+" "+w.Options, 1)
	}
	e.count(op, form, src.name+"/"+dst.name)
	if (err != nil) != backendFails {
		e.c.Observe("anomalies (not findings: the statement is silent on return values)",
			fmt.Sprintf("%s: backend fails=%v, client returned %s", op, backendFails, errClass(err)), 1)
	} else {
		e.c.Observe("mutator results", fmt.Sprintf("%s backend fails=%v client %s", op, backendFails, errClass(err)), 1)
	}
	var calls []doubles.Call
	for _, c := range e.mem.Calls() {
		if mutating[c.Op] {
			calls = append(calls, c)
		}
	}
	if len(calls) == 0 {
		w.Got = fw.ErrString(err)
		e.report(op, "backend call", "none: "+errClass(err), fmt.Sprintf("%s(%q) did not reach the backend (client returned %v)", op, src.name, err), w)
		return
	}
	if len(calls) > 1 || calls[0].Op != op {
		var ops []string
		for _, c := range calls {
			ops = append(ops, c.Op)
		}
		w.Got = strings.Join(ops, ",")
		e.report(op, "backend call", "other operations", fmt.Sprintf("%s(%q) reached the backend as %v", op, src.name, ops), w)
		return
	}
	c := calls[0]
	e.c.Observe("backend calls checked", op, 1)
	if !sameRes(c.Path, wantSrc) {
		w.Want, w.Got = q(wantSrc), q(c.Path)
		e.report(op, "name ("+formKind(src.form)+")", xform(wantSrc, c.Path), fmt.Sprintf("%s(%q) at %s reached the backend for %q, want %q", op, src.name, e.epURL, c.Path, wantSrc), w)
	}
	switch op {
	case "Copy", "Move":
		gotDst, _ := c.Arg.(string)
		if !sameRes(gotDst, wantDst) {
			w.Want, w.Got = q(wantDst), q(gotDst)
			e.report(op, "destination ("+formKind(dst.form)+")", xform(wantDst, gotDst), fmt.Sprintf("%s(%q -> %q) at %s reached the backend with destination %q, want %q", op, src.name, dst.name, e.epURL, gotDst, wantDst), w)
		}
		if op == "Copy" {
			var wantO webdav.CopyOptions
			if co != nil {
				wantO = *co
			}
			gotO, _ := c.Arg2.(webdav.CopyOptions)
			if gotO.NoOverwrite != wantO.NoOverwrite {
				w.Want, w.Got = fmt.Sprint(wantO.NoOverwrite), fmt.Sprint(gotO.NoOverwrite)
				e.report(op, "NoOverwrite", "flipped", fmt.Sprintf("Copy with %s reached the backend with NoOverwrite=%v", w.Options, gotO.NoOverwrite), w)
			}
			if gotO.NoRecursive != wantO.NoRecursive {
				w.Want, w.Got = fmt.Sprint(wantO.NoRecursive), fmt.Sprint(gotO.NoRecursive)
				e.report(op, "NoRecursive", "flipped", fmt.Sprintf("Copy with %s reached the backend with NoRecursive=%v", w.Options, gotO.NoRecursive), w)
			}
		} else {
			var wantO webdav.MoveOptions
			if mo != nil {
				wantO = *mo
			}
			gotO, _ := c.Arg2.(webdav.MoveOptions)
			if gotO.NoOverwrite != wantO.NoOverwrite {
				w.Want, w.Got = fmt.Sprint(wantO.NoOverwrite), fmt.Sprint(gotO.NoOverwrite)
				e.report(op, "NoOverwrite", "flipped", fmt.Sprintf("Move with %s reached the backend with NoOverwrite=%v", w.Options, gotO.NoOverwrite), w)
			}
		}
	case "Create":
		got, _ := c.Arg.([]byte)
		e.c.Observe("content sizes", sizeBucket(len(data)), 1)
		if !bytes.Equal(got, data) {
			w.Want, w.Got = mon.DataKey(string(data)), mon.DataKey(string(got))
			e.report(op, "bytes", bytesDiff(data, got), fmt.Sprintf("Create(%q): backend received %d bytes, %d were written", src.name, len(got), len(data)), w)
		}
	}
}

// formKind folds the name forms into absolute / relative for finding keys.
func formKind(form string) string {
	if strings.HasPrefix(form, "abs") {
		return "absolute"
	}
	return "relative"
}

// plainReader hides every optional interface of a reader (io.WriterTo in
// particular, which io.Copy would prefer over the destination's ReadFrom).
type plainReader struct{ r io.Reader }

func (p plainReader) Read(b []byte) (int, error) { return p.r.Read(b) }

// lastWithEOF returns the final bytes together with io.EOF in one Read, as
// the io.Reader contract allows (HTTP bodies of known length do).
type lastWithEOF struct {
	data []byte
	max  int
}

func (l *lastWithEOF) Read(b []byte) (int, error) {
	if len(l.data) == 0 {
		return 0, io.EOF
	}
	n := len(b)
	if n > l.max {
		n = l.max
	}
	if n > len(l.data) {
		n = len(l.data)
	}
	copy(b, l.data[:n])
	l.data = l.data[n:]
	if len(l.data) == 0 {
		return n, io.EOF
	}
	return n, nil
}

// writeChunks hands data to the writer the ways a caller can: Write calls of
// random sizes, or io.Copy from a source (which uses the writer's ReadFrom if
// it has one) that is plain, delivers one byte per Read, or delivers its last
// bytes together with io.EOF.
func writeChunks(r *rand.Rand, w io.Writer, data []byte) {
	switch r.Intn(6) {
	case 0:
		io.Copy(w, plainReader{bytes.NewReader(data)})
		return
	case 1:
		io.Copy(w, &lastWithEOF{data: data, max: 1 + r.Intn(70000)})
		return
	case 2:
		if len(data) < 5000 {
			io.Copy(w, &lastWithEOF{data: data, max: 1})
			return
		}
	}
	for len(data) > 0 {
		n := 1 + r.Intn(70000)
		if r.Intn(3) == 0 {
			n = 1 + r.Intn(100)
		}
		if n > len(data) {
			n = len(data)
		}
		if _, err := w.Write(data[:n]); err != nil {
			return
		}
		data = data[n:]
	}
}

var copyCombos = []*webdav.CopyOptions{nil, {}, {NoRecursive: true}, {NoOverwrite: true}, {NoRecursive: true, NoOverwrite: true}}
var moveCombos = []*webdav.MoveOptions{nil, {}, {NoOverwrite: true}}

// target picks a name for a mutator: an existing resource below the endpoint,
// any resource of the tree at all (the endpoint collection itself - named ""
// by a relative name -, its ancestors, the root, the decoys beside it - named
// by "../"-climbing relative names or absolutely), a fresh name in an existing
// collection (one time in five a collection beside the endpoint), or a fresh
// name below a missing one.
func (e *env) target() ([]string, bool) {
	var under_ []*node
	for _, n := range e.t.Nodes {
		if under(n.Segs, e.ep.Segs) {
			under_ = append(under_, n)
		}
	}
	dirs := [][]string{e.ep.Segs}
	var allDirs [][]string
	for _, n := range e.t.Nodes {
		if n.Dir {
			allDirs = append(allDirs, n.Segs)
			if under(n.Segs, e.ep.Segs) {
				dirs = append(dirs, n.Segs)
			}
		}
	}
	switch k := e.r.Intn(12); {
	case k < 4 && len(under_) > 0:
		n := under_[e.r.Intn(len(under_))]
		return n.Segs, n.Dir
	case k < 6:
		n := e.t.Nodes[e.r.Intn(len(e.t.Nodes))]
		return n.Segs, n.Dir
	case k < 11:
		if e.r.Intn(5) == 0 {
			dirs = allDirs
		}
		return cat(dirs[e.r.Intn(len(dirs))], e.fresh()), e.r.Intn(4) == 0
	default:
		return cat(dirs[e.r.Intn(len(dirs))], e.fresh(), e.fresh()), false
	}
}

func (e *env) memMutatePhase() {
	type step struct {
		op string
		co *webdav.CopyOptions
		mo *webdav.MoveOptions
	}
	var steps []step
	for i := 0; i < 4; i++ {
		steps = append(steps, step{op: "Mkdir"}, step{op: "RemoveAll"}, step{op: "Create"})
	}
	for i := 0; i < 2; i++ {
		for _, co := range copyCombos {
			steps = append(steps, step{op: "Copy", co: co})
		}
		for _, mo := range moveCombos {
			steps = append(steps, step{op: "Move", mo: mo})
		}
	}
	e.r.Shuffle(len(steps), func(i, j int) { steps[i], steps[j] = steps[j], steps[i] })
	for _, s := range steps {
		segs, dir := e.target()
		src := e.anyForm(segs, dir)
		dsegs, ddir := e.target()
		dst := e.anyForm(dsegs, ddir)
		var data []byte
		if s.op == "Create" {
			data = genData(e.r, e.r.Intn(6) == 0)
		}
		e.memMutate(s.op, src, dst, s.co, s.mo, data)
	}
}

// ---------------------------------------------------------------------------
// Mutators against LocalFileSystem: effect on the real directory

func relKey(abs string) string { return strings.TrimPrefix(trimSlash(abs), "/") }

func inSub(k, root string) bool { return k == root || strings.HasPrefix(k, root+"/") }

func cloneSnap(s mon.Snap) mon.Snap {
	o := make(mon.Snap, len(s))
	for k, v := range s {
		o[k] = v
	}
	return o
}

// localMutate runs one mutator on names (absolute canonical paths srcAbs /
// dstAbs, presented to the client as src / dst) and compares the directory
// afterwards with the reference effect. refuse: the backend must refuse
// (NoOverwrite and the destination exists) and leave everything as it was.
func (e *env) localMutate(op string, srcAbs, dstAbs string, src, dst nameForm, co *webdav.CopyOptions, mo *webdav.MoveOptions, data []byte, refuse bool) {
	w := witness{Name: q(src.name), Options: optString(op, co, mo)}
	if op == "Copy" || op == "Move" {
		w.Dest = q(dst.name)
	}
	before, err := mon.Snapshot(e.root)
	if err != nil {
		e.c.Inconclusive("C05: snapshot failed: " + err.Error())
		return
	}
	exp := cloneSnap(before)
	sk, dk := relKey(srcAbs), relKey(dstAbs)
	switch op {
	case "Create":
		exp[sk] = mon.Entry{Data: string(data)}
	case "Mkdir":
		exp[sk] = mon.Entry{Dir: true}
	case "RemoveAll":
		for k := range exp {
			if inSub(k, sk) {
				delete(exp, k)
			}
		}
	case "Copy", "Move":
		if refuse {
			break
		}
		for k := range exp {
			if inSub(k, dk) {
				delete(exp, k)
			}
		}
		if op == "Copy" {
			s := before[sk]
			exp[dk] = mon.Entry{Dir: s.Dir, Data: s.Data}
			if s.Dir && (co == nil || !co.NoRecursive) {
				for k, v := range before {
					if inSub(k, sk) && k != sk {
						exp[dk+k[len(sk):]] = mon.Entry{Dir: v.Dir, Data: v.Data}
					}
				}
			}
		} else {
			for k, v := range before {
				if inSub(k, sk) {
					delete(exp, k)
					exp[dk+k[len(sk):]] = v
				}
			}
		}
	}
	if !e.call(op, w, func() {
		switch op {
		case "Mkdir":
			err = e.cl.Mkdir(e.ctx, src.name)
		case "RemoveAll":
			err = e.cl.RemoveAll(e.ctx, src.name)
		case "Copy":
			err = e.cl.Copy(e.ctx, src.name, dst.name, co)
		case "Move":
			err = e.cl.Move(e.ctx, src.name, dst.name, mo)
		case "Create":
			var wc io.WriteCloser
			wc, err = e.cl.Create(e.ctx, src.name)
			if err == nil {
				writeChunks(e.r, wc, data)
				err = wc.Close()
			}
		}
	}) {
		return
	}
	form := src.form
	if op == "Copy" || op == "Move" {
		form += " -> " + dst.form
		e.c.Observe("option combinations", op+" "+w.Options, 1)
	}
	if op == "Create" {
		e.c.Observe("content sizes", sizeBucket(len(data)), 1)
	}
	e.count(op, form, src.name+"/"+dst.name)
	if (err != nil) != refuse {
		e.c.Observe("anomalies (not findings: the statement is silent on return values)",
			fmt.Sprintf("local %s: refusal expected=%v, client returned %s", op, refuse, errClass(err)), 1)
	} else {
		e.c.Observe("mutator results", fmt.Sprintf("local %s refusal expected=%v client %s", op, refuse, errClass(err)), 1)
	}
	after, serr := mon.Snapshot(e.root)
	if serr != nil {
		e.c.Inconclusive("C05: snapshot failed: " + serr.Error())
		return
	}
	d := mon.Diff(exp, after, false)
	e.c.Observe("directory effects checked", op, 1)
	if len(d) == 0 {
		return
	}
	sort.Strings(d)
	if len(d) > 6 {
		d = append(d[:6], "...")
	}
	w.Got = strings.Join(d, "; ") + " | client returned " + fw.ErrString(err)
	unchanged := len(mon.Diff(before, after, false)) == 0 && len(before) == len(after)
	how := "other than requested"
	switch {
	case refuse:
		how = "destination replaced despite NoOverwrite"
	case unchanged:
		how = "none: " + errClass(err)
	case op == "Copy" && co != nil && co.NoRecursive && before[sk].Dir:
		how = "other than a depth-0 copy"
	}
	e.report(op, "effect on the directory", how, fmt.Sprintf("%s(%q, %q, %s): directory differs from the requested effect: %s", op, src.name, dst.name, w.Options, w.Got), w)
}

// localPick lists files / collections strictly below the endpoint collection
// as they are on disk now.
func (e *env) localPick() (files, dirs, emptyDirs, fullDirs []string) {
	all := e.listing(absPath(e.ep.Segs), true)
	kids := map[string]int{}
	for _, p := range all[1:] {
		kids[path.Dir(p)]++
	}
	for _, p := range all[1:] {
		st, err := os.Lstat(e.diskPath(p))
		if err != nil {
			continue
		}
		if st.IsDir() {
			dirs = append(dirs, p)
			if kids[p] == 0 {
				emptyDirs = append(emptyDirs, p)
			} else {
				fullDirs = append(fullDirs, p)
			}
		} else {
			files = append(files, p)
		}
	}
	return
}

func pick(r *rand.Rand, l []string) (string, bool) {
	if len(l) == 0 {
		return "", false
	}
	return l[r.Intn(len(l))], true
}

func (e *env) localMutatePhase() {
	epAbs := absPath(e.ep.Segs)
	// newIn returns a fresh path in a collection that is not inside `not`.
	newIn := func(not string) string {
		_, dirs, _, _ := e.localPick()
		cands := []string{epAbs}
		for _, d := range dirs {
			if not == "" || !inSub(relKey(d), relKey(not)) {
				cands = append(cands, d)
			}
		}
		for {
			p := absPath(cat(segsOf(cands[e.r.Intn(len(cands))]), e.fresh()))
			if _, err := os.Lstat(e.diskPath(p)); err != nil {
				return p
			}
		}
	}
	nf := func(abs string, dir bool) nameForm { return e.anyForm(segsOf(abs), dir) }

	// Create: new files and one overwrite
	for i := 0; i < 3; i++ {
		p := newIn("")
		e.localMutate("Create", p, "", nf(p, false), nameForm{}, nil, nil, genData(e.r, i == 0), false)
	}
	if files, _, _, _ := e.localPick(); len(files) > 0 {
		p, _ := pick(e.r, files)
		e.localMutate("Create", p, "", nf(p, false), nameForm{}, nil, nil, genData(e.r, false), false)
	}
	// Mkdir
	for i := 0; i < 2; i++ {
		p := newIn("")
		e.localMutate("Mkdir", p, "", nf(p, true), nameForm{}, nil, nil, nil, false)
	}
	// Copy: every option combination on a file -> new name
	for _, co := range copyCombos {
		files, _, _, _ := e.localPick()
		s, ok := pick(e.r, files)
		if !ok {
			break
		}
		d := newIn("")
		e.localMutate("Copy", s, d, nf(s, false), nf(d, false), co, nil, nil, false)
	}
	// Copy onto an existing file: replaced unless NoOverwrite
	for _, co := range copyCombos {
		files, _, _, _ := e.localPick()
		if len(files) < 2 {
			break
		}
		i := e.r.Intn(len(files))
		j := (i + 1 + e.r.Intn(len(files)-1)) % len(files)
		e.localMutate("Copy", files[i], files[j], nf(files[i], false), nf(files[j], false), co, nil, nil, co != nil && co.NoOverwrite)
	}
	// Copy of collections: an empty one (both depths), a non-empty one at depth 0
	if _, _, empty, _ := e.localPick(); len(empty) > 0 {
		s, _ := pick(e.r, empty)
		d := newIn(s)
		e.localMutate("Copy", s, d, nf(s, true), nf(d, true), copyCombos[e.r.Intn(len(copyCombos))], nil, nil, false)
	}
	if _, _, _, full := e.localPick(); len(full) > 0 {
		s, _ := pick(e.r, full)
		d := newIn(s)
		e.localMutate("Copy", s, d, nf(s, true), nf(d, true), &webdav.CopyOptions{NoRecursive: true, NoOverwrite: e.r.Intn(2) == 0}, nil, nil, false)
	}
	// Move: every option combination, file -> new name; onto an existing file; a collection
	for _, mo := range moveCombos {
		files, _, _, _ := e.localPick()
		s, ok := pick(e.r, files)
		if !ok {
			break
		}
		d := newIn("")
		e.localMutate("Move", s, d, nf(s, false), nf(d, false), nil, mo, nil, false)
	}
	for _, mo := range moveCombos {
		files, _, _, _ := e.localPick()
		if len(files) < 2 {
			break
		}
		i := e.r.Intn(len(files))
		j := (i + 1 + e.r.Intn(len(files)-1)) % len(files)
		e.localMutate("Move", files[i], files[j], nf(files[i], false), nf(files[j], false), nil, mo, nil, mo != nil && mo.NoOverwrite)
	}
	if _, dirs, _, _ := e.localPick(); len(dirs) > 0 {
		s, _ := pick(e.r, dirs)
		d := newIn(s)
		e.localMutate("Move", s, d, nf(s, true), nf(d, true), nil, moveCombos[e.r.Intn(len(moveCombos))], nil, false)
	}
	// RemoveAll: a file and a collection
	if files, _, _, _ := e.localPick(); len(files) > 0 {
		p, _ := pick(e.r, files)
		e.localMutate("RemoveAll", p, "", nf(p, false), nameForm{}, nil, nil, nil, false)
	}
	if _, dirs, _, _ := e.localPick(); len(dirs) > 0 {
		p, _ := pick(e.r, dirs)
		e.localMutate("RemoveAll", p, "", nf(p, true), nameForm{}, nil, nil, nil, false)
	}
	// Afterwards the client must again see exactly what is on disk.
	e.statBack = map[string]bool{}
	e.doReadDir(epAbs, nameForm{"rel-empty", ""}, true)
	e.doReadDir("/", nameForm{"abs", "/"}, true)
	files, _, _, _ := e.localPick()
	for i, p := range files {
		if i >= 6 {
			break
		}
		b, err := ioutil.ReadFile(e.diskPath(p))
		if err == nil {
			e.doOpen(p, nf(p, false), b)
		}
	}
}

// ---------------------------------------------------------------------------
// Scenarios

func (e *env) buildLocal() error {
	e.root = filepath.Join(e.c.WorkDir, fmt.Sprintf("local-%s-%d", e.transport, e.idx))
	if err := os.MkdirAll(e.root, 0755); err != nil {
		return err
	}
	// The served directory is configured in several spellings (what the
	// operator passes to LocalFileSystem is not canonical in general:
	// cmd/webdav-server serves "." by default).
	spelled := e.root
	switch e.idx % 5 {
	case 4:
		// the operator's path is a symbolic link to the directory
		link := e.root + "-via-link"
		os.Remove(link)
		if err := os.Symlink(e.root, link); err == nil {
			spelled = link
		}
	case 1:
		if wd, err := os.Getwd(); err == nil {
			if rel, err := filepath.Rel(wd, e.root); err == nil {
				spelled = rel
			}
		}
	case 2:
		spelled = e.root + "/"
	case 3:
		spelled = filepath.Dir(e.root) + "/./" + filepath.Base(e.root)
	}
	e.c.Observe("served directory configured as", map[bool]string{true: "absolute", false: "relative to the working directory"}[filepath.IsAbs(spelled)]+
		map[bool]string{true: ", clean", false: ", not clean (trailing slash, dot segment)"}[filepath.Clean(spelled) == spelled]+
		map[bool]string{true: ", a symbolic link to the directory", false: ""}[spelled == e.root+"-via-link"], 1)
	e.lfs = webdav.LocalFileSystem(spelled)
	for _, n := range e.t.Nodes {
		p := e.diskPath(absPath(n.Segs))
		if n.Dir {
			if err := os.MkdirAll(p, 0755); err != nil {
				return err
			}
			continue
		}
		if err := ioutil.WriteFile(p, n.Data, 0644); err != nil {
			return err
		}
		// Modification times are set explicitly (never by sleeping): whole
		// seconds, sub-second parts, before 1970, far future.
		var sec int64
		switch e.r.Intn(6) {
		case 0:
			sec = -e.r.Int63n(2000000000)
		case 1:
			sec = 4102444800 + e.r.Int63n(3000000000)
		default:
			sec = 946684800 + e.r.Int63n(900000000)
		}
		var ns int64
		if e.r.Intn(3) != 0 {
			ns = e.r.Int63n(1e9)
		}
		mt := time.Unix(sec, ns)
		if err := os.Chtimes(p, mt, mt); err != nil {
			return err
		}
	}
	return nil
}

func (e *env) buildMem() {
	e.mem = doubles.NewMemFS()
	// The io.Reader contract leaves the backend free to deliver short reads
	// and to return the last bytes together with io.EOF: each combination
	// gets a quarter of the scenarios.
	k := (e.idx / len(endpoints)) % 4
	e.mem.DataErr = k&1 != 0
	e.mem.SmallReads = k&2 != 0
	e.readerKind = []string{"plain bytes.Reader", "last bytes with io.EOF", "<=7 bytes per Read", "<=7 bytes per Read + last bytes with io.EOF"}[k]
	for _, n := range e.t.Nodes {
		genInfo(e.r, n)
		if len(n.Segs) == 0 {
			n.Info.Path = "/"
		}
		e.mem.Put(n.Info, n.Data)
	}
}

// runScenario builds one tree, serves it, and runs the read phase and the
// mutator phase through a fresh client.
func runScenario(c *fw.Ctx, kind, backend, transport string, idx int) {
	c.Journal(map[string]interface{}{"kind": kind, "backend": backend, "transport": transport, "scenario": idx})
	defer c.JournalDone()
	r := c.Rand("c05-"+kind+backend+"-"+transport, idx)
	e := &env{c: c, kind: kind, backend: backend, transport: transport, idx: idx, r: r, ctx: context.Background(), statBack: map[string]bool{}}
	e.ep = endpoints[idx%len(endpoints)]
	big := 0
	if kind == "" && (backend == "local" || idx%3 == 0) {
		big = 2
	}
	wide := kind == "" && idx%17 == 7
	probes := 0
	if backend == "mem" {
		probes = 4
	}
	e.t = genTree(r, e.ep.Segs, big, wide, probes)

	var h *webdav.Handler
	if backend == "local" {
		if err := e.buildLocal(); err != nil {
			c.Inconclusive("C05: cannot build tree on disk: " + err.Error())
			return
		}
		defer os.RemoveAll(e.root)
		h = &webdav.Handler{FileSystem: e.lfs}
	} else {
		e.buildMem()
		h = &webdav.Handler{FileSystem: e.mem}
	}

	var hc webdav.HTTPClient
	base := "http://h"
	if transport == "tcp" {
		srv := httptest.NewServer(h)
		defer func() {
			http.DefaultClient.CloseIdleConnections()
			srv.Close()
		}()
		base = srv.URL
		hc = nil // http.DefaultClient
	} else {
		ip := &doubles.InProc{Handler: h, Record: true}
		hc = ip
		defer func() {
			for _, x := range ip.Exchanges() {
				c.Observe("wire: requests by method and status (in-process transport)", fmt.Sprintf("%s %d", x.Method, x.Status), 1)
			}
		}()
	}
	e.epURL = base + e.ep.Suffix
	cl, err := webdav.NewClient(hc, e.epURL)
	if err != nil {
		c.Inconclusive("C05: NewClient failed: " + err.Error())
		return
	}
	e.cl = cl
	c.Observe("scenarios", strings.TrimSpace(kind+" "+backend+" "+transport+" endpoint=http://h"+e.ep.Suffix), 1)
	switch kind {
	case "related":
		e.relatedPhase()
		return
	case "long":
		e.longPhase()
		return
	case "own":
		e.ownPhase()
		return
	}
	rb := listBucket(len(e.t.Nodes))
	if len(e.t.Nodes) > 100 {
		rb = ">100 (one collection with 150+ members)"
	}
	c.Observe("resources per scenario", rb, 1)

	e.readPhase()
	if backend == "mem" {
		e.memMutatePhase()
	} else {
		e.localMutatePhase()
	}
	if c.WantSample() && idx%len(endpoints) == 4 {
		var names []string
		for i, n := range e.t.Nodes {
			if i >= 12 {
				break
			}
			names = append(names, absPath(n.Segs))
		}
		c.Sample(map[string]interface{}{"backend": backend, "transport": transport, "scenario": idx, "endpoint": e.epURL, "first_resources": names})
	}
}

func run(c *fw.Ctx) {
	nLocal := c.Pick(192, 3200)
	nMem := c.Pick(288, 4800)
	nTCP := c.Pick(6, 48)
	i := 0
	for k := 0; k < nLocal; k++ {
		if c.Mine(i) {
			runScenario(c, "", "local", "inproc", k)
		}
		i++
	}
	for k := 0; k < nMem; k++ {
		if c.Mine(i) {
			runScenario(c, "", "mem", "inproc", k)
		}
		i++
	}
	for k := 0; k < nTCP; k++ {
		if c.Mine(i) {
			runScenario(c, "", "local", "tcp", k)
		}
		i++
		if c.Mine(i) {
			runScenario(c, "", "mem", "tcp", k)
		}
		i++
	}
	for k := 0; k < c.Pick(48, 768); k++ {
		if c.Mine(i) {
			runScenario(c, "related", "local", "inproc", k)
		}
		i++
	}
	for k := 0; k < c.Pick(36, 576); k++ {
		if c.Mine(i) {
			runScenario(c, "long", "local", "inproc", k)
		}
		i++
	}
	for k := 0; k < c.Pick(32, 512); k++ {
		if c.Mine(i) {
			runScenario(c, "own", "local", "inproc", k)
		}
		i++
	}
}

func replay(c *fw.Ctx, raw json.RawMessage) {
	var w witness
	if json.Unmarshal(raw, &w) != nil || w.Backend == "" {
		return
	}
	runScenario(c, w.Kind, w.Backend, w.Transport, w.Scenario)
}

func init() {
	fw.Register(&fw.Property{
		ID:     "C05",
		Run:    run,
		Replay: replay,
		Rule: "A scenario = one generated resource tree (prefix collections of the endpoint, decoys beside the prefix, 2-7 collections and 5-16 files with hostile names (1 in 40 stretched to 240 bytes), depth <= 4 below the endpoint, file sizes 0 B - 256 KiB; every 17th scenario has one collection with 150+ members) served by the real webdav.Handler to the real webdav.Client " +
			"(in-process HTTP/1.1 serialisation; a small slice over TCP with http.DefaultClient). Endpoints cycle over http://h, http://h/, /p, /p/, /p/q/ and one prefix that needs escaping. " +
			"Read phase: Stat of every resource under every name form (absolute, absolute with trailing slash, relative, './x', 'zz/../x', '' for the endpoint collection, '../..'-climbing names for resources beside the endpoint collection), ReadDir of every collection with and without recursion, Stat of every listed path and Open of every listed file under the listed path, Open of every file. " +
			"Backends: LocalFileSystem on a real directory (reference = os.Lstat/ReadFile/own directory walk; tag and type from LocalFileSystem.Stat called directly) and an in-memory FileSystem with arbitrary tags, MIME types, instants 0001-9999 in random zones and sizes up to 2^62 (reference = the stored FileInfo). " +
			"Mutator phase: in-memory backend - Mkdir/RemoveAll/Create/Copy (5 option values incl. nil)/Move (3) on existing and missing names under random name forms - below the endpoint collection, the endpoint collection itself (relative name ''), and resources beside or above it (absolute names, '../'-climbing relative names) as sources and as destinations -, oracle = the single mutating call the backend recorded (name, destination, options, bytes); " +
			"LocalFileSystem - Create/Mkdir/Copy/Move/RemoveAll with every option value, oracle = directory snapshot after the call equals the reference effect applied to the snapshot before, then a full recursive listing through the client equals the directory. " +
			"Related-name scenarios (LocalFileSystem): groups of siblings in one collection that differ only in letter case (ASCII and non-ASCII), Unicode normalisation, a trailing dot or space, by being byte prefixes of one another, or by being percent-/entity-encoded spellings of one another (fixed groups plus look-alikes derived from a generated name), some present as files, some as collections, some absent; Stat/Open/ReadDir of all, then Create/Mkdir/Copy/Move between random ordered pairs (onto the absent or existing look-alike, or into the look-alike collection under the own name), RemoveAll of one; oracle as for every LocalFileSystem mutator (exactly the named resource changed, the look-alike untouched). " +
			"Boundary-length scenarios (LocalFileSystem): final components of 200-255 bytes built from 1/2/3/4-byte UTF-8 characters, and one file below a chain of collections giving a host path of about 3800 bytes, each driven through first Create, Stat, Open, second Create onto the existing name, Copy to absent / onto existing / refused by NoOverwrite, Move likewise, Mkdir + Create inside twice + ReadDir + Copy of the collection + RemoveAll, every step with the directory-snapshot oracle and a byte-for-byte read-back. " +
			"Own-looking names (LocalFileSystem): the spellings of directory entries the library creates without being asked (temporary and staging entries) are observed with a kernel directory watch (inotify) while the real client drives every mutator in every form on a scratch served directory; their shapes (digit runs replaced by fresh numbers), their fixed prefixes followed by user text, the same with suffixes and near-miss cuts then name ordinary user files and collections (with members, two levels) in the endpoint collection, the root and generated collections; Stat in every name form, Open, ReadDir at both depths against the directory on disk, the whole operation matrix of the boundary-length scenarios on four such names, Copy/Move between existing such resources, and full listings from the top afterwards. " +
			"One evaluation = one client operation. distinct_nontrivial = distinct (backend, operation, name form(s), endpoint, set of hostile features in the name).",
		Assumptions: []string{
			"names are valid UTF-8 without NUL, '//' or '/./', and never end in '.' or '..' (outside the statement's domain)",
			"a collection may be spelt with or without a trailing slash wherever a path is compared (same resource); for LocalFileSystem collections any reported spelling that cleans to the collection's path is accepted, provided Stat accepts it back (the backend itself reports '/.' for its root)",
			"collections: only path and kind are compared (the protocol defines no length, type or tag for them)",
			"zero ModTime / empty ETag / empty MIMEType mean 'not available' and must come back zero / empty",
			"modification times are compared as instants truncated to the second; instants are kept within years 0001-9999 UTC",
			"Open is only issued for files whose recorded size equals the content length (otherwise the GET response itself is malformed)",
			"a plain file named with a trailing slash ('/f.txt/'): a refusal by server or client is accepted; if Stat/Open succeed, kind, size, time, type, tag and bytes must be what the backend itself answers for that same name (backend's Stat called directly)",
			"the in-memory backend's Open delivers content in each of four ways the io.Reader contract allows (plain, <=7 bytes per Read, last bytes together with io.EOF, both); every scenario of that backend adds 4 always-readable files whose lengths sit on copy-loop boundaries (0, 1, 6-8, 14, 32 KiB and 64 KiB +-1, 96 KiB, 200000, 256 KiB, 400000)",
			"return values of mutators (error or nil) are tabulated, not judged: the statement speaks of what reaches the backend",
			"copies/moves onto self, ancestors or descendants are C01/C02 territory and not issued here",
			"related-name groups and boundary-length names are first tried on the plain os level outside the served tree: a group the volume does not keep apart (case-folding or normalising volume) and a name the volume itself refuses are skipped and counted, not judged",
			"own-looking names: a library that is not observed to create any directory entry of its own makes that family empty (tabulated, nothing judged); the numbers put into an observed shape are nine digits starting with 9, so that a generated name is never one the serving process is about to use itself (a collision with a live temporary entry is not constructed here)",
			"relative names are resolved by appending to the endpoint path taken as a collection and removing dot segments (own implementation, independent of path.Join)",
		},
		MinEvals:    func(t string) int64 { return map[string]int64{"quick": 20000, "thorough": 500000}[t] },
		MinDistinct: func(t string) int64 { return map[string]int64{"quick": 5000, "thorough": 50000}[t] },
		TimeoutS:    func(t string) int { return map[string]int{"quick": 600, "thorough": 7200}[t] },
	})
}

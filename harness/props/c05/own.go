package c05

import (
	"bytes"
	"context"
	"encoding/binary"
	"fmt"
	"io/ioutil"
	"math/rand"
	"os"
	"path/filepath"
	"regexp"
	"sort"
	"strings"
	"sync"
	"syscall"

	"github.com/emersion/go-webdav"
	"github.com/emersion/go-webdav/verifharness/doubles"
	"github.com/emersion/go-webdav/verifharness/fw"
)

// ---------------------------------------------------------------------------
// Own-looking names. "Every resource name" includes the spellings the library
// itself uses for directory entries of its own making (temporary files of an
// upload, staging areas of a copy, whatever a later version may keep next to a
// resource). Which spellings these are is not assumed: they are OBSERVED. A
// kernel watch (inotify) on a scratch served directory records every entry
// that appears while the real client drives every mutator once in each of its
// forms (new name / onto an existing resource, file / collection); entries
// whose names nobody asked for are the library's own. Their shapes (digit runs
// abstracted away, so that process ids and counters do not enter the case
// list) then name ordinary user resources - files, and collections with
// members - in generated trees on LocalFileSystem, which go through the same
// read and mutator oracles as every other name: listed exactly as they are on
// disk, Stat/Open agree, Create/Copy/Move/Mkdir/RemoveAll change exactly them.
// A library that creates no entries of its own makes the family empty (noted
// in the evidence, nothing judged).

var (
	ownOnce  sync.Once
	ownSkels []string
	ownErr   error
)

var digitRun = regexp.MustCompile(`[0-9]+`)

// skeleton abstracts the numbers out of an observed name.
func skeleton(name string) string { return digitRun.ReplaceAllString(name, "0") }

type dirWatch struct {
	fd int
}

func newDirWatch(dirs ...string) (*dirWatch, error) {
	fd, err := syscall.InotifyInit1(syscall.IN_NONBLOCK | syscall.IN_CLOEXEC)
	if err != nil {
		return nil, fmt.Errorf("inotify_init1: %v", err)
	}
	for _, d := range dirs {
		if _, err := syscall.InotifyAddWatch(fd, d, syscall.IN_CREATE|syscall.IN_MOVED_TO); err != nil {
			syscall.Close(fd)
			return nil, fmt.Errorf("inotify_add_watch: %v", err)
		}
	}
	return &dirWatch{fd: fd}, nil
}

// drain returns the names of all entries that appeared (created or renamed
// into) the watched directories since the last call.
func (w *dirWatch) drain() ([]string, error) {
	var names []string
	buf := make([]byte, 1<<16)
	for {
		n, err := syscall.Read(w.fd, buf)
		if err == syscall.EINTR {
			continue
		}
		if err == syscall.EAGAIN || n == 0 {
			return names, nil
		}
		if err != nil {
			return names, fmt.Errorf("read inotify: %v", err)
		}
		for off := 0; off+syscall.SizeofInotifyEvent <= n; {
			mask := binary.NativeEndian.Uint32(buf[off+4:])
			l := int(binary.NativeEndian.Uint32(buf[off+12:]))
			raw := buf[off+syscall.SizeofInotifyEvent : off+syscall.SizeofInotifyEvent+l]
			off += syscall.SizeofInotifyEvent + l
			if mask&syscall.IN_Q_OVERFLOW != 0 {
				return names, fmt.Errorf("inotify queue overflow")
			}
			if i := bytes.IndexByte(raw, 0); i >= 0 {
				raw = raw[:i]
			}
			if len(raw) > 0 {
				names = append(names, string(raw))
			}
		}
	}
}

func (w *dirWatch) close() { syscall.Close(w.fd) }

// harvestOwnNames serves a scratch directory through the real handler and
// client, runs every mutator in each of its forms, and returns the skeletons
// of the directory entries that appeared without having been asked for.
func harvestOwnNames(workDir string) ([]string, error) {
	root, err := ioutil.TempDir(workDir, "own-harvest-")
	if err != nil {
		return nil, err
	}
	defer os.RemoveAll(root)
	asked := map[string]bool{}
	mk := func(dir bool, segs ...string) error {
		for _, s := range segs {
			asked[s] = true
		}
		p := filepath.Join(append([]string{root}, segs...)...)
		if dir {
			return os.MkdirAll(p, 0755)
		}
		if err := os.MkdirAll(filepath.Dir(p), 0755); err != nil {
			return err
		}
		return ioutil.WriteFile(p, []byte("content of "+strings.Join(segs, "/")), 0644)
	}
	for _, f := range [][]string{{"a.txt"}, {"b.txt"}, {"c.txt"}, {"da", "m.txt"}, {"da", "s", "n.txt"}, {"db", "o.txt"}, {"dc", "q.txt"},
		{"sub", "a.txt"}, {"sub", "b.txt"}, {"sub", "c.txt"}, {"sub", "da", "m.txt"}, {"sub", "db", "o.txt"}} {
		if err := mk(false, f...); err != nil {
			return nil, err
		}
	}
	w, err := newDirWatch(root, filepath.Join(root, "sub"))
	if err != nil {
		return nil, err
	}
	defer w.close()
	cl, err := webdav.NewClient(&doubles.InProc{Handler: &webdav.Handler{FileSystem: webdav.LocalFileSystem(root)}}, "http://h/")
	if err != nil {
		return nil, err
	}
	ctx := context.Background()
	create := func(name string) {
		asked[filepath.Base(name)] = true
		if wc, err := cl.Create(ctx, name); err == nil {
			wc.Write([]byte("new content of " + name))
			wc.Close()
		}
	}
	cp := func(src, dst string, o *webdav.CopyOptions) {
		asked[filepath.Base(dst)] = true
		cl.Copy(ctx, src, dst, o)
	}
	mv := func(src, dst string, o *webdav.MoveOptions) {
		asked[filepath.Base(dst)] = true
		cl.Move(ctx, src, dst, o)
	}
	// Results are not looked at: whatever the operations do, only the
	// entries that appear are of interest here.
	if panicked, pv, _ := fw.Guard(func() {
		for _, d := range []string{"/", "/sub/"} {
			create(d + "a.txt")    // onto an existing file
			create(d + "new1.txt") // new file
			cp(d+"a.txt", d+"b.txt", nil)
			cp(d+"a.txt", d+"new2.txt", &webdav.CopyOptions{NoOverwrite: true})
			cp(d+"da", d+"db", nil) // collection onto an existing collection
			cp(d+"da", d+"new3", nil)
			cp(d+"da", d+"new3", &webdav.CopyOptions{NoRecursive: true})
			cp(d+"da", d+"c.txt", nil) // collection onto an existing file
			mv(d+"b.txt", d+"c.txt", nil)
			mv(d+"c.txt", d+"new4.txt", &webdav.MoveOptions{NoOverwrite: true})
			mv(d+"db", d+"new3", nil) // collection onto an existing collection
			mv(d+"new4.txt", d+"new3", nil)
			asked["new5"] = true
			cl.Mkdir(ctx, d+"new5")
			create(d + "new5/x.txt")
			create(d + "new5/x.txt")
			cl.RemoveAll(ctx, d+"new5")
			cl.RemoveAll(ctx, d+"a.txt")
		}
	}); panicked {
		return nil, fmt.Errorf("panic while driving the mutators: %v", pv)
	}
	seen, err := w.drain()
	if err != nil {
		return nil, err
	}
	set := map[string]bool{}
	for _, n := range seen {
		if !asked[n] {
			set[skeleton(n)] = true
		}
	}
	var skels []string
	for s := range set {
		skels = append(skels, s)
	}
	sort.Strings(skels)
	return skels, nil
}

var ownWords = []string{"receipts.txt", "checklist", "notes 2024.html", "é %#.json", "x", ".txt", "0", "-", "a&b<c>.xml"}

type ownName struct{ class, name string }

// deriveOwn builds a user resource name from an observed shape. Numbers are
// nine digits starting with 9 (drawn from the scenario's random stream): the
// shape of an own name, but never a name this process is about to use itself.
func deriveOwn(r *rand.Rand, skels []string) ownName {
	for {
		sk := skels[r.Intn(len(skels))]
		num := func(string) string { return fmt.Sprintf("9%08d", r.Intn(100000000)) }
		shape := digitRun.ReplaceAllStringFunc(sk, num)
		prefix := sk
		if loc := digitRun.FindStringIndex(sk); loc != nil {
			prefix = sk[:loc[0]]
		}
		word := ownWords[r.Intn(len(ownWords))]
		if r.Intn(3) == 0 {
			word = genSeg(r)
		}
		var o ownName
		switch r.Intn(8) {
		case 0, 1:
			o = ownName{"shape of an own name, other numbers", shape}
		case 2, 3, 4:
			o = ownName{"fixed prefix of an own name + user text", prefix + word}
		case 5:
			o = ownName{"shape of an own name + user suffix", shape + []string{".bak", "-replaced", " (2).txt", "~", "-" + word}[r.Intn(5)]}
		case 6:
			// cut the fixed prefix at an inner boundary: near misses
			cut := strings.TrimRight(prefix, "-_.~ ")
			if i := strings.LastIndexAny(cut, "-_.~ "); i > 0 && r.Intn(2) == 0 {
				cut = cut[:i+1]
			}
			o = ownName{"fixed prefix of an own name cut short + user text", cut + word}
		default:
			o = ownName{"user text + shape of an own name", word + shape}
		}
		if validSeg(o.name) && len(o.name) <= 200 {
			return o
		}
	}
}

func (e *env) ownPhase() {
	ownOnce.Do(func() { ownSkels, ownErr = harvestOwnNames(e.c.WorkDir) })
	if ownErr != nil {
		e.c.Inconclusive("C05: cannot observe the directory entries the library creates on its own: " + ownErr.Error())
		return
	}
	const tbl = "own-looking names: shapes of directory entries the library was observed to create without being asked (digit runs -> 0)"
	if len(ownSkels) == 0 {
		e.c.Observe(tbl, "none: the family is empty", 1)
		return
	}
	for _, s := range ownSkels {
		e.c.Observe(tbl, s, 1)
	}
	used := map[string]bool{}
	derive := func() string {
		for {
			o := deriveOwn(e.r, ownSkels)
			if !used[o.name] {
				used[o.name] = true
				e.c.Observe("own-looking names: resources by derivation", o.class, 1)
				return o.name
			}
		}
	}
	// Collections that get own-looking members: the endpoint collection, the
	// root, and up to two generated (hostile-named) collections below the endpoint.
	epAbs := absPath(e.ep.Segs)
	hosts := []string{epAbs}
	if epAbs != "/" {
		hosts = append(hosts, "/")
	}
	var below []string
	for _, n := range e.t.Nodes {
		if n.Dir && under(n.Segs, e.ep.Segs) {
			below = append(below, absPath(n.Segs))
		}
	}
	e.r.Shuffle(len(below), func(i, j int) { below[i], below[j] = below[j], below[i] })
	if len(below) > 2 {
		below = below[:2]
	}
	hosts = append(hosts, below...)
	mkdir := func(abs string) bool {
		if err := os.Mkdir(e.diskPath(abs), 0755); err != nil {
			e.c.Inconclusive("C05: mkdir: " + err.Error())
			return false
		}
		return true
	}
	for _, h := range hosts {
		for i, n := 0, 3+e.r.Intn(3); i < n; i++ {
			p := join(h, derive())
			if e.r.Intn(5) < 3 {
				e.put(p, append([]byte(fmt.Sprintf("user content of %q ", p)), genData(e.r, false)...))
				continue
			}
			// a collection with plain and own-looking members, one level deeper too
			if !mkdir(p) {
				return
			}
			e.put(join(p, "inner.txt"), []byte("inside "+p))
			e.put(join(p, derive()), genData(e.r, false))
			if e.r.Intn(2) == 0 {
				sub := join(p, derive())
				if !mkdir(sub) {
					return
				}
				e.put(join(sub, "deep.txt"), []byte("deep inside "+p))
			}
		}
	}
	for _, h := range hosts {
		e.readBack(h, true)
	}
	// The mutators, every form, on own-looking names (in one of the hosts):
	// the library's own entries come and go right beside them.
	h := hosts[e.r.Intn(len(hosts))]
	e.matrix("own-looking", h, derive(), derive(), derive(), derive())
	e.readBack(h, false)
	// Existing own-looking resources as sources and destinations.
	for i := 0; i < 4; i++ {
		all, err := ioutil.ReadDir(e.diskPath(h))
		if err != nil {
			break
		}
		// only the resources this phase has put there: the generated tree
		// (the endpoint's own prefix collections among it) stays as it is
		var ents []os.FileInfo
		for _, fi := range all {
			if used[fi.Name()] {
				ents = append(ents, fi)
			}
		}
		if len(ents) < 2 {
			break
		}
		ai := e.r.Intn(len(ents))
		a, b := ents[ai], ents[(ai+1+e.r.Intn(len(ents)-1))%len(ents)]
		pa, pb := join(h, a.Name()), join(h, b.Name())
		if e.r.Intn(2) == 0 {
			co := copyCombos[e.r.Intn(len(copyCombos))]
			e.c.Observe(e.opsTable(), "own-looking: Copy between existing resources", 1)
			e.localMutate("Copy", pa, pb, e.nf(pa, a.IsDir()), e.nf(pb, a.IsDir() || b.IsDir()), co, nil, nil, co != nil && co.NoOverwrite)
		} else {
			mo := moveCombos[e.r.Intn(len(moveCombos))]
			e.c.Observe(e.opsTable(), "own-looking: Move between existing resources", 1)
			e.localMutate("Move", pa, pb, e.nf(pa, a.IsDir()), e.nf(pb, a.IsDir() || b.IsDir()), nil, mo, nil, mo != nil && mo.NoOverwrite)
		}
	}
	// Afterwards the client again sees exactly what is on disk, from the top.
	e.statBack = map[string]bool{}
	e.doReadDir(epAbs, nameForm{"rel-empty", ""}, true)
	e.doReadDir("/", nameForm{"abs", "/"}, false)
	e.doReadDir("/", nameForm{"abs", "/"}, true)
	for _, hh := range hosts {
		e.readBack(hh, false)
	}
}

// opsTable names the evidence table of the operation matrix for this kind of
// scenario.
func (e *env) opsTable() string {
	if e.kind == "own" {
		return "own-looking names: operations"
	}
	return "boundary-length names: operations"
}

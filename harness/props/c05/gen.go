package c05

import (
	"fmt"
	"math/rand"
	"strings"
	"time"
	"unicode/utf8"

	"github.com/emersion/go-webdav"
)

// ---------------------------------------------------------------------------
// Endpoints

type endpointSpec struct {
	Suffix string   // appended to the base URL ("http://h" or the TCP server URL)
	Segs   []string // decoded path segments of the endpoint path
}

var endpoints = []endpointSpec{
	{"", nil},
	{"/", nil},
	{"/p", []string{"p"}},
	{"/p/", []string{"p"}},
	{"/p/q/", []string{"p", "q"}},
	// one endpoint whose own path needs escaping
	{"/p%20%25%23/%C3%A9/", []string{"p %#", "é"}},
}

// ---------------------------------------------------------------------------
// Names

// Fixed hostile segments: each fails a particular escaping layer when that
// layer is wrong (URL path escaping, XML text escaping, dot-segment handling).
var hostileSegs = []string{
	"a b", " lead", "trail ", "100%", "%", "%%", "a%2Fb", "%2F", "%41", "%zz", "a%20b", "%C3%A9", "%2e%2e", "%25",
	"#frag", "a#b", "#", "q?x=1", "?", "a?", "a;b", ";v=1", ";", "a+b", "+", "it's", "'", `say "hi"`, `"`,
	"<&>", "<", ">", "&", "a&amp;b", "&lt;", "&#x41;", "<![CDATA[x]]>", "]]>", "<!--c-->", "<?pi?>",
	"é", "日本語", "😀", "e\u0301", "Ünï.PDF", "\u00a0", "\u202eabc", "\ufeffbom", "\u2028", "\ufffd", "\U0010fffd",
	"..name", "...", ".hidden", "..a..", "a..", ".a", "..%2F", ". .",
	"a:b", ":", "@", "a=b", "a,b", "$x", "~", "a\\b", "\\", "a|b", "{x}", "[x]", "^", "`", "a*b", "*", "(x)", "!",
	"a\tb", "a\nb", "a\rb", "\x01", "\x7f", "\x1b[0m",
	"index.html", "a.txt", "x.json", "y.XML", "z.tar.gz", "noext", "-", "_", "a.b.c", "http:", "http:%2F%2Fx", "c:d.txt",
}

var segAlphabet = []rune("abcXYZ019 %#?;+'\"<&>éß日😀.:@=,$~\\|{}[]^`*()!-_\t\u00a0\u0301")

func validSeg(s string) bool {
	if s == "" || s == "." || s == ".." || len(s) > 240 {
		return false
	}
	if strings.ContainsAny(s, "/\x00") || !utf8.ValidString(s) {
		return false
	}
	return true
}

func genSeg(r *rand.Rand) string {
	for {
		var s string
		switch r.Intn(40) / 4 {
		case 0, 1, 2, 3, 4:
			s = hostileSegs[r.Intn(len(hostileSegs))]
			if r.Intn(40) == 0 {
				// long name (file systems allow 255 bytes)
				s = strings.Repeat(s, 1+200/len(s))
				for len(s) > 240 || !utf8.ValidString(s) {
					s = s[:len(s)-1]
				}
			}
		case 5:
			// two hostile segments glued together
			s = hostileSegs[r.Intn(len(hostileSegs))] + hostileSegs[r.Intn(len(hostileSegs))]
		case 6:
			// plain name with an extension known to the MIME table
			s = fmt.Sprintf("f%d%s", r.Intn(100), []string{".txt", ".html", ".json", ".png", ".css", ".bin", ""}[r.Intn(7)])
		default:
			n := 1 + r.Intn(10)
			var sb strings.Builder
			for i := 0; i < n; i++ {
				sb.WriteRune(segAlphabet[r.Intn(len(segAlphabet))])
			}
			s = sb.String()
		}
		if validSeg(s) {
			return s
		}
	}
}

// nameFlags is the abstract class of a name: which hostile features it has.
func nameFlags(s string) string {
	var f []string
	add := func(c bool, n string) {
		if c {
			f = append(f, n)
		}
	}
	add(strings.Contains(s, " "), "sp")
	pctHex := false
	for i := 0; i+2 < len(s); i++ {
		if s[i] == '%' && isHex(s[i+1]) && isHex(s[i+2]) {
			pctHex = true
		}
	}
	add(pctHex, "pctHH")
	add(strings.Contains(s, "%") && !pctHex, "pct")
	add(strings.Contains(s, "#"), "hash")
	add(strings.Contains(s, "?"), "qm")
	add(strings.Contains(s, ";"), "semi")
	add(strings.Contains(s, "+"), "plus")
	add(strings.ContainsAny(s, `'"`), "quote")
	add(strings.ContainsAny(s, "<>&"), "xml")
	nonASCII, ctrl := false, false
	for _, c := range s {
		if c >= 0x80 {
			nonASCII = true
		}
		if c < 0x20 || c == 0x7f {
			ctrl = true
		}
	}
	add(nonASCII, "u8")
	add(ctrl, "ctl")
	dots := false
	for _, seg := range strings.Split(s, "/") {
		if strings.HasPrefix(seg, ".") && seg != "." && seg != ".." && seg != "" {
			dots = true
		}
	}
	add(dots, "dot")
	add(strings.ContainsAny(s, ":@=,$~\\|{}[]^`*()!"), "punct")
	if len(f) == 0 {
		return "plain"
	}
	return strings.Join(f, "+")
}

func isHex(c byte) bool {
	return c >= '0' && c <= '9' || c >= 'a' && c <= 'f' || c >= 'A' && c <= 'F'
}

// ---------------------------------------------------------------------------
// Trees

type node struct {
	Segs []string // absolute path segments (empty = "/")
	Dir  bool
	Data []byte
	Info webdav.FileInfo // MemFS only: what the backend reports
	// Openable: Info.Size == len(Data) (MemFS), so that GET is well-formed.
	Openable bool
	// Probe: a file whose length sits on a copy-buffer boundary; always openable.
	Probe bool
}

func absPath(segs []string) string { return "/" + strings.Join(segs, "/") }

type tree struct {
	Nodes  []*node
	byPath map[string]*node
	Prefix []string
}

func (t *tree) add(n *node) *node {
	t.Nodes = append(t.Nodes, n)
	t.byPath[absPath(n.Segs)] = n
	return n
}

func (t *tree) has(segs []string) bool { return t.byPath[absPath(segs)] != nil }

func cat(segs []string, s ...string) []string {
	out := make([]string, 0, len(segs)+len(s))
	out = append(out, segs...)
	return append(out, s...)
}

func under(segs, dir []string) bool { // proper descendant
	if len(segs) <= len(dir) {
		return false
	}
	for i := range dir {
		if segs[i] != dir[i] {
			return false
		}
	}
	return true
}

func genData(r *rand.Rand, big bool) []byte {
	var n int
	switch r.Intn(10) {
	case 0:
		n = 0
	case 1:
		n = 1
	case 2, 3, 4, 5:
		n = r.Intn(200)
	case 6, 7:
		n = r.Intn(5000)
	default:
		if big {
			n = []int{256 << 10, 65536, 65537, 32768, 4096, 4095, 100000}[r.Intn(7)]
		} else {
			n = r.Intn(20000)
		}
	}
	b := make([]byte, n)
	switch r.Intn(3) {
	case 0:
		r.Read(b)
	case 1:
		// text with line endings, NULs and markup: would expose any newline or
		// charset translation
		const al = "abc \r\n\x00<&>\"'%é\xff\xfe\x1a"
		for i := range b {
			b[i] = al[r.Intn(len(al))]
		}
	default:
		for i := range b {
			b[i] = byte(i*7 + n)
		}
	}
	return b
}

// genTree builds the resource tree for one scenario: the chain of prefix
// collections, decoys outside the prefix, and a hostile tree (depth <= 4)
// below the prefix.
// probeSizes sit around the boundaries a copy loop may have: empty, one byte,
// around the 7-byte reads of the SmallReads reader, around 32 KiB and 64 KiB,
// a few hundred KiB.
var probeSizes = []int{0, 1, 6, 7, 8, 14, 32767, 32768, 32769, 65535, 65536, 65537, 98304, 200000, 262144, 400000}

func genTree(r *rand.Rand, prefix []string, bigFiles int, wide bool, probes int) *tree {
	t := &tree{byPath: map[string]*node{}, Prefix: prefix}
	t.add(&node{Segs: nil, Dir: true})
	for i := range prefix {
		t.add(&node{Segs: append([]string(nil), prefix[:i+1]...), Dir: true})
	}
	// decoys: siblings that share a string prefix with the endpoint path
	for _, d := range [][]string{{"pz"}, {"p.txt"}, {"other", "x y"}, {"p", "qq"}} {
		for i := 1; i < len(d); i++ {
			if !t.has(d[:i]) {
				t.add(&node{Segs: append([]string(nil), d[:i]...), Dir: true})
			}
		}
		if !t.has(d) {
			t.add(&node{Segs: d, Data: []byte("decoy " + absPath(d))})
		}
	}
	dirs := [][]string{prefix}
	nd := 2 + r.Intn(6)
	for i := 0; i < nd; i++ {
		par := dirs[r.Intn(len(dirs))]
		if len(par)-len(prefix) >= 3 {
			continue
		}
		s := cat(par, genSeg(r))
		if t.has(s) {
			continue
		}
		t.add(&node{Segs: s, Dir: true})
		dirs = append(dirs, s)
	}
	nf := 5 + r.Intn(12)
	wideDir := dirs[r.Intn(len(dirs))]
	if wide {
		nf += 150
	}
	for i := 0; i < nf; i++ {
		par := dirs[r.Intn(len(dirs))]
		if i >= 16 {
			par = wideDir
		}
		s := cat(par, genSeg(r))
		if t.has(s) {
			continue
		}
		big := bigFiles > 0 && r.Intn(4) == 0
		if big {
			bigFiles--
		}
		t.add(&node{Segs: s, Data: genData(r, big)})
	}
	for i := 0; i < probes; i++ {
		s := cat(dirs[r.Intn(len(dirs))], genSeg(r))
		if t.has(s) {
			continue
		}
		b := make([]byte, probeSizes[r.Intn(len(probeSizes))])
		r.Read(b)
		t.add(&node{Segs: s, Data: b, Probe: true})
	}
	return t
}

// ---------------------------------------------------------------------------
// Arbitrary metadata (MemFS)

var hostileTags = []string{
	`"`, `\`, `a"b`, `\"`, `\\`, `W/"x"`, `"quoted"`, `'a'`, "`a`", "é", "日本", "😀", "\x00", "\x01\x02", "\n", "\t", "\r\n",
	"\x7f", "\xff\xfe", "\xc3", " ", " lead", "trail ", "\u00a0", "\u2028", "\ufffd", "\ufffe", "\U0010ffff", "&lt;", "<&>", "]]>",
	`é`, `\x41`, `\n`, "%41", "a,b", "*", "0", "-1", "abc123",
}

var tagAlphabet = []rune("abc019\"\\'` <&>éß日😀\x00\x01\n\t\x7f%,*-_/:")

func genTag(r *rand.Rand) string {
	switch r.Intn(10) {
	case 0:
		return ""
	case 1, 2, 3:
		return hostileTags[r.Intn(len(hostileTags))]
	case 4:
		return fmt.Sprintf("%x%x", r.Int63(), r.Intn(1000))
	case 5:
		return strings.Repeat(hostileTags[r.Intn(len(hostileTags))], 1+r.Intn(200))
	default:
		n := 1 + r.Intn(16)
		var sb strings.Builder
		for i := 0; i < n; i++ {
			sb.WriteRune(tagAlphabet[r.Intn(len(tagAlphabet))])
		}
		if r.Intn(8) == 0 {
			sb.WriteByte(byte(0x80 + r.Intn(0x80))) // a lone high byte
		}
		return sb.String()
	}
}

func tagClass(s string) string {
	if s == "" {
		return "empty"
	}
	var f []string
	add := func(c bool, n string) {
		if c {
			f = append(f, n)
		}
	}
	add(strings.Contains(s, `"`), "dq")
	add(strings.Contains(s, `\`), "bs")
	add(strings.ContainsAny(s, "<&>"), "xml")
	add(strings.ContainsAny(s, "'`"), "altq")
	ctrl, u8 := false, false
	for _, c := range s {
		if c < 0x20 || c == 0x7f {
			ctrl = true
		}
		if c >= 0x80 && c != utf8.RuneError {
			u8 = true
		}
	}
	add(ctrl, "ctl")
	add(u8, "u8")
	add(!utf8.ValidString(s), "badutf8")
	add(strings.HasPrefix(s, " ") || strings.HasSuffix(s, " "), "edge-sp")
	if len(f) == 0 {
		return "plain"
	}
	return strings.Join(f, "+")
}

const tchar = "!#$%&'*+-.^_`|~0123456789abcdefghijklmnopqrstuvwxyzABCDEFGHIJKLMNOPQRSTUVWXYZ"

func genToken(r *rand.Rand) string {
	n := 1 + r.Intn(8)
	b := make([]byte, n)
	for i := range b {
		if r.Intn(3) == 0 {
			b[i] = tchar[r.Intn(len(tchar))]
		} else {
			b[i] = tchar[15+r.Intn(len(tchar)-15)]
		}
	}
	return string(b)
}

var commonTypes = []string{"text/plain", "text/html; charset=utf-8", "application/octet-stream", "application/xml",
	"image/svg+xml", "application/vnd.x-y.z+json;v=1", `text/plain; charset="utf-8"`, "x/y", "a&b/c'd", "multipart/mixed; boundary=\"a<b>&c\""}

func genMIME(r *rand.Rand) string {
	switch r.Intn(8) {
	case 0:
		return ""
	case 1, 2:
		return commonTypes[r.Intn(len(commonTypes))]
	default:
		s := genToken(r) + "/" + genToken(r)
		for r.Intn(3) == 0 {
			s += []string{";", "; "}[r.Intn(2)] + genToken(r) + "="
			if r.Intn(2) == 0 {
				s += genToken(r)
			} else {
				s += `"` + strings.NewReplacer(`"`, `\"`, `\`, `\\`).Replace(genToken(r)+[]string{"", " ", "<", "&", ";"}[r.Intn(5)]+genToken(r)) + `"`
			}
		}
		return s
	}
}

const (
	minSec = -62135596800 + 1 // 0001-01-01T00:00:01Z
	maxSec = 253402300799     // 9999-12-31T23:59:59Z
)

var edgeSecs = []int64{minSec, maxSec, 0, -1, 1, -30610224000 /* 1000-01-01 */, -30610224001, 951782400 /* 2000-02-29 */, 2147483647, 2147483648, 4102444800}

func genZone(r *rand.Rand) *time.Location {
	switch r.Intn(5) {
	case 0:
		return time.UTC
	case 1:
		return time.Local
	default:
		off := r.Intn(28*3600+1) - 14*3600
		if r.Intn(2) == 0 {
			off = off / 900 * 900
		}
		return time.FixedZone(fmt.Sprintf("Z%+d", off), off)
	}
}

func genTime(r *rand.Rand) time.Time {
	var sec int64
	switch r.Intn(8) {
	case 0:
		return time.Time{}
	case 1:
		sec = edgeSecs[r.Intn(len(edgeSecs))]
	case 2, 3:
		sec = 946684800 + r.Int63n(40*365*86400) // 2000..2040
	default:
		sec = minSec + r.Int63n(maxSec-minSec+1)
	}
	var ns int64
	if r.Intn(2) == 0 {
		ns = r.Int63n(1e9)
	}
	return time.Unix(sec, ns).In(genZone(r))
}

func timeClass(t time.Time) string {
	if t.IsZero() {
		return "zero"
	}
	y := t.UTC().Year()
	var c string
	switch {
	case y < 1000:
		c = "y<1000"
	case y < 1970:
		c = "y<1970"
	case y < 2100:
		c = "y<2100"
	default:
		c = "y>=2100"
	}
	if t.Nanosecond() != 0 {
		c += "+ns"
	}
	if _, off := t.Zone(); off != 0 {
		c += "+zone"
	}
	return c
}

var edgeSizes = []int64{0, 1, 1<<31 - 1, 1 << 31, 1<<32 - 1, 1 << 32, 1<<53 + 1, 1 << 62, 1<<62 - 1, 999999999999}

func genSize(r *rand.Rand) int64 {
	switch r.Intn(4) {
	case 0:
		return edgeSizes[r.Intn(len(edgeSizes))]
	case 1:
		return r.Int63n(100000)
	default:
		return r.Int63n(1<<62 + 1)
	}
}

func sizeClass(n int64) string {
	switch {
	case n == 0:
		return "0"
	case n < 1<<31:
		return "<2^31"
	case n < 1<<53:
		return "<2^53"
	default:
		return "<=2^62"
	}
}

// genInfo gives a node arbitrary metadata. Every third file stays "openable"
// (Size = len(Data)); collections get metadata too (the statement defines none
// of it for collections: whatever comes back is accepted).
func genInfo(r *rand.Rand, n *node) {
	p := absPath(n.Segs)
	if n.Dir && len(n.Segs) > 0 && r.Intn(2) == 0 {
		p += "/"
	}
	n.Info = webdav.FileInfo{Path: p, IsDir: n.Dir, ETag: genTag(r), MIMEType: genMIME(r), ModTime: genTime(r)}
	if n.Dir {
		n.Info.Size = genSize(r)
		return
	}
	if n.Probe || r.Intn(3) == 0 {
		n.Info.Size = int64(len(n.Data))
		n.Openable = true
	} else {
		n.Info.Size = genSize(r)
		n.Openable = n.Info.Size == int64(len(n.Data))
	}
}

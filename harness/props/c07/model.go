// Package c07 checks property C07: carddav.Match / carddav.Filter against an
// independent three-valued reference evaluator of RFC 6352 section 10.5
// filters, the Limit cut, the address-data projection, and the "arguments are
// not modified" clause.
package c07

import (
	"sort"
	"strings"
	"unicode/utf8"

	"github.com/emersion/go-vcard"
	"github.com/emersion/go-webdav/carddav"
)

// ---------------------------------------------------------------------------
// Three-valued logic with envelopes.
//
// A single reading of a (query, card) pair has one Kleene value: true, false
// or ⊥ (an unknown test / match type had to be consulted). Where the statement
// leaves several readings open (multi-valued properties, parameter filters,
// case folding, ...) the model returns the SET of the values of all readings;
// the implementation is right if its answer is in the set.
// ---------------------------------------------------------------------------

type vset uint8

const (
	vT vset = 1 // true
	vF vset = 2 // false
	vB vset = 4 // ⊥
)

func (s vset) String() string {
	var p []string
	if s&vT != 0 {
		p = append(p, "T")
	}
	if s&vF != 0 {
		p = append(p, "F")
	}
	if s&vB != 0 {
		p = append(p, "⊥")
	}
	return "{" + strings.Join(p, ",") + "}"
}

func (s vset) single() bool { return s == vT || s == vF || s == vB }

// Kleene order F < ⊥ < T: or = max, and = min.
var kleeneOrder = [3]vset{vF, vB, vT}

func kleeneRank(b vset) int {
	switch b {
	case vF:
		return 0
	case vB:
		return 1
	}
	return 2
}

// setBin lifts Kleene or/and to sets (children are treated as independent,
// which can only widen the envelope).
func setBin(a, b vset, or bool) vset {
	var out vset
	for _, x := range kleeneOrder {
		if a&x == 0 {
			continue
		}
		for _, y := range kleeneOrder {
			if b&y == 0 {
				continue
			}
			rx, ry := kleeneRank(x), kleeneRank(y)
			r := rx
			if or {
				if ry > rx {
					r = ry
				}
			} else {
				if ry < rx {
					r = ry
				}
			}
			out |= kleeneOrder[r]
		}
	}
	return out
}

func setNot(a vset) vset {
	out := a & vB
	if a&vT != 0 {
		out |= vF
	}
	if a&vF != 0 {
		out |= vT
	}
	return out
}

// Reasons why an envelope may be wider than one value (evidence only).
const (
	whyMulti       = 1 << iota // several instances of the property
	whyNameCase                // property name differs from a card key by case only
	whyGroupName               // filter name of the form group.NAME
	whyParams                  // parameter filters present (ignored or applied)
	whyTextCase                // text differs by ASCII case only
	whyNonASCII                // non-ASCII text, no exact match (collation may normalise)
	whyEmptyFilter             // query without any prop-filter
	whyEnumCase                // test / match type equal to a known one up to case
)

var whyNames = []string{"multi-valued", "name-case", "group-name", "param-filter", "text-case", "non-ascii", "empty-filter", "enum-case"}

func whyStrings(w uint32) []string {
	var l []string
	for i, n := range whyNames {
		if w&(1<<uint(i)) != 0 {
			l = append(l, n)
		}
	}
	return l
}

// The RFC 6352 literals, spelled out here on purpose (not taken from the
// library's constants).
func testKind(t string) (allOf, known bool) {
	switch t {
	case "", "anyof":
		return false, true
	case "allof":
		return true, true
	}
	return false, false
}

func matchKnown(t string) bool {
	switch t {
	case "", "equals", "contains", "starts-with", "ends-with":
		return true
	}
	return false
}

// caseVariant: an enum value that is a known one up to ASCII case ("ANYOF",
// "Equals"). Whether that is "unknown" is not said; both readings count.
func caseVariantTest(t string) (string, bool) {
	if _, known := testKind(t); known {
		return t, false
	}
	l := asciiLower(t)
	_, known := testKind(l)
	return l, known
}

func caseVariantMatch(t string) (string, bool) {
	if matchKnown(t) {
		return t, false
	}
	l := asciiLower(t)
	return l, matchKnown(l)
}

func textRel(matchType, value, needle string) bool {
	switch matchType {
	case "equals":
		return value == needle
	case "", "contains":
		return strings.Contains(value, needle)
	case "starts-with":
		return len(value) >= len(needle) && value[:len(needle)] == needle
	case "ends-with":
		return len(value) >= len(needle) && value[len(value)-len(needle):] == needle
	}
	panic("textRel: unknown match type")
}

func asciiLower(s string) string {
	b := []byte(s)
	for i, ch := range b {
		if ch >= 'A' && ch <= 'Z' {
			b[i] = ch + 32
		}
	}
	return string(b)
}

func asciiFoldEq(a, b string) bool { return len(a) == len(b) && asciiLower(a) == asciiLower(b) }

func nonASCII(s string) bool {
	for i := 0; i < len(s); i++ {
		if s[i] >= 0x80 {
			return true
		}
	}
	return false
}

// isHan: CJK unified ideographs of the basic block. They have no case and no
// (compatibility) decomposition, and the only characters that normalise TO one
// of them live at or above U+2E80 (radicals, compatibility and enclosed
// ideographs): under every collation a client may mean - octets, ASCII case
// map, Unicode case map (full case folding + NFKD) - such a character equals
// itself and nothing else.
func isHan(r rune) bool { return r >= 0x4E00 && r <= 0x9FFF }

// plainText: valid UTF-8 made of ASCII and basic-block ideographs only. On
// such text every collation works character by character and can at most
// fold the case of ASCII letters.
func plainText(s string) bool {
	if !utf8.ValidString(s) {
		return false
	}
	for _, r := range s {
		if r >= 0x80 && !isHan(r) {
			return false
		}
	}
	return true
}

// hanForeign: a holds an ideograph that b cannot contain under any
// normalisation: b lacks it, and b has no character at or above U+2E80 other
// than basic-block ideographs.
func hanForeign(a, b string) bool {
	if !utf8.ValidString(a) || !utf8.ValidString(b) {
		return false
	}
	for _, r := range b {
		if r >= 0x2E80 && !isHan(r) {
			return false
		}
	}
	for _, r := range a {
		if isHan(r) && !strings.ContainsRune(b, r) {
			return true
		}
	}
	return false
}

// collationProof: no exact and no ASCII-case-folded hit, and no collation can
// turn the miss into a hit: either both texts are plain (then the folded
// comparison above was already the most lenient reading), or the needle holds
// an ideograph foreign to the value (for equals: or the other way round).
func collationProof(mt, value, needle string) bool {
	if plainText(value) && plainText(needle) {
		return true
	}
	if hanForeign(needle, value) {
		return true
	}
	return mt == "equals" && hanForeign(value, needle)
}

type evaluator struct{ why uint32 }

// text evaluates one text-match against one value.
func (e *evaluator) text(tm *carddav.TextMatch, value string) vset {
	mt := string(tm.MatchType)
	if !matchKnown(mt) {
		if l, variant := caseVariantMatch(mt); variant {
			e.why |= whyEnumCase
			folded := *tm
			folded.MatchType = carddav.MatchType(l)
			return vB | e.text(&folded, value)
		}
		return vB
	}
	var out vset
	switch {
	case textRel(mt, value, tm.Text):
		// an exact hit is a hit under every collation
		out = vT
	case textRel(mt, asciiLower(value), asciiLower(tm.Text)):
		// RFC 6352's default collation is case-insensitive, the statement
		// does not name a collation: both readings are accepted.
		e.why |= whyTextCase
		out = vT | vF
	case (nonASCII(value) || nonASCII(tm.Text)) && !collationProof(mt, value, tm.Text):
		// i;unicode-casemap folds and decomposes; without an exact hit the
		// verdict on non-ASCII text depends on the collation.
		e.why |= whyNonASCII
		out = vT | vF
	default:
		out = vF
	}
	if tm.NegateCondition {
		out = setNot(out)
	}
	return out
}

// comb combines the children of a prop-filter. Without children nothing is
// combined and the test is not consulted.
func (e *evaluator) comb(test string, kids []vset) vset {
	if len(kids) == 0 {
		return vT
	}
	allOf, known := testKind(test)
	if !known {
		if l, variant := caseVariantTest(test); variant {
			e.why |= whyEnumCase
			return vB | e.comb(l, kids)
		}
		return vB
	}
	acc := vF
	if allOf {
		acc = vT
	}
	for _, k := range kids {
		acc = setBin(acc, k, !allOf)
	}
	return acc
}

// propOnChildren: the value of "text-matches combined by the filter's test",
// once with parameter filters ignored and once with them applied (their
// individual outcome is left free).
func (e *evaluator) propOnChildren(pf *carddav.PropFilter, tmv func(*carddav.TextMatch) vset) vset {
	kids := make([]vset, 0, len(pf.TextMatches)+len(pf.Params))
	for i := range pf.TextMatches {
		kids = append(kids, tmv(&pf.TextMatches[i]))
	}
	out := e.comb(string(pf.Test), kids)
	if len(pf.Params) > 0 {
		e.why |= whyParams
		for i := range pf.Params {
			free := vT | vF
			if tm := pf.Params[i].TextMatch; tm != nil && !matchKnown(string(tm.MatchType)) {
				free |= vB
			}
			kids = append(kids, free)
		}
		out |= e.comb(string(pf.Test), kids)
	}
	return out
}

// propOnFields evaluates a prop-filter given the instances that one reading
// considers to be "the property".
func (e *evaluator) propOnFields(pf *carddav.PropFilter, fields []*vcard.Field) vset {
	var inst []*vcard.Field
	for _, f := range fields {
		if f != nil {
			inst = append(inst, f)
		}
	}
	present := len(inst) > 0
	if pf.IsNotDefined {
		if present {
			return vF
		}
		return vT
	}
	if !present {
		return vF
	}
	// Reading "first": the first instance in card order stands for the
	// property (what the statement's "the property value" says for a
	// single-valued property, extended the obvious way).
	first := inst[0]
	out := e.propOnChildren(pf, func(tm *carddav.TextMatch) vset { return e.text(tm, first.Value) })
	if len(inst) > 1 {
		// Reading "any" (RFC 6352 section 10.5.1): the filter holds if some
		// instance satisfies it. A verdict is demanded only where "first"
		// and "any" agree: first matches -> true; no instance matches -> false.
		anyInst := vF
		for _, f := range inst {
			f := f
			anyInst = setBin(anyInst, e.propOnChildren(pf, func(tm *carddav.TextMatch) vset { return e.text(tm, f.Value) }), true)
		}
		out |= anyInst
	}
	if len(inst) > 1 {
		e.why |= whyMulti
		// Reading "each text-match holds if some instance satisfies it".
		out |= e.propOnChildren(pf, func(tm *carddav.TextMatch) vset {
			acc := vF
			for _, f := range inst {
				acc = setBin(acc, e.text(tm, f.Value), true)
			}
			return acc
		})
	}
	return out
}

func sortedKeys(card vcard.Card) []string {
	keys := make([]string, 0, len(card))
	for k := range card {
		keys = append(keys, k)
	}
	sort.Strings(keys)
	return keys
}

// prop evaluates a prop-filter against a card under every reading of "the
// property named N".
func (e *evaluator) prop(pf *carddav.PropFilter, card vcard.Card) vset {
	out := e.propOnFields(pf, card[pf.Name])
	// vCard property names are case-insensitive.
	var ci []*vcard.Field
	other := false
	for _, k := range sortedKeys(card) {
		if asciiFoldEq(k, pf.Name) {
			ci = append(ci, card[k]...)
			if k != pf.Name {
				other = true
			}
		}
	}
	if other {
		e.why |= whyNameCase
		out |= e.propOnFields(pf, ci)
	}
	// "group.NAME" selects the instances of NAME in that group.
	if i := strings.IndexByte(pf.Name, '.'); i >= 0 {
		e.why |= whyGroupName
		grp, nm := pf.Name[:i], pf.Name[i+1:]
		var g []*vcard.Field
		for _, k := range sortedKeys(card) {
			if !asciiFoldEq(k, nm) {
				continue
			}
			for _, f := range card[k] {
				if f != nil && asciiFoldEq(f.Group, grp) {
					g = append(g, f)
				}
			}
		}
		out |= e.propOnFields(pf, g)
	}
	return out
}

// modelMatch is the reference value of Match(q, card) for a non-nil,
// in-domain query.
func modelMatch(q *carddav.AddressBookQuery, card vcard.Card) (vset, uint32) {
	e := &evaluator{}
	allOf, known := testKind(string(q.FilterTest))
	if len(q.PropFilters) == 0 {
		// "at least one of none" is false, "every one of none" is true; but a
		// filter without prop-filters is also commonly read as "no
		// restriction". allof: both readings say true. anyof: open.
		e.why |= whyEmptyFilter
		switch {
		case !known:
			return vT | vF | vB, e.why
		case allOf:
			return vT, e.why
		default:
			return vT | vF, e.why
		}
	}
	kids := make([]vset, len(q.PropFilters))
	for i := range q.PropFilters {
		kids[i] = e.prop(&q.PropFilters[i], card)
	}
	var extra vset
	if !known {
		l, variant := caseVariantTest(string(q.FilterTest))
		if !variant {
			return vB, e.why
		}
		e.why |= whyEnumCase
		extra = vB
		allOf, _ = testKind(l)
	}
	acc := vF
	if allOf {
		acc = vT
	}
	for _, k := range kids {
		acc = setBin(acc, k, !allOf)
	}
	return acc | extra, e.why
}

// hasUnknownEnum: does an unknown test or match type occur anywhere in the
// query (whether or not a lazy evaluation would reach it)?
func hasUnknownEnum(q *carddav.AddressBookQuery) bool {
	if _, known := testKind(string(q.FilterTest)); !known {
		return true
	}
	for i := range q.PropFilters {
		pf := &q.PropFilters[i]
		if _, known := testKind(string(pf.Test)); !known {
			return true
		}
		for j := range pf.TextMatches {
			if !matchKnown(string(pf.TextMatches[j].MatchType)) {
				return true
			}
		}
		for j := range pf.Params {
			if tm := pf.Params[j].TextMatch; tm != nil && !matchKnown(string(tm.MatchType)) {
				return true
			}
		}
	}
	return false
}

// inDomain: the types document that is-not-defined excludes text-matches and
// parameter filters (and, on a parameter filter, a text-match). Queries that
// break this, or that filter on an empty property name, are outside the
// statement; every outcome is accepted for them (an implementation may just
// as well reject them).
func inDomain(q *carddav.AddressBookQuery) bool {
	for i := range q.PropFilters {
		pf := &q.PropFilters[i]
		if pf.IsNotDefined && (len(pf.TextMatches) > 0 || len(pf.Params) > 0) {
			return false
		}
		if pf.Name == "" {
			return false // not a property name; rejecting it would be legitimate
		}
		for j := range pf.Params {
			if pf.Params[j].IsNotDefined && pf.Params[j].TextMatch != nil {
				return false
			}
		}
	}
	return true
}

// wholeCard: is the data request "everything"?
func wholeCard(dr *carddav.AddressDataRequest) bool {
	return dr.AllProp || len(dr.Props) == 0
}

// projectionModel returns the keys a projected card must have, and the extra
// keys it may have (requested names that match a card key only up to case).
func projectionModel(dr *carddav.AddressDataRequest, card vcard.Card) (required map[string]bool, optionalFold []string) {
	required = map[string]bool{"VERSION": true}
	for _, p := range dr.Props {
		has := false
		for _, f := range card[p] {
			if f != nil {
				has = true
			}
		}
		if has {
			required[p] = true
			continue
		}
		// (a key without any field is an absent property: nothing required)
		for k := range card {
			if asciiFoldEq(k, p) {
				optionalFold = append(optionalFold, p)
				break
			}
		}
	}
	return
}

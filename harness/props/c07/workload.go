package c07

import (
	"encoding/json"
	"fmt"
	"math"
	"math/rand"
	"strings"

	"github.com/emersion/go-vcard"
	"github.com/emersion/go-webdav/carddav"
	"github.com/emersion/go-webdav/verifharness/fw"
)

var hugeLimits = []int{math.MaxInt, 1 << 62, 1<<44 + 1, math.MinInt, -(1 << 44) - 1}

var (
	outerTests = []string{"", "anyof", "allof", "bogus-test"}
	matchTypes = []string{"", "equals", "contains", "starts-with", "ends-with", "bogus-match"}
	alphabet5  = []string{"", "a", "ab", "ba", "aba"}
)

func tmList(types []string, needles []string) []carddav.TextMatch {
	var l []carddav.TextMatch
	for _, t := range types {
		for _, neg := range []bool{false, true} {
			for _, n := range needles {
				l = append(l, carddav.TextMatch{Text: n, NegateCondition: neg, MatchType: carddav.MatchType(t)})
			}
		}
	}
	return l
}

// tmLists: every list of 0..maxLen text-matches over base.
func tmLists(base []carddav.TextMatch, maxLen int) [][]carddav.TextMatch {
	out := [][]carddav.TextMatch{nil}
	prev := [][]carddav.TextMatch{nil}
	for l := 1; l <= maxLen; l++ {
		var next [][]carddav.TextMatch
		for _, p := range prev {
			for _, b := range base {
				n := append(append(make([]carddav.TextMatch, 0, l), p...), b)
				next = append(next, n)
			}
		}
		out = append(out, next...)
		prev = next
	}
	return out
}

// cardWith builds VERSION + decoy + the given single-valued properties
// (value nil = absent).
func cardWith(props map[string]*string) vcard.Card {
	card := vcard.Card{
		"VERSION": {{Value: "3.0"}},
		// A decoy that a filter on another property must not look at.
		"NOTE": {{Value: "ab"}},
	}
	for k, v := range props {
		switch v {
		case nil:
		case emptyKey:
			card[k] = []*vcard.Field{} // key present, no field: an absent property
		case nilKey:
			card[k] = nil
		default:
			card[k] = []*vcard.Field{{Value: *v}}
		}
	}
	return card
}

// markers for "the card has the key but no field under it"
var (
	emptyKey = new(string)
	nilKey   = new(string)
)

func sp(s string) *string { return &s }

// presence/value choices: nil = absent
func pvChoices(values []string) []*string {
	l := []*string{nil}
	for _, v := range values {
		l = append(l, sp(v))
	}
	return l
}

// --- part A: one prop-filter, full table -------------------------------------

func partSingle(k *checker, idx *int) {
	c := k.c
	base := tmList(matchTypes, alphabet5) // 60
	lists := tmLists(base, 2)             // 1 + 60 + 3600
	// three text-matches over a reduced needle alphabet
	needles3 := []string{"a"}
	if c.Thorough() {
		needles3 = []string{"a", "ab"}
	}
	var lists3 [][]carddav.TextMatch
	for _, l := range tmLists(tmList(matchTypes, needles3), 3) {
		if len(l) == 3 {
			lists3 = append(lists3, l)
		}
	}
	pvs := append(pvChoices(alphabet5), emptyKey, nilKey)
	for _, outer := range outerTests {
		for _, inner := range outerTests {
			for _, ind := range []bool{false, true} {
				for _, pv := range pvs {
					for _, set := range [][][]carddav.TextMatch{lists, lists3} {
						for _, tms := range set {
							if (pv == emptyKey || pv == nilKey) && len(tms) > 2 {
								continue
							}
							if ind && len(tms) > 1 {
								// is-not-defined excludes text-matches (outside the
								// domain); one-element lists are kept to watch the
								// non-modification clause there too.
								continue
							}
							i := *idx
							*idx++
							if !c.Mine(i) {
								continue
							}
							q := &carddav.AddressBookQuery{
								FilterTest: carddav.FilterTest(outer),
								PropFilters: []carddav.PropFilter{{
									Name: "FN", Test: carddav.FilterTest(inner), IsNotDefined: ind, TextMatches: tms,
								}},
							}
							obj := mkObject(0, cardWith(map[string]*string{"FN": pv}))
							k.exec(&tcase{Kind: "match", Query: q, Objects: []carddav.AddressObject{obj}}, "truth-table: 1 prop-filter (exhaustive)")
							if (i/16)%8 == 0 { // independent of the number of shards
								// the same pair through Filter (single-object list)
								k.exec(&tcase{Kind: "filter", Query: q, Objects: []carddav.AddressObject{obj}}, "truth-table: 1 prop-filter through Filter")
							}
						}
					}
				}
			}
		}
	}
	c.Note("exhaustive_single", fmt.Sprintf("outer test %q x inner test (same) x is-not-defined x FN{absent, key with an empty field list, key with a nil field list, %q} x every list of 0..2 text-matches over match type %q x negate x needle %q, plus every list of 3 over needle [a] (thorough: [a ab]); with is-not-defined only lists of 0..1 (longer ones are outside the domain)",
		outerTests, alphabet5, matchTypes, alphabet5))
}

// --- part B: two prop-filters --------------------------------------------------

type pfConfig struct {
	inner string
	ind   bool
	tms   []carddav.TextMatch
	pv    *string
}

func pairConfigs(thorough bool) []pfConfig {
	needles := []string{"a"}
	values := []string{"a", "ba"}
	pairBase := []carddav.TextMatch{
		{Text: "a", MatchType: "equals"},
		{Text: "a", MatchType: "contains", NegateCondition: true},
		{Text: "a", MatchType: "starts-with"},
		{Text: "a", MatchType: "bogus-match"},
		{Text: "b", MatchType: ""},
	}
	if thorough {
		needles = []string{"a", "ab"}
		values = []string{"a", "ab", "ba"}
		pairBase = append(pairBase, carddav.TextMatch{Text: "ab", MatchType: "ends-with", NegateCondition: true})
	}
	lists := [][]carddav.TextMatch{nil}
	for _, tm := range tmList(matchTypes, needles) {
		lists = append(lists, []carddav.TextMatch{tm})
	}
	for _, l := range tmLists(pairBase, 2) {
		if len(l) == 2 {
			lists = append(lists, l)
		}
	}
	var out []pfConfig
	for _, inner := range outerTests {
		for _, pv := range append(pvChoices(values), emptyKey) {
			for _, tms := range lists {
				out = append(out, pfConfig{inner, false, tms, pv})
			}
			// is-not-defined: only the in-domain form (no text-match)
			out = append(out, pfConfig{inner, true, nil, pv})
		}
	}
	return out
}

func partPairs(k *checker, idx *int) {
	c := k.c
	cfgs := pairConfigs(c.Thorough())
	names := [][2]string{{"FN", "EMAIL"}}
	if c.Thorough() {
		names = append(names, [2]string{"FN", "FN"})
	}
	for _, nm := range names {
		for _, outer := range outerTests {
			for ai := range cfgs {
				for bi := range cfgs {
					i := *idx
					*idx++
					if !c.Mine(i) {
						continue
					}
					a, b := &cfgs[ai], &cfgs[bi]
					props := map[string]*string{nm[0]: a.pv}
					if nm[1] != nm[0] {
						props[nm[1]] = b.pv
					}
					q := &carddav.AddressBookQuery{
						FilterTest: carddav.FilterTest(outer),
						PropFilters: []carddav.PropFilter{
							{Name: nm[0], Test: carddav.FilterTest(a.inner), IsNotDefined: a.ind, TextMatches: a.tms},
							{Name: nm[1], Test: carddav.FilterTest(b.inner), IsNotDefined: b.ind, TextMatches: b.tms},
						},
					}
					obj := mkObject(0, cardWith(props))
					k.exec(&tcase{Kind: "match", Query: q, Objects: []carddav.AddressObject{obj}}, "truth-table: 2 prop-filters (exhaustive over a reduced alphabet)")
				}
			}
		}
	}
	c.Note("exhaustive_pairs", fmt.Sprintf("outer test %q x (config x config), %d configs per prop-filter = inner test x property {absent, key without fields, values} x ({no text-match, 1 text-match (every type x negate x needle), 2 text-matches over a base of %d} + is-not-defined alone); quick: filters on FN and EMAIL, thorough: also both on FN",
		outerTests, len(cfgs), map[bool]int{false: 5, true: 6}[c.Thorough()]))
}

// --- part C: limits ---------------------------------------------------------------

func partLimits(k *checker, idx *int) {
	c := k.c
	// Object value per pattern digit: 0 = no match, 1 = match, 2 = ⊥.
	// binary query: FN equals "a"; ternary query: FN anyof[equals "a", bogus "x"]
	// (FN="a" short-circuits to true, FN="b" needs the unknown type, absent = false).
	mkCard := func(d int) vcard.Card {
		switch d {
		case 1:
			return cardWith(map[string]*string{"FN": sp("a")})
		case 2:
			return cardWith(map[string]*string{"FN": sp("b")})
		}
		return cardWith(nil)
	}
	for _, arity := range []int{2, 3} {
		tms := []carddav.TextMatch{{Text: "a", MatchType: "equals"}}
		if arity == 3 {
			tms = append(tms, carddav.TextMatch{Text: "x", MatchType: "bogus-match"})
		}
		for n := 0; n <= 5; n++ {
			total := 1
			for i := 0; i < n; i++ {
				total *= arity
			}
			for pat := 0; pat < total; pat++ {
				for limit := -1; limit <= n+1; limit++ {
					for _, outer := range []string{"", "anyof", "allof"} {
						for _, props := range [][]string{nil, {"FN"}, {"NOTE"}} {
							i := *idx
							*idx++
							if !c.Mine(i) {
								continue
							}
							objs := make([]carddav.AddressObject, n)
							p := pat
							for o := 0; o < n; o++ {
								objs[o] = mkObject(o, mkCard(p%arity))
								p /= arity
							}
							q := &carddav.AddressBookQuery{
								FilterTest:  carddav.FilterTest(outer),
								PropFilters: []carddav.PropFilter{{Name: "FN", TextMatches: tms}},
								Limit:       limit,
								DataRequest: carddav.AddressDataRequest{Props: props},
							}
							k.exec(&tcase{Kind: "filter", Query: q, Objects: objs}, "limits: every match pattern x every limit (exhaustive)")
						}
					}
				}
			}
		}
	}
	// Boundary values of the integer: far beyond any list length, and far
	// below zero. "First Limit matches when positive, all otherwise" has no
	// upper bound on Limit.
	// (Values between 1<<31 and 1<<42 are left out on purpose: code that
	// sized an allocation by them would not panic but really reserve hundreds
	// of gigabytes on this shared machine. 1<<44+1 still exposes a 32-bit
	// truncation - it would become Limit 1 - and anything sized by it panics
	// recoverably with "cap out of range".)
	huge := hugeLimits
	tms := []carddav.TextMatch{{Text: "a", MatchType: "equals"}}
	for n := 0; n <= 5; n++ {
		for pat := 0; pat < 1<<uint(n); pat++ {
			for _, limit := range huge {
				for _, outer := range []string{"", "allof"} {
					for _, props := range [][]string{nil, {"FN"}} {
						i := *idx
						*idx++
						if !c.Mine(i) {
							continue
						}
						objs := make([]carddav.AddressObject, n)
						for o := 0; o < n; o++ {
							objs[o] = mkObject(o, mkCard((pat>>uint(o))&1))
						}
						q := &carddav.AddressBookQuery{
							FilterTest:  carddav.FilterTest(outer),
							PropFilters: []carddav.PropFilter{{Name: "FN", TextMatches: tms}},
							Limit:       limit,
							DataRequest: carddav.AddressDataRequest{Props: props},
						}
						tc := &tcase{Kind: "filter", Query: q, Objects: objs}
						// journalled: code that sizes something by Limit may die
						// in a way recover() cannot catch (out of memory)
						c.Journal(tc)
						k.exec(tc, "limits: boundary values of Limit (exhaustive)")
						c.JournalDone()
					}
				}
			}
		}
	}
	c.Note("exhaustive_limit_boundaries", fmt.Sprintf("lists of 0..5 objects, every {match, no match} pattern, Limit in %v, outer test {default, allof}, address-data {none, FN}", huge))
	c.Note("exhaustive_limits", "lists of 0..5 objects, every pattern over {match, no match} and over {match, no match, ⊥}, Limit -1..len+1, outer test {default, anyof, allof}, address-data {none, FN, NOTE}")
}

// projectionCards: all 16 cards over 4 properties (TEL multi-valued with
// params and group).
func projectionCards() []carddav.AddressObject {
	var objs []carddav.AddressObject
	for m := 0; m < 16; m++ {
		card := vcard.Card{"VERSION": {{Value: "4.0"}}}
		if m&1 != 0 {
			card["FN"] = []*vcard.Field{{Value: "ab"}}
		}
		if m&2 != 0 {
			card["EMAIL"] = []*vcard.Field{{Value: "a@b", Params: vcard.Params{"TYPE": {"home"}}}}
		}
		if m&4 != 0 {
			card["TEL"] = []*vcard.Field{
				{Value: "+1", Group: "item1", Params: vcard.Params{"TYPE": {"cell", "voice"}, "PREF": {"1"}}},
				{Value: "+2"},
			}
		}
		if m&8 != 0 {
			card["X-CUSTOM"] = []*vcard.Field{{Value: ""}}
		}
		objs = append(objs, mkObject(m, card))
	}
	return objs
}

// --- part D: projections -------------------------------------------------------

func partProjections(k *checker, idx *int) {
	c := k.c
	four := []string{"FN", "EMAIL", "TEL", "X-CUSTOM"}
	requestable := []string{"VERSION", "FN", "EMAIL", "TEL", "X-CUSTOM", "X-ABSENT"}
	objs := projectionCards()
	filters := [][]carddav.PropFilter{
		{{Name: "FN"}},
		{{Name: "EMAIL", TextMatches: []carddav.TextMatch{{Text: "a", MatchType: "contains"}}}},
		{{Name: "TEL", IsNotDefined: true}},
		{{Name: "X-CUSTOM"}},
		{{Name: "FN"}, {Name: "X-CUSTOM"}},
		{{Name: "VERSION"}},
	}
	for sub := 0; sub < 1<<uint(len(requestable)); sub++ {
		var props []string
		for b, p := range requestable {
			if sub&(1<<uint(b)) != 0 {
				props = append(props, p)
			}
		}
		variants := [][]string{props}
		if len(props) >= 2 {
			rev := make([]string, 0, len(props)+1)
			for i := len(props) - 1; i >= 0; i-- {
				rev = append(rev, props[i])
			}
			rev = append(rev, props[0]) // reversed, with a duplicate
			variants = append(variants, rev)
		}
		for _, pv := range variants {
			for _, allprop := range []bool{false, true} {
				for fi, pfs := range filters {
					for _, test := range []string{"anyof", "allof"} {
						for _, limit := range []int{0, 3} {
							i := *idx
							*idx++
							if !c.Mine(i) {
								continue
							}
							_ = fi
							q := &carddav.AddressBookQuery{
								FilterTest:  carddav.FilterTest(test),
								PropFilters: pfs,
								Limit:       limit,
								DataRequest: carddav.AddressDataRequest{Props: pv, AllProp: allprop},
							}
							k.exec(&tcase{Kind: "filter", Query: q, Objects: objs}, "projections: every subset of requested properties x every card (exhaustive)")
						}
					}
				}
			}
		}
	}
	c.Note("exhaustive_projections", fmt.Sprintf("16 cards = VERSION + every subset of %q (TEL two instances with group/params); address-data = every subset of %q (plus a reversed+duplicated order) x AllProp x 6 filters on requested and unrequested properties x {anyof, allof} x Limit {0,3}", four, requestable))
}

// --- part E: random ---------------------------------------------------------------

var (
	rndNames   = []string{"FN", "N", "EMAIL", "TEL", "NOTE", "NICKNAME", "ORG", "X-CUSTOM"}
	rndHostile = []string{
		"a,b;c\\n", "\r\nBEGIN:VCARD", "é€", "Ab", "AB", "aB", "<x>&amp;\"'", "\x00", " a ", "\t", "á", "İ", "ß", "SS",
		"Doe;John;;;", "\\", "\\,", "日本語", "🙂", "a\nb", "%00", "../..", strings.Repeat("ab", 40),
	}
	rndGroups = []string{"item1", "ITEM1", "g"}
)

func rndSmall(r *rand.Rand) string {
	n := r.Intn(5)
	b := make([]byte, n)
	for i := range b {
		b[i] = "ab"[r.Intn(2)]
	}
	return string(b)
}

func rndValue(r *rand.Rand) string {
	switch r.Intn(10) {
	case 0, 1:
		return rndHostile[r.Intn(len(rndHostile))]
	case 2:
		return rndSmall(r) + rndHostile[r.Intn(len(rndHostile))] + rndSmall(r)
	}
	return rndSmall(r)
}

func rndCard(r *rand.Rand) vcard.Card {
	switch r.Intn(60) {
	case 0:
		return nil
	case 1:
		return vcard.Card{}
	}
	card := vcard.Card{}
	if r.Intn(30) != 0 {
		card["VERSION"] = []*vcard.Field{{Value: []string{"3.0", "4.0"}[r.Intn(2)]}}
	}
	for _, name := range rndNames {
		if r.Intn(2) == 0 {
			continue
		}
		n := 1
		if r.Intn(4) == 0 {
			n = 2 + r.Intn(2)
		}
		key := name
		if r.Intn(40) == 0 {
			key = strings.ToLower(name)
		}
		if r.Intn(20) == 0 {
			// a key without any field (as left behind by slicing or by a projection)
			if r.Intn(2) == 0 {
				card[key] = nil
			} else {
				card[key] = []*vcard.Field{}
			}
			continue
		}
		for i := 0; i < n; i++ {
			f := &vcard.Field{Value: rndValue(r)}
			if r.Intn(5) == 0 {
				f.Group = rndGroups[r.Intn(len(rndGroups))]
			}
			if r.Intn(3) == 0 {
				f.Params = vcard.Params{"TYPE": {[]string{"home", "work", "a"}[r.Intn(3)]}}
				if r.Intn(2) == 0 {
					f.Params["TYPE"] = append(f.Params["TYPE"], "pref")
				}
				if r.Intn(3) == 0 {
					f.Params["PREF"] = []string{[]string{"1", "2", "50", "100"}[r.Intn(4)]}
				}
			}
			card[key] = append(card[key], f)
		}
	}
	return card
}

// rndNeedle prefers pieces of values that occur in the cards.
func rndNeedle(r *rand.Rand, pool []string) string {
	if len(pool) > 0 && r.Intn(4) != 0 {
		v := []rune(pool[r.Intn(len(pool))])
		if len(v) == 0 {
			return ""
		}
		switch r.Intn(5) {
		case 0:
			return string(v)
		case 1:
			return string(v[:r.Intn(len(v)+1)])
		case 2:
			return string(v[r.Intn(len(v)+1):])
		case 3:
			a := r.Intn(len(v) + 1)
			b := a + r.Intn(len(v)-a+1)
			return string(v[a:b])
		default:
			if r.Intn(2) == 0 {
				return strings.ToUpper(string(v))
			}
			return string(v) + "a"
		}
	}
	return rndValue(r)
}

func rndTest(r *rand.Rand) carddav.FilterTest {
	switch r.Intn(25) {
	case 0:
		return "bogus-test"
	case 1:
		return "ANYOF"
	}
	return carddav.FilterTest([]string{"", "anyof", "allof", "allof"}[r.Intn(4)])
}

func rndTM(r *rand.Rand, pool []string) carddav.TextMatch {
	mt := matchTypes[r.Intn(5)]
	switch r.Intn(25) {
	case 0:
		mt = "bogus-match"
	case 1:
		mt = "Equals"
	}
	return carddav.TextMatch{Text: rndNeedle(r, pool), NegateCondition: r.Intn(3) == 0, MatchType: carddav.MatchType(mt)}
}

func rndQuery(r *rand.Rand, objs []carddav.AddressObject) *carddav.AddressBookQuery {
	if r.Intn(100) == 0 {
		return nil
	}
	q := &carddav.AddressBookQuery{FilterTest: rndTest(r)}
	npf := 1 + r.Intn(3)
	switch r.Intn(30) {
	case 0:
		npf = 0
	case 1:
		npf = 4 + r.Intn(2)
	}
	for i := 0; i < npf; i++ {
		name := rndNames[r.Intn(len(rndNames))]
		switch r.Intn(40) {
		case 0:
			name = strings.ToLower(name)
		case 1:
			name = "item1." + name
		case 2:
			name = "X-ABSENT"
		case 3:
			name = ""
		}
		// values of that property in the list, as needle material
		var pool []string
		for o := range objs {
			for _, f := range objs[o].Card[name] {
				pool = append(pool, f.Value)
			}
		}
		pf := carddav.PropFilter{Name: name, Test: rndTest(r)}
		ntm := r.Intn(4)
		if r.Intn(6) == 0 {
			pf.IsNotDefined = true
			if r.Intn(8) != 0 {
				ntm = 0 // in-domain form
			}
		}
		for t := 0; t < ntm; t++ {
			pf.TextMatches = append(pf.TextMatches, rndTM(r, pool))
		}
		if r.Intn(10) == 0 && (!pf.IsNotDefined || r.Intn(8) == 0) {
			p := carddav.ParamFilter{Name: []string{"TYPE", "PREF", "X-NONE"}[r.Intn(3)]}
			switch r.Intn(3) {
			case 0:
				p.IsNotDefined = true
			case 1:
				tm := rndTM(r, []string{"home", "work", "pref"})
				p.TextMatch = &tm
			}
			pf.Params = append(pf.Params, p)
		}
		q.PropFilters = append(q.PropFilters, pf)
	}
	q.Limit = r.Intn(len(objs)+3) - 1
	if r.Intn(12) == 0 {
		q.Limit = append([]int{1}, hugeLimits...)[r.Intn(1+len(hugeLimits))]
	}
	switch r.Intn(10) {
	case 0:
		q.DataRequest.AllProp = true
		if r.Intn(2) == 0 {
			q.DataRequest.Props = []string{"FN"}
		}
	case 1, 2, 3, 4:
		for _, n := range append([]string{"VERSION", "X-ABSENT"}, rndNames...) {
			if r.Intn(3) == 0 {
				if r.Intn(40) == 0 {
					n = strings.ToLower(n)
				}
				q.DataRequest.Props = append(q.DataRequest.Props, n)
			}
		}
		r.Shuffle(len(q.DataRequest.Props), func(a, b int) {
			q.DataRequest.Props[a], q.DataRequest.Props[b] = q.DataRequest.Props[b], q.DataRequest.Props[a]
		})
	}
	return q
}

func partRandom(k *checker) {
	c := k.c
	n := c.Pick(40000, 500000)
	for i := 0; i < n; i++ {
		if !c.Mine(i) {
			continue
		}
		r := c.Rand("c07-random", i)
		nobj := r.Intn(9)
		objs := make([]carddav.AddressObject, nobj)
		for o := range objs {
			objs[o] = mkObject(o, rndCard(r))
		}
		q := rndQuery(r, objs)
		for o := range objs {
			k.exec(&tcase{Kind: "match", Query: q, Objects: objs[o : o+1]}, "random: larger cards and queries")
		}
		o := k.exec(&tcase{Kind: "filter", Query: q, Objects: objs}, "random: larger cards and queries")
		if q != nil && !wholeCard(&q.DataRequest) && !o.panicked && o.err == nil {
			// Filter-then-Match: the projected results are cards too.
			for ri := range o.res {
				obj := cpObject(o.res[ri])
				k.exec(&tcase{Kind: "match", Query: q, Objects: []carddav.AddressObject{obj}}, "random: Match on the projected results of Filter")
			}
		}
	}
}

// --- part F: Props is a prefix of another query's longer list -----------------------

func partAliasing(k *checker, idx *int) {
	c := k.c
	names := []string{"VERSION", "FN", "EMAIL", "TEL", "X-CUSTOM", "X-ABSENT"}
	objs := projectionCards()
	filters := [][]carddav.PropFilter{{{Name: "FN"}}, {{Name: "TEL", IsNotDefined: true}}}
	for sub := 0; sub < 1<<uint(len(names)); sub++ {
		var base []string
		for b, p := range names {
			if sub&(1<<uint(b)) != 0 {
				base = append(base, p)
			}
		}
		if len(base) < 2 {
			continue
		}
		for cut := 0; cut < len(base); cut++ {
			for _, pfs := range filters {
				for _, limit := range []int{0, 2} {
					i := *idx
					*idx++
					if !c.Mine(i) {
						continue
					}
					q := &carddav.AddressBookQuery{PropFilters: pfs, Limit: limit,
						DataRequest: carddav.AddressDataRequest{Props: append([]string{}, base[:cut]...)}}
					k.exec(&tcase{Kind: "filter", Query: q, Objects: objs, PropsTail: append([]string{}, base[cut:]...)},
						"aliasing: Props is a prefix of another query's longer list (exhaustive)")
				}
			}
		}
	}
	c.Note("exhaustive_aliasing", fmt.Sprintf("every ordered subset (>=2) of %q as the longer list, every proper prefix of it as DataRequest.Props in the same backing array, 16 cards, 2 filters, Limit {0,2}; besides, EVERY case hands every slice (Props, PropFilters, TextMatches, Params, the object list, card field lists, field parameter values) to the library with spare capacity filled with sentinels and compares the whole backing arrays afterwards", names))
}

// --- part H: several instances of one property, preference parameters ---------------

func partInstances(k *checker, idx *int) {
	c := k.c
	// how an instance is decorated: nothing, PREF=n, Apple-style TYPE=pref, other params
	decos := []vcard.Params{
		nil,
		{"PREF": {"1"}},
		{"PREF": {"50"}},
		{"PREF": {"100"}},
		{"TYPE": {"home", "pref"}},
		{"TYPE": {"work"}, "LANGUAGE": {"en"}},
	}
	values := []string{"a", "b", "c"}
	mk := func(t string, neg bool, text string) carddav.TextMatch {
		return carddav.TextMatch{Text: text, NegateCondition: neg, MatchType: carddav.MatchType(t)}
	}
	var pfs []carddav.PropFilter
	pfs = append(pfs, carddav.PropFilter{Name: "EMAIL"}, carddav.PropFilter{Name: "EMAIL", IsNotDefined: true})
	for _, v := range []string{"a", "b", "c", "z"} {
		for _, t := range []string{"equals", "contains", "starts-with", "ends-with"} {
			for _, neg := range []bool{false, true} {
				pfs = append(pfs, carddav.PropFilter{Name: "EMAIL", TextMatches: []carddav.TextMatch{mk(t, neg, v)}})
			}
		}
		for _, test := range []string{"anyof", "allof"} {
			pfs = append(pfs,
				carddav.PropFilter{Name: "EMAIL", Test: carddav.FilterTest(test), TextMatches: []carddav.TextMatch{mk("equals", false, v), mk("equals", true, "b")}},
				carddav.PropFilter{Name: "EMAIL", Test: carddav.FilterTest(test), TextMatches: []carddav.TextMatch{mk("contains", false, v), mk("bogus-match", false, "x")}},
				carddav.PropFilter{Name: "EMAIL", Test: carddav.FilterTest(test), TextMatches: []carddav.TextMatch{mk("equals", false, v)},
					Params: []carddav.ParamFilter{{Name: "PREF"}}},
			)
		}
	}
	for nInst := 2; nInst <= 3; nInst++ {
		combos := 1
		for i := 0; i < nInst; i++ {
			combos *= len(decos)
		}
		for combo := 0; combo < combos; combo++ {
			for pi := range pfs {
				for _, outer := range []string{"", "allof"} {
					i := *idx
					*idx++
					if !c.Mine(i) {
						continue
					}
					card := cardWith(nil)
					x := combo
					for f := 0; f < nInst; f++ {
						var params vcard.Params
						if d := decos[x%len(decos)]; d != nil {
							params = vcard.Params{}
							for pk, pv := range d {
								params[pk] = append([]string{}, pv...)
							}
						}
						x /= len(decos)
						card["EMAIL"] = append(card["EMAIL"], &vcard.Field{Value: values[f], Params: params})
					}
					q := &carddav.AddressBookQuery{FilterTest: carddav.FilterTest(outer), PropFilters: []carddav.PropFilter{pfs[pi]}}
					obj := mkObject(0, card)
					k.exec(&tcase{Kind: "match", Query: q, Objects: []carddav.AddressObject{obj}}, "instances: 2-3 fields of one name x preference parameters (exhaustive)")
					if combo%7 == 0 {
						k.exec(&tcase{Kind: "filter", Query: q, Objects: []carddav.AddressObject{obj, mkObject(1, cardWith(nil))}}, "instances: through Filter")
					}
				}
			}
		}
	}
	c.Note("exhaustive_instances", fmt.Sprintf("EMAIL with 2 and 3 instances of distinct values [a b c], every assignment of %d decorations (none, PREF=1/50/100, TYPE=pref, unrelated parameters) to the instances, %d prop-filters (presence, is-not-defined, each match type x negate against a value held by the first / a later / no instance, two-element anyof/allof lists, with an unknown match type, with a parameter filter), outer test {default, allof}", len(decos), len(pfs)))
}

// --- part G: Filter, then Match on what Filter returned ---------------------------

func partChain(k *checker, idx *int) {
	c := k.c
	var objs []carddav.AddressObject
	n := 0
	for _, version := range []bool{true, false} {
		for _, fn := range []*string{nil, sp("a"), emptyKey} {
			for _, email := range []*string{nil, sp("ab")} {
				card := cardWith(map[string]*string{"FN": fn, "EMAIL": email})
				if !version {
					delete(card, "VERSION")
				}
				objs = append(objs, mkObject(n, card))
				n++
			}
		}
	}
	requestable := []string{"FN", "EMAIL", "X-ABSENT", "VERSION"}
	var second []*carddav.AddressBookQuery
	for _, name := range []string{"VERSION", "FN", "EMAIL", "NOTE"} {
		for _, pf := range []carddav.PropFilter{
			{Name: name},
			{Name: name, IsNotDefined: true},
			{Name: name, TextMatches: []carddav.TextMatch{{Text: "", MatchType: "contains"}}},
			{Name: name, TextMatches: []carddav.TextMatch{{Text: "", MatchType: "equals"}}},
			{Name: name, Test: "allof", TextMatches: []carddav.TextMatch{{Text: "a", MatchType: "contains", NegateCondition: true}}},
		} {
			second = append(second, &carddav.AddressBookQuery{PropFilters: []carddav.PropFilter{pf}})
		}
	}
	for sub := 0; sub < 1<<uint(len(requestable)); sub++ {
		var props []string
		for b, p := range requestable {
			if sub&(1<<uint(b)) != 0 {
				props = append(props, p)
			}
		}
		i := *idx
		*idx++
		if !c.Mine(i) {
			continue
		}
		first := &carddav.AddressBookQuery{
			PropFilters: []carddav.PropFilter{{Name: "NOTE"}},
			DataRequest: carddav.AddressDataRequest{Props: props},
		}
		o := k.exec(&tcase{Kind: "filter", Query: first, Objects: objs}, "chain: Filter with projection (cards with and without VERSION)")
		if o.panicked || o.err != nil {
			continue
		}
		for ri := range o.res {
			for _, q2 := range second {
				obj := cpObject(o.res[ri])
				k.exec(&tcase{Kind: "match", Query: q2, Objects: []carddav.AddressObject{obj}}, "chain: Match on the results of Filter (exhaustive)")
			}
		}
	}
	c.Note("exhaustive_chain", "12 cards = VERSION {present, absent} x FN {absent, a, key without fields} x EMAIL {absent, ab} (+NOTE); Filter with every subset of [FN EMAIL X-ABSENT VERSION] requested; every returned (projected) object is then matched against 20 queries = {VERSION, FN, EMAIL, NOTE} x {bare, is-not-defined, contains \"\", equals \"\", not contains a}: a key the projection left without fields is an absent property")
}

// ---------------------------------------------------------------------------

func c07Run(c *fw.Ctx) {
	k := newChecker(c)
	idx := 0
	partSingle(k, &idx)
	k.flush()
	partPairs(k, &idx)
	k.flush()
	partLimits(k, &idx)
	partProjections(k, &idx)
	partAliasing(k, &idx)
	partChain(k, &idx)
	partInstances(k, &idx)
	k.flush()
	partLargeLists(k, &idx)
	partNonASCII(k, &idx)
	partDecoded(k, &idx)
	k.flush()
	partRandom(k)
	k.flush()
}

func c07Replay(c *fw.Ctx, w json.RawMessage) {
	var wt witnessT
	if err := json.Unmarshal(w, &wt); err != nil || wt.Case == nil {
		fmt.Println("C07 replay: cannot decode witness:", err)
		return
	}
	k := newChecker(c)
	for _, tc := range []*tcase{wt.Case, wt.Original} {
		if tc == nil || (tc.Kind == "match" && len(tc.Objects) != 1) {
			continue
		}
		o := run(tc)
		j := judge(tc, o)
		res := make([]string, 0, len(o.res))
		for i := range o.res {
			res = append(res, o.res[i].Path)
		}
		fmt.Printf("C07 replay %s: model=%s in-domain=%v observed: value=%v err=%q panic=%q result-paths=%v failures=%d\n",
			tc.Kind, setsString(j.sets), j.inDomain, o.val, fw.ErrString(o.err), o.pval, res, len(j.fails))
		k.exec(tc, "replay")
	}
	k.flush()
}

func init() {
	fw.Register(&fw.Property{
		ID:     "C07",
		Run:    c07Run,
		Replay: c07Replay,
		Rule: "Every case runs the real carddav.Match or carddav.Filter on deep copies and compares with a three-valued reference evaluator (true/false/⊥) that returns the envelope of all admissible readings. " +
			"Exhaustive parts: (A) one prop-filter: outer test x inner test x is-not-defined x property {absent, 5 values} x all lists of 0..2 text-matches over 6 match types x negate x 5 needles, every 8th also through Filter; " +
			"(B) two prop-filters over a reduced alphabet; (C) limits -1..len+1 over lists of 0..5 objects with every two- and three-valued match pattern; (D) projections: every subset of 6 requestable names x 16 cards. " +
			"Further exhaustive parts: (I) long lists of 127..1025 (thorough: ..2049) objects x match patterns x limits around 1, len/2, the number of matches and len x address-data {none, FN}; (J) non-ASCII values and needles over a small alphabet of ideographs, accented letters and ASCII x every match type x negate; (K) cards that went through vcard.NewDecoder (hand-written vCard texts and re-encoded cards) under presence, text and projection queries. " +
			"Random part: lists of 0..8 larger cards (hostile strings, multi-valued, groups, params) and queries, one Match per object plus one Filter per list. " +
			"evaluations = calls of Match/Filter. distinct_nontrivial = distinct abstract keys of in-domain cases where a definite verdict was demanded: query structure (tests, flags, match types, negation) with, for single prop-filter Match cases, presence and the value/needle relation of every text-match, plus the model values; for Filter the limit class, projection class and per-object model values.",
		Assumptions: []string{
			"⊥ (Kleene: a value that depends on an unknown test or match type) must be an error; a definite value must be returned as such, or as an error only if an unknown test/match type occurs anywhere in the query",
			"a prop-filter without text-matches is a pure presence test: its test attribute is not consulted (an unknown test there may or may not be reported)",
			"a query without any prop-filter: allof must match; anyof/default is accepted either way (\"at least one of none\" vs. \"no restriction\"); unknown test accepted either way or as error",
			"is-not-defined together with text-matches or parameter filters (and a parameter filter with both is-not-defined and a text-match) is outside the domain (the types document they must be unset), and so is a prop-filter with an empty property name: only non-modification is checked",
			"a test or match type that equals a known one up to ASCII case (\"ANYOF\", \"Equals\") may be treated as unknown or as that known value",
			"several instances of a property: a verdict is demanded only where the readings 'the first instance in card order', 'some instance satisfies the filter' and 'each text-match is satisfied by some instance' agree (first instance matches -> true; nothing matches under any of them -> false)",
			"parameter filters may be ignored or applied (their outcome is left free); property names and group prefixes may be compared exactly or case-insensitively; text may be compared exactly or ASCII-case-insensitively; on non-ASCII text exact hits are demanded, and misses only where no collation (octets, ASCII case map, Unicode case map = case folding + NFKD) can make a hit: both texts consist of ASCII and basic-block CJK ideographs (which have neither case nor decomposition), or the needle holds such an ideograph that the value lacks while the value has no other character at or above U+2E80",
			"projection: a card without VERSION is outside the domain; ContentLength of a projected object is not constrained; Path, ETag and ModTime must be preserved; a requested name matching a card key only up to case may or may not be included",
			"Match(nil, …) is not covered by the statement (only Filter with a nil query is)",
			"paths are unique within a list (returned objects are identified by path)",
		},
		MinEvals:    func(t string) int64 { return 1000000 },
		MinDistinct: func(t string) int64 { return 3000 },
	})
}

package c07

import (
	"bytes"
	"fmt"
	"sort"
	"strings"

	"github.com/emersion/go-vcard"
	"github.com/emersion/go-webdav/carddav"
)

// --- part I: long lists ------------------------------------------------------------
//
// "Filter returns the matching objects in input order, cut to the first Limit
// matches when Limit is positive" is quantified over every list; how the result
// is sized, grown or cut must not depend on the list being short.

func largeSizes(thorough bool) []int {
	if thorough {
		return []int{127, 128, 129, 255, 256, 257, 511, 512, 513, 1023, 1024, 1025, 2049}
	}
	return []int{127, 128, 129, 257, 1025}
}

var largePatterns = []string{"all", "none", "alternating", "last-only", "first-only", "all-but-last", "random"}

func partLargeLists(k *checker, idx *int) {
	c := k.c
	match := func() vcard.Card { return cardWith(map[string]*string{"FN": sp("a")}) }
	miss := func() vcard.Card { return cardWith(nil) }
	tms := []carddav.TextMatch{{Text: "a", MatchType: "equals"}}
	for _, n := range largeSizes(c.Thorough()) {
		for pi, pat := range largePatterns {
			r := c.Rand("c07-large", n*16+pi)
			bits := make([]bool, n)
			m := 0
			for o := range bits {
				switch pat {
				case "all":
					bits[o] = true
				case "alternating":
					bits[o] = o%2 == 1
				case "last-only":
					bits[o] = o == n-1
				case "first-only":
					bits[o] = o == 0
				case "all-but-last":
					bits[o] = o != n-1
				case "random":
					bits[o] = r.Intn(2) == 0
				}
				if bits[o] {
					m++
				}
			}
			seen := map[int]bool{}
			var limits []int
			for _, l := range []int{0, 1, n / 2, n - 1, n, n + 1, m - 1, m, m + 1, m / 2} {
				if l >= 0 && !seen[l] {
					seen[l] = true
					limits = append(limits, l)
				}
			}
			for _, limit := range limits {
				for _, props := range [][]string{nil, {"FN"}} {
					for _, outer := range []string{"", "allof"} {
						i := *idx
						*idx++
						if !c.Mine(i) {
							continue
						}
						objs := make([]carddav.AddressObject, n)
						for o := range objs {
							if bits[o] {
								objs[o] = mkObject(o, match())
							} else {
								objs[o] = mkObject(o, miss())
							}
						}
						q := &carddav.AddressBookQuery{
							FilterTest:  carddav.FilterTest(outer),
							PropFilters: []carddav.PropFilter{{Name: "FN", TextMatches: tms}},
							Limit:       limit,
							DataRequest: carddav.AddressDataRequest{Props: props},
						}
						k.tally("long_list", fmt.Sprintf("len=%d pattern=%s", n, pat))
						k.exec(&tcase{Kind: "filter", Query: q, Objects: objs}, "long lists: match patterns x limits (exhaustive)")
					}
				}
			}
		}
	}
	c.Note("exhaustive_long_lists", fmt.Sprintf("lists of %v objects, match pattern %q, Limit in {0, 1, len/2, len-1, len, len+1, matches/2, matches-1, matches, matches+1}, address-data {none, FN}, outer test {default, allof}", largeSizes(c.Thorough()), largePatterns))
}

// --- part J: non-ASCII text ----------------------------------------------------------

var nonASCIIAlphabet = []string{
	"名", "日", "名日", "日名", "名日名", "a名", "名a", "A名", "ü", "Ü", "é", "e", "名ü", "ü名", "ab", "日本語", "語",
}

func partNonASCII(k *checker, idx *int) {
	c := k.c
	for _, value := range nonASCIIAlphabet {
		for _, needle := range nonASCIIAlphabet {
			for _, mt := range matchTypes[:5] {
				for _, neg := range []bool{false, true} {
					for _, outer := range []string{"", "allof"} {
						i := *idx
						*idx++
						if !c.Mine(i) {
							continue
						}
						q := &carddav.AddressBookQuery{
							FilterTest: carddav.FilterTest(outer),
							PropFilters: []carddav.PropFilter{{Name: "FN", TextMatches: []carddav.TextMatch{
								{Text: needle, NegateCondition: neg, MatchType: carddav.MatchType(mt)},
							}}},
						}
						obj := mkObject(0, cardWith(map[string]*string{"FN": sp(value)}))
						tc := &tcase{Kind: "match", Query: q, Objects: []carddav.AddressObject{obj}}
						set, _ := modelMatch(q, obj.Card)
						k.tally("non_ascii_text_verdict", fmt.Sprintf("%s demanded=%v", matchClass(mt), set.single()))
						k.exec(tc, "non-ASCII: value x needle x match type x negate (exhaustive)")
						if i%4 == 0 {
							other := mkObject(1, cardWith(map[string]*string{"FN": sp(needle)}))
							k.exec(&tcase{Kind: "filter", Query: q, Objects: []carddav.AddressObject{obj, other}}, "non-ASCII: through Filter")
						}
					}
				}
			}
		}
	}
	c.Note("exhaustive_non_ascii", fmt.Sprintf("FN value x needle over %q x match type {default, equals, contains, starts-with, ends-with} x negate x outer {default, allof}: a miss is demanded where no collation can make a hit (texts of ASCII and basic-block ideographs only; needle with an ideograph the value lacks), an exact hit always; everything else stays open", nonASCIIAlphabet))
}

// --- part K: cards as vcard.NewDecoder delivers them ------------------------------------

var decodedTexts = []string{
	"BEGIN:VCARD\r\nVERSION:3.0\r\nFN:John Doe\r\nN:Doe;John;;;\r\nitem1.EMAIL;TYPE=INTERNET;TYPE=home:jd@example.org\r\nitem1.X-ABLabel:_$!<Other>!$_\r\nEMAIL;type=work:JD@Example.ORG\r\nNOTE:line one\\nline two\\, with comma\r\nTEL;TYPE=\"cell,voice\";PREF=1:+1 555 0100\r\nORG:Acme\\, Inc.;Sales\r\nEND:VCARD\r\n",
	"BEGIN:VCARD\r\nVERSION:4.0\r\nfn:jane roe\r\nn:Roe;Jane;;;\r\nemail:jane@example.org\r\nnote:folded line th\r\n at continues\r\n\tand continues\r\nUID:urn:uuid:0001\r\nEND:VCARD\r\n",
	"begin:vcard\nversion:3.0\nFN;CHARSET=UTF-8:Zoë Müller\nNICKNAME:zo,z\nitem2.TEL;type=CELL;type=pref:+49 30 1\nitem2.X-ABLabel:mobil\nTEL:+49 30 2\nX-Custom;X-P=1:\nend:vcard\n",
	"BEGIN:VCARD\r\nVERSION:3.0\r\nN:;;;;\r\nEMAIL;TYPE=home:a@b\r\nEMAIL;TYPE=work;PREF=1:c@d\r\nEMAIL:e@f\r\nEND:VCARD\r\n",
	"BEGIN:VCARD\r\nVERSION:4.0\r\nFN:名日\r\nNOTE:a\\\\b\\;c\r\nGRP.fn;LANGUAGE=ja:日名\r\nEND:VCARD\r\n",
	"BEGIN:VCARD\r\nVERSION:3.0\r\nEND:VCARD\r\n",
}

func decodeCard(text string) (vcard.Card, error) {
	return vcard.NewDecoder(strings.NewReader(text)).Decode()
}

// throughDecoder encodes a card and decodes it again (nil: not encodable).
func throughDecoder(card vcard.Card) vcard.Card {
	var buf bytes.Buffer
	if err := vcard.NewEncoder(&buf).Encode(card); err != nil {
		return nil
	}
	out, err := decodeCard(buf.String())
	if err != nil {
		return nil
	}
	return out
}

// decodedObjects: hand-written vCard texts, the projection cards and a few
// multi-instance cards, all as the decoder delivers them.
func decodedObjects() []carddav.AddressObject {
	var objs []carddav.AddressObject
	add := func(card vcard.Card) {
		if card != nil {
			objs = append(objs, mkObject(len(objs), card))
		}
	}
	for _, t := range decodedTexts {
		if card, err := decodeCard(t); err == nil {
			add(card)
		}
	}
	for _, o := range projectionCards() {
		add(throughDecoder(o.Card))
	}
	for _, deco := range []vcard.Params{nil, {"PREF": {"1"}}, {"TYPE": {"home", "pref"}}} {
		card := cardWith(nil)
		for f, v := range []string{"a", "b", "c"} {
			fl := &vcard.Field{Value: v}
			if f == 1 && deco != nil {
				fl.Params = deco
			}
			card["EMAIL"] = append(card["EMAIL"], fl)
		}
		add(throughDecoder(card))
	}
	return objs
}

func needlesOf(v string) []string {
	rs := []rune(v)
	out := []string{v, strings.ToUpper(v), v + "x"}
	if len(rs) >= 2 {
		out = append(out, string(rs[:len(rs)/2]), string(rs[len(rs)/2:]), string(rs[1:len(rs)-1]))
	}
	return out
}

func partDecoded(k *checker, idx *int) {
	c := k.c
	objs := decodedObjects()
	// every property name the decoder produced, its lower-case spelling, a
	// grouped spelling and an absent one
	nameSet := map[string]bool{"X-ABSENT": true}
	values := map[string][]string{}
	for o := range objs {
		for key, fields := range objs[o].Card {
			nameSet[key] = true
			for _, f := range fields {
				if f == nil {
					continue
				}
				dup := false
				for _, v := range values[key] {
					dup = dup || v == f.Value
				}
				if !dup {
					values[key] = append(values[key], f.Value)
				}
				if f.Group != "" {
					nameSet[f.Group+"."+key] = true
				}
			}
		}
	}
	nameSet["email"] = true
	names := make([]string, 0, len(nameSet))
	for n := range nameSet {
		names = append(names, n)
	}
	sort.Strings(names)
	for _, name := range names {
		pfs := []carddav.PropFilter{{Name: name}, {Name: name, IsNotDefined: true}}
		base := name
		if i := strings.IndexByte(name, '.'); i >= 0 {
			base = name[i+1:]
		}
		vals := append([]string{}, values[strings.ToUpper(base)]...)
		sort.Strings(vals)
		if len(vals) > 6 {
			vals = vals[:6]
		}
		for _, v := range vals {
			for _, needle := range needlesOf(v) {
				for _, mt := range []string{"equals", "contains", "starts-with", "ends-with"} {
					for _, neg := range []bool{false, true} {
						pfs = append(pfs, carddav.PropFilter{Name: name, TextMatches: []carddav.TextMatch{{Text: needle, NegateCondition: neg, MatchType: carddav.MatchType(mt)}}})
					}
				}
			}
			pfs = append(pfs, carddav.PropFilter{Name: name, Test: "allof", TextMatches: []carddav.TextMatch{
				{Text: v, MatchType: "contains"}, {Text: v + "x", MatchType: "equals", NegateCondition: true}}})
		}
		for pi := range pfs {
			i := *idx
			*idx++
			if !c.Mine(i) {
				continue
			}
			q := &carddav.AddressBookQuery{PropFilters: []carddav.PropFilter{pfs[pi]}}
			for o := range objs {
				k.exec(&tcase{Kind: "match", Query: q, Objects: objs[o : o+1]}, "decoded cards: presence and text filters on every decoded property (exhaustive)")
			}
			for _, props := range [][]string{nil, {base}, {"FN", strings.ToUpper(base), "X-ABLABEL"}} {
				for _, limit := range []int{0, 2} {
					fq := &carddav.AddressBookQuery{PropFilters: []carddav.PropFilter{pfs[pi]}, Limit: limit,
						DataRequest: carddav.AddressDataRequest{Props: props}}
					k.exec(&tcase{Kind: "filter", Query: fq, Objects: objs}, "decoded cards: through Filter with projection")
				}
			}
		}
	}
	k.tally("decoded_cards", fmt.Sprintf("cards=%d property-names=%d", len(objs), len(names)))
	c.Note("exhaustive_decoded", fmt.Sprintf("%d cards delivered by vcard.NewDecoder (%d hand-written texts: grouped item1.EMAIL, lower-case names and parameters, folded lines, quoted and repeated parameters, escaped commas/newlines/backslashes, LF-only line ends, non-ASCII; the 16 projection cards and 3 multi-instance cards encoded and decoded again); prop-filters on every decoded property name (plus group.NAME, lower-case and absent spellings): presence, is-not-defined, every match type x negate x {whole value, upper-cased, value+x, first half, second half, inner part} of up to 6 values, an allof pair; Match per card and Filter over the list with address-data {none, the property, FN+property+X-ABLABEL} x Limit {0,2}", len(objs), len(decodedTexts)))
}

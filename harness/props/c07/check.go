package c07

import (
	"fmt"
	"sort"
	"strings"
	"time"

	"github.com/emersion/go-vcard"
	"github.com/emersion/go-webdav/carddav"
	"github.com/emersion/go-webdav/verifharness/fw"
)

// tcase is one executed case and, JSON-encoded, the replayable witness.
type tcase struct {
	Kind    string                    `json:"kind"` // "match" (Objects[0]) or "filter"
	Query   *carddav.AddressBookQuery `json:"query"`
	Objects []carddav.AddressObject   `json:"objects"`
	// PropsTail: Query.DataRequest.Props is handed over as the prefix of a
	// longer list (another query's) that continues with these names in the
	// same backing array; that longer list must be intact afterwards.
	PropsTail []string `json:"props_tail,omitempty"`
}

type witnessT struct {
	Case     *tcase `json:"case"`
	Original *tcase `json:"original,omitempty"`
	Expected string `json:"expected"`
	Observed string `json:"observed"`
}

// ---------------------------------------------------------------------------
// deep copy / deep compare (nil and empty containers are the same value)
// ---------------------------------------------------------------------------

func cpStrs(s []string) []string {
	if s == nil {
		return nil
	}
	return append(make([]string, 0, len(s)), s...)
}

func cpTM(t *carddav.TextMatch) *carddav.TextMatch {
	if t == nil {
		return nil
	}
	c := *t
	return &c
}

func cpQuery(q *carddav.AddressBookQuery) *carddav.AddressBookQuery {
	if q == nil {
		return nil
	}
	c := &carddav.AddressBookQuery{FilterTest: q.FilterTest, Limit: q.Limit}
	c.DataRequest.AllProp = q.DataRequest.AllProp
	c.DataRequest.Props = cpStrs(q.DataRequest.Props)
	if q.PropFilters != nil {
		c.PropFilters = make([]carddav.PropFilter, len(q.PropFilters))
		for i, pf := range q.PropFilters {
			n := carddav.PropFilter{Name: pf.Name, Test: pf.Test, IsNotDefined: pf.IsNotDefined}
			if pf.TextMatches != nil {
				n.TextMatches = append(make([]carddav.TextMatch, 0, len(pf.TextMatches)), pf.TextMatches...)
			}
			if pf.Params != nil {
				n.Params = make([]carddav.ParamFilter, len(pf.Params))
				for j, p := range pf.Params {
					n.Params[j] = carddav.ParamFilter{Name: p.Name, IsNotDefined: p.IsNotDefined, TextMatch: cpTM(p.TextMatch)}
				}
			}
			c.PropFilters[i] = n
		}
	}
	return c
}

func cpCard(card vcard.Card) vcard.Card {
	if card == nil {
		return nil
	}
	c := make(vcard.Card, len(card))
	for k, fields := range card {
		if fields == nil {
			c[k] = nil
			continue
		}
		nf := make([]*vcard.Field, len(fields))
		for i, f := range fields {
			if f == nil {
				continue
			}
			g := &vcard.Field{Value: f.Value, Group: f.Group}
			if f.Params != nil {
				g.Params = make(vcard.Params, len(f.Params))
				for pk, pv := range f.Params {
					g.Params[pk] = cpStrs(pv)
				}
			}
			nf[i] = g
		}
		c[k] = nf
	}
	return c
}

func cpObject(a carddav.AddressObject) carddav.AddressObject {
	a.Card = cpCard(a.Card)
	return a
}

func cpCase(tc *tcase) *tcase {
	n := &tcase{Kind: tc.Kind, Query: cpQuery(tc.Query), PropsTail: cpStrs(tc.PropsTail)}
	n.Objects = make([]carddav.AddressObject, len(tc.Objects))
	for i := range tc.Objects {
		n.Objects[i] = cpObject(tc.Objects[i])
	}
	return n
}

func eqStrs(a, b []string) bool {
	if len(a) != len(b) {
		return false
	}
	for i := range a {
		if a[i] != b[i] {
			return false
		}
	}
	return true
}

func eqTMp(a, b *carddav.TextMatch) bool {
	if a == nil || b == nil {
		return a == b
	}
	return *a == *b
}

func eqQuery(a, b *carddav.AddressBookQuery) bool {
	if a == nil || b == nil {
		return a == b
	}
	if a.FilterTest != b.FilterTest || a.Limit != b.Limit || a.DataRequest.AllProp != b.DataRequest.AllProp ||
		!eqStrs(a.DataRequest.Props, b.DataRequest.Props) || len(a.PropFilters) != len(b.PropFilters) {
		return false
	}
	for i := range a.PropFilters {
		x, y := &a.PropFilters[i], &b.PropFilters[i]
		if x.Name != y.Name || x.Test != y.Test || x.IsNotDefined != y.IsNotDefined ||
			len(x.TextMatches) != len(y.TextMatches) || len(x.Params) != len(y.Params) {
			return false
		}
		for j := range x.TextMatches {
			if x.TextMatches[j] != y.TextMatches[j] {
				return false
			}
		}
		for j := range x.Params {
			p, r := &x.Params[j], &y.Params[j]
			if p.Name != r.Name || p.IsNotDefined != r.IsNotDefined || !eqTMp(p.TextMatch, r.TextMatch) {
				return false
			}
		}
	}
	return true
}

func eqField(a, b *vcard.Field) bool {
	if a == nil || b == nil {
		return a == b
	}
	if a.Value != b.Value || a.Group != b.Group || len(a.Params) != len(b.Params) {
		return false
	}
	for k, v := range a.Params {
		w, ok := b.Params[k]
		if !ok || !eqStrs(v, w) {
			return false
		}
	}
	return true
}

func eqFields(a, b []*vcard.Field) bool {
	if len(a) != len(b) {
		return false
	}
	for i := range a {
		if !eqField(a[i], b[i]) {
			return false
		}
	}
	return true
}

func eqCard(a, b vcard.Card) bool {
	if len(a) != len(b) {
		return false
	}
	for k, v := range a {
		w, ok := b[k]
		if !ok || !eqFields(v, w) {
			return false
		}
	}
	return true
}

// hasField: a key without any field is an absent property.
func hasField(card vcard.Card, k string) bool {
	for _, f := range card[k] {
		if f != nil {
			return true
		}
	}
	return false
}

// eqCardProps compares cards as sets of properties: keys without any field
// count as absent on both sides (used for returned objects; the
// non-modification check stays strict).
func eqCardProps(a, b vcard.Card) bool {
	for k, v := range a {
		if hasField(a, k) != hasField(b, k) || hasField(a, k) && !eqFields(v, b[k]) {
			return false
		}
	}
	for k := range b {
		if hasField(b, k) && !hasField(a, k) {
			return false
		}
	}
	return true
}

func eqObject(a, b *carddav.AddressObject) bool {
	return a.Path == b.Path && a.ETag == b.ETag && a.ContentLength == b.ContentLength &&
		a.ModTime.Equal(b.ModTime) && eqCard(a.Card, b.Card)
}

// ---------------------------------------------------------------------------
// running the real code
// ---------------------------------------------------------------------------

type observation struct {
	panicked bool
	pval     string
	site     string

	val bool  // Match
	err error // Match / Filter
	res []carddav.AddressObject

	queryModified  bool
	objectModified int    // index+1 of the first modified object, 0 = none
	sliceModified  string // which backing array was written behind (or inside) the caller's slice
}

const sentinelPath = "/__c07_sentinel__"

func sentinel() carddav.AddressObject {
	return carddav.AddressObject{Path: sentinelPath, ETag: "sentinel", ContentLength: -7,
		Card: vcard.Card{"VERSION": {{Value: "sentinel"}}}}
}

// run executes Match or Filter on private deep copies of the case and compares
// the copies with the pristine case afterwards.
func run(tc *tcase) *observation {
	o := &observation{}
	var guards []guard
	q := padQuery(tc.Query, tc.PropsTail, &guards)
	n := len(tc.Objects)
	// Spare capacity behind every slice holds sentinels: writing there (append
	// on the caller's slice) is a modification too (see alias.go).
	backing := make([]carddav.AddressObject, n+2)
	for i := range tc.Objects {
		backing[i] = tc.Objects[i]
		backing[i].Card = padCard(tc.Objects[i].Card, &guards)
	}
	backing[n], backing[n+1] = sentinel(), sentinel()
	work := backing[:n]
	p, pv, st := fw.Guard(func() {
		if tc.Kind == "match" {
			o.val, o.err = carddav.Match(q, &work[0])
		} else {
			o.res, o.err = carddav.Filter(q, work)
		}
	})
	if p {
		o.panicked = true
		o.pval = fmt.Sprint(pv)
		o.site = fw.PanicSite(st)
	}
	o.queryModified = !eqQuery(q, tc.Query)
	for i := range tc.Objects {
		if !eqObject(&backing[i], &tc.Objects[i]) {
			o.objectModified = i + 1
			break
		}
	}
	s := sentinel()
	if !eqObject(&backing[n], &s) || !eqObject(&backing[n+1], &s) {
		o.sliceModified = "objects"
	}
	for i := range guards {
		if o.sliceModified == "" && !guards[i].ok() {
			o.sliceModified = guards[i].what
		}
	}
	return o
}

// ---------------------------------------------------------------------------
// oracle
// ---------------------------------------------------------------------------

type failure struct {
	Kind     string // stable class, part of the finding key
	What     string
	Expected string
	Observed string
}

// judgement is the oracle's view of one observation (failures plus what the
// evidence tables want to know).
type judgement struct {
	fails    []failure
	inDomain bool
	sets     []vset // per object model value (non-nil in-domain query)
	why      uint32
	decided  bool // a definite verdict was demanded
}

func projOutOfDomain(q *carddav.AddressBookQuery, objs []carddav.AddressObject) bool {
	if q == nil || wholeCard(&q.DataRequest) {
		return false
	}
	for i := range objs {
		if !hasField(objs[i].Card, "VERSION") {
			return true
		}
	}
	return false
}

func judge(tc *tcase, o *observation) *judgement {
	j := &judgement{inDomain: true}
	add := func(kind, what, exp, obs string) {
		j.fails = append(j.fails, failure{kind, what, exp, obs})
	}
	// Clause "neither call modifies the objects or the query": unconditional.
	if o.queryModified {
		add("query-modified", "the query differs from its deep copy after the call", "query unchanged", "query changed")
	}
	if o.objectModified > 0 {
		add("object-modified", fmt.Sprintf("object #%d differs from its deep copy after the call", o.objectModified-1), "objects unchanged", "object changed")
	}
	if o.sliceModified != "" {
		add("backing-array-modified|"+o.sliceModified, "the backing array of the caller's "+o.sliceModified+" slice was written (inside or behind len): a longer list sharing it is no longer intact",
			"backing array untouched", "backing array overwritten")
	}
	q := tc.Query
	if q != nil && !inDomain(q) {
		j.inDomain = false
		return j
	}
	if o.panicked {
		if q == nil && tc.Kind == "match" {
			return j // Match(nil, …) is not covered by the statement
		}
		if tc.Kind == "filter" && projOutOfDomain(q, tc.Objects) {
			j.inDomain = false // projection of a card without VERSION
			return j
		}
		add("panic|"+o.site, "panic: "+o.pval, "a result", "panic")
		return j
	}
	if tc.Kind == "match" {
		if q == nil {
			return j
		}
		set, why := modelMatch(q, tc.Objects[0].Card)
		j.sets, j.why = []vset{set}, why
		j.decided = set.single()
		obs := "F"
		if o.val {
			obs = "T"
		}
		switch {
		case o.err != nil:
			if !hasUnknownEnum(q) {
				add("spurious-error", "error although every test and match type of the query is known: "+o.err.Error(), set.String(), "err")
			}
		case o.val && set&vT == 0, !o.val && set&vF == 0:
			if set == vB {
				add("missing-error", "an unknown test/match type decides the result, yet a value was returned", "err", obs)
			} else {
				add("wrong-value", "Match returned a value outside the model's envelope", set.String(), obs)
			}
		}
		return j
	}
	judgeFilter(tc, o, j, add)
	return j
}

func judgeFilter(tc *tcase, o *observation, j *judgement, add func(kind, what, exp, obs string)) {
	q := tc.Query
	n := len(tc.Objects)
	if q == nil {
		if o.err != nil {
			add("nil-query", "Filter(nil, …) returned an error: "+o.err.Error(), "all objects", "err")
			return
		}
		if len(o.res) != n {
			add("nil-query", fmt.Sprintf("Filter(nil, …) returned %d of %d objects", len(o.res), n), "all objects", fmt.Sprintf("%d objects", len(o.res)))
			return
		}
		for i := range o.res {
			if !eqObject(&o.res[i], &tc.Objects[i]) {
				add("nil-query", fmt.Sprintf("Filter(nil, …): result #%d differs from input #%d", i, i), "all objects unchanged", "altered object")
				return
			}
		}
		return
	}
	j.sets = make([]vset, n)
	j.decided = true
	for i := range tc.Objects {
		s, w := modelMatch(q, tc.Objects[i].Card)
		j.sets[i] = s
		j.why |= w
		if !s.single() {
			j.decided = false
		}
	}
	if o.err != nil {
		if !hasUnknownEnum(q) {
			add("spurious-error", "error although every test and match type of the query is known: "+o.err.Error(), "a list", "err")
		}
		return
	}
	// identify the returned objects by path (paths are unique per case)
	byPath := make(map[string]int, n)
	for i := range tc.Objects {
		byPath[tc.Objects[i].Path] = i
	}
	idx := make([]int, len(o.res))
	for k := range o.res {
		i, ok := byPath[o.res[k].Path]
		if !ok {
			add("foreign-object", fmt.Sprintf("result #%d has path %q which is not an input object", k, o.res[k].Path), "input objects only", "unknown path")
			return
		}
		if k > 0 && i <= idx[k-1] {
			add("order", fmt.Sprintf("result #%d is input #%d after input #%d", k, i, idx[k-1]), "input order, no duplicates", "reordered or duplicated")
			return
		}
		idx[k] = i
	}
	if q.Limit > 0 && len(o.res) > q.Limit {
		add("limit-exceeded", fmt.Sprintf("%d results with Limit=%d", len(o.res), q.Limit), fmt.Sprintf("<=%d results", q.Limit), fmt.Sprintf("%d results", len(o.res)))
		return
	}
	// Which inputs does the returned list say something about? All of them,
	// unless the limit was reached: then everything after the last returned
	// object need not have been looked at.
	last := n - 1
	if q.Limit > 0 && len(o.res) == q.Limit {
		last = idx[len(idx)-1]
	}
	returned := make(map[int]bool, len(idx))
	for _, i := range idx {
		returned[i] = true
	}
	for i := 0; i <= last; i++ {
		s := j.sets[i]
		switch {
		case s == vB:
			add("missing-error", fmt.Sprintf("input #%d can only be decided by an unknown test/match type, yet a list was returned", i), "err", "list")
			return
		case returned[i] && s&vT == 0:
			add("returned-nonmatching", fmt.Sprintf("input #%d was returned, model value %v", i, s), s.String(), "returned")
			return
		case !returned[i] && s&vF == 0:
			add("dropped-match", fmt.Sprintf("input #%d was not returned (limit %d, %d results), model value %v", i, q.Limit, len(o.res), s), s.String(), "not returned")
			return
		}
	}
	// contents of the returned objects
	for k, i := range idx {
		if f := judgeReturned(&q.DataRequest, &o.res[k], &tc.Objects[i]); f != nil {
			f.What = fmt.Sprintf("result #%d (input #%d): %s", k, i, f.What)
			j.fails = append(j.fails, *f)
			return
		}
	}
}

func judgeReturned(dr *carddav.AddressDataRequest, got, in *carddav.AddressObject) *failure {
	if got.ETag != in.ETag || !got.ModTime.Equal(in.ModTime) {
		return &failure{"meta-changed", "ETag or ModTime of a returned object differs from the input object", "same ETag/ModTime", "changed"}
	}
	if wholeCard(dr) {
		if !eqCardProps(got.Card, in.Card) || got.ContentLength != in.ContentLength {
			return &failure{"whole-card-altered", "all properties were requested but the returned object differs from the input", "identical object", "altered"}
		}
		return nil
	}
	if !hasField(in.Card, "VERSION") {
		return nil // outside the projection domain
	}
	required, optional := projectionModel(dr, in.Card)
	for k := range required {
		g, ok := got.Card[k]
		if !ok {
			return &failure{"projection-missing|" + propClass(k), fmt.Sprintf("projected card lacks %q", k), "VERSION + requested existing properties", "property missing"}
		}
		if !eqFields(g, in.Card[k]) {
			return &failure{"projection-field-changed", fmt.Sprintf("fields of %q differ from the input card", k), "same fields", "changed fields"}
		}
	}
	for k, g := range got.Card {
		if required[k] || !hasField(got.Card, k) {
			continue // a key without fields is not a property
		}
		// tolerated only: a requested name matching a card key up to case
		ok := false
		for _, p := range optional {
			if asciiFoldEq(p, k) {
				for ck, cf := range in.Card {
					if asciiFoldEq(ck, k) && eqFields(cf, g) {
						ok = true
					}
				}
			}
		}
		if !ok {
			return &failure{"projection-extra|" + extraClass(k, in.Card), fmt.Sprintf("projected card has %q which was not requested (or does not exist)", k), "VERSION + requested existing properties", "extra property"}
		}
	}
	return nil
}

func propClass(k string) string {
	if k == "VERSION" {
		return "VERSION"
	}
	return "requested"
}

func extraClass(k string, card vcard.Card) string {
	if _, ok := card[k]; ok {
		return "unrequested"
	}
	return "nonexistent"
}

// ---------------------------------------------------------------------------
// abstract signatures
// ---------------------------------------------------------------------------

func testClass(t string) string {
	switch t {
	case "":
		return "default"
	case "anyof", "allof":
		return t
	}
	return "bogus"
}

func matchClass(t string) string {
	if t == "" {
		return "default"
	}
	if matchKnown(t) {
		return t
	}
	return "bogus"
}

// relClass: how the (first) property value relates to the needle, reduced to
// the relation the match type asks about.
func relClass(mt, value, needle string) string {
	if !matchKnown(mt) {
		return "-"
	}
	if textRel(mt, value, needle) {
		return "hit"
	}
	if textRel(mt, asciiLower(value), asciiLower(needle)) {
		return "casehit"
	}
	if mt == "starts-with" && textRel("ends-with", value, needle) {
		return "miss/ends-with" // a miss that the mirrored match type would hit
	}
	if mt == "ends-with" && textRel("starts-with", value, needle) {
		return "miss/starts-with"
	}
	return "miss"
}

func capN(n, max int) string {
	if n > max {
		return fmt.Sprintf("%d+", max)
	}
	return fmt.Sprint(n)
}

// pfSig describes a prop-filter relative to a card (nil card: structure only).
func pfSig(pf *carddav.PropFilter, card vcard.Card, withRel bool) string {
	var sb strings.Builder
	sb.WriteString("pf[" + testClass(string(pf.Test)))
	if pf.IsNotDefined {
		sb.WriteString(",ind")
	}
	if len(pf.Params) > 0 {
		sb.WriteString(",params")
	}
	value := ""
	if withRel {
		fields := card[pf.Name]
		_, keyed := card[pf.Name]
		switch {
		case len(fields) == 0 && keyed:
			sb.WriteString(",key-without-fields")
		case len(fields) == 0:
			sb.WriteString(",absent")
		case len(fields) == 1:
			sb.WriteString(",present")
		default:
			sb.WriteString(",multi")
		}
		if len(fields) > 0 && fields[0] != nil {
			value = fields[0].Value
		}
	}
	for k := range pf.TextMatches {
		if k == 3 {
			sb.WriteString(",…")
			break
		}
		tm := &pf.TextMatches[k]
		sb.WriteString("," + matchClass(string(tm.MatchType)))
		if tm.NegateCondition {
			sb.WriteString("!")
		}
		if withRel && len(card[pf.Name]) > 0 {
			sb.WriteString(":" + relClass(string(tm.MatchType), value, tm.Text))
		}
	}
	sb.WriteString("]")
	return sb.String()
}

func querySig(q *carddav.AddressBookQuery, card vcard.Card, withRel bool) string {
	if q == nil {
		return "nil-query"
	}
	var sb strings.Builder
	sb.WriteString("outer=" + testClass(string(q.FilterTest)))
	for i := range q.PropFilters {
		if i == 3 {
			sb.WriteString("|…")
			break
		}
		sb.WriteString("|" + pfSig(&q.PropFilters[i], card, withRel))
	}
	return sb.String()
}

func limitClass(limit, n int) string {
	switch {
	case limit <= -(1 << 31):
		return "hugeneg"
	case limit < 0:
		return "neg"
	case limit == 0:
		return "0"
	case limit < n:
		return "<n"
	case limit == n:
		return "=n"
	case limit >= 1<<31:
		return "huge"
	}
	return ">n"
}

func projClass(q *carddav.AddressBookQuery) string {
	if q == nil {
		return "-"
	}
	dr := &q.DataRequest
	switch {
	case dr.AllProp && len(dr.Props) > 0:
		return "allprop+props"
	case dr.AllProp:
		return "allprop"
	case len(dr.Props) > 0:
		return "props"
	}
	return "none"
}

// matchKeySig describes a shrunk failing Match case at the level where the
// defect must sit: several prop-filters left -> the outer combination of
// their model values; one prop-filter with several text-matches -> the inner
// combination of their values; one text-match -> its type, negation and
// relation to the value.
func matchKeySig(q *carddav.AddressBookQuery, card vcard.Card) string {
	if q == nil {
		return "nil-query"
	}
	e := &evaluator{}
	out := "outer=" + testClass(string(q.FilterTest))
	switch {
	case len(q.PropFilters) == 0:
		return out + "|no-prop-filter"
	case len(q.PropFilters) >= 2:
		out += "|prop-filter-values="
		for i := range q.PropFilters {
			if i == 3 {
				out += "…"
				break
			}
			out += e.prop(&q.PropFilters[i], card).String()
		}
		return out
	}
	pf := &q.PropFilters[0]
	if fields := card[pf.Name]; len(fields) > 1 && fields[0] != nil && !pf.IsNotDefined {
		return out + multiSig(e, pf, fields)
	}
	if len(pf.TextMatches) < 2 {
		return out + "|" + pfSig(pf, card, true)
	}
	out += "|pf[" + testClass(string(pf.Test))
	if pf.IsNotDefined {
		out += ",ind"
	}
	if len(pf.Params) > 0 {
		out += ",params"
	}
	fields := card[pf.Name]
	if len(fields) > 1 && fields[0] != nil && !pf.IsNotDefined {
		return out + multiSig(e, pf, fields)
	}
	if len(fields) == 0 || fields[0] == nil {
		if _, keyed := card[pf.Name]; keyed {
			out += ",key-without-fields"
		}
		return out + ",absent,text-matches=" + capN(len(pf.TextMatches), 3) + "]"
	}
	if len(fields) > 1 {
		out += ",multi"
	}
	out += ",text-match-values="
	for k := range pf.TextMatches {
		if k == 3 {
			out += "…"
			break
		}
		out += e.text(&pf.TextMatches[k], fields[0].Value).String()
	}
	return out + "]"
}

// multiSig: a failing prop-filter on a property with several instances is
// keyed by what the filter says of the first instance and of the others (the
// question being which instance stands for the property), not by its
// text-matches.
func multiSig(e *evaluator, pf *carddav.PropFilter, fields []*vcard.Field) string {
	one := func(f *vcard.Field) vset {
		return e.propOnChildren(pf, func(tm *carddav.TextMatch) vset { return e.text(tm, f.Value) })
	}
	var later vset
	for _, f := range fields[1:] {
		if f != nil {
			later |= one(f)
		}
	}
	out := "|pf[" + testClass(string(pf.Test)) + ",several-instances"
	if len(pf.Params) > 0 {
		out += ",params"
	}
	return out + ",first-instance=" + one(fields[0]).String() + ",later-instances=" + later.String() + "]"
}

// findingKey is computed on the SHRUNK case.
func findingKey(tc *tcase, f *failure, j *judgement) string {
	if tc.Kind == "match" {
		var card vcard.Card
		if len(tc.Objects) > 0 {
			card = tc.Objects[0].Card
		}
		return fmt.Sprintf("match|%s|%s|exp=%s|obs=%s", f.Kind, matchKeySig(tc.Query, card), f.Expected, f.Observed)
	}
	// Filter findings: the clause that failed, the limit and projection
	// class, and - only where the match values are the story - the model
	// values of the (shrunk) object list and the outer test. The prop-filter
	// structure is left out: a Match-level defect is keyed by the Match cases.
	lim := "-"
	if tc.Query != nil {
		lim = limitClass(tc.Query.Limit, len(tc.Objects))
	}
	key := fmt.Sprintf("filter|%s|limit=%s|proj=%s", f.Kind, lim, projClass(tc.Query))
	switch f.Kind {
	case "dropped-match", "returned-nonmatching", "missing-error", "spurious-error":
		key += "|values=" + setsStringN(j.sets, 4)
		if tc.Query != nil {
			key += "|outer=" + testClass(string(tc.Query.FilterTest))
		}
	}
	return key
}

// ---------------------------------------------------------------------------
// shrinking a failing case (so that one defect lands on few keys)
// ---------------------------------------------------------------------------

// longList: above this length a list is shrunk by cutting pieces off its ends.
const longList = 16

func candidates(tc *tcase) []*tcase {
	var out []*tcase
	add := func(f func(t *tcase)) {
		t := cpCase(tc)
		f(t)
		out = append(out, t)
	}
	long := len(tc.Objects) > longList
	if tc.Kind == "filter" && long {
		// a long list is cut from either end, in halves, quarters, ... (one
		// candidate per object, each a deep copy of the list, would be
		// quadratic)
		n := len(tc.Objects)
		for s := n / 2; s >= 1; s /= 2 {
			s := s
			add(func(t *tcase) { t.Objects = t.Objects[s:] })
			add(func(t *tcase) { t.Objects = t.Objects[:n-s] })
		}
	} else if tc.Kind == "filter" {
		for i := range tc.Objects {
			i := i
			add(func(t *tcase) { t.Objects = append(t.Objects[:i], t.Objects[i+1:]...) })
		}
	}
	if len(tc.PropsTail) > 0 {
		add(func(t *tcase) { t.PropsTail = nil })
	}
	if q := tc.Query; q != nil {
		for i := range q.PropFilters {
			i := i
			add(func(t *tcase) {
				t.Query.PropFilters = append(t.Query.PropFilters[:i], t.Query.PropFilters[i+1:]...)
			})
		}
		for i := range q.PropFilters {
			i := i
			pf := &q.PropFilters[i]
			for k := range pf.TextMatches {
				k := k
				add(func(t *tcase) {
					p := &t.Query.PropFilters[i]
					p.TextMatches = append(p.TextMatches[:k], p.TextMatches[k+1:]...)
				})
			}
			if len(pf.Params) > 0 {
				add(func(t *tcase) { t.Query.PropFilters[i].Params = nil })
			}
			if pf.Test != "" {
				add(func(t *tcase) { t.Query.PropFilters[i].Test = "" })
			}
			if pf.IsNotDefined {
				add(func(t *tcase) { t.Query.PropFilters[i].IsNotDefined = false })
			}
			for k := range pf.TextMatches {
				k := k
				if pf.TextMatches[k].NegateCondition {
					add(func(t *tcase) { t.Query.PropFilters[i].TextMatches[k].NegateCondition = false })
				}
				// canonical forms: default match type, empty needle (kept only
				// if the failure does not depend on them)
				if mt := string(pf.TextMatches[k].MatchType); mt != "" && matchKnown(mt) {
					add(func(t *tcase) { t.Query.PropFilters[i].TextMatches[k].MatchType = "" })
				}
				if pf.TextMatches[k].Text != "" {
					add(func(t *tcase) { t.Query.PropFilters[i].TextMatches[k].Text = "" })
				}
			}
		}
		if q.FilterTest != "" {
			add(func(t *tcase) { t.Query.FilterTest = "" })
		}
		if tc.Kind == "filter" {
			if q.Limit != 0 {
				add(func(t *tcase) { t.Query.Limit = 0 })
			}
			if len(q.DataRequest.Props) > 0 {
				add(func(t *tcase) { t.Query.DataRequest.Props = nil })
				for k := range q.DataRequest.Props {
					k := k
					add(func(t *tcase) {
						p := t.Query.DataRequest.Props
						t.Query.DataRequest.Props = append(p[:k], p[k+1:]...)
					})
				}
			}
			if q.DataRequest.AllProp {
				add(func(t *tcase) { t.Query.DataRequest.AllProp = false })
			}
		} else if len(q.DataRequest.Props) > 0 || q.DataRequest.AllProp || q.Limit != 0 {
			add(func(t *tcase) { t.Query.DataRequest = carddav.AddressDataRequest{}; t.Query.Limit = 0 })
		}
	}
	for i := range tc.Objects {
		if long {
			break // cards are simplified once the list is short
		}
		i := i
		for _, k := range sortedKeys(tc.Objects[i].Card) {
			k := k
			fields := tc.Objects[i].Card[k]
			if k != "VERSION" { // a vCard keeps its VERSION (projection domain)
				add(func(t *tcase) { delete(t.Objects[i].Card, k) })
			}
			if len(fields) > 1 {
				add(func(t *tcase) { t.Objects[i].Card[k] = t.Objects[i].Card[k][:1] })
				add(func(t *tcase) { f := t.Objects[i].Card[k]; t.Objects[i].Card[k] = f[len(f)-1:] })
			}
			decorated := false
			for _, f := range fields {
				if f != nil && (len(f.Params) > 0 || f.Group != "") {
					decorated = true
				}
			}
			if decorated {
				add(func(t *tcase) {
					for _, f := range t.Objects[i].Card[k] {
						if f != nil {
							f.Params, f.Group = nil, ""
						}
					}
				})
			}
		}
	}
	return out
}

// family groups failure kinds that are faces of one thing: a wrong Match
// value shows up as wrong-value, or - when it short-circuits past an unknown
// enum - as missing-error; in Filter as a dropped or a surplus object.
// Shrinking may move within a family, so that a defect in one text-match is
// reduced to that text-match whatever it was combined with.
func family(kind string) string {
	switch kind {
	case "wrong-value", "missing-error", "dropped-match", "returned-nonmatching":
		return "verdict"
	}
	return kind
}

func hasFamily(j *judgement, fam string) *failure {
	for i := range j.fails {
		if family(j.fails[i].Kind) == fam {
			return &j.fails[i]
		}
	}
	return nil
}

// shrink greedily simplifies a failing case while a failure of the same
// family persists (re-executing the real code each time).
func shrink(tc *tcase, kind string) (*tcase, *judgement, *failure) {
	fam := family(kind)
	cur := tc
	steps := 0
	for steps < 600 {
		progressed := false
		for _, cand := range candidates(cur) {
			steps++
			if cand.Kind == "match" && len(cand.Objects) != 1 {
				continue
			}
			if hasFamily(judge(cand, run(cand)), fam) != nil {
				cur, progressed = cand, true
				break
			}
		}
		if !progressed {
			break
		}
	}
	j := judge(cur, run(cur))
	return cur, j, hasFamily(j, fam)
}

// ---------------------------------------------------------------------------
// per-worker bookkeeping
// ---------------------------------------------------------------------------

type checker struct {
	c        *fw.Ctx
	obs      map[string]map[string]int
	distinct map[string]struct{}
	rawSeen  map[string]string // raw signature -> finding key it was reduced to
	shrinks  int
	evals    int
	sampled  map[string]bool
}

// sampleWorthy picks the literal cases shown in the evidence file: one per
// universe, not the trivial ones.
func sampleWorthy(tc *tcase, o *observation) bool {
	q := tc.Query
	if q == nil || len(q.PropFilters) == 0 {
		return false
	}
	if tc.Kind == "match" {
		return len(q.PropFilters) >= 2 && len(q.PropFilters[0].TextMatches) >= 1 && len(q.PropFilters[1].TextMatches) >= 1 && o.err == nil && o.val
	}
	n := len(tc.Objects)
	return n >= 3 && (n <= 6 || len(q.DataRequest.Props) > 0 && !q.DataRequest.AllProp) && q.Limit > 0 && q.Limit < n && len(o.res) == q.Limit
}

func newChecker(c *fw.Ctx) *checker {
	return &checker{c: c, obs: map[string]map[string]int{}, distinct: map[string]struct{}{}, rawSeen: map[string]string{}, sampled: map[string]bool{}}
}

func (k *checker) tally(table, key string) {
	t := k.obs[table]
	if t == nil {
		t = map[string]int{}
		k.obs[table] = t
	}
	t[key]++
}

func (k *checker) flush() {
	for t, kv := range k.obs {
		for key, n := range kv {
			k.c.Observe(t, key, n)
		}
	}
	for d := range k.distinct {
		k.c.Distinct(d)
	}
	k.c.Eval(k.evals)
	k.obs, k.distinct, k.evals = map[string]map[string]int{}, map[string]struct{}{}, 0
}

func setsString(sets []vset) string {
	var sb strings.Builder
	for i, s := range sets {
		if i == 6 {
			sb.WriteString("…")
			break
		}
		sb.WriteString(s.String())
	}
	return sb.String()
}

// coarseSig is the query structure used for counting distinct non-trivial
// cases. One prop-filter: tests, flags, presence and for the first two
// text-matches type, negation and hit/miss against the first value. Several
// prop-filters: per filter only inner test, is-not-defined and the number of
// text-matches (three or more: only totals).
func coarseSig(q *carddav.AddressBookQuery, card vcard.Card) string {
	var sb strings.Builder
	sb.WriteString(testClass(string(q.FilterTest)))
	if len(q.PropFilters) == 1 && card != nil {
		pf := &q.PropFilters[0]
		fields := card[pf.Name]
		n := capN(len(fields), 2)
		if _, keyed := card[pf.Name]; keyed && len(fields) == 0 {
			n = "key-without-fields"
		}
		fmt.Fprintf(&sb, "|%s,ind=%v,n=%s", testClass(string(pf.Test)), pf.IsNotDefined, n)
		for k := range pf.TextMatches {
			if k == 2 {
				sb.WriteString(",+" + capN(len(pf.TextMatches)-2, 2))
				break
			}
			tm := &pf.TextMatches[k]
			sb.WriteString("," + matchClass(string(tm.MatchType)))
			if tm.NegateCondition {
				sb.WriteString("!")
			}
			if len(fields) > 0 && fields[0] != nil && matchKnown(string(tm.MatchType)) {
				if textRel(string(tm.MatchType), fields[0].Value, tm.Text) {
					sb.WriteString(":hit")
				} else {
					sb.WriteString(":miss")
				}
			}
		}
		return sb.String()
	}
	if len(q.PropFilters) >= 3 {
		ind, tms := 0, 0
		for i := range q.PropFilters {
			if q.PropFilters[i].IsNotDefined {
				ind++
			}
			tms += len(q.PropFilters[i].TextMatches)
		}
		fmt.Fprintf(&sb, "|pf=%s,ind=%s,tm=%s", capN(len(q.PropFilters), 4), capN(ind, 1), capN(tms, 4))
		return sb.String()
	}
	for i := range q.PropFilters {
		pf := &q.PropFilters[i]
		fmt.Fprintf(&sb, "|%s,ind=%v,tm=%s", testClass(string(pf.Test)), pf.IsNotDefined, capN(len(pf.TextMatches), 2))
	}
	return sb.String()
}

func setsStringN(sets []vset, max int) string {
	var sb strings.Builder
	for i, s := range sets {
		if i == max {
			sb.WriteString("…")
			break
		}
		sb.WriteString(s.String())
	}
	return sb.String()
}

// setsSummary: the literal pattern for up to 3 objects, otherwise the first
// value and how many objects are T / F / ⊥ (capped at 3).
func setsSummary(sets []vset) string {
	if len(sets) <= 3 {
		return setsStringN(sets, 3)
	}
	var t, f, b int
	for _, s := range sets {
		switch s {
		case vT:
			t++
		case vF:
			f++
		case vB:
			b++
		}
	}
	return fmt.Sprintf("%s…T%sF%s⊥%s", sets[0], capN(t, 3), capN(f, 3), capN(b, 3))
}

// abstractKey is the "distinct non-trivial case" key.
func abstractKey(tc *tcase, j *judgement) string {
	if tc.Kind == "match" {
		return "m|" + coarseSig(tc.Query, tc.Objects[0].Card) + "|" + setsStringN(j.sets, 1)
	}
	return "f|" + limitClass(tc.Query.Limit, len(tc.Objects)) + "|" + projClass(tc.Query) + "|" + coarseSig(tc.Query, nil) + "|" + setsSummary(j.sets)
}

// exec runs one case, applies the oracle, records evidence, and reports.
func (k *checker) exec(tc *tcase, universe string) *observation {
	o := run(tc)
	j := judge(tc, o)
	k.evals++
	k.tally("universe", universe)
	k.tally("calls", tc.Kind)
	switch {
	case o.panicked:
		k.tally(tc.Kind+"_outcome", "panic")
		if !j.inDomain {
			k.tally("out_of_domain_panics", o.site)
		}
	case o.err != nil:
		k.tally(tc.Kind+"_outcome", "error")
	case tc.Kind == "match":
		k.tally("match_outcome", fmt.Sprint(o.val))
	default:
		k.tally("filter_outcome", "list")
		k.tally("filter_result_len", capN(len(o.res), 8))
	}
	switch {
	case tc.Query == nil:
		k.tally("domain", "nil-query")
	case !j.inDomain:
		k.tally("domain", "outside (is-not-defined with children, empty property name, panic while projecting a card without VERSION): only non-modification checked")
	default:
		k.tally("domain", "inside")
		if tc.Kind == "match" {
			k.tally("model_value", j.sets[0].String())
			for i := range tc.Query.PropFilters {
				name := tc.Query.PropFilters[i].Name
				if fields, keyed := tc.Objects[0].Card[name]; keyed && len(fields) == 0 {
					k.tally("filtered_property_is_key_without_fields", fmt.Sprintf("is-not-defined=%v observed=%v", tc.Query.PropFilters[i].IsNotDefined, o.val))
					break
				}
			}
			if hasUnknownEnum(tc.Query) && j.sets[0]&vB == 0 {
				if o.err != nil {
					k.tally("unknown_enum_not_deciding", "implementation reported it")
				} else {
					k.tally("unknown_enum_not_deciding", "implementation returned the definite value")
				}
			}
		} else {
			k.tally("filter_limit_class", limitClass(tc.Query.Limit, len(tc.Objects)))
			k.tally("filter_projection_class", projClass(tc.Query))
			k.tally("filter_list_len", capN(len(tc.Objects), 8))
			if len(tc.PropsTail) > 0 {
				k.tally("props_shares_backing_array_with_longer_list", fmt.Sprintf("len=%s tail=%s", capN(len(tc.Query.DataRequest.Props), 3), capN(len(tc.PropsTail), 3)))
			}
		}
		if j.decided {
			k.tally("verdict_demanded", "yes")
			k.distinct[abstractKey(tc, j)] = struct{}{}
		} else {
			k.tally("verdict_demanded", "no (envelope of readings)")
			for _, w := range whyStrings(j.why) {
				k.tally("dont_care_reason_present", w)
			}
		}
	}
	if j.inDomain && j.decided && !k.sampled[universe] && k.c.WantSample() && sampleWorthy(tc, o) {
		k.sampled[universe] = true
		s := map[string]interface{}{"universe": universe, "case": tc, "model": setsString(j.sets), "err": fw.ErrString(o.err)}
		if tc.Kind == "match" {
			s["observed"] = o.val
		} else {
			paths := []string{}
			for i := range o.res {
				paths = append(paths, o.res[i].Path)
			}
			s["observed_paths"] = paths
		}
		k.c.Sample(s)
	}
	if len(j.fails) > 0 {
		k.report(tc, j)
	}
	return o
}

func (k *checker) report(tc *tcase, j *judgement) {
	for i := range j.fails {
		f := &j.fails[i]
		var card vcard.Card
		if tc.Kind == "match" && len(tc.Objects) > 0 {
			card = tc.Objects[0].Card
		}
		raw := tc.Kind + "|" + f.Kind + "|" + projClass(tc.Query) + "|" + querySig(tc.Query, card, tc.Kind == "match")
		if key, seen := k.rawSeen[raw]; seen {
			// same raw shape as an already reduced failure: count it there
			k.c.Report(key, f.What, nil)
			k.tally("failures", "not shrunk again (same raw shape)")
			continue
		}
		if k.shrinks >= 25000 {
			k.c.Report("unshrunk|"+tc.Kind+"|"+f.Kind, f.What, witnessT{Case: tc, Expected: f.Expected, Observed: f.Observed})
			k.tally("failures", "not shrunk (budget)")
			continue
		}
		k.shrinks++
		small, sj, sf := shrink(tc, f.Kind)
		if sf == nil { // cannot happen: shrink only keeps failing cases
			small, sj, sf = tc, j, f
		}
		key := findingKey(small, sf, sj)
		k.rawSeen[raw] = key
		k.tally("failures", "shrunk and reported")
		k.c.Report(key, sf.What, witnessT{Case: small, Original: tc, Expected: sf.Expected, Observed: sf.Observed})
	}
}

// ---------------------------------------------------------------------------
// small constructors used by the workload
// ---------------------------------------------------------------------------

var baseTime = time.Unix(1600000000, 0).UTC()

func mkObject(i int, card vcard.Card) carddav.AddressObject {
	return carddav.AddressObject{
		Path:          fmt.Sprintf("/ab/%d.vcf", i),
		ModTime:       baseTime.Add(time.Duration(i) * time.Hour),
		ContentLength: int64(100 + i),
		ETag:          fmt.Sprintf("etag-%d", i),
		Card:          card,
	}
}

func sortedStrings(m map[string]bool) []string {
	l := make([]string, 0, len(m))
	for k := range m {
		l = append(l, k)
	}
	sort.Strings(l)
	return l
}

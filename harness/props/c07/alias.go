package c07

import (
	"github.com/emersion/go-vcard"
	"github.com/emersion/go-webdav/carddav"
)

// Capacity-aware copies for the "neither call modifies the objects or the
// query" clause. Every slice reachable from the query and from the objects is
// handed to the library as a prefix of a longer backing array: behind len come
// (optionally) the elements of another, longer list that shares the array
// (tcase.PropsTail) and then sentinels. An append on the caller's slice
// writes there without changing anything a len-bounded comparison can see, so
// the whole backing array is compared with what it has to contain.

const (
	sentinelStr = "\x00c07-sentinel"
	sparePad    = 2
)

// guard re-checks one backing array after the call.
type guard struct {
	what string
	ok   func() bool
}

// padSlice returns a copy of src that is a prefix of an array holding
// src ++ tail ++ sentinels, and registers the guard for the whole array.
// A nil src without tail stays nil (nothing to alias).
func padSlice[T any](src, tail []T, sent func() T, cp func(T) T, eq func(a, b T) bool, what string, gs *[]guard) []T {
	if src == nil && len(tail) == 0 {
		return nil
	}
	n := len(src)
	full := make([]T, n+len(tail)+sparePad)
	for i := range src {
		full[i] = cp(src[i])
	}
	for i := range tail {
		full[n+i] = cp(tail[i])
	}
	for i := n + len(tail); i < len(full); i++ {
		full[i] = sent()
	}
	*gs = append(*gs, guard{what, func() bool {
		for i := range full {
			var want T
			switch {
			case i < n:
				want = src[i] // the pristine case is never given to the library
			case i < n+len(tail):
				want = tail[i-n]
			default:
				want = sent()
			}
			if !eq(full[i], want) {
				return false
			}
		}
		return true
	}})
	return full[:n:len(full)]
}

func idStr(s string) string                      { return s }
func eqStr(a, b string) bool                     { return a == b }
func sentString() string                         { return sentinelStr }
func sentTM() carddav.TextMatch                  { return carddav.TextMatch{Text: sentinelStr, MatchType: sentinelStr} }
func idTM(t carddav.TextMatch) carddav.TextMatch { return t }
func eqTM(a, b carddav.TextMatch) bool           { return a == b }
func sentParam() carddav.ParamFilter             { return carddav.ParamFilter{Name: sentinelStr} }
func cpParam(p carddav.ParamFilter) carddav.ParamFilter {
	return carddav.ParamFilter{Name: p.Name, IsNotDefined: p.IsNotDefined, TextMatch: cpTM(p.TextMatch)}
}
func eqParam(a, b carddav.ParamFilter) bool {
	return a.Name == b.Name && a.IsNotDefined == b.IsNotDefined && eqTMp(a.TextMatch, b.TextMatch)
}
func sentPF() carddav.PropFilter { return carddav.PropFilter{Name: sentinelStr, Test: sentinelStr} }
func eqPF(x, y carddav.PropFilter) bool {
	if x.Name != y.Name || x.Test != y.Test || x.IsNotDefined != y.IsNotDefined ||
		len(x.TextMatches) != len(y.TextMatches) || len(x.Params) != len(y.Params) {
		return false
	}
	for j := range x.TextMatches {
		if x.TextMatches[j] != y.TextMatches[j] {
			return false
		}
	}
	for j := range x.Params {
		if !eqParam(x.Params[j], y.Params[j]) {
			return false
		}
	}
	return true
}
func sentField() *vcard.Field { return &vcard.Field{Value: sentinelStr, Group: sentinelStr} }

// padQuery: deep copy of q, every slice with spare capacity.
func padQuery(q *carddav.AddressBookQuery, propsTail []string, gs *[]guard) *carddav.AddressBookQuery {
	if q == nil {
		return nil
	}
	c := &carddav.AddressBookQuery{FilterTest: q.FilterTest, Limit: q.Limit}
	c.DataRequest.AllProp = q.DataRequest.AllProp
	c.DataRequest.Props = padSlice(q.DataRequest.Props, propsTail, sentString, idStr, eqStr, "query.DataRequest.Props", gs)
	c.PropFilters = padSlice(q.PropFilters, nil, sentPF, func(pf carddav.PropFilter) carddav.PropFilter {
		n := carddav.PropFilter{Name: pf.Name, Test: pf.Test, IsNotDefined: pf.IsNotDefined}
		n.TextMatches = padSlice(pf.TextMatches, nil, sentTM, idTM, eqTM, "PropFilter.TextMatches", gs)
		n.Params = padSlice(pf.Params, nil, sentParam, cpParam, eqParam, "PropFilter.Params", gs)
		return n
	}, eqPF, "query.PropFilters", gs)
	return c
}

// padCard: deep copy of a card, field lists and parameter value lists with
// spare capacity (nil lists stay nil, empty ones stay empty and non-nil).
func padCard(card vcard.Card, gs *[]guard) vcard.Card {
	if card == nil {
		return nil
	}
	c := make(vcard.Card, len(card))
	for k, fields := range card {
		c[k] = padSlice(fields, nil, sentField, func(f *vcard.Field) *vcard.Field {
			if f == nil {
				return nil
			}
			g := &vcard.Field{Value: f.Value, Group: f.Group}
			if f.Params != nil {
				g.Params = make(vcard.Params, len(f.Params))
				for pk, pv := range f.Params {
					g.Params[pk] = padSlice(pv, nil, sentString, idStr, eqStr, "Field.Params values", gs)
				}
			}
			return g
		}, eqField, "Card field list", gs)
	}
	return c
}

package c14

import (
	"bytes"
	"context"
	"fmt"
	"io/ioutil"
	"reflect"
	"sort"
	"strings"
	"time"

	"github.com/emersion/go-ical"
	"github.com/emersion/go-vcard"
	webdav "github.com/emersion/go-webdav"
	"github.com/emersion/go-webdav/caldav"
	"github.com/emersion/go-webdav/carddav"
)

const endpoint = "http://dav.example/dav/"

// minfo describes one public client method.
//
// Kind: ms1 (PROPFIND Depth 0, one response), msl (multi-status list),
// sync (sync-collection), plain (status only), open, create, getobj, putobj,
// options.
type minfo struct {
	Name string
	Kind string
	Fam  string // dav, cal, card
	// Base is the request path; resources of list documents live below it.
	Base string
	// Single names the one property of a single-property ms1 method.
	Single string
	// Kinds of resources a document for this method may hold.
	Kinds []string
}

var methods = []minfo{
	{Name: "webdav.FindCurrentUserPrincipal", Kind: "ms1", Fam: "dav", Base: "/dav/", Single: "cup"},
	{Name: "webdav.Stat", Kind: "ms1", Fam: "dav", Base: "/dav/dir/", Kinds: []string{"file", "dir"}},
	{Name: "webdav.Open", Kind: "open", Fam: "dav", Base: "/dav/dir/file.txt"},
	{Name: "webdav.ReadDir", Kind: "msl", Fam: "dav", Base: "/dav/dir/", Kinds: []string{"file", "dir"}},
	{Name: "webdav.Create", Kind: "create", Fam: "dav", Base: "/dav/dir/new.txt"},
	{Name: "webdav.RemoveAll", Kind: "plain", Fam: "dav", Base: "/dav/dir/old"},
	{Name: "webdav.Mkdir", Kind: "plain", Fam: "dav", Base: "/dav/dir/sub"},
	{Name: "webdav.Copy", Kind: "plain", Fam: "dav", Base: "/dav/dir/a"},
	{Name: "webdav.Move", Kind: "plain", Fam: "dav", Base: "/dav/dir/a"},
	// the same calls with their option values set (options select code paths
	// of their own in the client)
	{Name: "webdav.Copy(NoOverwrite)", Kind: "plain", Fam: "dav", Base: "/dav/dir/a"},
	{Name: "webdav.Copy(NoRecursive)", Kind: "plain", Fam: "dav", Base: "/dav/dir/a"},
	{Name: "webdav.Move(NoOverwrite)", Kind: "plain", Fam: "dav", Base: "/dav/dir/a"},
	{Name: "caldav.FindCalendarHomeSet", Kind: "ms1", Fam: "cal", Base: "/dav/principals/u/", Single: "cal-home"},
	{Name: "caldav.FindCalendars", Kind: "msl", Fam: "cal", Base: "/dav/cals/", Kinds: []string{"cal", "dir"}},
	{Name: "caldav.QueryCalendar", Kind: "msl", Fam: "cal", Base: "/dav/cals/c/", Kinds: []string{"calobj"}},
	{Name: "caldav.MultiGetCalendar", Kind: "msl", Fam: "cal", Base: "/dav/cals/c/", Kinds: []string{"calobj"}},
	{Name: "caldav.GetCalendarObject", Kind: "getobj", Fam: "cal", Base: "/dav/cals/c/ev.ics"},
	{Name: "caldav.PutCalendarObject", Kind: "putobj", Fam: "cal", Base: "/dav/cals/c/ev.ics"},
	{Name: "carddav.HasSupport", Kind: "options", Fam: "card", Base: "/dav/"},
	{Name: "carddav.FindAddressBookHomeSet", Kind: "ms1", Fam: "card", Base: "/dav/principals/u/", Single: "card-home"},
	{Name: "carddav.FindAddressBooks", Kind: "msl", Fam: "card", Base: "/dav/books/", Kinds: []string{"book", "dir"}},
	{Name: "carddav.QueryAddressBook", Kind: "msl", Fam: "card", Base: "/dav/books/b/", Kinds: []string{"cardobj"}},
	{Name: "carddav.MultiGetAddressBook", Kind: "msl", Fam: "card", Base: "/dav/books/b/", Kinds: []string{"cardobj"}},
	{Name: "carddav.GetAddressObject", Kind: "getobj", Fam: "card", Base: "/dav/books/b/c.vcf"},
	{Name: "carddav.PutAddressObject", Kind: "putobj", Fam: "card", Base: "/dav/books/b/c.vcf"},
	{Name: "carddav.SyncCollection", Kind: "sync", Fam: "card", Base: "/dav/books/b/", Kinds: []string{"cardobj"}},
}

func methodByName(name string) *minfo {
	for i := range methods {
		if methods[i].Name == name {
			return &methods[i]
		}
	}
	return nil
}

func (m *minfo) multistatus() bool { return m.Kind == "ms1" || m.Kind == "msl" || m.Kind == "sync" }

// needed / optional properties of one resource kind for a method.
func (m *minfo) propsFor(kind string) (need, opt []string) {
	switch m.Name {
	case "webdav.Stat", "webdav.ReadDir":
		if kind == "dir" {
			return []string{"resourcetype"}, []string{"getlastmodified"}
		}
		return []string{"resourcetype", "getcontentlength"}, []string{"getlastmodified", "getcontenttype", "getetag"}
	case "caldav.FindCalendars":
		if kind == "dir" {
			return []string{"resourcetype"}, []string{"displayname"}
		}
		return []string{"resourcetype"}, []string{"displayname", "cal-description", "cal-max", "cal-comps"}
	case "carddav.FindAddressBooks":
		if kind == "dir" {
			return []string{"resourcetype"}, []string{"displayname"}
		}
		return []string{"resourcetype"}, []string{"displayname", "card-description", "card-max", "card-types"}
	case "caldav.QueryCalendar", "caldav.MultiGetCalendar":
		return []string{"calendar-data"}, []string{"getlastmodified", "getetag", "getcontentlength"}
	case "carddav.QueryAddressBook", "carddav.MultiGetAddressBook":
		return []string{"address-data"}, []string{"getlastmodified", "getetag", "getcontentlength"}
	case "carddav.SyncCollection":
		return nil, []string{"getlastmodified", "getetag"}
	}
	if m.Single != "" {
		return []string{m.Single}, nil
	}
	return nil, nil
}

// listed reports whether the method lists a resource of this kind at all
// (FindCalendars skips collections that are not calendars, ...).
func (m *minfo) listed(kind string) bool {
	switch m.Name {
	case "caldav.FindCalendars":
		return kind == "cal"
	case "carddav.FindAddressBooks":
		return kind == "book"
	}
	return true
}

// --- neutral results ---------------------------------------------------------

// Entry is the neutral form of one returned FileInfo / Calendar /
// CalendarObject / AddressBook / AddressObject.
type Entry struct {
	Path  string   `json:"path"`
	Dir   bool     `json:"dir,omitempty"`
	Size  int64    `json:"size,omitempty"`
	Mod   int64    `json:"mod,omitempty"` // unix seconds, 0 = zero time
	MIME  string   `json:"mime,omitempty"`
	ETag  string   `json:"etag,omitempty"`
	Name  string   `json:"name,omitempty"`
	Desc  string   `json:"desc,omitempty"`
	Max   int64    `json:"max,omitempty"`
	Types []string `json:"types,omitempty"`
	Obj   string   `json:"obj,omitempty"` // SUMMARY of the first component / FN of the card
}

// Out is the neutral form of a method's whole result.
type Out struct {
	Str     string   `json:"str,omitempty"`
	Entries []Entry  `json:"entries,omitempty"`
	Token   string   `json:"token,omitempty"`
	Deleted []string `json:"deleted,omitempty"`
	BodyLen int      `json:"body_len,omitempty"`
	BodySum string   `json:"body_sum,omitempty"`
}

func unixOrZero(t time.Time) int64 {
	if t.IsZero() {
		return 0
	}
	return t.Unix()
}

func calSummary(cal *ical.Calendar) string {
	if cal == nil || cal.Component == nil {
		return ""
	}
	for _, ch := range cal.Children {
		if p := ch.Props.Get("SUMMARY"); p != nil {
			return p.Value
		}
	}
	return ""
}

func cardFN(card vcard.Card) string {
	if f := card.Get("FN"); f != nil {
		return f.Value
	}
	return ""
}

func fileEntry(fi *webdav.FileInfo) Entry {
	return Entry{Path: fi.Path, Dir: fi.IsDir, Size: fi.Size, Mod: unixOrZero(fi.ModTime), MIME: fi.MIMEType, ETag: fi.ETag}
}

func calObjEntry(o *caldav.CalendarObject) Entry {
	return Entry{Path: o.Path, Mod: unixOrZero(o.ModTime), Size: o.ContentLength, ETag: o.ETag, Obj: calSummary(o.Data)}
}

func addrObjEntry(o *carddav.AddressObject) Entry {
	return Entry{Path: o.Path, Mod: unixOrZero(o.ModTime), Size: o.ContentLength, ETag: o.ETag, Obj: cardFN(o.Card)}
}

// normalise turns the raw value a method returned into the neutral form.
func normalise(m *minfo, raw interface{}) Out {
	var o Out
	switch v := raw.(type) {
	case nil:
	case string:
		o.Str = v
	case []byte:
		o.BodyLen = len(v)
		o.BodySum = bodySum(v)
	case *webdav.FileInfo:
		if v != nil {
			o.Entries = []Entry{fileEntry(v)}
		}
	case []webdav.FileInfo:
		for i := range v {
			o.Entries = append(o.Entries, fileEntry(&v[i]))
		}
	case []caldav.Calendar:
		for _, c := range v {
			o.Entries = append(o.Entries, Entry{Path: c.Path, Name: c.Name, Desc: c.Description, Max: c.MaxResourceSize,
				Types: append([]string(nil), c.SupportedComponentSet...)})
		}
	case []caldav.CalendarObject:
		for i := range v {
			o.Entries = append(o.Entries, calObjEntry(&v[i]))
		}
	case *caldav.CalendarObject:
		if v != nil {
			e := calObjEntry(v)
			if m.Kind == "putobj" {
				e = Entry{Path: e.Path, ETag: e.ETag}
			}
			o.Entries = []Entry{e}
		}
	case []carddav.AddressBook:
		for _, b := range v {
			e := Entry{Path: b.Path, Name: b.Name, Desc: b.Description, Max: b.MaxResourceSize}
			for _, t := range b.SupportedAddressData {
				e.Types = append(e.Types, t.ContentType+";"+t.Version)
			}
			o.Entries = append(o.Entries, e)
		}
	case []carddav.AddressObject:
		for i := range v {
			o.Entries = append(o.Entries, addrObjEntry(&v[i]))
		}
	case *carddav.AddressObject:
		if v != nil {
			e := addrObjEntry(v)
			if m.Kind == "putobj" {
				e = Entry{Path: e.Path, ETag: e.ETag}
			}
			o.Entries = []Entry{e}
		}
	case *carddav.SyncResponse:
		if v != nil {
			o.Token = v.SyncToken
			for i := range v.Updated {
				u := &v.Updated[i]
				o.Entries = append(o.Entries, Entry{Path: u.Path, Mod: unixOrZero(u.ModTime), ETag: u.ETag})
			}
			o.Deleted = append([]string(nil), v.Deleted...)
		}
	default:
		o.Str = fmt.Sprintf("unnormalised %T", raw)
	}
	for i := range o.Entries {
		if len(o.Entries[i].Types) == 0 {
			o.Entries[i].Types = nil
		}
	}
	return o
}

// sorted returns a copy with entries and deletions in path order (the
// statement says nothing about order).
func (o Out) sorted() Out {
	c := o
	c.Entries = append([]Entry(nil), o.Entries...)
	sort.SliceStable(c.Entries, func(i, j int) bool { return c.Entries[i].Path < c.Entries[j].Path })
	c.Deleted = append([]string(nil), o.Deleted...)
	sort.Strings(c.Deleted)
	if len(c.Entries) == 0 {
		c.Entries = nil
	}
	if len(c.Deleted) == 0 {
		c.Deleted = nil
	}
	return c
}

// --- invocation --------------------------------------------------------------

var putCalendar = func() *ical.Calendar {
	cal, err := ical.NewDecoder(strings.NewReader(icalText("put", true))).Decode()
	if err != nil {
		panic("c14: cannot build the PUT calendar: " + err.Error())
	}
	return cal
}()

var putCard = func() vcard.Card {
	card, err := vcard.NewDecoder(strings.NewReader(vcardText("put", true))).Decode()
	if err != nil {
		panic("c14: cannot build the PUT card: " + err.Error())
	}
	return card
}()

var createPayload = []byte(strings.Repeat("upload payload line\n", 64))

var bigPayload []byte

func uploadPayload(n int) []byte {
	if len(bigPayload) < n {
		bigPayload = bytes.Repeat([]byte("0123456789abcdef"), n/16+1)
	}
	return bigPayload[:n]
}

// invoke calls one client method against the fake and returns the raw
// result. Everything runs on the calling goroutine (Create's upload goroutine
// is the library's own).
func invoke(m *minfo, hc webdav.HTTPClient, cs *Case) (raw interface{}, err error) {
	ctx := context.Background()
	switch m.Fam {
	case "dav":
		c, e := webdav.NewClient(hc, endpoint)
		if e != nil {
			return nil, e
		}
		switch m.Name {
		case "webdav.FindCurrentUserPrincipal":
			return wrapStr(c.FindCurrentUserPrincipal(ctx))
		case "webdav.Stat":
			fi, e := c.Stat(ctx, m.Base)
			if fi == nil {
				return nil, e
			}
			return fi, e
		case "webdav.Open":
			rc, e := c.Open(ctx, m.Base)
			if e != nil {
				return nil, e
			}
			b, rerr := ioutil.ReadAll(rc)
			rc.Close()
			if rerr != nil {
				return nil, fmt.Errorf("c14: reading the opened body failed: %v", rerr)
			}
			return b, nil
		case "webdav.ReadDir":
			l, e := c.ReadDir(ctx, m.Base, false)
			return l, e
		case "webdav.Create":
			w, e := c.Create(ctx, m.Base)
			if e != nil {
				return nil, e
			}
			// Writes may fail when the server answered before the upload was
			// complete; Close decides.
			if cs.Up == nil {
				w.Write(createPayload)
				return nil, w.Close()
			}
			payload := uploadPayload(cs.Up.Size)
			for i := 0; i < cs.Up.Writes; i++ {
				lo, hi := i*len(payload)/cs.Up.Writes, (i+1)*len(payload)/cs.Up.Writes
				if _, werr := w.Write(payload[lo:hi]); werr != nil && cs.Up.StopOnErr {
					break
				}
			}
			return nil, w.Close()
		case "webdav.RemoveAll":
			return nil, c.RemoveAll(ctx, m.Base)
		case "webdav.Mkdir":
			return nil, c.Mkdir(ctx, m.Base)
		case "webdav.Copy":
			return nil, c.Copy(ctx, m.Base, "/dav/dir/b", nil)
		case "webdav.Move":
			return nil, c.Move(ctx, m.Base, "/dav/dir/b", nil)
		case "webdav.Copy(NoOverwrite)":
			return nil, c.Copy(ctx, m.Base, "/dav/dir/b", &webdav.CopyOptions{NoOverwrite: true})
		case "webdav.Copy(NoRecursive)":
			return nil, c.Copy(ctx, m.Base, "/dav/dir/b", &webdav.CopyOptions{NoRecursive: true})
		case "webdav.Move(NoOverwrite)":
			return nil, c.Move(ctx, m.Base, "/dav/dir/b", &webdav.MoveOptions{NoOverwrite: true})
		}
	case "cal":
		c, e := caldav.NewClient(hc, endpoint)
		if e != nil {
			return nil, e
		}
		compReq := caldav.CalendarCompRequest{Name: "VCALENDAR", AllProps: true, AllComps: true}
		switch m.Name {
		case "caldav.FindCalendarHomeSet":
			return wrapStr(c.FindCalendarHomeSet(ctx, m.Base))
		case "caldav.FindCalendars":
			l, e := c.FindCalendars(ctx, m.Base)
			return l, e
		case "caldav.QueryCalendar":
			l, e := c.QueryCalendar(ctx, m.Base, &caldav.CalendarQuery{CompRequest: compReq,
				CompFilter: caldav.CompFilter{Name: "VCALENDAR", Comps: []caldav.CompFilter{{Name: "VEVENT"}}}})
			return l, e
		case "caldav.MultiGetCalendar":
			l, e := c.MultiGetCalendar(ctx, m.Base, &caldav.CalendarMultiGet{CompRequest: compReq,
				Paths: []string{m.Base + "a.ics", m.Base + "b.ics"}})
			return l, e
		case "caldav.GetCalendarObject":
			o, e := c.GetCalendarObject(ctx, m.Base)
			if o == nil {
				return nil, e
			}
			return o, e
		case "caldav.PutCalendarObject":
			o, e := c.PutCalendarObject(ctx, m.Base, putCalendar)
			if o == nil {
				return nil, e
			}
			return o, e
		}
	case "card":
		c, e := carddav.NewClient(hc, endpoint)
		if e != nil {
			return nil, e
		}
		dataReq := carddav.AddressDataRequest{AllProp: true}
		switch m.Name {
		case "carddav.HasSupport":
			return nil, c.HasSupport(ctx)
		case "carddav.FindAddressBookHomeSet":
			return wrapStr(c.FindAddressBookHomeSet(ctx, m.Base))
		case "carddav.FindAddressBooks":
			l, e := c.FindAddressBooks(ctx, m.Base)
			return l, e
		case "carddav.QueryAddressBook":
			l, e := c.QueryAddressBook(ctx, m.Base, &carddav.AddressBookQuery{DataRequest: dataReq,
				PropFilters: []carddav.PropFilter{{Name: "FN"}}})
			return l, e
		case "carddav.MultiGetAddressBook":
			l, e := c.MultiGetAddressBook(ctx, m.Base, &carddav.AddressBookMultiGet{DataRequest: dataReq,
				Paths: []string{m.Base + "a.vcf", m.Base + "b.vcf"}})
			return l, e
		case "carddav.GetAddressObject":
			o, e := c.GetAddressObject(ctx, m.Base)
			if o == nil {
				return nil, e
			}
			return o, e
		case "carddav.PutAddressObject":
			o, e := c.PutAddressObject(ctx, m.Base, putCard)
			if o == nil {
				return nil, e
			}
			return o, e
		case "carddav.SyncCollection":
			r, e := c.SyncCollection(ctx, m.Base, &carddav.SyncQuery{DataRequest: dataReq, SyncToken: "http://dav.example/sync/0"})
			if r == nil {
				return nil, e
			}
			return r, e
		}
	}
	return nil, fmt.Errorf("c14: unknown method %s", m.Name)
}

func wrapStr(s string, err error) (interface{}, error) { return s, err }

// --- sentinel scan -------------------------------------------------------------

var timeType = reflect.TypeOf(time.Time{})

// scanBad walks every string, integer and time.Time reachable from v and
// reports the sentinel values that mark "reported under a failing status".
func scanBad(v reflect.Value, hit func(marker string, code int)) {
	switch v.Kind() {
	case reflect.Ptr, reflect.Interface:
		if !v.IsNil() {
			scanBad(v.Elem(), hit)
		}
	case reflect.Struct:
		if v.Type() == timeType {
			if v.CanInterface() {
				t := v.Interface().(time.Time)
				if t.UTC().Year() == badYear {
					hit("time "+t.UTC().Format(time.RFC3339), int(t.Unix()-badTimeBase.Unix()))
				}
			}
			return
		}
		for i := 0; i < v.NumField(); i++ {
			scanBad(v.Field(i), hit)
		}
	case reflect.Slice, reflect.Array:
		if v.Kind() == reflect.Slice && v.Type().Elem().Kind() == reflect.Uint8 {
			scanBadString(string(v.Bytes()), hit)
			return
		}
		for i := 0; i < v.Len(); i++ {
			scanBad(v.Index(i), hit)
		}
	case reflect.Map:
		it := v.MapRange()
		for it.Next() {
			scanBad(it.Key(), hit)
			scanBad(it.Value(), hit)
		}
	case reflect.String:
		scanBadString(v.String(), hit)
	case reflect.Int, reflect.Int64, reflect.Int32:
		if n := v.Int(); n >= badIntBase+100 && n < badIntBase+600 {
			hit(fmt.Sprintf("int %d", n), int(n-badIntBase))
		}
	}
}

func scanBadString(s string, hit func(marker string, code int)) {
	for {
		i := strings.Index(s, badMark)
		if i < 0 {
			return
		}
		rest := s[i+len(badMark):]
		code := 0
		j := 0
		for j < len(rest) && j < 3 && rest[j] >= '0' && rest[j] <= '9' {
			code = code*10 + int(rest[j]-'0')
			j++
		}
		end := i + len(badMark) + j + 8
		if end > len(s) {
			end = len(s)
		}
		hit("string "+s[i:end], code)
		s = rest
	}
}

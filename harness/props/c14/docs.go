package c14

import (
	"crypto/sha256"
	"encoding/hex"
	"fmt"
	"net/http"
	"strings"
	"time"

	"github.com/emersion/go-webdav/verifharness/davx"
	"github.com/emersion/go-webdav/verifharness/xmltree"
)

const (
	nsDAV  = "DAV:"
	nsCal  = "urn:ietf:params:xml:ns:caldav"
	nsCard = "urn:ietf:params:xml:ns:carddav"

	// Sentinels. A value reported under a failing status is built from these so
	// that it can be recognised wherever it surfaces; the failing status code is
	// part of the sentinel (it names the finding class).
	badMark    = "BAD"
	okMark     = "ok"
	badIntBase = int64(666000) // + status code
	badYear    = 1999
)

var (
	badTimeBase = time.Date(badYear, 1, 1, 0, 0, 0, 0, time.UTC) // + status code seconds
	okTimeBase  = time.Date(2020, 1, 1, 0, 0, 0, 0, time.UTC)
)

func bodySum(b []byte) string {
	h := sha256.Sum256(b)
	return hex.EncodeToString(h[:8])
}

// --- objects -------------------------------------------------------------------

func icalText(mark string, rich bool) string {
	var sb strings.Builder
	sb.WriteString("BEGIN:VCALENDAR\r\nVERSION:2.0\r\nPRODID:-//verif//c14//EN\r\nBEGIN:VEVENT\r\n")
	sb.WriteString("UID:uid-" + mark + "\r\nDTSTAMP:20200101T000000Z\r\n")
	if rich {
		sb.WriteString("DTSTART;TZID=Europe/Paris:20200102T100000\r\n")
		sb.WriteString("ATTENDEE;CN=\"Doe, Jane\";ROLE=REQ-PARTICIPANT,CHAIR:mailto:jane@example.org\r\n")
		sb.WriteString("DESCRIPTION:a folded\r\n  description line\r\n")
	} else {
		sb.WriteString("DTSTART:20200102T100000Z\r\n")
	}
	sb.WriteString("SUMMARY:" + mark + "\r\nEND:VEVENT\r\nEND:VCALENDAR\r\n")
	return sb.String()
}

func vcardText(mark string, rich bool) string {
	var sb strings.Builder
	sb.WriteString("BEGIN:VCARD\r\nVERSION:4.0\r\nUID:uid-" + mark + "\r\nFN:" + mark + "\r\n")
	if rich {
		sb.WriteString("EMAIL;TYPE=\"work,home\";PREF=1:jane@example.org\r\n")
		sb.WriteString("item1.TEL;TYPE=cell:+1 555 0100\r\n")
		sb.WriteString("NOTE:a folded\r\n  note line\r\n")
	}
	sb.WriteString("END:VCARD\r\n")
	return sb.String()
}

// objectEnd is the length of the shortest prefix of a valid object that still
// holds its closing line.
func objectEnd(obj string) int {
	for _, end := range []string{"END:VCALENDAR", "END:VCARD"} {
		if i := strings.LastIndex(obj, end); i >= 0 {
			return i + len(end)
		}
	}
	return len(obj)
}

// --- neutral multi-status description --------------------------------------------

// pv is one property of a response and the propstat status it is reported
// under.
type pv struct {
	ID   string `json:"id"`
	Code int    `json:"code"`
}

// res is one response of a document.
type res struct {
	Name   string `json:"name"`   // last path segment ("" = the request path itself)
	Abs    bool   `json:"abs"`    // href written as an absolute URL
	Status int    `json:"status"` // != 0: status-only response
	Kind   string `json:"kind"`
	Props  []pv   `json:"props"`
	// Own: the response is about the requested collection itself (Name ""),
	// NoSlash: its href is spelled without the trailing slash of the request.
	Own     bool `json:"own,omitempty"`
	NoSlash bool `json:"no_slash,omitempty"`
	// Both: the response carries its (failing) Status and the propstats of
	// Props as well; StatusLast: the status element comes after them.
	Both       bool `json:"both,omitempty"`
	StatusLast bool `json:"status_last,omitempty"`
	// Cond: the response carries a DAV:error element holding the family's
	// condition (davErrorTree). CondDesc: it carries a responsedescription as
	// well, "after" the error element (the order of the DTD) or "before" it.
	Cond     bool   `json:"cond,omitempty"`
	CondDesc string `json:"cond_desc,omitempty"`
	// MoreHrefs: a status-type response about several resources at once
	// (RFC 4918 section 14.24: href, href*, status): that many hrefs more.
	MoreHrefs int `json:"more_hrefs,omitempty"`
}

type docSpec struct {
	M      *minfo
	Res    []res
	Token  string
	OnePer bool // every property in a propstat of its own
	Extra  bool // unknown properties, descriptions
}

func failing(code int) bool { return code/100 != 2 }

type propVal struct {
	mark string
	n    int64
	t    time.Time
}

func valueFor(code, ri, pi int) propVal {
	if failing(code) {
		return propVal{mark: fmt.Sprintf("%s%03dr%dp%d", badMark, code, ri, pi), n: badIntBase + int64(code),
			t: badTimeBase.Add(time.Duration(code) * time.Second)}
	}
	return propVal{mark: fmt.Sprintf("%s%03dr%dp%d", okMark, code, ri, pi), n: int64(1000 + 16*ri + pi),
		t: okTimeBase.Add(time.Duration(16*ri+pi) * time.Hour)}
}

func hrefEl(path string) *xmltree.Node {
	return xmltree.El(nsDAV, "href", xmltree.Txt(davx.EscapePath(path)))
}

// buildProp renders one property value.
func buildProp(id, kind string, v propVal) *xmltree.Node {
	switch id {
	case "resourcetype":
		n := xmltree.El(nsDAV, "resourcetype")
		switch kind {
		case "dir":
			n.Add(xmltree.El(nsDAV, "collection"))
		case "cal":
			n.Add(xmltree.El(nsDAV, "collection"), xmltree.El(nsCal, "calendar"))
		case "book":
			n.Add(xmltree.El(nsDAV, "collection"), xmltree.El(nsCard, "addressbook"))
		}
		return n
	case "getcontentlength":
		return xmltree.El(nsDAV, "getcontentlength", xmltree.Txt(fmt.Sprint(v.n)))
	case "getlastmodified":
		return xmltree.El(nsDAV, "getlastmodified", xmltree.Txt(v.t.UTC().Format(http.TimeFormat)))
	case "getcontenttype":
		return xmltree.El(nsDAV, "getcontenttype", xmltree.Txt("application/x-"+v.mark))
	case "getetag":
		return xmltree.El(nsDAV, "getetag", xmltree.Txt(`"`+v.mark+`"`))
	case "displayname":
		return xmltree.El(nsDAV, "displayname", xmltree.Txt("name "+v.mark))
	case "cal-description":
		return xmltree.El(nsCal, "calendar-description", xmltree.Txt("desc "+v.mark))
	case "card-description":
		return xmltree.El(nsCard, "addressbook-description", xmltree.Txt("desc "+v.mark))
	case "cal-max":
		return xmltree.El(nsCal, "max-resource-size", xmltree.Txt(fmt.Sprint(v.n)))
	case "card-max":
		return xmltree.El(nsCard, "max-resource-size", xmltree.Txt(fmt.Sprint(v.n)))
	case "cal-comps":
		return xmltree.El(nsCal, "supported-calendar-component-set",
			xmltree.El(nsCal, "comp").With("name", "VEVENT"), xmltree.El(nsCal, "comp").With("name", "X-"+v.mark))
	case "card-types":
		return xmltree.El(nsCard, "supported-address-data",
			xmltree.El(nsCard, "address-data-type").With("content-type", "text/vcard", "version", "4.0"),
			xmltree.El(nsCard, "address-data-type").With("content-type", "text/x-"+v.mark, "version", "3.0"))
	case "calendar-data":
		return xmltree.El(nsCal, "calendar-data", xmltree.Txt(icalText(v.mark, v.n%2 == 0)))
	case "address-data":
		return xmltree.El(nsCard, "address-data", xmltree.Txt(vcardText(v.mark, v.n%2 == 0)))
	case "cup":
		return xmltree.El(nsDAV, "current-user-principal", hrefEl("/dav/principals/"+v.mark+"/"))
	case "cal-home":
		return xmltree.El(nsCal, "calendar-home-set", hrefEl("/dav/cals/"+v.mark+"/"))
	case "card-home":
		return xmltree.El(nsCard, "addressbook-home-set", hrefEl("/dav/books/"+v.mark+"/"))
	}
	panic("c14: unknown property id " + id)
}

// applyProp records how a successfully reported property shows up in the
// neutral result.
func applyProp(id, kind string, v propVal, e *Entry, str *string) {
	switch id {
	case "resourcetype":
		e.Dir = kind == "dir" || kind == "cal" || kind == "book"
	case "getcontentlength":
		e.Size = v.n
	case "getlastmodified":
		e.Mod = v.t.Unix()
	case "getcontenttype":
		e.MIME = "application/x-" + v.mark
	case "getetag":
		e.ETag = v.mark
	case "displayname":
		e.Name = "name " + v.mark
	case "cal-description", "card-description":
		e.Desc = "desc " + v.mark
	case "cal-max", "card-max":
		e.Max = v.n
	case "cal-comps":
		e.Types = []string{"VEVENT", "X-" + v.mark}
	case "card-types":
		e.Types = []string{"text/vcard;4.0", "text/x-" + v.mark + ";3.0"}
	case "calendar-data", "address-data":
		e.Obj = v.mark
	case "cup":
		*str = "/dav/principals/" + v.mark + "/"
	case "cal-home":
		*str = "/dav/cals/" + v.mark + "/"
	case "card-home":
		*str = "/dav/books/" + v.mark + "/"
	}
}

func (d *docSpec) resPath(ri int) string {
	r := &d.Res[ri]
	if r.Name == "" {
		if r.NoSlash {
			return strings.TrimSuffix(d.M.Base, "/")
		}
		return d.M.Base
	}
	if strings.HasSuffix(d.M.Base, "/") {
		return d.M.Base + r.Name
	}
	return d.M.Base
}

// morePath is the path of the k-th additional href of a response.
func (d *docSpec) morePath(ri, k int) string {
	p := d.resPath(ri)
	if strings.HasSuffix(p, "/") {
		return fmt.Sprintf("%s-also%d/", strings.TrimSuffix(p, "/"), k)
	}
	return fmt.Sprintf("%s-also%d", p, k)
}

// tree renders the neutral description as a multistatus tree.
func (d *docSpec) tree() *xmltree.Node {
	ms := &davx.MultiStatus{SyncToken: d.Token}
	for ri := range d.Res {
		r := &d.Res[ri]
		href := davx.EscapePath(d.resPath(ri))
		if r.Abs {
			href = "http://dav.example" + href
		}
		resp := davx.Response{Hrefs: []string{href}}
		for k := 1; k <= r.MoreHrefs && r.Status != 0 && !r.Both; k++ {
			h := davx.EscapePath(d.morePath(ri, k))
			if r.Abs {
				h = "http://dav.example" + h
			}
			resp.Hrefs = append(resp.Hrefs, h)
		}
		if r.Status != 0 {
			resp.Status = &davx.Status{Code: r.Status, Phrase: http.StatusText(r.Status)}
			if d.Extra && failing(r.Status) && !r.Cond {
				resp.Desc = "resource failed"
			}
			if r.Cond {
				resp.Error = davErrorTree(d.M.Fam)
				if r.CondDesc != "" {
					resp.Desc = "the resource failed a precondition"
				}
			}
		}
		if r.Status == 0 || r.Both {
			// group by code in order of first appearance
			var order []int
			groups := map[int][]*xmltree.Node{}
			for pi, p := range r.Props {
				if _, ok := groups[p.Code]; !ok {
					order = append(order, p.Code)
				}
				groups[p.Code] = append(groups[p.Code], buildProp(p.ID, r.Kind, valueFor(p.Code, ri, pi)))
			}
			for gi, code := range order {
				props := groups[code]
				if d.Extra && gi == 0 {
					props = append(props, xmltree.El(nsDAV, "creationdate", xmltree.Txt("2020-01-01T00:00:00Z")),
						xmltree.El("urn:example:custom", "colour", xmltree.El("urn:example:custom", "rgb", xmltree.Txt("#fff"))))
				}
				ps := davx.PropStat{Status: davx.Status{Code: code, Phrase: http.StatusText(code)}, Props: props}
				if d.Extra && failing(code) {
					ps.Desc = "property failed"
				}
				resp.PropStats = append(resp.PropStats, ps)
			}
		}
		ms.Responses = append(ms.Responses, resp)
	}
	if d.Extra {
		ms.Desc = "generated by c14"
	}
	root := davx.MultiStatusTree(ms, d.OnePer)
	for ri, rn := range root.Elems() {
		if ri < len(d.Res) && d.Res[ri].Both && d.Res[ri].StatusLast {
			// move the response's own status behind its propstats
			for ci, ch := range rn.Children {
				if ch.Kind == xmltree.Element && ch.Space == nsDAV && ch.Local == "status" {
					rn.Children = append(append(rn.Children[:ci:ci], rn.Children[ci+1:]...), ch)
					break
				}
			}
		}
		if ri < len(d.Res) && d.Res[ri].Cond && d.Res[ri].CondDesc == "before" {
			// the description in front of the error element
			for ci, ch := range rn.Children {
				if ch.Kind == xmltree.Element && ch.Space == nsDAV && ch.Local == "error" {
					for cj := ci + 1; cj < len(rn.Children); cj++ {
						if dn := rn.Children[cj]; dn.Kind == xmltree.Element && dn.Space == nsDAV && dn.Local == "responsedescription" {
							rn.Children[ci], rn.Children[cj] = dn, ch
							break
						}
					}
					break
				}
			}
		}
	}
	return root
}

// Offer is what one response offers: the neutral entry built from everything
// reported under a 2xx status, plus the flags the oracle needs.
type Offer struct {
	E       Entry `json:"e"`
	Listed  bool  `json:"listed"`             // the method lists resources of this kind
	RespBad bool  `json:"resp_bad,omitempty"` // response-level failing status
	RTBad   bool  `json:"rt_bad,omitempty"`   // resourcetype reported under a failing propstat
}

func codeClass(code int) string {
	switch {
	case code == 200:
		return "200"
	case code == 404:
		return "404"
	case code/100 == 2:
		return "2xx-not-200"
	}
	return fmt.Sprintf("%dxx", code/100)
}

// failClass is the coarse class used in finding keys (one defect, few keys):
// 1xx/3xx are kept apart from 4xx/5xx so that a ">= 400 means failure"
// shortcut is told from "status ignored".
func failClass(code int) string {
	switch {
	case code == 200:
		return "200"
	case code/100 == 2:
		return "2xx-not-200"
	case code/100 == 1 || code/100 == 3:
		return "1xx/3xx"
	case code/100 == 4 || code/100 == 5:
		return "4xx/5xx"
	}
	return "out-of-range"
}

func httpClass(code int) string {
	switch {
	case code == 207:
		return "207"
	case code/100 == 2:
		return "2xx-not-207"
	}
	return fmt.Sprintf("%dxx", code/100)
}

// expect computes the oracle's expectation for the document when it is
// delivered with HTTP status 207.
// decodes: the method reads property id of resources of this kind.
func decodes(m *minfo, kind, id string) bool {
	need, opt := m.propsFor(kind)
	for _, l := range [][]string{need, opt} {
		for _, x := range l {
			if x == id {
				return true
			}
		}
	}
	return false
}

func isNeeded(need []string, id string) bool {
	for _, x := range need {
		if x == id {
			return true
		}
	}
	return false
}

func (d *docSpec) expect() (exp Expect, class, dkey string) {
	m := d.M
	var sbKey strings.Builder
	sbKey.WriteString(m.Name + "|207|ms:")
	clean := true
	var str string
	var mustErr string // for ms1: the placement that obliges an error
	// What an error of this call can be about. As long as the only blemishes
	// of the document are responses reported with a failing status
	// (otherDirt false), an error is about one of them: it carries that
	// response's status code (asked for when all of them have the same) and,
	// when every one of them holds a DAV:error condition, the condition.
	otherDirt, failCodes, failAllCond, failDesc := false, map[int]bool{}, true, ""
	var more []Offer // the additional hrefs of status-type responses
	for ri := range d.Res {
		r := &d.Res[ri]
		o := Offer{E: Entry{Path: d.resPath(ri)}, Listed: m.listed(r.Kind)}
		if ri > 0 {
			sbKey.WriteString(";")
		}
		if r.Own {
			sbKey.WriteString(fmt.Sprintf("own(noslash=%v,abs=%v)", r.NoSlash, r.Abs))
		}
		if r.Status != 0 {
			sbKey.WriteString("s" + codeClass(r.Status))
			o.RespBad = failing(r.Status)
			for k := 1; k <= r.MoreHrefs && !r.Both; k++ {
				sbKey.WriteString("+href")
				exp.MultiHref = true
				mo := Offer{E: Entry{Path: d.morePath(ri, k)}, Listed: o.Listed, RespBad: o.RespBad}
				more = append(more, mo)
				switch {
				case m.Kind == "sync" && r.Status == 404:
					exp.SyncDeleted = append(exp.SyncDeleted, mo.E.Path)
				case m.Kind == "sync" && o.RespBad:
					exp.SyncNotDeleted = append(exp.SyncNotDeleted, mo.E.Path)
				}
			}
			if m.Kind == "sync" && r.Status == 404 {
				exp.SyncDeleted = append(exp.SyncDeleted, o.E.Path)
			} else {
				clean = false
				if m.Kind == "sync" && o.RespBad {
					exp.SyncNotDeleted = append(exp.SyncNotDeleted, o.E.Path)
				}
				if o.RespBad {
					failCodes[r.Status] = true
					failAllCond = failAllCond && r.Cond
					if r.Cond {
						sbKey.WriteString("+cond")
						if r.CondDesc != "" {
							sbKey.WriteString("+desc-" + r.CondDesc)
						}
						failDesc = " holding a DAV:error condition"
					}
				} else {
					otherDirt = true
				}
			}
			if o.RespBad && m.Kind == "sync" && r.Own && r.Status != 404 {
				// A failing status on the request-URI speaks about the report as
				// a whole (RFC 6578 section 3.6: 507 = truncated result): a normal
				// result without error would present it as complete.
				mustErr = "request-URI response with " + failClass(r.Status) + " status"
			}
			if o.RespBad && m.Kind == "ms1" {
				mustErr = "response with " + failClass(r.Status) + " status"
			}
			if o.RespBad && !r.Own && (m.Kind == "msl" && o.Listed || m.Kind == "sync" && r.Status != 404) {
				// "a resource reported with a non-success status is surfaced
				// as an error": leaving the member out of the list silently
				// is not that. (The collection's own entry, which no list
				// holds anyway, and kinds the method does not list stay open.)
				mustErr = "member response with " + failClass(r.Status) + " status"
			}
		} else {
			sbKey.WriteString(r.Kind + ":")
			need, _ := m.propsFor(r.Kind)
			have := map[string]bool{}
			for pi, p := range r.Props {
				sbKey.WriteString(p.ID[:2] + p.ID[len(p.ID)-1:] + codeClass(p.Code) + ",")
				have[p.ID] = true
				if p.Code != 200 {
					clean, otherDirt = false, true
				}
				v := valueFor(p.Code, ri, pi)
				if !failing(p.Code) {
					applyProp(p.ID, r.Kind, v, &o.E, &str)
				} else {
					if p.ID == "resourcetype" {
						o.RTBad = true
					}
					if m.Single == p.ID {
						mustErr = "property under " + failClass(p.Code) + " propstat"
					} else if p.Code == 404 && m.Single == "" && o.Listed && isNeeded(need, p.ID) {
						// ... and a property the result cannot do without is
						// not an optional one: reported as not found, it is a
						// failure too, never an object without its data
						mustErr = "needed property under 404 propstat"
					} else if p.Code != 404 && m.Single == "" && o.Listed && decodes(m, r.Kind, p.ID) {
						// "a property reported with a non-success status is
						// surfaced as an error": 404 says the resource lacks
						// an optional property (tolerated); any other failing
						// code on a property the method decodes is a failure
						// of the call. (Resources the method does not list -
						// other members of the collection - are skipped
						// before their properties are looked at.)
						mustErr = "decoded property under " + failClass(p.Code) + " propstat"
					}
				}
			}
			for _, id := range need {
				if !have[id] {
					clean, otherDirt = false, true
				}
			}
		}
		if m.Name != "webdav.Stat" && m.Name != "webdav.ReadDir" {
			o.E.Dir = false // only FileInfo says whether the resource is a collection
		}
		exp.Offered = append(exp.Offered, o)
	}
	exp.Offered = append(exp.Offered, more...)
	if m.Kind == "ms1" && len(d.Res) != 1 {
		clean, otherDirt = false, true
	}
	if !otherDirt && len(failCodes) > 0 {
		if len(failCodes) == 1 {
			for c := range failCodes {
				exp.HTTPCode = c
			}
		}
		if failAllCond {
			sp, lo := condFor(m.Fam)
			exp.Cond = "{" + sp + "}" + lo
		}
	}
	dkey = sbKey.String()
	switch {
	case mustErr != "":
		exp.Verdict = "err"
		class = "207 + multistatus: " + mustErr
	case clean:
		exp.Verdict = "ok"
		class = "207 + valid multistatus"
		out := Out{Token: d.Token}
		if m.Single != "" {
			out.Str = str
		} else {
			for _, o := range exp.Offered {
				if o.RespBad {
					continue
				}
				if o.Listed {
					out.Entries = append(out.Entries, o.E)
				}
			}
			if m.Kind == "sync" {
				out.Entries = nil
				for ri, o := range exp.Offered {
					if ri < len(d.Res) && d.Res[ri].Status == 0 {
						out.Entries = append(out.Entries, Entry{Path: o.E.Path, Mod: o.E.Mod, ETag: o.E.ETag})
					}
				}
				out.Deleted = append([]string(nil), exp.SyncDeleted...)
			}
		}
		s := out.sorted()
		exp.Data = &s
		if exp.MultiHref {
			exp.Data = nil // judged href by href (SyncDeleted, Offered): one defect, one key
		}
	default:
		exp.Verdict = "any"
		class = "207 + multistatus with non-200 statuses"
		if failDesc != "" && !otherDirt {
			class = "207 + multistatus: failing response" + failDesc
		}
		if m.Single != "" {
			// 2xx-but-not-200 propstat: error or the value, nothing else
			exp.StrOneOf = []string{"", str}
		}
	}
	return exp, class, dkey
}

package c14

import (
	"bytes"
	"runtime"
	"strconv"
	"strings"
	"time"
)

// Hang detection. Every case runs on a goroutine of its own; the monitor
// (the worker's main goroutine) waits for it. A case that has not returned is
// judged by quiescence, never by a deadline: the scripted fake has returned
// from every Do it was given (all its readers are finite), and for
// hangPolls consecutive polls no goroutine of the process other than the
// monitor is running, runnable, sleeping or in a system call, while the
// caller is still blocked below a go-webdav frame. Nothing is then left that
// could wake the caller: that is a hang. A wall-clock watchdog only ever
// yields "inconclusive".
const (
	hangPolls    = 60
	hangInterval = 10 * time.Millisecond
	hangWatchdog = 60 * time.Second
)

func curGoroutineID() int64 {
	var buf [64]byte
	n := runtime.Stack(buf[:], false)
	// "goroutine 123 [running]:"
	f := strings.Fields(string(buf[:n]))
	if len(f) < 2 {
		return -1
	}
	id, err := strconv.ParseInt(f[1], 10, 64)
	if err != nil {
		return -1
	}
	return id
}

type gblock struct {
	id    int64
	state string
	text  string
}

var stackBuf = make([]byte, 1<<16)

func allGoroutines() []gblock {
	for {
		n := runtime.Stack(stackBuf, true)
		if n < len(stackBuf) {
			var l []gblock
			for _, blk := range bytes.Split(stackBuf[:n], []byte("\n\n")) {
				s := string(blk)
				if !strings.HasPrefix(s, "goroutine ") {
					continue
				}
				hdr := s
				if i := strings.IndexByte(s, '\n'); i >= 0 {
					hdr = s[:i]
				}
				f := strings.Fields(hdr)
				if len(f) < 3 {
					continue
				}
				id, _ := strconv.ParseInt(f[1], 10, 64)
				st := hdr[strings.IndexByte(hdr, '[')+1:]
				if i := strings.IndexAny(st, ",]"); i >= 0 {
					st = st[:i]
				}
				l = append(l, gblock{id: id, state: st, text: s})
			}
			return l
		}
		stackBuf = make([]byte, 2*len(stackBuf))
	}
}

func activeState(st string) bool {
	switch st {
	case "running", "runnable", "syscall", "sleep", "copystack", "preempted":
		return true
	}
	return strings.HasPrefix(st, "GC ")
}

// webdavFrame returns the innermost function of go-webdav (not of the
// harness) on a goroutine's stack.
func webdavFrame(text string) string {
	for _, ln := range strings.Split(text, "\n")[1:] {
		if strings.HasPrefix(ln, "\t") || ln == "" {
			continue
		}
		fn := ln
		if i := strings.LastIndex(fn, "("); i > 0 {
			fn = fn[:i]
		}
		fn = strings.TrimPrefix(fn, "created by ")
		if strings.HasPrefix(fn, "github.com/emersion/go-webdav") && !strings.Contains(fn, "/verifharness") {
			return fn
		}
	}
	return ""
}

// quiescentHang reports whether the process is quiescent with the caller
// blocked inside go-webdav; it returns the caller's stack and the function it
// is blocked in.
func quiescentHang(monitor, caller int64) (hang bool, stack, site string) {
	var cb *gblock
	l := allGoroutines()
	for i := range l {
		g := &l[i]
		if g.id == monitor {
			continue
		}
		if activeState(g.state) {
			return false, "", ""
		}
		if g.id == caller {
			cb = g
		}
	}
	if cb == nil {
		return false, "", ""
	}
	site = webdavFrame(cb.text)
	if site == "" {
		return false, "", ""
	}
	return true, cb.text, site
}

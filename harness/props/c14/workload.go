package c14

import (
	"bytes"
	"fmt"
	"math/rand"
	"mime"
	"net/http"
	"strconv"
	"strings"

	"github.com/emersion/go-webdav/verifharness/fw"
	"github.com/emersion/go-webdav/verifharness/xmltree"
)

var placementCodes = []int{200, 204, 102, 302, 403, 404, 500, 507}

// gen deals cases to shards: every generator calls next() once per case, in
// the same order in every shard.
type gen struct {
	c   *fw.Ctx
	idx int
}

func (g *gen) next() (int, bool) {
	i := g.idx
	g.idx++
	return i, g.c.Mine(i)
}

func run(c *fw.Ctx) {
	g := &gen{c: c}
	g.matrix()
	g.uploads()
	g.valid()
	g.placements()
	g.truncation()
	g.prologs()
	g.corrupt()
	g.mutations()
	g.headers()
	g.oversized()
	g.endless()
	g.challenges()
	g.entityHeaders()
	g.errorPages(false)
	g.errorBodies()    // Create last: a panic on its upload goroutine kills the worker
	g.errorPages(true) // (the Create part)
	c.Note("exhaustive_parts", "errbodies: full product of 21 error-body contents x 7 lengths (0,1,1023,1024,1025,4096,1 MiB) x 10 Content-Types x statuses x 23 methods; matrix: status 100..599 x 7 body kinds x 23 methods (+ Create early answer x 3 kinds); uploads: full product of answer time x size x writes x stop-on-error x statuses; "+
		"placements: all assignments of {200,204,102,302,403,404,500,507}, failing responses with condition / description in both orders, status-type responses with several hrefs; errpages: full product of template x text class x tag case, whole pages x method x Content-Type; truncation: every prefix of the chosen documents and objects")
}

func xmlType(i int) string {
	return []string{"application/xml; charset=utf-8", "text/xml", "application/xml", `text/xml; charset="utf-8"`}[i%4]
}

func objType(fam string) string {
	if fam == "card" {
		return "text/vcard"
	}
	return "text/calendar"
}

func objText(fam, mark string, rich bool) string {
	if fam == "card" {
		return vcardText(mark, rich)
	}
	return icalText(mark, rich)
}

func famName(fam string) string {
	if fam == "card" {
		return "vCard"
	}
	return "iCalendar"
}

func condFor(fam string) (space, local string) {
	switch fam {
	case "cal":
		return nsCal, "valid-calendar-data"
	case "card":
		return nsCard, "valid-address-data"
	}
	return nsDAV, "lock-token-submitted"
}

func davErrorTree(fam string) *xmltree.Node {
	sp, lo := condFor(fam)
	cond := xmltree.El(sp, lo)
	if fam == "dav" {
		cond.Add(xmltree.El(nsDAV, "href", xmltree.Txt("/dav/locked/")))
	}
	return xmltree.El(nsDAV, "error", cond, xmltree.El("urn:example:custom", "detail", xmltree.Txt("more")))
}

var garbageXML = [][]byte{
	[]byte("<<<not xml at all>>>"),
	[]byte("<a><b></a>"),
	[]byte(`<foo xmlns="DAV:"/>`),
	[]byte("<multistatus/>"),
	[]byte("<error/>"),
	{0x00, 0xff, 0xfe, 0x3c, 0x00, 0x61, 0x00},
	[]byte(`<D:multistatus xmlns:D="DAV:"><D:response></D:multistatus>`),
	[]byte(`<error xmlns="DAV:"`),
	[]byte(`<?xml version="1.0" encoding="ebcdic-cp-us"?><error xmlns="DAV:"/>`),
	[]byte(`<D:multistatus xmlns:D="urn:not-dav"><D:response/></D:multistatus>`),
	[]byte("   \n\t  "),
	[]byte(`<D:error xmlns:D="DAV:"><D:x></D:y></D:error>`),
}

// objHeaders are the entity headers a GET/PUT answer may carry, and what they
// mean for the returned object.
func objHeaders(m *minfo, variant int, bodyLen int) (h [][2]string, e Entry) {
	e.Path = m.Base
	if variant%2 == 0 {
		h = append(h, [2]string{"ETag", `"okEtag` + fmt.Sprint(variant%7) + `"`})
		e.ETag = "okEtag" + fmt.Sprint(variant%7)
	}
	if m.Kind == "getobj" {
		if variant%3 == 0 {
			t := okTimeBase.Add(77 * 3600e9)
			h = append(h, [2]string{"Last-Modified", t.Format(http.TimeFormat)})
			e.Mod = t.Unix()
		}
		if variant%4 < 2 {
			h = append(h, [2]string{"Content-Length", fmt.Sprint(bodyLen)})
			e.Size = int64(bodyLen)
		}
	}
	if m.Kind == "putobj" && variant%3 == 0 {
		h = append(h, [2]string{"Location", "http://dav.example/dav/moved/obj%20" + fmt.Sprint(variant%5)})
		e.Path = "/dav/moved/obj " + fmt.Sprint(variant%5)
	}
	return h, e
}

// cleanDoc builds a conformant, fully successful document for a method.
func cleanDoc(m *minfo, r *rand.Rand, minRes int) *docSpec {
	d := &docSpec{M: m, OnePer: r.Intn(3) == 0, Extra: r.Intn(3) == 0}
	mk := func(ri int, kind string) res {
		need, opt := m.propsFor(kind)
		rs := res{Kind: kind, Abs: r.Intn(4) == 0}
		for _, id := range need {
			rs.Props = append(rs.Props, pv{id, 200})
		}
		for _, id := range opt {
			if r.Intn(4) != 0 {
				rs.Props = append(rs.Props, pv{id, 200})
			}
		}
		r.Shuffle(len(rs.Props), func(i, j int) { rs.Props[i], rs.Props[j] = rs.Props[j], rs.Props[i] })
		return rs
	}
	stems := []string{"r", "a b", "é", "x+y", "q~1", "Z"}
	ext := map[string]string{"file": ".txt", "dir": "/", "cal": "/", "book": "/", "calobj": ".ics", "cardobj": ".vcf"}
	switch m.Kind {
	case "ms1":
		kind := ""
		if len(m.Kinds) > 0 {
			kind = m.Kinds[r.Intn(len(m.Kinds))]
		}
		d.Res = []res{mk(0, kind)}
	case "msl", "sync":
		n := minRes + r.Intn(4)
		for i := 0; i < n; i++ {
			kind := m.Kinds[r.Intn(len(m.Kinds))]
			rs := mk(i, kind)
			rs.Name = fmt.Sprintf("%s%d%s", stems[r.Intn(len(stems))], i, ext[kind])
			if m.Kind == "sync" && r.Intn(3) == 0 {
				rs = res{Name: rs.Name, Kind: kind, Status: 404}
			}
			d.Res = append(d.Res, rs)
		}
		if m.Kind == "sync" {
			d.Token = fmt.Sprintf("http://dav.example/sync/%d", 1+r.Intn(1000))
		}
	}
	return d
}

func render(d *docSpec, lx *xmltree.Lex) []byte { return xmltree.Render(d.tree(), lx) }

func (g *gen) newCase(m *minfo, w, kind string, status int) *Case {
	return &Case{Method: m.Name, Status: status, W: w, Kind: kind}
}

// --- matrix ---------------------------------------------------------------------

type mkind struct {
	name   string
	header [][2]string
	body   []byte
	data   *Out // for the valid multistatus
	obj    bool
}

func (g *gen) matrixKinds(m *minfo, mi int) []mkind {
	r := g.c.Rand("matrix", mi)
	var ks []mkind
	ks = append(ks, mkind{name: "none"})
	ks = append(ks, mkind{name: "text", header: [][2]string{{"Content-Type", "text/plain; charset=utf-8"}},
		body: []byte("Something failed: insufficient frobnication\n")})
	ks = append(ks, mkind{name: "dav-error(application/xml)", header: [][2]string{{"Content-Type", "application/xml; charset=utf-8"}},
		body: xmltree.Render(davErrorTree(m.Fam), nil)})
	ks = append(ks, mkind{name: "dav-error(text/xml)", header: [][2]string{{"Content-Type", "text/xml"}},
		body: xmltree.Render(davErrorTree(m.Fam), xmltree.FullLex(r))})
	ks = append(ks, mkind{name: "garbage-xml", header: [][2]string{{"Content-Type", xmlType(mi)}}})
	dm := m
	if !m.multistatus() {
		dm = methodByName("webdav.ReadDir")
	}
	d := cleanDoc(dm, r, 2)
	exp, _, _ := d.expect()
	ks = append(ks, mkind{name: "multistatus", header: [][2]string{{"Content-Type", xmlType(mi + 1)}}, body: render(d, nil), data: exp.Data})
	ks = append(ks, mkind{name: "object", header: [][2]string{{"Content-Type", objType(m.Fam) + "; charset=utf-8"}},
		body: []byte(objText(m.Fam, "okobj", true)), obj: true})
	return ks
}

func matrixExpect(m *minfo, status int, k *mkind, hdrEntry Entry, body []byte) Expect {
	if status/100 != 2 {
		e := Expect{Verdict: "err", HTTPCode: status}
		if strings.HasPrefix(k.name, "dav-error") {
			sp, lo := condFor(m.Fam)
			e.Cond = "{" + sp + "}" + lo
		}
		return e
	}
	switch m.Kind {
	case "ms1", "msl", "sync":
		if status == 207 && k.name == "multistatus" {
			return Expect{Verdict: "ok", Data: k.data}
		}
		return Expect{Verdict: "err"}
	case "plain":
		if status == 207 && m.Name != "webdav.Mkdir" {
			return Expect{Verdict: "any"} // RFC 4918: a 207 to DELETE/COPY/MOVE reports member failures
		}
		return Expect{Verdict: "ok"}
	case "create", "options":
		return Expect{Verdict: "ok"}
	case "open":
		return Expect{Verdict: "ok", Data: &Out{BodyLen: len(body), BodySum: bodySum(body)}}
	case "getobj":
		if k.obj {
			hdrEntry.Obj = "okobj"
			return Expect{Verdict: "ok", Data: &Out{Entries: []Entry{hdrEntry}}}
		}
		return Expect{Verdict: "err"}
	case "putobj":
		return Expect{Verdict: "ok", Data: &Out{Entries: []Entry{{Path: hdrEntry.Path, ETag: hdrEntry.ETag}}}}
	}
	return Expect{Verdict: "any"}
}

// matrixClass is the coarse input class of a matrix case used in finding
// keys (one defect = a few keys per method); the distinct-case key is finer.
func matrixClass(m *minfo, status int, k *mkind) string {
	if status/100 != 2 {
		return "http " + failClass(status)
	}
	switch {
	case m.multistatus() && status != 207:
		return "http 2xx-not-207"
	case m.multistatus() && k.name == "multistatus":
		return "207 + valid multistatus"
	case m.multistatus():
		return "207 + body that is not a multistatus"
	case m.Kind == "getobj" && k.obj:
		return "http 2xx + valid object"
	case m.Kind == "getobj":
		return "http 2xx + body that is not the object"
	}
	return "http 2xx"
}

func (g *gen) matrix() {
	for mi := range methods {
		m := &methods[mi]
		kinds := g.matrixKinds(m, mi)
		for status := 100; status <= 599; status++ {
			for ki := range kinds {
				k := &kinds[ki]
				idx, mine := g.next()
				if !mine {
					continue
				}
				cs := g.newCase(m, "matrix", k.name, status)
				body := k.body
				if k.name == "garbage-xml" {
					body = garbageXML[(status+mi)%len(garbageXML)]
				}
				cs.Header = append([][2]string(nil), k.header...)
				var he Entry
				if m.Kind == "getobj" && k.obj || m.Kind == "putobj" {
					var h [][2]string
					h, he = objHeaders(m, status+ki, len(body))
					cs.Header = append(cs.Header, h...)
				}
				if m.Kind == "options" {
					cs.Header = append(cs.Header, [2]string{"DAV", "1, 3, addressbook"}, [2]string{"Allow", "OPTIONS, GET, PROPFIND, REPORT"})
				}
				cs.setBody(body)
				cs.Chunk = []int{0, 0, 1, 13}[idx%4]
				if idx%3 == 1 {
					cs.Via = "basic-auth" // the wrapper is transparent for every answer
				}
				cs.Exp = matrixExpect(m, status, k, he, body)
				cs.Class = matrixClass(m, status, k)
				cs.DKey = m.Name + "|http " + httpClass(status) + " + " + k.name
				runCase(g.c, cs)
			}
		}
	}
	// Create, with the answer sent before the upload was read.
	m := methodByName("webdav.Create")
	kinds := g.matrixKinds(m, 4)
	for status := 100; status <= 599; status++ {
		for _, ki := range []int{0, 1, 2} {
			k := &kinds[ki]
			_, mine := g.next()
			if !mine {
				continue
			}
			cs := g.newCase(m, "matrix", k.name, status)
			cs.Early = true
			cs.Header = k.header
			cs.setBody(k.body)
			cs.Exp = matrixExpect(m, status, k, Entry{}, k.body)
			cs.Class = matrixClass(m, status, k) + " (answer before upload complete)"
			cs.DKey = m.Name + "|http " + httpClass(status) + " + " + k.name + " (answer before upload)"
			runCase(g.c, cs)
		}
	}
}

// uploads scripts both sides of Create: when the fake answers (before reading
// the upload, after k bytes, after all of it) x how the caller writes (size,
// number of Write calls, Close after the first Write error or after ignoring
// errors). Whatever happens to the Writes, Close must return, with an error
// exactly when the answer was not 2xx.
func (g *gen) uploads() {
	m := methodByName("webdav.Create")
	statuses := []int{200, 201, 204, 207, 100, 302, 403, 404, 500, 507}
	if g.c.Thorough() {
		for s := 101; s < 600; s += 13 {
			statuses = append(statuses, s)
		}
	}
	kinds := g.matrixKinds(m, 4)
	for _, status := range statuses {
		for _, size := range []int{0, 100, 1 << 20} {
			for _, writes := range []int{0, 1, 3, 256} {
				if (writes == 0) != (size == 0) && writes != 1 {
					continue // no Write at all only for the empty upload; one empty Write too
				}
				for _, when := range []string{"before", "after1", "afterhalf", "afterall"} {
					var after int64
					switch when {
					case "after1":
						after = 1
					case "afterhalf":
						after = int64(size / 2)
					}
					if when != "before" && when != "afterall" && after == 0 {
						continue
					}
					for _, stop := range []bool{false, true} {
						idx, mine := g.next()
						if !mine {
							continue
						}
						k := &kinds[[]int{0, 1, 2}[idx%3]]
						cs := g.newCase(m, "uploads", k.name, status)
						cs.Header = k.header
						cs.setBody(k.body)
						cs.Early = when == "before"
						cs.AnswerAfter = after
						cs.Up = &Upload{Size: size, Writes: writes, StopOnErr: stop}
						cs.Exp = matrixExpect(m, status, k, Entry{}, k.body)
						cs.Class = matrixClass(m, status, k)
						if when != "afterall" {
							cs.Class += " (answer before upload complete)"
						}
						cs.DKey = fmt.Sprintf("%s|http %s|answer=%s|size=%d|writes=%d|stop=%v", m.Name, httpClass(status), when, size, writes, stop)
						g.c.Observe("uploads", fmt.Sprintf("answer %s, %d bytes in %d writes", when, size, writes), 1)
						runCase(g.c, cs)
					}
				}
			}
		}
	}
}

// --- valid documents in random lexical forms ------------------------------------------

func (g *gen) valid() {
	n := g.c.Pick(400, 12000)
	for mi := range methods {
		m := &methods[mi]
		switch {
		case m.multistatus():
			for i := 0; i < n; i++ {
				idx, mine := g.next()
				if !mine {
					continue
				}
				r := g.c.Rand("valid/"+m.Name, i)
				d := cleanDoc(m, r, 0)
				var lx *xmltree.Lex
				if i%8 != 0 {
					lx = xmltree.FullLex(r)
				}
				cs := g.newCase(m, "valid", "multistatus", 207)
				cs.Header = [][2]string{{"Content-Type", xmlType(idx)}}
				cs.setBody(render(d, lx))
				cs.Chunk = []int{0, 0, 0, 7}[idx%4]
				var dk string
				cs.Exp, cs.Class, dk = d.expect()
				cs.DKey = dk + fmt.Sprintf("|oneper=%v|extra=%v|lex=%v", d.OnePer, d.Extra, lx != nil)
				runCase(g.c, cs)
			}
		case m.Kind == "getobj":
			for i := 0; i < n/4; i++ {
				idx, mine := g.next()
				if !mine {
					continue
				}
				mark := fmt.Sprintf("okobj%d", i)
				body := []byte(objText(m.Fam, mark, i%2 == 0))
				cs := g.newCase(m, "valid", "object", []int{200, 200, 203, 206}[i%4])
				ct := objType(m.Fam)
				cs.Header = [][2]string{{"Content-Type", []string{ct, ct + "; charset=utf-8", strings.ToUpper(ct), ct + `; component=VEVENT; charset="utf-8"`}[i%4]}}
				h, he := objHeaders(m, i, len(body))
				cs.Header = append(cs.Header, h...)
				he.Obj = mark
				cs.setBody(body)
				cs.Chunk = []int{0, 1, 5}[idx%3]
				cs.Exp = Expect{Verdict: "ok", Data: &Out{Entries: []Entry{he}}}
				cs.Class = "http 2xx + valid object"
				cs.DKey = fmt.Sprintf("%s|valid object|hdr=%d|ct=%d", m.Name, i%12, i%4)
				runCase(g.c, cs)
			}
		}
	}
}

// --- status placements ------------------------------------------------------------------

// respOptions enumerates what one response can look like: a status-only
// response with each code, or a propstat response whose needed properties sit
// under code a and whose optional properties under code b.
func respOptions(m *minfo, kind string) []res {
	var l []res
	for _, c := range placementCodes {
		l = append(l, res{Kind: kind, Status: c})
	}
	need, opt := m.propsFor(kind)
	if m.Kind == "sync" {
		need, opt = opt[:1], opt[1:]
	}
	// a failing status for the resource as a whole AND its properties under
	// 200 in the same response (outside the DTD, seen in the field): the
	// resource is reported as failed, its properties are not valid data
	for _, c := range placementCodes {
		if !failing(c) {
			continue
		}
		for _, last := range []bool{false, true} {
			var ps []pv
			for _, id := range append(append([]string(nil), need...), opt...) {
				ps = append(ps, pv{id, 200})
			}
			l = append(l, res{Kind: kind, Status: c, Props: ps, Both: true, StatusLast: last})
		}
	}
	for _, a := range placementCodes {
		if len(opt) == 0 {
			var ps []pv
			for _, id := range need {
				ps = append(ps, pv{id, a})
			}
			l = append(l, res{Kind: kind, Props: ps})
			continue
		}
		for _, b := range placementCodes {
			var ps []pv
			for _, id := range need {
				ps = append(ps, pv{id, a})
			}
			for _, id := range opt {
				ps = append(ps, pv{id, b})
			}
			l = append(l, res{Kind: kind, Props: ps})
		}
	}
	return l
}

func (g *gen) placementCase(m *minfo, rs []res, i int) {
	idx, mine := g.next()
	if !mine {
		return
	}
	d := &docSpec{M: m, OnePer: i%2 == 1, Extra: i%3 == 0}
	ext := map[string]string{"file": ".txt", "dir": "/", "cal": "/", "book": "/", "calobj": ".ics", "cardobj": ".vcf"}
	for ri, r := range rs {
		r.Props = append([]pv(nil), r.Props...)
		if r.MoreHrefs > 0 {
			g.c.Observe("several_hrefs", fmt.Sprintf("%s status=%s", m.Name, codeClass(r.Status)), 1)
		}
		if r.Cond {
			g.c.Observe("failing_response_conditions", fmt.Sprintf("%s status=%s description=%q", m.Name, codeClass(r.Status), r.CondDesc), 1)
		}
		if r.Own {
			d.Res = append(d.Res, r)
			continue
		}
		if m.Kind != "ms1" {
			mark := okMark
			if r.Status != 0 && failing(r.Status) {
				mark = fmt.Sprintf("%s%03d", badMark, r.Status)
			}
			r.Name = fmt.Sprintf("%sr%d%s", mark, ri, ext[r.Kind])
		}
		r.Abs = (i+ri)%5 == 0
		d.Res = append(d.Res, r)
	}
	if m.Kind == "sync" {
		d.Token = "http://dav.example/sync/42"
	}
	var lx *xmltree.Lex
	if i%5 == 0 {
		lx = xmltree.FullLex(g.c.Rand("placements/"+m.Name, i))
	}
	cs := g.newCase(m, "placements", "multistatus", 207)
	cs.Header = [][2]string{{"Content-Type", xmlType(idx)}}
	cs.setBody(render(d, lx))
	cs.Exp, cs.Class, cs.DKey = d.expect()
	g.c.Observe("placement_docs", m.Name+" verdict="+cs.Exp.Verdict, 1)
	runCase(g.c, cs)
}

func (g *gen) placements() {
	for mi := range methods {
		m := &methods[mi]
		switch m.Kind {
		case "ms1":
			kinds := m.Kinds
			if len(kinds) == 0 {
				kinds = []string{""}
			}
			i := 0
			for _, kind := range kinds {
				for _, o := range respOptions(m, kind) {
					g.placementCase(m, []res{o}, i)
					i++
				}
			}
		case "msl", "sync":
			o0 := respOptions(m, m.Kinds[0])
			o1 := respOptions(m, m.Kinds[len(m.Kinds)-1])
			i := 0
			deep := g.c.Thorough() && (m.Name == "webdav.ReadDir" || m.Name == "carddav.SyncCollection" ||
				m.Name == "caldav.MultiGetCalendar" || m.Name == "carddav.FindAddressBooks")
			for _, a := range o0 {
				for _, b := range o1 {
					g.placementCase(m, []res{a, b}, i)
					i++
					if deep {
						for _, c3 := range o0 {
							g.placementCase(m, []res{a, b, c3}, i)
							i++
						}
					}
				}
			}
		}
	}
	// The requested collection's own entry with each status (exhaustive):
	// codes x href spelling {as requested, without the trailing slash, each as
	// path or absolute URL} x position {only, first, last}. For
	// sync-collection a failing status there must be an error (404: a
	// deletion); for the other list methods an error or an omission.
	for mi := range methods {
		m := &methods[mi]
		if m.Kind != "msl" && m.Kind != "sync" {
			continue
		}
		ownKind := "dir"
		if m.Kind == "sync" || strings.Contains(m.Name, "Query") || strings.Contains(m.Name, "MultiGet") {
			ownKind = m.Kinds[0]
		}
		member := func() res {
			need, opt := m.propsFor(m.Kinds[0])
			rs := res{Kind: m.Kinds[0]}
			for _, id := range append(append([]string(nil), need...), opt...) {
				rs.Props = append(rs.Props, pv{id, 200})
			}
			return rs
		}
		i := 0
		for _, code := range placementCodes {
			for sp := 0; sp < 4; sp++ {
				own := res{Kind: ownKind, Status: code, Own: true, NoSlash: sp%2 == 1, Abs: sp >= 2}
				for _, rs := range [][]res{{own}, {own, member(), member()}, {member(), member(), own}} {
					g.c.Observe("own_entry", fmt.Sprintf("%s status=%s", m.Name, codeClass(code)), 1)
					g.placementCase(m, rs, i)
					i++
				}
			}
		}
	}

	// A failing response may say why: a DAV:error element holding a condition,
	// a responsedescription, or both, in the order of the DTD or the other way
	// round (exhaustive): code x shape {status only, status first / last next
	// to 200 propstats} x description {none, after, before the error element} x
	// position {only, first, last among successful members}. Where the call
	// returns an error, it is about that response: its code and its condition.
	condCodes := []int{102, 302, 403, 404, 409, 412, 423, 500, 507}
	for mi := range methods {
		m := &methods[mi]
		if !m.multistatus() {
			continue
		}
		kind := ""
		if len(m.Kinds) > 0 {
			kind = m.Kinds[0]
		}
		full := func() []pv {
			need, opt := m.propsFor(kind)
			var ps []pv
			for _, id := range append(append([]string(nil), need...), opt...) {
				ps = append(ps, pv{id, 200})
			}
			return ps
		}
		i := 0
		for _, code := range condCodes {
			for shape := 0; shape < 3; shape++ {
				for _, desc := range []string{"", "after", "before"} {
					bad := res{Kind: kind, Status: code, Cond: true, CondDesc: desc}
					if shape > 0 {
						bad.Props, bad.Both, bad.StatusLast = full(), true, shape == 2
					}
					lists := [][]res{{bad}}
					if m.Kind != "ms1" {
						ok := res{Kind: kind, Props: full()}
						lists = append(lists, []res{bad, ok, ok}, []res{ok, ok, bad})
					}
					for _, rs := range lists {
						g.placementCase(m, rs, i)
						i++
					}
				}
			}
		}
	}

	// One status for several resources (exhaustive): a status-type response
	// with two or three hrefs, codes x position. Each of the resources is
	// reported with that status: for sync-collection every href of a 404
	// response is a deletion; a failing status is an error, never data.
	for mi := range methods {
		m := &methods[mi]
		if m.Kind != "msl" && m.Kind != "sync" {
			continue
		}
		kind := m.Kinds[0]
		need, opt := m.propsFor(kind)
		ok := res{Kind: kind}
		for _, id := range append(append([]string(nil), need...), opt...) {
			ok.Props = append(ok.Props, pv{id, 200})
		}
		i := 0
		for _, code := range placementCodes {
			for extra := 1; extra <= 2; extra++ {
				multi := res{Kind: kind, Status: code, MoreHrefs: extra}
				for _, rs := range [][]res{{multi}, {multi, ok, ok}, {ok, ok, multi}} {
					g.placementCase(m, rs, i)
					i++
				}
			}
		}
	}

	// Random per-property placements over a wider code set (thorough mostly).
	wide := append([]int{201, 207, 100, 301, 304, 400, 401, 409, 423, 424, 503, 599}, placementCodes...)
	n := g.c.Pick(3000, 150000)
	var msm []*minfo
	for mi := range methods {
		if methods[mi].multistatus() && methods[mi].Single == "" {
			msm = append(msm, &methods[mi])
		}
	}
	for i := 0; i < n; i++ {
		m := msm[i%len(msm)]
		r := g.c.Rand("placements/random", i)
		nres := 1
		if m.Kind != "ms1" {
			nres = 1 + r.Intn(4)
		}
		var rs []res
		for ri := 0; ri < nres; ri++ {
			kind := m.Kinds[r.Intn(len(m.Kinds))]
			if r.Intn(5) == 0 {
				rs = append(rs, res{Kind: kind, Status: wide[r.Intn(len(wide))]})
				continue
			}
			need, opt := m.propsFor(kind)
			var ps []pv
			for _, id := range append(append([]string(nil), need...), opt...) {
				code := 200
				if r.Intn(3) == 0 {
					code = wide[r.Intn(len(wide))]
				}
				ps = append(ps, pv{id, code})
			}
			r.Shuffle(len(ps), func(a, b int) { ps[a], ps[b] = ps[b], ps[a] })
			rs = append(rs, res{Kind: kind, Props: ps})
		}
		g.placementCase(m, rs, i)
	}
}

// --- truncation -----------------------------------------------------------------------

func (g *gen) truncation() {
	docs := g.c.Pick(1, 3)
	for mi := range methods {
		m := &methods[mi]
		switch {
		case m.multistatus():
			for di := 0; di < docs; di++ {
				r := g.c.Rand("trunc/"+m.Name, di)
				d := cleanDoc(m, r, 2)
				if len(d.Res) > 3 {
					d.Res = d.Res[:3]
				}
				var lx *xmltree.Lex
				if di%2 == 1 || mi%2 == 1 {
					lx = xmltree.FullLex(r)
				}
				full := render(d, lx)
				end := bytes.LastIndexByte(full, '>') + 1
				exp, _, _ := d.expect()
				for off := 0; off <= len(full); off++ {
					idx, mine := g.next()
					if !mine {
						continue
					}
					cs := g.newCase(m, "truncation", "multistatus", 207)
					cs.Header = [][2]string{{"Content-Type", xmlType(di)}}
					cs.setBody(full[:off:off])
					cs.Chunk = []int{0, 3}[idx%2]
					if off < end {
						cs.Exp = Expect{Verdict: "err"}
						cs.Class = "207 + truncated multistatus"
						cs.Kind = "truncated multistatus"
					} else {
						cs.Exp = exp
						cs.Class = "207 + valid multistatus"
					}
					cs.Family = "malformed multistatus"
					cs.DKey = fmt.Sprintf("%s|%s|doc%d|%s", m.Name, cs.Class, di, cutContext(full, off))
					g.c.Observe("truncation", "multistatus prefixes", 1)
					runCase(g.c, cs)
					g.readEnds(cs, off, off >= end)
				}
			}
		case m.Kind == "open":
			// a download that breaks off: the caller learns it while reading
			full := []byte(strings.Repeat("sixteen bytes..\n", 8))
			for off := 0; off <= len(full); off++ {
				for _, end := range []string{"", "eof-with-data", "error"} {
					idx, mine := g.next()
					if !mine {
						continue
					}
					cs := g.newCase(m, "truncation", "raw body", 200)
					cs.Header = [][2]string{{"Content-Type", "application/octet-stream"}}
					if idx%2 == 0 {
						cs.Header = append(cs.Header, [2]string{"Content-Length", fmt.Sprint(len(full))})
					}
					cs.setBody(full[:off:off])
					cs.ReadEnd = end
					cs.Chunk = []int{0, 5}[idx%2]
					if end == "error" {
						cs.Exp = Expect{Verdict: "err"}
						cs.Class = "http 2xx + body, then a read error"
					} else {
						cs.Exp = Expect{Verdict: "ok", Data: &Out{BodyLen: off, BodySum: bodySum(full[:off])}}
						cs.Class = "http 2xx"
					}
					cs.DKey = fmt.Sprintf("%s|%s|end=%s|%d", m.Name, cs.Class, end, off*8/(len(full)+1))
					g.c.Observe("truncation", "raw body prefixes", 1)
					runCase(g.c, cs)
				}
			}
		case m.Kind == "getobj":
			for di := 0; di < 2; di++ {
				full := []byte(objText(m.Fam, fmt.Sprintf("okobj%d", di), di == 0))
				end := objectEnd(string(full))
				for off := 0; off <= len(full); off++ {
					_, mine := g.next()
					if !mine {
						continue
					}
					cs := g.newCase(m, "truncation", "object", 200)
					cs.Header = [][2]string{{"Content-Type", objType(m.Fam)}}
					cs.setBody(full[:off:off])
					if off < end {
						cs.Exp = Expect{Verdict: "err"}
						cs.Class = "http 2xx + truncated object"
						cs.Kind = "truncated object"
					} else if off != end && off != len(full) {
						// closing line complete, its CRLF cut in two: open
						cs.Exp = Expect{Verdict: "any"}
						cs.Class = "http 2xx + object cut inside the final line break"
					} else {
						cs.Exp = Expect{Verdict: "ok", Data: &Out{Entries: []Entry{{Path: m.Base, Obj: fmt.Sprintf("okobj%d", di)}}}}
						cs.Class = "http 2xx + valid object"
					}
					cs.Family = "malformed " + famName(m.Fam)
					cs.DKey = fmt.Sprintf("%s|%s|obj%d|%s", m.Name, cs.Class, di, cutContext(full, off))
					g.c.Observe("truncation", "object prefixes", 1)
					runCase(g.c, cs)
					g.readEnds(cs, off, off >= end)
				}
			}
		}
	}
}

// readEnds repeats a truncation case (every fourth offset in the quick tier)
// with the two other ways a body can end: the last bytes delivered together
// with io.EOF (same expectation), and a read error where the prefix ends (an
// error while the document is incomplete; open once it is complete: the
// reader may never ask for more).
func (g *gen) readEnds(base *Case, off int, complete bool) {
	if !g.c.Thorough() && off%4 != 0 {
		return
	}
	for _, end := range []string{"eof-with-data", "error"} {
		cs := *base
		cs.ReadEnd = end
		cs.DKey = base.DKey + "|end=" + end
		if end == "error" {
			cs.Kind += ", then a read error"
			cs.Class += ", then a read error"
			if complete {
				cs.Exp = Expect{Verdict: "any"}
			}
		}
		g.c.Observe("truncation", "prefixes ending with "+end, 1)
		runCase(g.c, &cs)
	}
}

// prologs: a valid answer behind every kind of XML declaration (encodings a
// reader may or may not know, versions, standalone), document type
// declaration, processing instruction, comment and byte-order mark. Whether
// the client can read a declared encoding is left open; it must return.
func (g *gen) prologs() {
	for mi := range methods {
		m := &methods[mi]
		if !m.multistatus() {
			continue
		}
		r := g.c.Rand("prolog/"+m.Name, 0)
		d := cleanDoc(m, r, 1)
		if len(d.Res) > 2 {
			d.Res = d.Res[:2]
		}
		full := render(d, nil)
		for pi, pl := range xmltree.Prologs {
			_, mine := g.next()
			if !mine {
				continue
			}
			cs := g.newCase(m, "prolog", "multistatus", 207)
			cs.Header = [][2]string{{"Content-Type", xmlType(pi)}}
			cs.setBody(append([]byte(pl), full...))
			cs.Exp = Expect{Verdict: "any"}
			cs.Class = "207 + multistatus behind an unusual prolog"
			cs.Family = "prolog"
			cs.DKey = fmt.Sprintf("%s|%s|prolog%d", m.Name, cs.Class, pi)
			g.c.Observe("prologs", "multistatus behind a prolog", 1)
			runCase(g.c, cs)
		}
	}
}

// cutContext abstracts where a document was cut: the byte class before the
// cut and the offset bucket.
func cutContext(b []byte, off int) string {
	cls := "start"
	if off > 0 {
		switch ch := b[off-1]; {
		case ch == '<':
			cls = "after<"
		case ch == '>':
			cls = "after>"
		case ch == '/':
			cls = "after/"
		case ch == '"' || ch == '\'':
			cls = "afterquote"
		case ch == '&' || ch == ';' || ch == '#':
			cls = "inref"
		case ch == ':' || ch == '=':
			cls = "aftersep"
		case ch == ' ' || ch == '\n' || ch == '\r' || ch == '\t':
			cls = "afterspace"
		default:
			cls = "inname-or-text"
		}
	}
	return fmt.Sprintf("%s@%d", cls, off*8/(len(b)+1))
}

// --- corrupt but well-formed ---------------------------------------------------------------

// patch finds the first element {space}local below n (depth first) and
// applies f to it.
func patch(n *xmltree.Node, space, local string, f func(parent *xmltree.Node, i int)) bool {
	for i, ch := range n.Children {
		if ch.Kind != xmltree.Element {
			continue
		}
		if ch.Is(space, local) {
			f(n, i)
			return true
		}
		if patch(ch, space, local, f) {
			return true
		}
	}
	return false
}

func setText(space, local, text string) func(*xmltree.Node) bool {
	return func(root *xmltree.Node) bool {
		return patch(root, space, local, func(p *xmltree.Node, i int) { p.Children[i].Children = []*xmltree.Node{xmltree.Txt(text)} })
	}
}

type corruption struct {
	group   string // coarse class used in finding keys
	name    string
	verdict string // expected verdict when the patch applies
	family  string
	apply   func(root *xmltree.Node) bool
	only    func(m *minfo) bool
}

// Content lines that RFC 5545 does not allow. Whether a parser rejects or
// tolerates a single malformed line is its own business (go-ical accepts
// "DTSTART;TZID;VALUE=DATE:..." as a parameter named "TZID;VALUE"): the
// verdict is open, the call just has to return. Only lines that break the
// component structure oblige an error.
var badICalLines = []struct{ name, line, verdict string }{
	{"param without value separator at end of line", "DTSTART;TZID=Europe/Paris", "any"},
	{"text after quoted param value", "ATTENDEE;CN=\"A\"B:mailto:a@example.org", "any"},
	{"property without colon", "SUMMARY", "any"},
	{"empty property name", ";X=1:foo", "any"},
	{"param without equal sign", "DTSTART;TZID:20200102T100000", "any"},
	{"unterminated quoted param", "ATTENDEE;CN=\"A:mailto:a@example.org", "any"},
	{"unclosed component", "BEGIN:VALARM", "err"},
	{"stray END", "END:VTODO", "err"},
	{"param name only, then semicolon", "DTSTART;TZID;VALUE=DATE:20200102", "any"},
	{"empty param value then end", "DTSTART;TZID=", "any"},
	{"comma after param value at end", "DTSTART;TZID=a,", "any"},
}

func brokenObject(fam string, i int) (text, name, verdict string) {
	if fam == "card" {
		lines := []string{"EMAIL;TYPE=\"work", "TEL;TYPE", ";=:", "NOTE", "item1.", "EMAIL;TYPE=\"a\"b:x"}
		ln := lines[i%len(lines)]
		// go-vcard skips lines it cannot parse: the statement leaves that open
		return strings.Replace(vcardText("okobj", false), "FN:okobj\r\n", "FN:okobj\r\n"+ln+"\r\n", 1), "malformed vCard line", "any"
	}
	b := badICalLines[i%len(badICalLines)]
	return strings.Replace(icalText("okobj", false), "DTSTART:20200102T100000Z", b.line, 1), b.name, b.verdict
}

func (g *gen) corrupt() {
	isFileMethod := func(m *minfo) bool { return m.Name == "webdav.Stat" || m.Name == "webdav.ReadDir" }
	hasMod := func(m *minfo) bool {
		return isFileMethod(m) || m.Kind == "sync" || strings.Contains(m.Name, "Query") || strings.Contains(m.Name, "MultiGet")
	}
	cors := []corruption{
		{name: "propstat status 'HTTP/1.1 abc Nope'", verdict: "err", apply: setText(nsDAV, "status", "HTTP/1.1 abc Nope"),
			only: func(m *minfo) bool { return m.Kind != "sync" }},
		{name: "propstat status 'banana'", verdict: "err", apply: setText(nsDAV, "status", "banana"),
			only: func(m *minfo) bool { return m.Kind != "sync" }},
		{name: "propstat status 'HTTP/1.1 200' (no reason phrase)", verdict: "any", apply: setText(nsDAV, "status", "HTTP/1.1 200")},
		{name: "propstat status empty", verdict: "any", apply: setText(nsDAV, "status", "")},
		{name: "getcontentlength '12abc'", verdict: "err", apply: setText(nsDAV, "getcontentlength", "12abc"), only: isFileMethod},
		{name: "getlastmodified 'yesterday'", verdict: "err", apply: setText(nsDAV, "getlastmodified", "yesterday"), only: hasMod},
		{name: "max-resource-size 'big'", verdict: "err", apply: func(root *xmltree.Node) bool {
			return setText(nsCal, "max-resource-size", "big")(root) || setText(nsCard, "max-resource-size", "big")(root)
		}},
		{name: "calendar-data 'this is not an object'", verdict: "err", family: "malformed iCalendar", apply: setText(nsCal, "calendar-data", "this is not an object")},
		{name: "address-data 'this is not an object'", verdict: "err", family: "malformed vCard", apply: setText(nsCard, "address-data", "this is not an object")},
		{name: "calendar-data empty", verdict: "err", family: "malformed iCalendar", apply: setText(nsCal, "calendar-data", "")},
		{name: "address-data empty", verdict: "err", family: "malformed vCard", apply: setText(nsCard, "address-data", "")},
		{name: "href with invalid percent escape", verdict: "any", apply: setText(nsDAV, "href", "/dav/%zz")},
		{name: "response without href", verdict: "any", apply: func(root *xmltree.Node) bool {
			return patch(root, nsDAV, "href", func(p *xmltree.Node, i int) { p.Children = append(p.Children[:i:i], p.Children[i+1:]...) })
		}},
		{name: "propstat response with two hrefs", verdict: "any", apply: func(root *xmltree.Node) bool {
			return patch(root, nsDAV, "href", func(p *xmltree.Node, i int) {
				p.Children = append(p.Children[:i+1:i+1], append([]*xmltree.Node{xmltree.El(nsDAV, "href", xmltree.Txt("/dav/other"))}, p.Children[i+1:]...)...)
			})
		}},
		{name: "response with neither status nor propstat", verdict: "any", apply: func(root *xmltree.Node) bool {
			return patch(root, nsDAV, "response", func(p *xmltree.Node, i int) {
				r := p.Children[i]
				var keep []*xmltree.Node
				for _, ch := range r.Children {
					if !ch.Is(nsDAV, "propstat") && !ch.Is(nsDAV, "status") {
						keep = append(keep, ch)
					}
				}
				r.Children = keep
			})
		}},
		{name: "empty current-user-principal", verdict: "any", apply: func(root *xmltree.Node) bool {
			return patch(root, nsDAV, "current-user-principal", func(p *xmltree.Node, i int) { p.Children[i].Children = nil })
		}},
		{name: "unauthenticated current-user-principal", verdict: "any", apply: func(root *xmltree.Node) bool {
			return patch(root, nsDAV, "current-user-principal", func(p *xmltree.Node, i int) {
				p.Children[i].Children = []*xmltree.Node{xmltree.El(nsDAV, "unauthenticated")}
			})
		}},
		{name: "propstat without prop", verdict: "any", apply: func(root *xmltree.Node) bool {
			return patch(root, nsDAV, "prop", func(p *xmltree.Node, i int) { p.Children = append(p.Children[:i:i], p.Children[i+1:]...) })
		}},
		{name: "empty multistatus", verdict: "any", apply: func(root *xmltree.Node) bool { root.Children = nil; return true }},
		{name: "negative max-resource-size", verdict: "any", apply: func(root *xmltree.Node) bool {
			return setText(nsCal, "max-resource-size", "-5")(root) || setText(nsCard, "max-resource-size", "-5")(root)
		}},
	}
	for i := 0; i < 24; i++ {
		i := i
		for _, fam := range []struct{ ns, local, f string }{{nsCal, "calendar-data", "cal"}, {nsCard, "address-data", "card"}} {
			fam := fam
			text, name, verdict := brokenObject(fam.f, i)
			if fam.f == "card" && i >= 6 || fam.f == "cal" && i >= len(badICalLines) {
				continue
			}
			cors = append(cors, corruption{name: "embedded object: " + name, verdict: verdict, family: "malformed " + famName(fam.f),
				apply: setText(fam.ns, fam.local, text)})
		}
	}
	reps := g.c.Pick(3, 12)
	for mi := range methods {
		m := &methods[mi]
		if !m.multistatus() {
			continue
		}
		for ci := range cors {
			co := &cors[ci]
			if co.only != nil && !co.only(m) {
				continue
			}
			for rep := 0; rep < reps; rep++ {
				r := g.c.Rand(fmt.Sprintf("corrupt/%s/%d", m.Name, ci), rep)
				d := cleanDoc(m, r, 1)
				d.OnePer = false
				// the corrupted element is the first of its name: give the first
				// response every property so that the patch finds its target
				if len(d.Res) > 0 && d.Res[0].Status == 0 {
					kind := d.Res[0].Kind
					if len(m.Kinds) > 0 {
						kind = m.Kinds[0]
					}
					need, opt := m.propsFor(kind)
					d.Res[0].Kind = kind
					d.Res[0].Props = nil
					for _, id := range append(append([]string(nil), need...), opt...) {
						d.Res[0].Props = append(d.Res[0].Props, pv{id, 200})
					}
				}
				root := d.tree()
				if !co.apply(root) {
					continue
				}
				idx, mine := g.next()
				if !mine {
					continue
				}
				var lx *xmltree.Lex
				if rep%2 == 1 {
					lx = xmltree.FullLex(r)
				}
				cs := g.newCase(m, "corrupt", "corrupt multistatus", 207)
				cs.Header = [][2]string{{"Content-Type", xmlType(idx)}}
				cs.setBody(xmltree.Render(root, lx))
				cs.Exp = Expect{Verdict: co.verdict}
				grp := co.group
				if grp == "" {
					switch {
					case strings.Contains(co.name, "status"):
						grp = "uninterpretable status line"
					case strings.Contains(co.name, "-data") || strings.Contains(co.name, "embedded"):
						grp = "uninterpretable embedded object"
					case co.verdict == "err":
						grp = "uninterpretable property value"
					default:
						grp = "DTD-invalid structure"
					}
				}
				cs.Class = "207 + multistatus with " + grp
				cs.Family = co.family
				cs.DKey = m.Name + "|207 + multistatus: " + co.name
				runCase(g.c, cs)
			}
		}
	}
	// The same broken objects as GET bodies.
	for _, name := range []string{"caldav.GetCalendarObject", "carddav.GetAddressObject"} {
		m := methodByName(name)
		for i := 0; i < len(badICalLines); i++ {
			if m.Fam == "card" && i >= 6 {
				continue
			}
			_, mine := g.next()
			if !mine {
				continue
			}
			text, bname, verdict := brokenObject(m.Fam, i)
			cs := g.newCase(m, "corrupt", "corrupt object", 200)
			cs.Header = [][2]string{{"Content-Type", objType(m.Fam)}}
			cs.setBody([]byte(text))
			cs.Exp = Expect{Verdict: verdict}
			cs.Class = "http 2xx + malformed object"
			cs.Family = "malformed " + famName(m.Fam)
			cs.DKey = m.Name + "|http 2xx + object: " + bname
			runCase(g.c, cs)
		}
		// right body, wrong or unparsable Content-Type
		for i, ct := range []string{"", "text/plain", "application/octet-stream", "text/calendar-x", ";;;", "text/vcardx; charset=utf-8"} {
			_, mine := g.next()
			if !mine {
				continue
			}
			cs := g.newCase(m, "corrupt", "object with wrong type", 200)
			if ct != "" {
				cs.Header = [][2]string{{"Content-Type", ct}}
			}
			cs.setBody([]byte(objText(m.Fam, "okobj", i%2 == 0)))
			cs.Exp = Expect{Verdict: "err"}
			cs.Class = "http 2xx + valid object with wrong Content-Type"
			cs.DKey = fmt.Sprintf("%s|%s|%d", m.Name, cs.Class, i)
			runCase(g.c, cs)
		}
	}
}

// --- random byte mutations (no-panic only) ------------------------------------------------------

func mutate(r *rand.Rand, b []byte) []byte {
	out := append([]byte(nil), b...)
	junk := []byte("<>/&;\"'= :\r\n\x00#x[]!-?%")
	for ops := 1 + r.Intn(3); ops > 0 && len(out) > 0; ops-- {
		p := r.Intn(len(out))
		switch r.Intn(8) {
		case 0:
			out[p] = byte(r.Intn(256))
		case 1:
			out[p] = junk[r.Intn(len(junk))]
		case 2:
			n := 1 + r.Intn(20)
			if p+n > len(out) {
				n = len(out) - p
			}
			out = append(out[:p:p], out[p+n:]...)
		case 3:
			var ins []byte
			for k := 1 + r.Intn(6); k > 0; k-- {
				ins = append(ins, junk[r.Intn(len(junk))])
			}
			out = append(out[:p:p], append(ins, out[p:]...)...)
		case 4:
			n := 1 + r.Intn(40)
			if p+n > len(out) {
				n = len(out) - p
			}
			dup := append([]byte(nil), out[p:p+n]...)
			out = append(out[:p:p], append(dup, out[p:]...)...)
		case 5:
			// cut the rest of the line / up to the next tag
			q := p
			for q < len(out) && out[q] != '\n' && out[q] != '\r' && out[q] != '<' {
				q++
			}
			out = append(out[:p:p], out[q:]...)
		case 6:
			for q := p; q < len(out); q++ {
				if out[q] >= '0' && out[q] <= '9' {
					out[q] = byte('0' + r.Intn(10))
					break
				}
			}
		case 7:
			q := r.Intn(len(out))
			out[p], out[q] = out[q], out[p]
		}
	}
	return out
}

func (g *gen) mutations() {
	n := g.c.Pick(1500, 40000)
	for mi := range methods {
		m := &methods[mi]
		switch {
		case m.multistatus():
			for i := 0; i < n; i++ {
				idx, mine := g.next()
				if !mine {
					continue
				}
				r := g.c.Rand("mut/"+m.Name, i)
				d := cleanDoc(m, r, 1)
				cs := g.newCase(m, "mutations", "mutated multistatus", 207)
				cs.Header = [][2]string{{"Content-Type", xmlType(idx)}}
				embedded := i%3 == 0 && (strings.Contains(m.Name, "Query") || strings.Contains(m.Name, "MultiGet"))
				if embedded {
					// well-formed XML around a mutated object
					root := d.tree()
					ns, local := nsCal, "calendar-data"
					if m.Fam == "card" {
						ns, local = nsCard, "address-data"
					}
					setText(ns, local, string(bytes.ToValidUTF8(bytes.ReplaceAll(mutate(r, []byte(objText(m.Fam, "okobj", true))), []byte{0}, []byte{' '}), []byte("?"))))(root)
					cs.setBody(xmltree.Render(root, nil))
					cs.Kind = "multistatus with mutated object"
					cs.Family = "malformed " + famName(m.Fam)
				} else {
					var lx *xmltree.Lex
					if i%2 == 0 {
						lx = xmltree.FullLex(r)
					}
					cs.setBody(mutate(r, render(d, lx)))
					cs.Family = "malformed multistatus"
				}
				cs.Exp = Expect{Verdict: "any"}
				cs.Class = "207 + " + cs.Kind
				cs.DKey = fmt.Sprintf("%s|%s|%d", m.Name, cs.Class, i%16)
				runCase(g.c, cs)
			}
		case m.Kind == "getobj":
			for i := 0; i < n*2; i++ {
				_, mine := g.next()
				if !mine {
					continue
				}
				r := g.c.Rand("mut/"+m.Name, i)
				cs := g.newCase(m, "mutations", "mutated object", 200)
				cs.Header = [][2]string{{"Content-Type", objType(m.Fam)}}
				cs.setBody(mutate(r, []byte(objText(m.Fam, "okobj", i%4 != 0))))
				cs.Exp = Expect{Verdict: "any"}
				cs.Class = "http 2xx + mutated object"
				cs.Family = "malformed " + famName(m.Fam)
				cs.DKey = fmt.Sprintf("%s|%s|%d", m.Name, cs.Class, i%16)
				runCase(g.c, cs)
			}
		}
	}
}

// --- header variants ------------------------------------------------------------------------------

func (g *gen) headers() {
	m := methodByName("carddav.HasSupport")
	type hv struct {
		name    string
		dav     []string
		verdict string
	}
	for _, v := range []hv{
		{"DAV: 1, 3, addressbook", []string{"1, 3, addressbook"}, "ok"},
		{"DAV: 1,addressbook", []string{"1,addressbook"}, "ok"},
		{"DAV on two header lines", []string{"1, 2", "access-control, addressbook"}, "ok"},
		{"DAV: addressbook , 1", []string{"addressbook , 1"}, "ok"},
		{"DAV with many classes", []string{"1, 2, 3, access-control, calendar-access, addressbook, extended-mkcol"}, "ok"},
		{"no DAV header", nil, "any"},
		{"DAV without addressbook", []string{"1, 2, calendar-access"}, "any"},
		{"DAV without class 1", []string{"addressbook"}, "any"},
		{"DAV: empty", []string{""}, "any"},
	} {
		for _, status := range []int{200, 204, 207, 299} {
			_, mine := g.next()
			if !mine {
				continue
			}
			cs := g.newCase(m, "headers", "options", status)
			for _, d := range v.dav {
				cs.Header = append(cs.Header, [2]string{"DAV", d})
			}
			cs.Exp = Expect{Verdict: v.verdict}
			cs.Class = "http 2xx + DAV header variants"
			cs.DKey = m.Name + "|http 2xx + " + v.name
			runCase(g.c, cs)
		}
	}
}

// --- error-answer bodies -----------------------------------------------------------------------------

// The body of a non-2xx answer as an input axis of its own: length x content
// x Content-Type x status x method. Whatever the body holds, the call returns
// an error carrying the status (and the DAV:error condition when the body is
// a complete DAV:error document of an XML type) and nothing else.

var errBodyLens = []int{0, 1, 1023, 1024, 1025, 4096, 1 << 20}

var errBodyContents = []string{"ascii", "nul", "space", "space-then-text",
	"utf8-w2s0", "utf8-w2s1", "utf8-w3s0", "utf8-w3s1", "utf8-w3s2", "utf8-w4s0", "utf8-w4s1", "utf8-w4s2", "utf8-w4s3",
	"x80-run", "xbf-run", "xff-run", "xc0x80", "lead-at-cut", "cont-after-space", "daverr-ok", "daverr-cut"}

var errBodyTypes = []string{"text/plain", "text/plain; charset=utf-8", "text/plain; charset=iso-8859-1", "text/html",
	"application/xml", "text/xml; charset=utf-8", "", "text/plain; charset", ";;;", "TEXT/Plain",
	// media types are case-insensitive (RFC 7231 section 3.1.1.1), optional white space around the parameter separator
	"Application/XML", "TEXT/XML; charset=UTF-8", "application/Xml;charset=utf-8", `Text/xml ; charset="utf-8"`}

// isXMLMediaType: the Content-Type names application/xml or text/xml.
func isXMLMediaType(ct string) bool {
	t, _, err := mime.ParseMediaType(ct)
	return err == nil && (t == "application/xml" || t == "text/xml")
}

var errBodyCache = map[string][]byte{}

// errBody builds the body deterministically; ok=false when the content class
// has no instance of that length.
func errBody(content string, n int, fam string) (b []byte, ok bool) {
	key := fmt.Sprintf("%s:%d:%s", content, n, fam)
	if c, hit := errBodyCache[key]; hit {
		return c, c != nil
	}
	defer func() {
		if !ok {
			b = nil
		}
		errBodyCache[key] = b
	}()
	fill := func(unit []byte) []byte {
		if n == 0 {
			return []byte{}
		}
		return bytes.Repeat(unit, n/len(unit)+1)[:n]
	}
	var w, sh int
	switch {
	case content == "ascii":
		return fill([]byte("The server refused the request because of insufficient frobnication. ")), true
	case content == "nul":
		return fill([]byte("nul\x00byte\x00\x00")), true
	case content == "space":
		return fill([]byte(" \t\r\n")), true
	case content == "space-then-text":
		if n < 2 {
			return nil, false
		}
		b = fill([]byte("  \n"))
		copy(b[n/2:], fill([]byte("late text ")))
		return b, true
	case content == "x80-run":
		return fill([]byte{0x80}), true
	case content == "xbf-run":
		return fill([]byte{0xbf, 0x80, 0x9f}), true
	case content == "xff-run":
		return fill([]byte{0xff}), true
	case content == "xc0x80":
		return fill([]byte{0xc0, 0x80, 0xfe}), true
	case content == "cont-after-space":
		// white space, then nothing but continuation bytes
		if n < 8 {
			return nil, false
		}
		b = fill([]byte{0x80, 0xa0})
		copy(b, "  \r\n\t ")
		return b, true
	case content == "lead-at-cut":
		// ASCII with a lone lead byte where a 1024-byte limit cuts, and at the end
		if n < 2 {
			return nil, false
		}
		b = fill([]byte("plain ascii text "))
		for _, p := range []int{1022, 1023, 1024, n - 1} {
			if p >= 0 && p < n {
				b[p] = []byte{0xe2, 0xf0, 0xc3, 0xe2}[p%4]
			}
		}
		return b, true
	case strings.HasPrefix(content, "utf8-w"):
		fmt.Sscanf(content, "utf8-w%ds%d", &w, &sh)
		if n <= sh {
			return nil, false
		}
		r := map[int]string{2: "é", 3: "€", 4: "😀"}[w]
		var sb bytes.Buffer
		sb.WriteString(strings.Repeat("a", sh))
		for sb.Len() < n {
			sb.WriteString(r)
		}
		return sb.Bytes()[:n], true // the last rune may be cut: that is the point
	case content == "daverr-ok" || content == "daverr-cut":
		sp, lo := condFor(fam)
		head := fmt.Sprintf(`<?xml version="1.0" encoding="utf-8"?><D:error xmlns:D="DAV:"><c:%s xmlns:c="%s"/>`, lo, sp)
		tail := "</D:error>"
		if content == "daverr-cut" {
			if n == 0 {
				return nil, false
			}
			doc := head + "<!--" + strings.Repeat(" filler é", n/8+1) + "-->" + tail
			return []byte(doc)[:n], true
		}
		min := len(head) + len(tail)
		switch {
		case n < min:
			return nil, false
		case n < min+7:
			return []byte(head + strings.Repeat(" ", n-min) + tail), true
		}
		return []byte(head + "<!--" + strings.Repeat("x", n-min-7) + "-->" + tail), true
	}
	return nil, false
}

// errBodyClass is the coarse body class used in panic keys (one defect, one
// key per method).
func errBodyClass(content string) string {
	switch {
	case content == "x80-run" || content == "xbf-run" || content == "cont-after-space":
		return "invalid UTF-8, continuation bytes only"
	case content == "xff-run" || content == "xc0x80" || content == "lead-at-cut":
		return "invalid UTF-8, stray lead or illegal bytes"
	case strings.HasPrefix(content, "utf8-"):
		return "multi-byte UTF-8 text"
	case strings.HasPrefix(content, "daverr-"):
		return "DAV:error document"
	}
	return "ASCII, white space or NULs"
}

func (g *gen) errorBodies() {
	statuses := []int{302, 404, 500}
	if g.c.Thorough() {
		statuses = []int{100, 301, 302, 400, 404, 409, 500, 503, 599}
	}
	order := make([]*minfo, 0, len(methods))
	for mi := range methods {
		if methods[mi].Kind != "create" {
			order = append(order, &methods[mi])
		}
	}
	order = append(order, methodByName("webdav.Create"))
	for _, m := range order {
		for _, content := range errBodyContents {
			for _, n := range errBodyLens {
				body, ok := errBody(content, n, m.Fam)
				if !ok {
					continue
				}
				for ti, ct := range errBodyTypes {
					for si, status := range statuses {
						if n == 1<<20 && si != len(statuses)-1 {
							continue // the 1 MiB bodies with one status only
						}
						idx, mine := g.next()
						if !mine {
							continue
						}
						cs := g.newCase(m, "errbodies", content, status)
						if ct != "" {
							cs.Header = [][2]string{{"Content-Type", ct}}
						}
						if m.Kind == "options" {
							cs.Header = append(cs.Header, [2]string{"DAV", "1, addressbook"})
						}
						if n == 1<<20 {
							cs.Gen = fmt.Sprintf("errbody:%s:%d:%s", content, n, m.Fam)
							cs.body = body
						} else {
							cs.setBody(body)
						}
						cs.Chunk = []int{0, 0, 7, 1024}[idx%4]
						if idx%3 == 2 {
							cs.Via = "basic-auth"
						}
						cs.Exp = Expect{Verdict: "err", HTTPCode: status, NoData: true}
						if content == "daverr-ok" && isXMLMediaType(ct) {
							sp, lo := condFor(m.Fam)
							cs.Exp.Cond = "{" + sp + "}" + lo
						}
						cs.Class = "http " + failClass(status)
						cs.Family = "error body: " + errBodyClass(content)
						cs.DKey = fmt.Sprintf("%s|http %s|errbody %s|len=%d|ct=%d", m.Name, failClass(status), content, n, ti)
						g.c.Observe("error_bodies", fmt.Sprintf("%s, %d bytes", content, n), 1)
						runCase(g.c, cs)
						if cs.Gen != "" {
							cs.body = nil
						}
					}
				}
			}
		}
	}
}

// --- error pages -------------------------------------------------------------------------------------

// What servers and the proxies in front of them really send with a failing
// status: an HTML page (or a JSON problem document), not necessarily in UTF-8.
// Markup template x text class x tag-name case x Content-Type x every prefix
// of the page (a cut page ends right behind any of its tags). The body is
// opaque to the property: an error with the status, no data, no panic.

var pageTemplates = []struct{ name, text string }{
	{"minimal", "<html><head><title>\x01</title></head><body><h1>\x01</h1></body></html>"},
	{"proxy", "<html>\r\n<head><title>502 \x01</title></head>\r\n<body>\r\n<center><h1>502 \x01</h1></center>\r\n<hr><center>nginx</center>\r\n</body>\r\n</html>\r\n"},
	{"doctype", "<!DOCTYPE HTML PUBLIC \"-//IETF//DTD HTML 2.0//EN\">\n<html lang=\"en\"><head>\n<meta http-equiv=\"Content-Type\" content=\"text/html; charset=iso-8859-1\">\n" +
		"<title lang=\"en\">\x01</title>\n</head><body>\n<h1>\x01</h1>\n<p>\x01<br />\n</p>\n<hr>\n<address>Apache Server at dav.example Port 80</address>\n</body></html>\n"},
	{"title-only", "<title>\x01</title>"},
	{"text-then-title", "\x01 <title>\x01</title> \x01"},
	{"misnested", "</title>\x01<title>\x01<title></title></title><body>"},
	{"unclosed", "<html><head><title>\x01"},
	{"json", "{\"type\":\"about:blank\",\"title\":\"\x01\",\"status\":502,\"detail\":\"<title>\x01</title>\"}"},
}

var pageTexts = []struct{ name, class, text string }{
	{"ascii", "ASCII text", "Bad Gateway"},
	{"latin1", "ISO-8859-1 text", "Zugriff verweigert f\xfcr \xe4\xf6\xfc\xdf \xc9\xc8\xc0\xd1o"},
	{"utf8", "UTF-8 text", "Acc\u00e8s refus\u00e9 \u2014 \u7981\u6b62 \U0001F600"},
	// runes whose upper or lower case has another length in UTF-8
	{"casemap", "text whose case mappings change length", "\u023a\u023e\u023a\u023e \u0130\u212a \u017f\u0131\u0250\u023f \u1e9e \u023a\u023e"},
	{"control", "control characters", "a\x00b\x1b[31mc\x7f\x08"},
}

// tagCase rewrites the tag names of a page: 0 as written, 1 upper case,
// 2 alternating.
func tagCase(page string, mode int) string {
	if mode == 0 {
		return page
	}
	b := []byte(page)
	in := false
	k := 0
	for i, ch := range b {
		switch {
		case ch == '<':
			in, k = true, 0
		case in && (ch == '/' || ch == '!') && b[i-1] == '<':
		case in && (ch >= 'a' && ch <= 'z' || ch >= 'A' && ch <= 'Z' || ch >= '0' && ch <= '9'):
			if ch >= 'a' && ch <= 'z' && (mode == 1 || k%2 == 0) {
				b[i] = ch - 'a' + 'A'
			}
			k++
		default:
			in = false
		}
	}
	return string(b)
}

var pageTypes = []string{"text/html", "text/html; charset=iso-8859-1", "TEXT/HTML; charset=UTF-8", "application/xhtml+xml", "text/plain", ""}
var pageTypesJSON = []string{"application/json", "application/problem+json", "text/json", "text/html"}

func (g *gen) errorPages(create bool) {
	statuses := []int{302, 404, 500, 502, 503}
	var ms []*minfo
	for mi := range methods {
		if (methods[mi].Kind == "create") == create {
			ms = append(ms, &methods[mi])
		}
	}
	one := func(m *minfo, pi int, tmpl, text, class string, tc int, page []byte, off int, ct string, status int) {
		cs := g.newCase(m, "errpages", "error page", status)
		if ct != "" {
			cs.Header = [][2]string{{"Content-Type", ct}}
		}
		if m.Kind == "options" {
			cs.Header = append(cs.Header, [2]string{"DAV", "1, addressbook"})
		}
		cs.setBody(page[:off:off])
		cs.Chunk = []int{0, 0, 5}[pi%3]
		if pi%4 == 3 {
			cs.Via = "basic-auth"
		}
		cs.Exp = Expect{Verdict: "err", HTTPCode: status, NoData: true}
		cs.Class = "http " + failClass(status)
		cs.Family = "error page, " + class
		cut := "whole"
		if off < len(page) {
			cut = cutContext(page, off)
		}
		cs.DKey = fmt.Sprintf("%s|http %s|errpage %s|%s|tags=%d|ct=%s|%s", m.Name, failClass(status), tmpl, text, tc, ct, cut)
		g.c.Observe("error_pages", fmt.Sprintf("%s, %s, %s", tmpl, class, map[bool]string{true: "whole", false: "cut"}[off == len(page)]), 1)
		runCase(g.c, cs)
	}
	pi := 0
	for _, tp := range pageTemplates {
		types := pageTypes
		if tp.name == "json" {
			types = pageTypesJSON
		}
		for _, tx := range pageTexts {
			for tc := 0; tc < 3; tc++ {
				if tp.name == "json" && tc > 0 {
					continue
				}
				// (tag names only: the text is put in after the case change)
				page := []byte(strings.ReplaceAll(tagCase(tp.text, tc), "\x01", tx.text))
				// the whole page: every method x every Content-Type
				for mi, m := range ms {
					for ti, ct := range types {
						_, mine := g.next()
						if !mine {
							continue
						}
						one(m, pi+mi+ti, tp.name, tx.name, tx.class, tc, page, len(page), ct, statuses[(pi+mi+ti)%len(statuses)])
					}
				}
				// every proper prefix: quick with two methods in turn, thorough with all
				for off := 0; off < len(page); off++ {
					for mi, m := range ms {
						if !g.c.Thorough() && (!create && mi != (pi+off)%len(ms) && mi != (pi+off+11)%len(ms) || create && (pi+off)%4 != 0) {
							continue
						}
						_, mine := g.next()
						if !mine {
							continue
						}
						one(m, pi+off+mi, tp.name, tx.name, tx.class, tc, page, off, types[(off+mi)%2], statuses[(pi+off)%len(statuses)])
					}
				}
				pi++
			}
		}
	}
}

// --- failing answers whose body never ends --------------------------------------------------------

// A server may stream a body that has no end (or one of many gigabytes). For
// a failing answer the client needs at most a bounded prefix of it, so every
// call must still return, with the status. XML media types are left out: the
// error document is read by a streaming XML decoder, for which "the document
// goes on" is indistinguishable from "wait for the root to end".
func (g *gen) endless() {
	statuses := []int{403, 500}
	if g.c.Thorough() {
		statuses = []int{100, 301, 401, 403, 404, 412, 500, 507}
	}
	for mi := range methods {
		m := &methods[mi]
		for ti, ct := range []string{"", "text/plain", "text/html; charset=utf-8", "application/octet-stream", "application/json"} {
			for _, status := range statuses {
				idx, mine := g.next()
				if !mine {
					continue
				}
				cs := g.newCase(m, "endless", "endless-error-body", status)
				if ct != "" {
					cs.Header = [][2]string{{"Content-Type", ct}}
				}
				if m.Kind == "options" {
					cs.Header = append(cs.Header, [2]string{"DAV", "1, addressbook"})
				}
				cs.setBody([]byte("the request failed\n"))
				cs.Endless = true
				cs.Chunk = []int{0, 4096, 1, 0}[idx%4]
				if idx%2 == 1 {
					cs.Via = "basic-auth"
				}
				cs.Exp = Expect{Verdict: "err", HTTPCode: status, NoData: true}
				cs.Class = "http " + failClass(status) + " + body that never ends"
				cs.DKey = fmt.Sprintf("%s|http %s|endless|ct=%d", m.Name, failClass(status), ti)
				runCase(g.c, cs)
			}
		}
	}
}

// --- authentication challenges through the basic-auth wrapper -------------------------------------

// 401 / 407 answers with every kind of challenge, through a client built on
// HTTPClientWithBasicAuth and on the fake directly: the error carries the
// status (and the DAV:error condition of an XML body) whatever the challenge
// offers.
func (g *gen) challenges() {
	sets := [][][2]string{
		nil,
		{{"WWW-Authenticate", `Basic realm="dav"`}},
		{{"WWW-Authenticate", `Digest realm="dav", nonce="abc", qop="auth"`}},
		{{"WWW-Authenticate", "Negotiate"}},
		{{"WWW-Authenticate", `Bearer realm="dav", error="invalid_token"`}},
		{{"WWW-Authenticate", `Digest realm="dav", nonce="abc"`}, {"WWW-Authenticate", `Basic realm="dav"`}},
		{{"WWW-Authenticate", `Negotiate, Basic realm="dav"`}},
		{{"WWW-Authenticate", "basic"}},
		{{"WWW-Authenticate", ""}},
		{{"Proxy-Authenticate", `Basic realm="proxy"`}},
	}
	for mi := range methods {
		m := &methods[mi]
		for si, set := range sets {
			for _, status := range []int{401, 407, 403} {
				for bi, bodyKind := range []string{"none", "text", "daverr"} {
					for _, via := range []string{"basic-auth", ""} {
						_, mine := g.next()
						if !mine {
							continue
						}
						cs := g.newCase(m, "challenges", bodyKind, status)
						cs.Header = append([][2]string(nil), set...)
						cs.Via = via
						cs.Exp = Expect{Verdict: "err", HTTPCode: status, NoData: true}
						switch bodyKind {
						case "text":
							cs.Header = append(cs.Header, [2]string{"Content-Type", "text/plain"})
							cs.setBody([]byte("authentication required\n"))
						case "daverr":
							cs.Header = append(cs.Header, [2]string{"Content-Type", "application/xml; charset=utf-8"})
							cs.setBody(xmltree.Render(davErrorTree(m.Fam), nil))
							sp, lo := condFor(m.Fam)
							cs.Exp.Cond = "{" + sp + "}" + lo
						}
						if m.Kind == "options" {
							cs.Header = append(cs.Header, [2]string{"DAV", "1, addressbook"})
						}
						cs.Class = "http " + failClass(status) + " + authentication challenge"
						cs.DKey = fmt.Sprintf("%s|http %d|challenge %d|body %d|via %s", m.Name, status, si, bi, via)
						runCase(g.c, cs)
					}
				}
			}
		}
	}
}

// --- entity headers of successful GET / PUT answers -----------------------------------------------

// The object calls read ETag, Last-Modified, Content-Length, Location and
// Content-Type of a successful answer. Every value a server may put there -
// empty, a bare prefix, unterminated, weak, over-long, another date format -
// gives a result or an error (the statement does not say which), never a
// panic or a hang.
var hostileEntityHeaders = map[string][]string{
	"ETag": {"", `W/`, `"`, `W/"`, `W/"x"`, `W/""`, `"unterminated`, `x`, `""`, `"a"b"`, "\\", `"\"`, `"\`, `" "`, `"é"`, `w/"x"`, `W/ "x"`, `"x", "y"`, `*`,
		`"` + strings.Repeat("t", 70000) + `"`},
	"Last-Modified": {"", "garbage", "Mon, 99 Jan 2024 00:00:00 GMT", "0", "Monday, 02-Jan-06 15:04:05 GMT", "Mon Jan  2 15:04:05 2006", "Mon, 02 Jan 2006 15:04:05 +0100",
		"Mon, 02 Jan 2006 15:04:05", "Mon, 02 Jan 2006 15:04:05 GMT GMT", "Mon, 02 Jan 0000 00:00:00 GMT", "Fri, 31 Dec 9999 23:59:59 GMT"},
	"Content-Length": {"", "-1", "abc", "99999999999999999999", " 5", "5 ", "0x10", "1e3"},
	"Location":       {"", "://", "%zz", "http://[::1", "relative/path", "/abs%2Fpath", "http://other.example/x", "?q", "#f", "//host", "/a b", "http://dav.example:99999/x", "\x7f"},
	"Content-Type":   {"", ";;;", "text/calendar; charset", "TEXT/CALENDAR", "text/vcard; =x", "text/x", "/", "text/calendar;charset=\"utf-8", "application/octet-stream"},
}

func (g *gen) entityHeaders() {
	names := []string{"ETag", "Last-Modified", "Content-Length", "Location", "Content-Type"}
	for mi := range methods {
		m := &methods[mi]
		if m.Kind != "getobj" && m.Kind != "putobj" {
			continue
		}
		for ni, name := range names {
			for vi, val := range hostileEntityHeaders[name] {
				for _, status := range []int{200, 201, 204} {
					_, mine := g.next()
					if !mine {
						continue
					}
					cs := g.newCase(m, "entity-headers", name, status)
					body := []byte(objText(m.Fam, "hdr", false))
					if name != "Content-Type" {
						cs.Header = append(cs.Header, [2]string{"Content-Type", objType(m.Fam)})
					}
					if name != "ETag" && vi%2 == 0 {
						cs.Header = append(cs.Header, [2]string{"ETag", `"fine"`})
					}
					cs.Header = append(cs.Header, [2]string{name, val})
					if m.Kind == "getobj" && status != 204 {
						cs.setBody(body)
					}
					cs.Exp = Expect{Verdict: "any"}
					cs.Class = "http 2xx + hostile " + name + " header"
					cs.DKey = fmt.Sprintf("%s|2xx|hostile header %d value %d", m.Name, ni, vi)
					runCase(g.c, cs)
				}
			}
		}
	}
}

// --- oversized bodies ---------------------------------------------------------------------------------

const oversize = 8 << 20

func genBody(name string) []byte {
	parts := strings.SplitN(name, ":", 2)
	arg := ""
	if len(parts) == 2 {
		arg = parts[1]
	}
	switch parts[0] {
	case "errbody":
		f := strings.Split(arg, ":")
		if len(f) != 3 {
			return nil
		}
		n, _ := strconv.Atoi(f[1])
		b, _ := errBody(f[0], n, f[2])
		return b
	case "text8m":
		return bytes.Repeat([]byte("All work and no play makes Jack a dull boy.\n"), oversize/44+1)
	case "raw8m":
		b := make([]byte, oversize)
		rand.New(rand.NewSource(14)).Read(b)
		return b
	case "daverr8m":
		var sb bytes.Buffer
		sp, lo := condFor(arg)
		fmt.Fprintf(&sb, `<?xml version="1.0" encoding="utf-8"?><D:error xmlns:D="DAV:"><c:%s xmlns:c="%s"/>`, lo, sp)
		for sb.Len() < oversize {
			sb.WriteString("<D:responsedescription>filler filler filler filler filler filler</D:responsedescription>\n")
		}
		sb.WriteString("</D:error>")
		return sb.Bytes()
	case "obj8m":
		var sb bytes.Buffer
		if arg == "card" {
			// (go-vcard unfolds by repeated string concatenation: one property
			// folded 100 000 times would take minutes; many properties instead)
			sb.WriteString("BEGIN:VCARD\r\nVERSION:4.0\r\nUID:uid-big\r\nFN:okbig\r\n")
			for sb.Len() < oversize {
				sb.WriteString("NOTE:sixty more characters of note text to fill the line, and\r\n  one folded continuation\r\n")
			}
			sb.WriteString("END:VCARD\r\n")
		} else {
			sb.WriteString("BEGIN:VCALENDAR\r\nVERSION:2.0\r\nPRODID:-//verif//c14//EN\r\n")
			sb.WriteString("BEGIN:VEVENT\r\nUID:uid-big\r\nDTSTAMP:20200101T000000Z\r\nDTSTART:20200102T100000Z\r\nSUMMARY:okbig\r\nEND:VEVENT\r\n")
			for i := 0; sb.Len() < oversize; i++ {
				fmt.Fprintf(&sb, "BEGIN:VEVENT\r\nUID:uid-big\r\nDTSTAMP:20200101T000000Z\r\nRECURRENCE-ID:%08dT100000Z\r\nDTSTART:20200102T100000Z\r\nSUMMARY:filler\r\nEND:VEVENT\r\n", 20200102+i%20)
			}
			sb.WriteString("END:VCALENDAR\r\n")
		}
		return sb.Bytes()
	case "ms8m":
		m := methodByName(arg)
		d := bigDoc(m)
		one := render(d, nil)
		if m.Kind == "ms1" {
			// pad the single response with a huge comment
			i := bytes.IndexByte(one, '>') + 1
			var sb bytes.Buffer
			sb.Write(one[:i])
			sb.WriteString("<!-- ")
			sb.Write(bytes.Repeat([]byte("padding padding padding padding padding padding padding padding\n"), oversize/64+1))
			sb.WriteString(" -->")
			sb.Write(one[i:])
			return sb.Bytes()
		}
		start := bytes.Index(one, []byte("<n:response"))
		endTag := []byte("</n:response>")
		end := bytes.LastIndex(one, endTag) + len(endTag)
		frag := string(one[start:end])
		var sb bytes.Buffer
		sb.Write(one[:start])
		for i := 0; i < bigCount(m); i++ {
			sb.WriteString(strings.Replace(frag, "PLACEHOLDER", fmt.Sprintf("big%06d", i), 1))
		}
		sb.Write(one[end:])
		return sb.Bytes()
	}
	return nil
}

func bigDoc(m *minfo) *docSpec {
	kind := ""
	if len(m.Kinds) > 0 {
		kind = m.Kinds[0]
	}
	need, opt := m.propsFor(kind)
	rs := res{Kind: kind}
	for _, id := range append(append([]string(nil), need...), opt...) {
		rs.Props = append(rs.Props, pv{id, 200})
	}
	if m.Kind != "ms1" {
		rs.Name = "PLACEHOLDER"
	}
	d := &docSpec{M: m, Res: []res{rs}}
	if m.Kind == "sync" {
		d.Token = "http://dav.example/sync/big"
	}
	return d
}

func bigCount(m *minfo) int {
	one := render(bigDoc(m), nil)
	start := bytes.Index(one, []byte("<n:response"))
	end := bytes.LastIndex(one, []byte("</n:response>")) + len("</n:response>")
	return oversize/(end-start) + 1
}

func (g *gen) oversized() {
	for mi := range methods {
		m := &methods[mi]
		type big struct {
			gen    string
			status int
			ct     string
			exp    Expect
			kind   string
		}
		sp, lo := condFor(m.Fam)
		l := []big{
			{"text8m", 500, "text/plain", Expect{Verdict: "err", HTTPCode: 500}, "text"},
			{"daverr8m:" + m.Fam, 403, "application/xml", Expect{Verdict: "err", HTTPCode: 403, Cond: "{" + sp + "}" + lo}, "dav-error(application/xml)"},
		}
		switch {
		case m.multistatus():
			d := bigDoc(m)
			exp, _, _ := d.expect()
			if m.Kind != "ms1" {
				exp = Expect{Verdict: "ok", Count: bigCount(m)}
			}
			l = append(l, big{"ms8m:" + m.Name, 207, "application/xml", exp, "multistatus"})
		case m.Kind == "getobj":
			l = append(l, big{"obj8m:" + m.Fam, 200, objType(m.Fam), Expect{Verdict: "ok", Data: &Out{Entries: []Entry{{Path: m.Base, Obj: "okbig"}}}}, "object"})
		case m.Kind == "open":
			b := genBody("raw8m")
			l = append(l, big{"raw8m", 200, "application/octet-stream", Expect{Verdict: "ok", Data: &Out{BodyLen: len(b), BodySum: bodySum(b)}}, "raw"})
		}
		for _, b := range l {
			_, mine := g.next()
			if !mine {
				continue
			}
			cs := g.newCase(m, "oversized", b.kind, b.status)
			cs.Gen = b.gen
			cs.Header = [][2]string{{"Content-Type", b.ct}}
			if m.Kind == "options" {
				cs.Header = append(cs.Header, [2]string{"DAV", "1, addressbook"})
			}
			cs.Exp = b.exp
			switch {
			case b.status/100 != 2:
				cs.Class = "http " + failClass(b.status)
			case b.kind == "multistatus":
				cs.Class = "207 + valid multistatus"
			case b.kind == "object":
				cs.Class = "http 2xx + valid object"
			default:
				cs.Class = "http 2xx"
			}
			cs.DKey = m.Name + "|http " + httpClass(b.status) + " + 8 MiB " + b.kind
			runCase(g.c, cs)
			cs.body = nil
		}
	}
}

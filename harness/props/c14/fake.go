package c14

import (
	"bytes"
	"fmt"
	"io"
	"io/ioutil"
	"net/http"
	"sync/atomic"
)

// fakeHTTP is the scripted HTTP client every C14 case runs against. It
// answers every request with one canned response, sets Response.Request as
// *http.Client does, canonicalises header names as net/http does, and hands
// out a finite body reader, so that no call can block on it.
type fakeHTTP struct {
	status int
	header [][2]string
	body   []byte
	chunk  int  // > 0: the body reader returns at most chunk bytes per Read
	early  bool // answer without reading the request body (it is closed, as a Transport does)
	// answerAfter > 0: read that many bytes of the request body, then close it
	// and answer (a server that refuses an upload half way)
	answerAfter int64
	// endless: the body never ends by itself - after the scripted bytes come
	// lines of filler until endlessCap bytes have been handed out, then a read
	// error (the fake's patience, not an end of the answer). delivered counts
	// the filler bytes handed out.
	endless   bool
	delivered int64
	// readEnd: how the body ends. "" = (0, io.EOF) after the last byte;
	// "eof-with-data" = the last bytes and io.EOF in one Read (as io.Reader
	// allows); "error" = after the scripted bytes the connection breaks: a
	// read error instead of an end.
	readEnd string
	// started / returned count Do calls entered and left (read by the monitor
	// while a caller may still be blocked)
	started, returned int32

	calls      int
	reqMethod  string
	reqPath    string
	reqBodyLen int64
	bodyClosed bool
}

type fakeBody struct {
	r    io.Reader
	f    *fakeHTTP
	left int // scripted bytes not handed out yet
}

func (b *fakeBody) Read(p []byte) (int, error) {
	if b.f.chunk > 0 && len(p) > b.f.chunk {
		p = p[:b.f.chunk]
	}
	n, err := b.r.Read(p)
	b.left -= n
	switch b.f.readEnd {
	case "eof-with-data":
		if err == nil && b.left <= 0 && !b.f.endless {
			err = io.EOF
		}
	case "error":
		if err == io.EOF {
			err = io.ErrUnexpectedEOF
		}
	}
	return n, err
}

func (b *fakeBody) Close() error {
	b.f.bodyClosed = true
	return nil
}

// endlessCap is how much filler an endless body hands out before the fake
// gives up: far beyond what a client needs to report a failing answer (net/http
// itself drains at most 256 KiB of an unread body).
const endlessCap = 8 << 20

type endlessFiller struct{ f *fakeHTTP }

func (e endlessFiller) Read(p []byte) (int, error) {
	if atomic.LoadInt64(&e.f.delivered) >= endlessCap {
		return 0, io.ErrUnexpectedEOF
	}
	for i := range p {
		p[i] = 'x'
		if i%80 == 79 {
			p[i] = '\n'
		}
	}
	atomic.AddInt64(&e.f.delivered, int64(len(p)))
	return len(p), nil
}

// scriptDone: every Do the fake was given has returned.
func (f *fakeHTTP) scriptDone() bool {
	return atomic.LoadInt32(&f.started) == atomic.LoadInt32(&f.returned)
}

func (f *fakeHTTP) Do(req *http.Request) (*http.Response, error) {
	atomic.AddInt32(&f.started, 1)
	defer atomic.AddInt32(&f.returned, 1)
	f.calls++
	f.reqMethod = req.Method
	f.reqPath = req.URL.Path
	if req.Body != nil {
		switch {
		case f.early:
		case f.answerAfter > 0:
			f.reqBodyLen, _ = io.CopyN(ioutil.Discard, req.Body, f.answerAfter)
		default:
			f.reqBodyLen, _ = io.Copy(ioutil.Discard, req.Body)
		}
		req.Body.Close()
	}
	h := http.Header{}
	for _, kv := range f.header {
		h.Add(kv[0], kv[1])
	}
	// A body handed out in pieces (chunk > 0) is also one of unknown length,
	// as a chunked or streamed answer is, unless the script announces a
	// Content-Length itself.
	cl, te := int64(len(f.body)), []string(nil)
	if f.chunk > 0 && h.Get("Content-Length") == "" {
		cl, te = -1, []string{"chunked"}
	}
	var rd io.Reader = bytes.NewReader(f.body)
	if f.endless {
		rd = io.MultiReader(rd, endlessFiller{f})
		cl, te = -1, []string{"chunked"}
	}
	if f.readEnd == "error" && h.Get("Content-Length") == "" {
		cl, te = -1, []string{"chunked"}
	}
	return &http.Response{
		TransferEncoding: te,
		Status:           fmt.Sprintf("%d %s", f.status, http.StatusText(f.status)),
		StatusCode:       f.status,
		Proto:            "HTTP/1.1",
		ProtoMajor:       1,
		ProtoMinor:       1,
		Header:           h,
		Body:             &fakeBody{r: rd, f: f, left: len(f.body)},
		ContentLength:    cl,
		Request:          req,
	}, nil
}

// Package c14 is the runtime monitor for property C14: clients survive any
// response and report failures with their status.
//
// Every public client method of webdav, caldav and carddav is run against a
// scripted fake HTTP client; the monitor observes (result, error) at the
// public boundary and decides with the rules of DESIGN.md section 6 "C14".
package c14

import (
	"bytes"
	"encoding/hex"
	"encoding/json"
	"errors"
	"fmt"
	"github.com/emersion/go-webdav"
	"hash/fnv"
	"reflect"
	"strings"
	"sync/atomic"
	"time"
	"unicode/utf8"

	"github.com/emersion/go-webdav/carddav"
	"github.com/emersion/go-webdav/internal"
	"github.com/emersion/go-webdav/verifharness/fw"
)

// Expect is the oracle's expectation for one case, computed when the case is
// generated (from the neutral description of the response, never from what
// the library did) and stored in the witness so that a replay re-applies it.
type Expect struct {
	// Verdict: "ok" = nil error required, "err" = error required,
	// "any" = the statement leaves it open.
	Verdict string `json:"verdict"`
	// HTTPCode != 0: the error must unwrap to *internal.HTTPError with this code.
	HTTPCode int `json:"http_code,omitempty"`
	// Cond "{space}local": the error must unwrap to *internal.Error holding
	// this condition element.
	Cond string `json:"cond,omitempty"`
	// Data: exact neutral result required when the call succeeds.
	Data *Out `json:"data,omitempty"`
	// Count > 0: number of entries required (oversized lists).
	Count int `json:"count,omitempty"`
	// Offered: per response, what a successful result may contain.
	Offered []Offer `json:"offered,omitempty"`
	// SyncDeleted: paths reported with a 404 response status (sync-collection).
	SyncDeleted []string `json:"sync_deleted,omitempty"`
	// SyncNotDeleted: paths reported with a failing response status other than
	// 404: the resource failed, it was not removed.
	SyncNotDeleted []string `json:"sync_not_deleted,omitempty"`
	// NoData: the answer is an HTTP failure; nothing may be returned next to
	// the error.
	NoData bool `json:"no_data,omitempty"`
	// MultiHref: the document holds a status-type response with several hrefs.
	MultiHref bool `json:"multi_href,omitempty"`
	// StrOneOf: a successful single-value result must be one of these.
	StrOneOf []string `json:"str_one_of,omitempty"`
}

// Case is one scripted response for one method: the literal witness.
type Case struct {
	Method  string      `json:"method"`
	Status  int         `json:"status"`
	Header  [][2]string `json:"header,omitempty"`
	Body    string      `json:"body,omitempty"`
	BodyHex string      `json:"body_hex,omitempty"` // body that is not valid UTF-8
	Gen     string      `json:"gen,omitempty"`      // generated (oversized) body
	Chunk   int         `json:"chunk,omitempty"`
	Early   bool        `json:"early,omitempty"`
	// AnswerAfter > 0: the fake answers after reading that many upload bytes.
	AnswerAfter int64 `json:"answer_after,omitempty"`
	// Endless: the answer's body never ends (see fakeHTTP.endless).
	Endless bool `json:"endless,omitempty"`
	// ReadEnd: how the body ends (see fakeHTTP.readEnd).
	ReadEnd string `json:"read_end,omitempty"`
	// Via "basic-auth": the client is built on webdav.HTTPClientWithBasicAuth
	// around the fake instead of on the fake itself.
	Via string `json:"via,omitempty"`
	// Up scripts the caller side of Create: Size bytes in Writes Write calls,
	// stopping (or not) at the first Write error, then Close.
	Up *Upload `json:"upload,omitempty"`
	// W is the workload the case belongs to, Kind the body kind.
	W    string `json:"workload"`
	Kind string `json:"kind"`
	// Class is the input class used in finding keys; Family overrides it for
	// panics ("malformed iCalendar", ...). DKey is the finer abstract key
	// counted as distinct non-trivial case.
	Class  string `json:"class"`
	Family string `json:"family,omitempty"`
	DKey   string `json:"dkey,omitempty"`
	Exp    Expect `json:"expect"`

	body []byte
}

func (cs *Case) setBody(b []byte) {
	cs.body = b
	cs.Body, cs.BodyHex = "", ""
	if len(b) == 0 {
		return
	}
	if utf8.Valid(b) {
		cs.Body = string(b)
	} else {
		cs.BodyHex = hex.EncodeToString(b)
	}
}

func (cs *Case) bytes() []byte {
	if cs.body != nil {
		return cs.body
	}
	switch {
	case cs.Gen != "":
		cs.body = genBody(cs.Gen)
	case cs.BodyHex != "":
		cs.body, _ = hex.DecodeString(cs.BodyHex)
	default:
		cs.body = []byte(cs.Body)
	}
	return cs.body
}

// witness is what is written to a replay file: the case without the
// regenerable oversized body.
func (cs *Case) witness() *Case {
	w := *cs
	if w.Gen != "" {
		w.Body, w.BodyHex = "", ""
	}
	return &w
}

type Upload struct {
	Size      int  `json:"size"`
	Writes    int  `json:"writes"`
	StopOnErr bool `json:"stop_on_err,omitempty"`
}

type outcome struct {
	hang       bool   // quiescent with the caller blocked inside go-webdav
	hangSite   string // innermost go-webdav function of the blocked caller
	watchdog   bool   // neither returned nor quiescent within the watchdog
	panicked   bool
	panicVal   interface{}
	stack      string
	err        error
	raw        interface{}
	calls      int
	bodyClosed bool
	fillerRead int64 // filler bytes of an endless body handed out
}

func execCase(m *minfo, cs *Case) *outcome {
	f := &fakeHTTP{status: cs.Status, header: cs.Header, body: cs.bytes(), chunk: cs.Chunk, early: cs.Early, answerAfter: cs.AnswerAfter, endless: cs.Endless, readEnd: cs.ReadEnd}
	var hc webdav.HTTPClient = f
	if cs.Via == "basic-auth" {
		hc = webdav.HTTPClientWithBasicAuth(f, "user", "secret")
	}
	oc := &outcome{}
	done := make(chan struct{})
	gid := make(chan int64, 1)
	go func() {
		gid <- curGoroutineID()
		oc.panicked, oc.panicVal, oc.stack = fw.Guard(func() { oc.raw, oc.err = invoke(m, hc, cs) })
		close(done)
	}()
	caller := <-gid
	monitor := int64(-2)
	t := time.NewTimer(hangInterval)
	defer t.Stop()
	start := time.Now()
	quiet := 0
	for {
		select {
		case <-done:
			oc.calls = f.calls
			oc.bodyClosed = f.bodyClosed
			oc.fillerRead = atomic.LoadInt64(&f.delivered)
			return oc
		case <-t.C:
		}
		if monitor == -2 {
			monitor = curGoroutineID()
		}
		if f.scriptDone() {
			if hang, stack, site := quiescentHang(monitor, caller); hang {
				quiet++
				if quiet >= hangPolls {
					// abandon the caller goroutine (it owns oc): fresh outcome
					return &outcome{hang: true, hangSite: site, stack: stack, calls: 1}
				}
			} else {
				quiet = 0
			}
		} else {
			quiet = 0
		}
		if time.Since(start) > hangWatchdog {
			return &outcome{watchdog: true, calls: 1}
		}
		t.Reset(hangInterval)
	}
}

// hangsSeen counts hangs per finding key in this worker: once a class has
// hung three times, its remaining cases are skipped (each would cost the
// full quiescence wait and leave another goroutine behind).
var hangsSeen = map[string]int{}

func runCase(c *fw.Ctx, cs *Case) {
	m := methodByName(cs.Method)
	if m == nil {
		c.Inconclusive("C14: unknown method " + cs.Method)
		return
	}
	if hangsSeen[cs.Method+"|"+cs.Class] >= 3 {
		c.Observe("hang", "cases skipped after 3 hangs of their class", 1)
		return
	}
	c.Journal(cs.witness())
	oc := execCase(m, cs)
	c.JournalDone()
	c.Eval(1)
	if oc.watchdog {
		c.Inconclusive(fmt.Sprintf("C14: %s (%s) neither returned nor became quiescent within %v", cs.Method, cs.Class, hangWatchdog))
		return
	}
	if oc.hang {
		hangsSeen[cs.Method+"|"+cs.Class]++
		c.Observe("hang", cs.Method+" blocked in "+oc.hangSite, 1)
		c.Report(cs.Method+" | "+cs.Class+" | hang (blocked in "+oc.hangSite+")",
			fmt.Sprintf("%s never returns: the fake has finished its script, no goroutine can run, the caller is blocked in %s", cs.Method, oc.hangSite),
			map[string]interface{}{"case": cs.witness(), "blocked_goroutine": oc.stack})
		return
	}
	if cs.Endless {
		c.Observe("endless_bodies", fmt.Sprintf("%s: filler read %s", cs.Class, map[bool]string{true: "to the fake's limit", false: "< 8 MiB"}[oc.fillerRead >= endlessCap]), 1)
		if oc.fillerRead >= endlessCap {
			c.Report(cs.Method+" | "+cs.Class+" | body read without bound",
				fmt.Sprintf("%s: the answer (status %d) has a body that never ends; the call read all %d bytes of filler the fake was willing to send, so it would never return", cs.Method, cs.Status, oc.fillerRead),
				cs.witness())
			return
		}
	}
	judge(c, m, cs, oc)
}

func errShape(err error) string {
	var he *internal.HTTPError
	var de *internal.Error
	hasH, hasD := errors.As(err, &he), errors.As(err, &de)
	switch {
	case hasH && hasD:
		return "HTTPError+DAV:error"
	case hasH:
		return "HTTPError"
	case hasD:
		return "DAV:error only"
	}
	return "other error"
}

// nilLink walks the chain of err as errors.As does and names the type of the
// first link that is a nil pointer ("" = none).
func nilLink(err error) string {
	for err != nil {
		if rv := reflect.ValueOf(err); rv.Kind() == reflect.Ptr && rv.IsNil() {
			return fmt.Sprintf("%T", err)
		}
		switch u := err.(type) {
		case interface{ Unwrap() error }:
			err = u.Unwrap()
		case interface{ Unwrap() []error }:
			for _, e := range u.Unwrap() {
				if t := nilLink(e); t != "" {
					return t
				}
			}
			return ""
		default:
			return ""
		}
	}
	return ""
}

// foreignCondition: a condition element held by the DAV:error of err whose
// local name occurs nowhere in the response body ("" = none).
func foreignCondition(err error, body []byte) string {
	var de *internal.Error
	if !errors.As(err, &de) || de == nil {
		return ""
	}
	for i := range de.Raw {
		if n, ok := de.Raw[i].XMLName(); ok && !bytes.Contains(body, []byte(n.Local)) {
			return "{" + n.Space + "}" + n.Local
		}
	}
	return ""
}

func judge(c *fw.Ctx, m *minfo, cs *Case, oc *outcome) {
	report := func(class, observed, what string) {
		c.Report(cs.Method+" | "+class+" | "+observed, what, cs.witness())
	}
	c.Observe("calls_by_method", cs.Method, 1)
	c.Observe("workload", cs.W, 1)
	if oc.panicked {
		// One defect = one key: the input class of a panic is what was malformed,
		// named after the parser that panicked when it is one of the object
		// parsers (a mutated multistatus may well carry a damaged object).
		site := fw.PanicSite(oc.stack)
		cls := cs.Class
		if cs.Family != "" {
			cls = cs.Family
		}
		switch {
		case strings.Contains(site, "/go-ical."):
			cls = "malformed iCalendar"
		case strings.Contains(site, "/go-vcard."):
			cls = "malformed vCard"
		}
		c.Observe("outcome", cs.W+"|panic", 1)
		c.Observe("panics", cs.Method+" "+site, 1)
		c.Report(cs.Method+" | "+cls+" | panic "+site,
			fmt.Sprintf("%s panicked on a scripted response: %v", cs.Method, oc.panicVal),
			map[string]interface{}{"case": cs.witness(), "panic": fmt.Sprint(oc.panicVal), "stack": oc.stack})
		return
	}
	if oc.calls == 0 {
		c.Inconclusive(fmt.Sprintf("C14: %s issued no request (%v)", cs.Method, oc.err))
		return
	}
	if oc.calls != 1 {
		c.Observe("fake", "calls_per_case!=1", 1)
	}
	if oc.bodyClosed {
		c.Observe("fake", "response body closed by the client", 1)
	} else {
		c.Observe("fake", "response body left open by the client", 1)
	}
	gotErr := oc.err != nil
	res := "ok"
	if gotErr {
		res = "err"
	}
	c.Distinct(cs.DKey + "|" + res)
	c.Observe("outcome", fmt.Sprintf("%s|%s|http %s|%s -> %s", cs.W, m.Kind, httpClass(cs.Status), cs.Kind, res), 1)
	c.Observe("verdict_class", cs.Exp.Verdict+" -> "+res, 1)
	if c.WantSample() && len(cs.bytes()) < 1500 && sampleWorthy(cs, res) {
		c.Sample(map[string]interface{}{"case": cs.witness(), "error": fw.ErrString(oc.err), "result": normalise(m, oc.raw)})
	}

	switch cs.Exp.Verdict {
	case "ok":
		if gotErr {
			report(cs.Class, "error", fmt.Sprintf("interpretable response, yet error: %v", oc.err))
			return
		}
	case "err":
		if !gotErr {
			report(cs.Class, "nil error", fmt.Sprintf("failure response accepted without error; result %+v", normalise(m, oc.raw)))
			return
		}
	}

	if gotErr && cs.Exp.NoData {
		if out := normalise(m, oc.raw); out.Str != "" || len(out.Entries) > 0 || len(out.Deleted) > 0 || out.Token != "" || out.BodyLen > 0 {
			report(cs.Class, "data returned next to the error", fmt.Sprintf("HTTP failure, yet result %+v", out))
		} else {
			c.Observe("checks", "HTTP failure returned no data", 1)
		}
	}
	if gotErr {
		// The error is a value callers take apart with errors.As / Unwrap and
		// print: every link of its chain is usable (a nil pointer stored in an
		// error interface is found by errors.As and handed out as a nil
		// *internal.Error / *internal.HTTPError), Error() returns, and a
		// DAV:error it holds has its conditions from the response.
		if t := nilLink(oc.err); t != "" {
			c.Observe("checks", "error chain with a nil pointer link", 1)
			report(cs.Class, "error chain holds a nil "+t, fmt.Sprintf("errors.As with a %s target succeeds on the returned error and yields a nil pointer (error text %q)", t, fw.ErrString(oc.err)))
			return
		}
		if p, v, st := fw.Guard(func() { _ = oc.err.Error() }); p {
			report(cs.Class, "panic in Error() of the returned error", fmt.Sprintf("%v\n%s", v, st))
			return
		}
		c.Observe("checks", "error chain walked: no nil link, Error() returns", 1)
		c.Observe("error_shape", fmt.Sprintf("http %s|%s -> %s", httpClass(cs.Status), cs.Kind, errShape(oc.err)), 1)
		if foreign := foreignCondition(oc.err, cs.bytes()); foreign != "" {
			report(cs.Class, "DAV:error with a condition the response does not hold", fmt.Sprintf("the error holds the condition element %s, which the response body does not mention", foreign))
		}
		if cs.Exp.HTTPCode != 0 {
			var he *internal.HTTPError
			switch {
			case !errors.As(oc.err, &he):
				report(cs.Class, "error without HTTPError", fmt.Sprintf("error does not unwrap to *internal.HTTPError: %v", oc.err))
			case he.Code != cs.Exp.HTTPCode:
				report(cs.Class, "HTTPError with another code", fmt.Sprintf("HTTPError.Code = %d, response status %d", he.Code, cs.Exp.HTTPCode))
			default:
				c.Observe("checks", "HTTP status carried by the error", 1)
			}
		}
		if cs.Exp.Cond != "" {
			var de *internal.Error
			if cs.Status == 207 {
				// one class for the condition of a failing response inside a
				// multistatus, whatever its code (one defect, one key per method)
				class207 := "207 + multistatus: failing response holding a DAV:error condition"
				inner := report
				report = func(_, observed, what string) { inner(class207, observed, what) }
			}
			if !errors.As(oc.err, &de) {
				report(cs.Class, "error without DAV:error", fmt.Sprintf("error does not unwrap to *internal.Error: %v", oc.err))
			} else {
				found := false
				for i := range de.Raw {
					if n, ok := de.Raw[i].XMLName(); ok && "{"+n.Space+"}"+n.Local == cs.Exp.Cond {
						found = true
					}
				}
				if !found {
					report(cs.Class, "DAV:error without the condition", fmt.Sprintf("condition %s not held by %v", cs.Exp.Cond, de))
				} else {
					c.Observe("checks", "DAV:error condition carried by the error", 1)
				}
			}
		}
		return
	}

	// The call succeeded: everything it returned must come from successful
	// parts of the response.
	out := normalise(m, oc.raw)
	scanned := oc.raw
	if sr, ok := oc.raw.(*carddav.SyncResponse); ok && sr != nil {
		scanned = []interface{}{sr.SyncToken, sr.Updated} // 404 paths legitimately appear in Deleted
	}
	if scanned != nil {
		scanBad(reflect.ValueOf(scanned), func(marker string, code int) {
			report("207 + multistatus: value under "+failClass(code)+" status", "surfaced as valid data",
				fmt.Sprintf("%s reported under status %d is part of a successful result", marker, code))
		})
		c.Observe("checks", "successful result scanned for failing-status sentinels", 1)
	}
	if cs.Exp.Data != nil {
		want, _ := json.Marshal(cs.Exp.Data.sorted())
		got, _ := json.Marshal(out.sorted())
		if string(want) != string(got) {
			report(cs.Class, "wrong data", fmt.Sprintf("want %s, got %s", want, got))
		} else {
			c.Observe("checks", "successful result equal to the expected data", 1)
		}
	}
	if cs.Exp.Count > 0 && len(out.Entries) != cs.Exp.Count {
		report(cs.Class, "wrong data", fmt.Sprintf("want %d entries, got %d", cs.Exp.Count, len(out.Entries)))
	}
	if len(cs.Exp.StrOneOf) > 0 {
		ok := false
		for _, s := range cs.Exp.StrOneOf {
			if out.Str == s {
				ok = true
			}
		}
		if !ok {
			report(cs.Class, "wrong data", fmt.Sprintf("result %q is not among %q", out.Str, cs.Exp.StrOneOf))
		}
	}
	if len(cs.Exp.Offered) > 0 && m.Single == "" {
		byPath := map[string]*Offer{}
		for i := range cs.Exp.Offered {
			byPath[cs.Exp.Offered[i].E.Path] = &cs.Exp.Offered[i]
		}
		for _, g := range out.Entries {
			o := byPath[g.Path]
			switch {
			case o == nil:
				report(cs.Class, "data not from the response", fmt.Sprintf("entry %+v has no response", g))
			case o.RespBad:
				report("207 + multistatus: response with failing status", "surfaced as valid data", fmt.Sprintf("entry %+v", g))
			case o.RTBad && (g.Dir || m.Name == "caldav.FindCalendars" || m.Name == "carddav.FindAddressBooks"):
				report("207 + multistatus: resourcetype under failing status", "surfaced as valid data", fmt.Sprintf("entry %+v", g))
			case !o.Listed:
				report(cs.Class, "data not from the response", fmt.Sprintf("entry %+v is not of the listed kind", g))
			case !subset(g, o.E):
				report(cs.Class, "data not from the response", fmt.Sprintf("entry %+v, response offers %+v", g, o.E))
			}
		}
		c.Observe("checks", "successful entries matched against the offering responses", 1)
	}
	if len(cs.Exp.SyncDeleted) > 0 {
		del := map[string]bool{}
		for _, p := range out.Deleted {
			del[p] = true
		}
		upd := map[string]bool{}
		for _, e := range out.Entries {
			upd[e.Path] = true
		}
		cls := "207 + multistatus: response with 404 status"
		if cs.Exp.MultiHref {
			cls = "207 + multistatus: response with 404 status and several hrefs"
		}
		for _, p := range cs.Exp.SyncDeleted {
			if !del[p] {
				report(cls, "not reported as deleted", fmt.Sprintf("%s missing from Deleted %q", p, out.Deleted))
			}
			if upd[p] {
				report(cls, "reported as updated", fmt.Sprintf("%s in Updated", p))
			}
		}
		c.Observe("checks", "sync-collection 404 responses found in Deleted", 1)
	}
	if len(cs.Exp.SyncNotDeleted) > 0 {
		del := map[string]bool{}
		for _, p := range out.Deleted {
			del[p] = true
		}
		for _, p := range cs.Exp.SyncNotDeleted {
			if del[p] {
				report("207 + multistatus: response with failing status other than 404", "reported as deleted", fmt.Sprintf("%s in Deleted %q", p, out.Deleted))
			}
		}
		c.Observe("checks", "sync-collection non-404 failures absent from Deleted", 1)
	}
}

// sampleWorthy picks a few literal cases of different kinds for the evidence
// file: one HTTP failure carrying a DAV:error, failing statuses inside a
// multistatus that the call survived, one corrupt document, one valid one.
var sampled = map[string]bool{}

func sampleWorthy(cs *Case, res string) bool {
	var slot string
	switch {
	case cs.W == "matrix" && cs.Exp.Cond != "" && cs.Status >= 400:
		slot = "matrix"
	case cs.W == "placements" && cs.Exp.Verdict == "any" && res == "ok" && len(cs.Exp.SyncDeleted) == 0:
		slot = "placement-survived"
	case cs.W == "placements" && len(cs.Exp.SyncDeleted) > 0 && res == "ok":
		slot = "sync-deleted"
	case cs.W == "corrupt" && cs.Exp.Verdict == "err":
		slot = "corrupt"
	default:
		return false
	}
	h := fnv.New32a()
	h.Write([]byte(cs.DKey))
	if sampled[slot] || h.Sum32()%7 != 0 {
		return false
	}
	sampled[slot] = true
	return true
}

// subset: every field of a returned entry is either empty or what the
// response offered under a 2xx status.
func subset(g, o Entry) bool {
	if g.Dir && !o.Dir {
		return false
	}
	if g.Size != 0 && g.Size != o.Size || g.Mod != 0 && g.Mod != o.Mod || g.Max != 0 && g.Max != o.Max {
		return false
	}
	if g.MIME != "" && g.MIME != o.MIME || g.ETag != "" && g.ETag != o.ETag || g.Name != "" && g.Name != o.Name ||
		g.Desc != "" && g.Desc != o.Desc || g.Obj != "" && g.Obj != o.Obj {
		return false
	}
	if len(g.Types) != 0 && !reflect.DeepEqual(g.Types, o.Types) {
		return false
	}
	return true
}

func replay(c *fw.Ctx, w json.RawMessage) {
	var cs Case
	if err := json.Unmarshal(w, &cs); err != nil || cs.Method == "" {
		// panic witnesses wrap the case
		var wrap struct {
			Case Case `json:"case"`
		}
		if json.Unmarshal(w, &wrap) != nil || wrap.Case.Method == "" {
			c.Inconclusive("C14: unreadable witness")
			return
		}
		cs = wrap.Case
	}
	runCase(c, &cs)
}

func init() {
	fw.Register(&fw.Property{
		ID:     "C14",
		Run:    run,
		Replay: replay,
		Rule: "Every public client method of webdav/caldav/carddav (23 methods) against a scripted fake HTTP client. " +
			"matrix (exhaustive): HTTP status 100..599 x body kind {none, text/plain, DAV:error as application/xml, DAV:error as text/xml, garbage with XML type, valid multistatus for the method, valid object} x method, " +
			"plus Create with the answer sent before the upload is read; uploads: Create/Write*/Close scripted on both sides (answer before, after 1 byte, after half, after all of the upload x 0/100/1 MiB in 0/1/3/256 Writes x Close after the first Write error or after ignoring errors x 10 statuses, thorough +39); every call runs on its own goroutine and a call that neither returns nor can be woken (quiescence rule) is a hang finding; errbodies: the body of a 3xx/4xx/5xx answer as an axis of its own (ASCII, NULs, white space, 2/3/4-byte UTF-8 with a rune straddling every boundary, 0x80/0xBF/0xFF runs, lone lead bytes at the 1024 cut, complete and cut DAV:error documents; lengths 0,1,1023,1024,1025,4096,1 MiB; Content-Type text/plain with and without charset, text/html, application/xml, text/xml, missing, malformed) for every method: error with the status, no data, no panic; errpages: what servers and proxies really send with a failing status - 8 markup templates (HTML pages with title / headings / doctype / meta, title only, misnested and unclosed titles, a JSON problem document) x text {ASCII, ISO-8859-1 bytes, UTF-8, runes whose case mappings change length, control characters} x tag names {lower, upper, alternating case} x Content-Type, whole (every method) and cut at every offset (two methods in turn, thorough all); every returned error is walked like errors.As does: no link of the chain is a nil pointer, Error() returns, a DAV:error in it holds no condition the response does not mention; valid: randomly populated conformant multistatus documents in random lexical forms; " +
			"placements (exhaustive): every assignment of {200,204,102,302,403,404,500,507} to response status / needed-property propstat / optional-property propstat over 2 (thorough 3) responses per list method and sync-collection, and over the single response of PROPFIND-Depth-0 methods; a failing response that says why (DAV:error condition x responsedescription {none, after, before the error element} x status only / next to 200 propstats x 9 codes x position): the error carries that response's code and condition; status-type responses with two or three hrefs (codes x position): for sync-collection every href of a 404 response is a deletion; " +
			"truncation (exhaustive): every prefix of one (thorough 3) valid multistatus document per multistatus method and of valid iCalendar/vCard bodies and a raw download, each prefix also ending with (n, io.EOF) in one Read and with a read error instead of an end (quick: every fourth offset); corrupt: well-formed multistatus whose needed value / status line / embedded object cannot be interpreted; " +
			"mutations: random byte edits of valid documents and objects (no-panic only); oversized: 8 MiB bodies; headers: DAV/ETag/Location variants. " +
			"distinct_nontrivial counts distinct (method, HTTP status class, body kind or per-response status-class pattern, outcome) keys.",
		Assumptions: []string{
			"the fake always drains or closes the request body, sets Response.Request and hands out a finite in-memory body: a call can only block inside the library; every call runs on its own goroutine and a hang is decided by quiescence (fake returned from Do, no goroutine but the monitor running/runnable/sleeping/in a syscall for 60 consecutive polls, caller blocked below a go-webdav frame), a 60 s wall-clock watchdog only yields inconclusive",
			"'interpretable' bodies are conformant RFC 4918 multistatus documents holding the properties the method needs, all under 200 propstats (optional properties may be absent), or RFC 5545/6350 objects with the matching Content-Type",
			"don't-cares (statement silent): 2xx-but-not-200 propstats; optional properties under 404 propstats (error or omission, never the value); a failing status on the collection's own entry or on a kind the method does not list (error or omission; a failing listed member or sync member other than 404 obliges an error, as does a needed property under 404); a needed property that is absent altogether; a complete document followed by a read error; DAV:error conditions of a propstat (only those of a response are asked for); 207 answers to DELETE/COPY/MOVE; DTD-invalid but well-formed multistatus (missing href, two hrefs, empty current-user-principal, status without reason phrase, invalid percent escape in an href); OPTIONS answers without the addressbook class; malformed vCard lines (go-vcard skips them); result order",
			"1xx/3xx statuses returned by the HTTP client are plain non-2xx statuses",
			"a body that never ends is a response a server may send: for failing answers of a non-XML media type the fake follows the scripted bytes with filler and gives up after 8 MiB with a read error; a call that consumed all of it is reported as reading without bound (it would never return), any bounded reader passes; XML error bodies are left out (a streaming decoder cannot tell 'goes on' from 'not finished')",
			"where the only blemishes of a multistatus are responses with a failing status, an error of the call is about one of them: it unwraps to an HTTPError with their code (asked for when they all have the same) and, when each of them holds a DAV:error condition, to an Error holding it",
			"a third of the matrix / error-body cases and half of the challenge cases build the client on webdav.HTTPClientWithBasicAuth around the fake: the wrapper must be transparent for every answer",
			"go-webdav/internal is imported for HTTPError and Error only (errors.As), as the property anchors them",
		},
		MinEvals:    func(t string) int64 { return map[string]int64{"quick": 150000, "thorough": 1500000}[t] },
		MinDistinct: func(t string) int64 { return 15000 },
		TimeoutS:    func(t string) int { return map[string]int{"quick": 600, "thorough": 3600}[t] },
	})
}

// Package c13 checks property C13: the WebDAV, CalDAV and CardDAV handlers
// and the principal helper answer every request without panicking, and a
// request that is malformed BY CONSTRUCTION is answered 4xx without any
// create/update/delete reaching the backend or the served directory.
package c13

import (
	"bytes"
	"context"
	"encoding/json"
	"errors"
	"fmt"
	"io"
	"io/ioutil"
	"log"
	"net"
	"net/http"
	"net/http/httptest"
	"net/url"
	"os"
	"path/filepath"
	"sort"
	"strconv"
	"strings"
	"time"

	"github.com/emersion/go-ical"
	"github.com/emersion/go-vcard"
	"github.com/emersion/go-webdav"
	"github.com/emersion/go-webdav/caldav"
	"github.com/emersion/go-webdav/carddav"
	"github.com/emersion/go-webdav/verifharness/doubles"
	"github.com/emersion/go-webdav/verifharness/fw"
	"github.com/emersion/go-webdav/verifharness/mon"
	"github.com/emersion/go-webdav/verifharness/xmltree"
)

// HV is an optional header value with its by-construction class.
type HV struct {
	Set bool   `json:"set,omitempty"`
	V   string `json:"v,omitempty"`
	// Cls: Depth/Overwrite: valid, boundary, invalid. Destination: valid,
	// boundary, invalid. Content-Type: xml, ical, vcard, other, unparsable,
	// boundary. "" when the header is absent.
	Cls string `json:"cls,omitempty"`
}

func hv(v, cls string) HV { return HV{Set: true, V: v, Cls: cls} }

// Case is one request, with the record of how each part was made.
type Case struct {
	Fam       string            `json:"fam"`
	Target    string            `json:"target"` // webdav, caldav, carddav, principal
	Prefix    string            `json:"prefix,omitempty"`
	Method    string            `json:"method"`
	Path      string            `json:"path"` // request-target
	Level     string            `json:"level"`
	Depth     HV                `json:"depth"`
	Overwrite HV                `json:"overwrite"`
	Dest      HV                `json:"dest"`
	CT        HV                `json:"ct"`
	Extra     map[string]string `json:"extra,omitempty"`
	// Dup: header fields sent more than once (name -> the values in order).
	// Which of the values counts is left open: no label comes from them.
	Dup  map[string][]string `json:"dup,omitempty"`
	Body Body                `json:"body"`
	// Transport anomalies (sequence family, request A only): the body is
	// Data followed by BodyPad filler bytes; the body reader fails after
	// delivering all of that; the request context is already cancelled.
	BodyPad int    `json:"body_pad,omitempty"`
	PadWith string `json:"pad_with,omitempty"`
	BodyErr bool   `json:"body_err,omitempty"`
	// Fault: how the body reader fails after delivering Data (and the pad):
	// reset, unexpected-eof, canceled, max-bytes, zero-reads. BodyErr is the
	// older spelling of Fault "reset".
	Fault string `json:"fault,omitempty"`
	// Wire != "": the request is written byte by byte to a real TCP socket
	// served by net/http: chunked-bad-size (Data as one good chunk, then an
	// invalid chunk size) or short-content-length (Content-Length announces
	// more than Data, then the client closes its side).
	Wire string `json:"wire,omitempty"`
	// Shape != "": another presentation of the same body bytes to the handler
	// (doubles.BodyShapes: unknown length, one byte per Read, (0, nil) reads,
	// last bytes together with io.EOF). Set by the generator for every fifth
	// case that has no other transport anomaly; obligations are unchanged.
	Shape     string `json:"shape,omitempty"`
	Cancelled bool   `json:"cancelled,omitempty"`
	// BackendDown != "": every lookup of the backend fails (backendDownModes:
	// error, 503, 404). Obligations are unchanged.
	BackendDown string `json:"backend_down,omitempty"`
	// Prev, when set, is executed immediately before this request in the
	// same process, Repeat times (sequence family).
	Prev   *Case `json:"prev,omitempty"`
	Repeat int   `json:"repeat,omitempty"`
}

// padReader yields n copies of one byte.
type padReader struct {
	n int
	b byte
}

func (p *padReader) Read(buf []byte) (int, error) {
	if p.n <= 0 {
		return 0, io.EOF
	}
	k := len(buf)
	if k > p.n {
		k = p.n
	}
	for i := 0; i < k; i++ {
		buf[i] = p.b
	}
	p.n -= k
	return k, nil
}

type errReader struct{ err error }

func (r errReader) Read([]byte) (int, error) { return 0, r.err }

// zeroReader returns (0, nil) n times, then fails.
type zeroReader struct{ n int }

func (z *zeroReader) Read([]byte) (int, error) {
	if z.n > 0 {
		z.n--
		return 0, nil
	}
	return 0, errors.New("read tcp: connection reset by peer")
}

func (cs *Case) fault() string {
	if cs.Fault != "" {
		return cs.Fault
	}
	if cs.BodyErr {
		return "reset"
	}
	return ""
}

// failReader fails like a connection that broke off.
type failReader struct{}

func (failReader) Read([]byte) (int, error) {
	return 0, errors.New("read tcp: connection reset by peer")
}

type lp struct{ Level, Path string }

// ---- fixtures ---------------------------------------------------------------

type layout struct {
	Root, Principal, Other, Home, Coll, MissingColl, NewColl, Obj, MissingObj, Deeper, WellKnown string
}

func calLayout(p string) layout {
	return layout{Root: p + "/", Principal: p + "/u1/", Other: p + "/u2/", Home: p + "/u1/cal/", Coll: p + "/u1/cal/work/",
		MissingColl: p + "/u1/cal/none/", NewColl: p + "/u1/cal/new/", Obj: p + "/u1/cal/work/e1.ics", MissingObj: p + "/u1/cal/work/new.ics",
		Deeper: p + "/u1/cal/work/sub/deep/x.ics", WellKnown: "/.well-known/caldav"}
}

func cardLayout(p string) layout {
	return layout{Root: p + "/", Principal: p + "/u1/", Other: p + "/u2/", Home: p + "/u1/contacts/", Coll: p + "/u1/contacts/friends/",
		MissingColl: p + "/u1/contacts/none/", NewColl: p + "/u1/contacts/new/", Obj: p + "/u1/contacts/friends/c1.vcf", MissingObj: p + "/u1/contacts/friends/new.vcf",
		Deeper: p + "/u1/contacts/friends/sub/deep/x.vcf", WellKnown: "/.well-known/carddav"}
}

func layoutFor(target, prefix string) layout {
	if target == "carddav" {
		return cardLayout(prefix)
	}
	return calLayout(prefix)
}

func (l layout) mainPaths() []lp {
	return []lp{{"root", l.Root}, {"principal", l.Principal}, {"other-principal", l.Other}, {"home-set", l.Home}, {"collection", l.Coll},
		{"missing-collection", l.MissingColl}, {"object", l.Obj}, {"missing-object", l.MissingObj}, {"deeper", l.Deeper}}
}

func (l layout) allPaths() []lp {
	return append(l.mainPaths(), lp{"new-collection", l.NewColl}, lp{"well-known", l.WellKnown},
		lp{"odd", l.Obj + "?x=1"}, lp{"odd", strings.TrimSuffix(l.Principal, "/")}, lp{"odd", l.Home + "/work/"},
		lp{"odd", "/%00"}, lp{"odd", l.Coll + "%ff.ics"}, lp{"odd", l.Coll + "../work/e1.ics"},
		// the other forms of a request-target: asterisk-form, absolute-form
		lp{"odd", "*"}, lp{"odd", "http://dav.example" + l.Coll}, lp{"odd", "http://other.example:8080" + l.Obj}, lp{"odd", "http://dav.example"})
}

func webdavMainPaths() []lp {
	return []lp{{"root", "/"}, {"file", "/file.txt"}, {"dir", "/dir/"}, {"file", "/dir/a.txt"}, {"deeper", "/dir/sub/b.txt"},
		{"dir", "/empty/"}, {"missing", "/missing"}, {"below-file", "/file.txt/below"}}
}

func webdavAllPaths() []lp {
	return append(webdavMainPaths(), lp{"dir", "/dir"}, lp{"missing", "/missing/child"}, lp{"odd", "/dir/../file.txt"},
		lp{"odd", "//dir//a.txt"}, lp{"odd", "/dir/a.txt?x=1"}, lp{"odd", "/%2e%2e/file.txt"}, lp{"odd", "/%00"},
		lp{"odd", "/" + strings.Repeat("a", 300)}, lp{"odd", "/dir/%ff"},
		lp{"odd", "*"}, lp{"odd", "http://dav.example/dir/"}, lp{"odd", "http://other.example:8080/file.txt"}, lp{"odd", "http://dav.example"})
}

func principalPaths() []lp {
	return []lp{{"principal", "/u1/"}, {"root", "/"}, {"deeper", "/any/where/else"}, {"odd", "*"}, {"odd", "http://dav.example/u1/"}}
}

func pathsFor(target, prefix string, all bool) []lp {
	switch target {
	case "webdav":
		if all {
			return webdavAllPaths()
		}
		return webdavMainPaths()
	case "principal":
		return principalPaths()
	}
	l := layoutFor(target, prefix)
	if all {
		return l.allPaths()
	}
	return l.mainPaths()
}

var fixedTime = time.Date(2024, 1, 2, 3, 4, 5, 0, time.UTC)

type env struct {
	c        *fw.Ctx
	fsRoot   string
	pristine string
	cal      *ical.Calendar
	card     vcard.Card
	// calLen, cardLen: the length of the objects as go-ical / go-vcard write
	// them. The doubles announce that length: the handlers send the backend's
	// ContentLength as Content-Length and write their own encoding of the
	// data, so a well-behaved backend is one whose two answers agree.
	calLen, cardLen int64
	wireLn          net.Listener
	wire            chan *wireJob
}

func newEnv(c *fw.Ctx) (*env, error) {
	e := &env{c: c, fsRoot: filepath.Join(c.WorkDir, "fsroot")}
	cal, err := ical.NewDecoder(strings.NewReader(seedICalEvent)).Decode()
	if err != nil {
		return nil, fmt.Errorf("seed iCalendar does not parse: %v", err)
	}
	e.cal = cal
	card, err := vcard.NewDecoder(strings.NewReader(seedVCard)).Decode()
	if err != nil {
		return nil, fmt.Errorf("seed vCard does not parse: %v", err)
	}
	e.card = card
	var cb, vb bytes.Buffer
	if err := ical.NewEncoder(&cb).Encode(cal); err != nil {
		return nil, fmt.Errorf("seed iCalendar cannot be written: %v", err)
	}
	if err := vcard.NewEncoder(&vb).Encode(card); err != nil {
		return nil, fmt.Errorf("seed vCard cannot be written: %v", err)
	}
	e.calLen, e.cardLen = int64(cb.Len()), int64(vb.Len())
	if err := e.buildTree(); err != nil {
		return nil, err
	}
	s, err := mon.Snapshot(e.fsRoot)
	if err != nil {
		return nil, err
	}
	e.pristine = s.Shape()
	return e, nil
}

func (e *env) buildTree() error {
	if err := os.RemoveAll(e.fsRoot); err != nil {
		return err
	}
	for _, d := range []string{"", "dir", "dir/sub", "empty"} {
		if err := os.MkdirAll(filepath.Join(e.fsRoot, d), 0755); err != nil {
			return err
		}
	}
	for name, data := range map[string]string{"file.txt": "hello", "dir/a.txt": "A", "dir/sub/b.txt": "B"} {
		if err := ioutil.WriteFile(filepath.Join(e.fsRoot, name), []byte(data), 0644); err != nil {
			return err
		}
	}
	return nil
}

func (e *env) calBackend(prefix string) *doubles.CalBackend {
	l := calLayout(prefix)
	return &doubles.CalBackend{Principal: l.Principal, HomeSet: l.Home, LenientSlash: true,
		Calendars: []caldav.Calendar{{Path: l.Coll, Name: "Work", Description: "work things", MaxResourceSize: 1 << 20, SupportedComponentSet: []string{"VEVENT", "VTODO"}}},
		Objects:   []caldav.CalendarObject{{Path: l.Obj, ModTime: fixedTime, ContentLength: e.calLen, ETag: "etag-e1", Data: e.cal}},
	}
}

func (e *env) cardBackend(prefix string) *doubles.CardBackend {
	l := cardLayout(prefix)
	return &doubles.CardBackend{Principal: l.Principal, HomeSet: l.Home,
		Books:   []carddav.AddressBook{{Path: l.Coll, Name: "Friends", Description: "people", MaxResourceSize: 1 << 20}},
		Objects: []carddav.AddressObject{{Path: l.Obj, ModTime: fixedTime, ContentLength: e.cardLen, ETag: "etag-c1", Card: e.card}},
	}
}

// ---- execution ---------------------------------------------------------------

type outcome struct {
	Status    int      `json:"status"`
	Panicked  bool     `json:"panicked,omitempty"`
	PanicVal  string   `json:"panic,omitempty"`
	Site      string   `json:"panic_site,omitempty"`
	Stack     string   `json:"stack,omitempty"`
	Calls     []string `json:"backend_calls,omitempty"`
	Mutations []string `json:"mutations,omitempty"`
	BuildErr  string   `json:"build_error,omitempty"`
	// RespDefect != "": the answer is not a complete HTTP response (see
	// responseDefect); RespBody then holds what was written.
	RespDefect   string `json:"response_defect,omitempty"`
	RespBody     string `json:"response_body,omitempty"`
	WriteHeaders int    `json:"write_header_calls,omitempty"`
}

func buildRequest(cs *Case) (*http.Request, error) {
	u, err := url.ParseRequestURI(cs.Path)
	if err != nil {
		return nil, err
	}
	h := http.Header{}
	set := func(name string, v HV) {
		if v.Set {
			h[name] = []string{v.V}
		}
	}
	set("Depth", cs.Depth)
	set("Overwrite", cs.Overwrite)
	set("Destination", cs.Dest)
	set("Content-Type", cs.CT)
	for k, v := range cs.Extra {
		h[http.CanonicalHeaderKey(k)] = []string{v}
	}
	for k, vs := range cs.Dup {
		h[http.CanonicalHeaderKey(k)] = append([]string(nil), vs...)
	}
	req := &http.Request{Method: cs.Method, URL: u, Proto: "HTTP/1.1", ProtoMajor: 1, ProtoMinor: 1, Header: h,
		Host: "dav.example", RequestURI: cs.Path, RemoteAddr: "127.0.0.1:1"}
	if flt := cs.fault(); cs.BodyPad > 0 || flt != "" {
		readers := []io.Reader{bytes.NewReader(cs.Body.Data)}
		total := len(cs.Body.Data)
		if cs.BodyPad > 0 {
			pb := byte('x')
			if cs.PadWith != "" {
				pb = cs.PadWith[0]
			}
			readers = append(readers, &padReader{n: cs.BodyPad, b: pb})
			total += cs.BodyPad
		}
		if flt != "" {
			total += 4096 // what the client had announced
		}
		switch flt {
		case "reset":
			readers = append(readers, failReader{})
		case "unexpected-eof":
			readers = append(readers, errReader{io.ErrUnexpectedEOF})
		case "canceled":
			readers = append(readers, errReader{context.Canceled})
		case "zero-reads":
			readers = append(readers, &zeroReader{n: 150})
		case "max-bytes":
			readers = append(readers, &padReader{n: 4096, b: ' '})
		}
		req.Body = ioutil.NopCloser(io.MultiReader(readers...))
		if flt == "max-bytes" {
			// the limit a front-end put on the body is reached after Data
			req.Body = http.MaxBytesReader(nil, req.Body, int64(total-4096))
		}
		req.ContentLength = int64(total)
		h.Set("Content-Length", strconv.Itoa(total))
	} else if len(cs.Body.Data) > 0 {
		req.Body = ioutil.NopCloser(bytes.NewReader(cs.Body.Data))
		req.ContentLength = int64(len(cs.Body.Data))
		h.Set("Content-Length", strconv.Itoa(len(cs.Body.Data)))
	} else {
		req.Body = http.NoBody
	}
	if cs.Shape != "" && cs.BodyPad == 0 && cs.fault() == "" {
		doubles.ShapeBody(req, cs.Body.Data, cs.Shape)
	}
	if cs.Cancelled || cs.fault() == "canceled" {
		ctx, cancel := context.WithCancel(context.Background())
		cancel()
		return req.WithContext(ctx), nil
	}
	return req.WithContext(context.Background()), nil
}

// prepare builds the handler for one request (fresh backend doubles) and
// returns a function that completes the outcome with what the backends and
// the served tree show afterwards.
func (e *env) prepare(cs *Case) (http.Handler, func(out *outcome), error) {
	var handler http.Handler
	var calB *doubles.CalBackend
	var cardB *doubles.CardBackend
	switch cs.Target {
	case "webdav":
		handler = &webdav.Handler{FileSystem: webdav.LocalFileSystem(e.fsRoot)}
		if cs.BackendDown != "" {
			handler = &webdav.Handler{FileSystem: downFS{backendDownErr(cs.BackendDown)}}
		}
	case "caldav":
		calB = e.calBackend(strings.TrimSuffix(cs.Prefix, "/"))
		handler = &caldav.Handler{Backend: calB, Prefix: cs.Prefix}
		if cs.BackendDown != "" {
			handler = &caldav.Handler{Backend: &downCal{calB, backendDownErr(cs.BackendDown)}, Prefix: cs.Prefix}
		}
	case "carddav":
		cardB = e.cardBackend(strings.TrimSuffix(cs.Prefix, "/"))
		handler = &carddav.Handler{Backend: cardB, Prefix: cs.Prefix}
		if cs.BackendDown != "" {
			handler = &carddav.Handler{Backend: &downCard{cardB, backendDownErr(cs.BackendDown)}, Prefix: cs.Prefix}
		}
	case "principal":
		opts := &webdav.ServePrincipalOptions{CurrentUserPrincipalPath: "/u1/",
			HomeSets:     []webdav.BackendSuppliedHomeSet{caldav.NewCalendarHomeSet("/u1/cal/"), carddav.NewAddressBookHomeSet("/u1/contacts/")},
			Capabilities: []webdav.Capability{caldav.CapabilityCalendar, carddav.CapabilityAddressBook}}
		handler = http.HandlerFunc(func(w http.ResponseWriter, r *http.Request) { webdav.ServePrincipal(w, r, opts) })
	default:
		return nil, nil, errors.New("unknown target " + cs.Target)
	}
	finish := func(out *outcome) {
		var calls []doubles.Call
		if calB != nil {
			calls = calB.Calls()
		}
		if cardB != nil {
			calls = cardB.Calls()
		}
		for _, cl := range calls {
			out.Calls = append(out.Calls, cl.Op)
			if cl.Mutating() {
				out.Mutations = append(out.Mutations, cl.Op)
			}
		}
		if cs.Target == "webdav" {
			s, err := mon.Snapshot(e.fsRoot)
			if err != nil || s.Shape() != e.pristine {
				out.Mutations = append(out.Mutations, "tree changed")
				if err := e.buildTree(); err != nil {
					e.c.Inconclusive("C13: cannot rebuild the served tree: " + err.Error())
				}
			}
		}
	}
	return handler, finish, nil
}

func (e *env) exec(cs *Case) outcome {
	if cs.Wire != "" {
		return e.execWire(cs)
	}
	var out outcome
	req, err := buildRequest(cs)
	if err != nil {
		out.BuildErr = err.Error()
		return out
	}
	handler, finish, err := e.prepare(cs)
	if err != nil {
		out.BuildErr = err.Error()
		return out
	}
	rec := httptest.NewRecorder()
	rec.Code = 0
	cw := &countingWriter{ResponseRecorder: rec}
	panicked, val, stack := fw.Guard(func() { handler.ServeHTTP(cw, req) })
	out.Status = rec.Code
	out.WriteHeaders = cw.n
	if !panicked {
		if d := responseDefect(cs.Method, rec); d != "" {
			out.RespDefect, out.RespBody = d, bodyText(rec.Body.Bytes())
		}
	}
	if out.Status == 0 && !panicked {
		// the handler returned without WriteHeader: net/http would send 200
		// if anything was written, and also 200 for an empty response.
		out.Status = 200
	}
	if panicked {
		out.Panicked = true
		out.PanicVal = fmt.Sprint(val)
		out.Site = fw.PanicSite(stack)
		out.Stack = stack
	}
	finish(&out)
	return out
}

// countingWriter counts the handler's WriteHeader calls (evidence only).
type countingWriter struct {
	*httptest.ResponseRecorder
	n int
}

func (w *countingWriter) WriteHeader(code int) {
	w.n++
	w.ResponseRecorder.WriteHeader(code)
}

// responseDefect names what makes the recorded answer an incomplete HTTP
// response ("" = nothing). Only what is certain on the wire counts:
//   - the handler announced a Content-Length and wrote another number of
//     bytes (net/http cuts the surplus off or closes the connection early);
//   - the answer is an XML document by its own account - a 207, a Content-Type
//     naming XML when the header was written, or a body that opens with an XML
//     declaration - and the body is not one well-formed document (it breaks
//     off, or something follows the root element: an error text written
//     after a part of the document had gone out);
//   - a 207 whose document is not a DAV:multistatus.
//
// HEAD answers and statuses that carry no body are not looked at.
func responseDefect(method string, rec *httptest.ResponseRecorder) string {
	code := rec.Code
	if method == "HEAD" || code == 0 || code < 200 || code == 204 || code == 304 {
		return ""
	}
	hdr := rec.Result().Header
	body := rec.Body.Bytes()
	if cl := hdr.Get("Content-Length"); cl != "" {
		if n, err := strconv.Atoi(cl); err == nil && n != len(body) {
			return "announced Content-Length differs from the bytes written"
		}
	}
	ct := strings.ToLower(hdr.Get("Content-Type"))
	if i := strings.IndexByte(ct, ';'); i >= 0 {
		ct = ct[:i]
	}
	ct = strings.TrimSpace(ct)
	isXML := code == 207 || ct == "application/xml" || ct == "text/xml" || bytes.HasPrefix(body, []byte("<?xml"))
	if !isXML {
		return ""
	}
	if len(body) == 0 {
		if code == 207 {
			return "207 without a body"
		}
		return ""
	}
	root, err := xmltree.Parse(body)
	if err != nil {
		return "XML answer is not one well-formed document"
	}
	if code == 207 && root.Name() != "{"+nsD+"}multistatus" {
		return "207 whose document is not a DAV:multistatus"
	}
	return ""
}

// ---- execution over a real socket ------------------------------------------

type wireJob struct {
	cs   *Case
	done chan outcome
}

type statusWriter struct {
	http.ResponseWriter
	code int
}

func (w *statusWriter) WriteHeader(code int) {
	if w.code == 0 {
		w.code = code
	}
	w.ResponseWriter.WriteHeader(code)
}

func (w *statusWriter) Write(b []byte) (int, error) {
	if w.code == 0 {
		w.code = 200
	}
	return w.ResponseWriter.Write(b)
}

// startWire starts, once per worker, a net/http server on a loopback port
// whose handler serves the job handed over through e.wire.
func (e *env) startWire() error {
	if e.wireLn != nil {
		return nil
	}
	ln, err := net.Listen("tcp", "127.0.0.1:0")
	if err != nil {
		return err
	}
	e.wireLn = ln
	e.wire = make(chan *wireJob, 1)
	srv := &http.Server{ErrorLog: log.New(ioutil.Discard, "", 0), Handler: http.HandlerFunc(func(w http.ResponseWriter, r *http.Request) {
		var job *wireJob
		select {
		case job = <-e.wire:
		default:
			http.Error(w, "no job", 500)
			return
		}
		var out outcome
		handler, finish, err := e.prepare(job.cs)
		if err != nil {
			out.BuildErr = err.Error()
			job.done <- out
			return
		}
		sw := &statusWriter{ResponseWriter: w}
		panicked, val, stack := fw.Guard(func() { handler.ServeHTTP(sw, r) })
		out.Status = sw.code
		if out.Status == 0 && !panicked {
			out.Status = 200
		}
		if panicked {
			out.Panicked, out.PanicVal, out.Site, out.Stack = true, fmt.Sprint(val), fw.PanicSite(stack), stack
		}
		finish(&out)
		job.done <- out
	})}
	srv.SetKeepAlivesEnabled(false)
	go srv.Serve(ln)
	return nil
}

func (e *env) stopWire() {
	if e.wireLn != nil {
		e.wireLn.Close()
	}
}

// execWire writes the request to a socket with the wire-level fault named by
// cs.Wire. Wall-clock limits here only ever make the run inconclusive.
func (e *env) execWire(cs *Case) outcome {
	var out outcome
	if _, err := url.ParseRequestURI(cs.Path); err != nil || strings.ContainsAny(cs.Method+cs.Path, " \r\n") {
		out.BuildErr = "request line not writable"
		return out
	}
	if err := e.startWire(); err != nil {
		out.BuildErr = "cannot listen on loopback: " + err.Error()
		e.c.Inconclusive("C13: wire family unavailable: " + err.Error())
		return out
	}
	var sb bytes.Buffer
	fmt.Fprintf(&sb, "%s %s HTTP/1.1\r\nHost: dav.example\r\nConnection: close\r\n", cs.Method, cs.Path)
	hdr := func(name string, v HV) {
		if v.Set {
			fmt.Fprintf(&sb, "%s: %s\r\n", name, v.V)
		}
	}
	hdr("Depth", cs.Depth)
	hdr("Overwrite", cs.Overwrite)
	hdr("Destination", cs.Dest)
	hdr("Content-Type", cs.CT)
	switch cs.Wire {
	case "chunked-bad-size":
		sb.WriteString("Transfer-Encoding: chunked\r\n\r\n")
		if len(cs.Body.Data) > 0 {
			fmt.Fprintf(&sb, "%x\r\n%s\r\n", len(cs.Body.Data), cs.Body.Data)
		}
		sb.WriteString("ZZ\r\nnot a chunk")
	case "short-content-length":
		fmt.Fprintf(&sb, "Content-Length: %d\r\n\r\n%s", len(cs.Body.Data)+500, cs.Body.Data)
	default:
		out.BuildErr = "unknown wire fault " + cs.Wire
		return out
	}
	job := &wireJob{cs: cs, done: make(chan outcome, 1)}
	e.wire <- job
	conn, err := net.Dial("tcp", e.wireLn.Addr().String())
	if err != nil {
		<-e.wire
		out.BuildErr = "dial: " + err.Error()
		e.c.Inconclusive("C13: wire family: " + out.BuildErr)
		return out
	}
	defer conn.Close()
	conn.SetDeadline(time.Now().Add(60 * time.Second))
	conn.Write(sb.Bytes())
	if tc, ok := conn.(*net.TCPConn); ok {
		tc.CloseWrite()
	}
	io.Copy(ioutil.Discard, conn)
	// The server closes the connection after the handler has returned, so
	// the outcome is normally there already.
	select {
	case out = <-job.done:
		return out
	default:
	}
	select {
	case <-e.wire: // net/http refused the request itself; no handler ran
		out.BuildErr = "request refused by net/http before the handler"
		return out
	default:
	}
	select {
	case out = <-job.done:
	case <-time.After(60 * time.Second):
		out.BuildErr = "handler did not finish"
		e.c.Inconclusive("C13: wire family: handler did not finish within 60 s")
	}
	return out
}

// ---- oracle ------------------------------------------------------------------

// reason names one component of the request that is definitely malformed.
type reason struct {
	Comp  string `json:"comp"` // ct, depth, overwrite, dest, body
	Class string `json:"class"`
}

var (
	rootPropfind       = "{" + nsD + "}propfind"
	rootPropertyUpdate = "{" + nsD + "}propertyupdate"
	rootMkcol          = "{" + nsD + "}mkcol"
	reportRoots        = map[string]map[string]bool{
		"caldav":  {"{" + nsC + "}calendar-query": true, "{" + nsC + "}calendar-multiget": true},
		"carddav": {"{" + nsR + "}addressbook-query": true, "{" + nsR + "}addressbook-multiget": true},
	}
)

func docTarget(doc string) string {
	switch {
	case strings.HasPrefix(doc, "calendar-"), doc == "ical", doc == "mkcol-cal":
		return "caldav"
	case strings.HasPrefix(doc, "addressbook-"), doc == "vcard", doc == "mkcol-card":
		return "carddav"
	}
	return ""
}

func notXMLClass(ct HV) string {
	switch {
	case !ct.Set:
		return "content-type:missing"
	case ct.Cls == "unparsable":
		return "content-type:unparsable"
	case ct.Cls == "badparams":
		return "content-type:invalid-parameters"
	case ct.Cls == "other" || ct.Cls == "ical" || ct.Cls == "vcard":
		return "content-type:other"
	}
	return ""
}

// reasons lists why the request is definitely malformed, using only the
// by-construction record in cs. An empty list means obligation (1) only.
func reasons(cs *Case) []reason {
	var rs []reason
	add := func(comp, class string) {
		if class != "" {
			rs = append(rs, reason{comp, class})
		}
	}
	if cs.Level == "well-known" && cs.Target != "webdav" {
		// answered by a redirect before the request is looked at
		return nil
	}
	if len(cs.Dup) > 0 {
		// a header field sent twice: which value counts is left open
		return nil
	}
	if unreadable(cs) {
		// The body broke off before a complete document had arrived: what
		// the server holds is unparseable by construction.
		dav := cs.Target == "caldav" || cs.Target == "carddav"
		switch cs.Method {
		case "REPORT", "MKCOL":
			if dav {
				return []reason{{"transport", "body:unreadable"}}
			}
		case "PROPPATCH":
			if cs.Target != "principal" {
				return []reason{{"transport", "body:unreadable"}}
			}
		case "PROPFIND":
			if len(cs.Body.Data) == 0 {
				// Nothing arrived at all: what the server holds is an empty
				// body, which is a valid (allprop) request without any side
				// effect; whether the break-off is noticed is left open.
				return nil
			}
			return []reason{{"transport", "body:unreadable"}}
		}
		return nil
	}
	if cs.BodyPad > 0 || cs.fault() != "" || cs.Wire != "" || cs.Cancelled {
		// other transport anomalies (a fault after a complete document, an
		// over-long body, a cancelled context) are not malformed requests
		return nil
	}
	dav := cs.Target == "caldav" || cs.Target == "carddav"
	b := &cs.Body
	xmlCT := cs.CT.Set && cs.CT.Cls == "xml"
	wellFormedRoot := b.Root != "" && b.Syntax == ""
	switch cs.Method {
	case "REPORT":
		if !dav {
			return nil
		}
		add("ct", notXMLClass(cs.CT))
		switch {
		case len(b.Data) == 0:
			add("body", "xml:empty")
		case b.Syntax != "":
			add("body", b.Syntax)
		case wellFormedRoot && !reportRoots[cs.Target][b.Root] && !otherReports[b.Root]:
			add("body", "wrong-root")
		case wellFormedRoot && reportRoots[cs.Target][b.Root] && b.Sem != "" && docTarget(b.Doc) == cs.Target:
			add("body", b.Doc+" "+b.Sem)
		}
	case "PROPPATCH":
		if cs.Target == "principal" {
			return nil
		}
		add("ct", notXMLClass(cs.CT))
		switch {
		case len(b.Data) == 0:
			add("body", "xml:empty")
		case b.Syntax != "":
			add("body", b.Syntax)
		case wellFormedRoot && b.Root != rootPropertyUpdate:
			add("body", "wrong-root")
		}
	case "PROPFIND":
		switch {
		case len(b.Data) > 0 && b.Syntax != "":
			add("body", b.Syntax)
		case xmlCT && wellFormedRoot && b.Root != rootPropfind:
			add("body", "wrong-root")
		}
		if cs.Depth.Set && cs.Depth.Cls == "invalid" {
			add("depth", "depth:invalid")
		}
	case "MKCOL":
		if !dav {
			return nil
		}
		switch {
		case len(b.Data) > 0 && b.Syntax != "":
			add("body", b.Syntax)
		case xmlCT && wellFormedRoot && b.Root != rootMkcol:
			add("body", "wrong-root")
		}
	case "PUT":
		if !dav {
			return nil
		}
		want := "ical"
		if cs.Target == "carddav" {
			want = "vcard"
		}
		switch {
		case !cs.CT.Set:
			add("ct", "content-type:missing")
		case cs.CT.Cls == "unparsable":
			add("ct", "content-type:unparsable")
		case cs.CT.Cls == "badparams":
			add("ct", "content-type:invalid-parameters")
		case cs.CT.Cls == "boundary" || cs.CT.Cls == want:
		default:
			add("ct", "content-type:other")
		}
		switch {
		case len(b.Data) == 0:
			add("body", want+":empty")
		case b.Text != "" && b.Doc == want:
			add("body", b.Text)
		}
	case "COPY", "MOVE":
		if cs.Target == "principal" {
			return nil
		}
		switch {
		case !cs.Dest.Set:
			add("dest", "destination:missing")
		case cs.Dest.Cls == "invalid":
			add("dest", "destination:unparsable")
		}
		if cs.Overwrite.Set && cs.Overwrite.Cls == "invalid" {
			add("overwrite", "overwrite:invalid")
		}
		if cs.Depth.Set && cs.Depth.Cls == "invalid" {
			add("depth", "depth:invalid")
		}
	}
	return rs
}

// selfCheck cross-checks the by-construction labels of the body with the
// harness's own strict XML reader. It can only veto a label (the case then
// carries obligation 1 only and the run is flagged), never create one.
func selfCheck(cs *Case, rs []reason) bool {
	needs := false
	for _, r := range rs {
		if r.Comp == "body" && (strings.HasPrefix(r.Class, "xml-syntax") || r.Class == "wrong-root" || cs.Body.Sem != "") {
			needs = true
		}
	}
	if !needs {
		return true
	}
	root, err := xmltree.Parse(cs.Body.Data)
	if cs.Body.Syntax != "" {
		return err != nil
	}
	return err == nil && root.Name() == cs.Body.Root
}

func methodClass(m string) string {
	if m == "COPY" || m == "MOVE" {
		return "COPY/MOVE"
	}
	return m
}

func entryPoint(cs *Case) string { return cs.Target + " " + methodClass(cs.Method) }

// parsedInput names what the entry point parses (used for panic keys, where
// the panic site, not the mutation operator, identifies the defect).
func parsedInput(cs *Case) string {
	switch cs.Method {
	case "PUT":
		if cs.Target == "caldav" {
			return "iCalendar body"
		}
		if cs.Target == "carddav" {
			return "vCard body"
		}
		return "body"
	case "REPORT", "PROPFIND", "PROPPATCH", "MKCOL":
		return "XML body"
	}
	return "request"
}

// unreadable reports whether the body reader fails (or the wire breaks)
// before a complete document was delivered, by construction.
func unreadable(cs *Case) bool {
	return (cs.fault() != "" || cs.Wire != "") && cs.BodyPad == 0 && cs.Body.Partial
}

func statusOK(cs *Case, status int) bool {
	if status >= 400 && status <= 499 {
		return true
	}
	// A body that cannot be read is the transport's fault as much as the
	// client's: the statement's "never 2xx, never a mutation" is kept, 5xx
	// is tolerated.
	if unreadable(cs) && status >= 500 && status <= 599 {
		return true
	}
	// (COPY/MOVE are unimplemented by the CalDAV/CardDAV backends and answer
	// 501 when well-formed; a malformed one - invalid Destination, Depth or
	// Overwrite - is still the client's fault and owed a 4xx.)
	return false
}

// observedKey is observedString for finding keys. Which success code a
// request was carried out under (200, 201, 204, 207) is no part of what went
// wrong when it should have been refused: 2xx codes are folded.
func observedKey(out outcome) string {
	s := observedString(out)
	if out.Status >= 200 && out.Status <= 299 {
		s = "status 2xx" + strings.TrimPrefix(s, fmt.Sprintf("status %d", out.Status))
	}
	return s
}

func observedString(out outcome) string {
	s := fmt.Sprintf("status %d", out.Status)
	if len(out.Mutations) > 0 {
		m := map[string]bool{}
		var l []string
		for _, x := range out.Mutations {
			if !m[x] {
				m[x] = true
				l = append(l, x)
			}
		}
		sort.Strings(l)
		s += " + " + strings.Join(l, ",")
	}
	return s
}

func bodyText(b []byte) string {
	s := string(b)
	if len(s) > 700 {
		s = s[:350] + "…[" + strconv.Itoa(len(b)) + " bytes]…" + s[len(s)-350:]
	}
	return strconv.Quote(s)
}

type witness struct {
	Case     *Case    `json:"case"`
	BodyText string   `json:"body_text"`
	Reasons  []reason `json:"definitely_malformed_because,omitempty"`
	Observed outcome  `json:"observed"`
}

// questionable names what about the request breaks a MUST of an RFC that the
// statement's list of malformations does not name for this entry point ("" =
// nothing): accepting the request and refusing it with a 4xx are both left
// open, a server error is neither. Nothing else about the request may be
// unusual.
//   - the body carries a Quest label and is the body the server decodes for
//     this request (a range whose end is not after its start in a CalDAV
//     REPORT; more than one of allprop / propname / prop in a PROPFIND);
//   - a REPORT carries a Depth value outside the grammar (the statement's
//     servers take no Depth for their REPORTs).
func questionable(cs *Case) string {
	if cs.BodyPad > 0 || cs.fault() != "" || cs.Wire != "" || cs.Cancelled || unreadable(cs) {
		return ""
	}
	if cs.Level == "well-known" || cs.Level == "odd" || cs.BackendDown != "" || len(cs.Dup) > 0 {
		// (with the backend down the server error has a cause of its own)
		return ""
	}
	if !(cs.CT.Set && cs.CT.Cls == "xml") {
		return ""
	}
	dav := cs.Target == "caldav" || cs.Target == "carddav"
	switch cs.Method {
	case "REPORT":
		if !dav {
			return ""
		}
		if cs.Body.Quest != "" && docTarget(cs.Body.Doc) == cs.Target {
			return cs.Body.Doc + " " + cs.Body.Quest
		}
		if cs.Depth.Set && cs.Depth.Cls == "invalid" && cs.Body.Mut == "valid" && docTarget(cs.Body.Doc) == cs.Target {
			return "depth:invalid on REPORT"
		}
	case "PROPFIND":
		if cs.Body.Quest != "" && cs.Body.Doc == "propfind" && !(cs.Depth.Set && cs.Depth.Cls != "valid") {
			return cs.Body.Doc + " " + cs.Body.Quest
		}
	}
	return ""
}

func violates2(cs *Case, out outcome) bool {
	return !statusOK(cs, out.Status) || len(out.Mutations) > 0
}

// neutralise returns a copy of cs in which every definitely-malformed
// component except keep is replaced by a valid default.
func neutralise(cs *Case, rs []reason, keep reason) *Case {
	n := *cs
	n.Fam = cs.Fam + "/isolated"
	for _, r := range rs {
		if r.Comp == keep.Comp {
			continue
		}
		switch r.Comp {
		case "ct":
			n.CT = defaultCT(cs.Target, cs.Method)
		case "depth":
			n.Depth = HV{}
		case "overwrite":
			n.Overwrite = HV{}
		case "dest":
			n.Dest = defaultDest(cs.Target, cs.Prefix)
		case "body":
			n.Body = defaultBody(cs.Target, cs.Method)
		}
	}
	return &n
}

func defaultCT(target, method string) HV {
	if method == "PUT" {
		if target == "caldav" {
			return hv("text/calendar", "ical")
		}
		if target == "carddav" {
			return hv("text/vcard", "vcard")
		}
		return HV{}
	}
	return hv("application/xml", "xml")
}

func defaultDest(target, prefix string) HV {
	if target == "webdav" {
		return hv("/newdst", "valid")
	}
	return hv(layoutFor(target, strings.TrimSuffix(prefix, "/")).Coll+"copied", "valid")
}

var seedByName = func() map[string]seedDoc {
	m := map[string]seedDoc{}
	for _, s := range xmlSeeds() {
		m[s.Name] = s
	}
	for _, s := range textSeeds() {
		m[s.Name] = s
	}
	return m
}()

func defaultBody(target, method string) Body {
	x := func(name string) Body { return validXMLBody(seedByName[name], false) }
	switch method {
	case "REPORT":
		if target == "carddav" {
			return x("addressbook-query-rich")
		}
		return x("calendar-query-rich")
	case "PROPPATCH":
		return x("propertyupdate")
	case "PROPFIND":
		return x("propfind-prop")
	case "MKCOL":
		if target == "carddav" {
			return x("mkcol-card")
		}
		if target == "caldav" {
			return x("mkcol-cal")
		}
		return Body{}
	case "PUT":
		if target == "carddav" {
			return validTextBody(seedByName["vcard-3"])
		}
		if target == "caldav" {
			return validTextBody(seedByName["ical-event"])
		}
		return Body{Data: []byte("new content"), Doc: "bytes", Mut: "valid"}
	}
	return Body{}
}

// run executes one case and applies the oracle.
func (e *env) run(cs *Case) {
	c := e.c
	if cs.Prev != nil {
		e.runSeq(cs)
		return
	}
	c.Journal(cs)
	out := e.exec(cs)
	c.JournalDone()
	if out.BuildErr != "" {
		// A request-target net/http itself would refuse never reaches a handler.
		c.Observe("skipped", "unbuildable request", 1)
		return
	}
	c.Eval(1)
	rs := reasons(cs)
	if len(rs) > 0 && !selfCheck(cs, rs) {
		// The harness's strict XML reader does not confirm what the operator
		// claims about the body: drop the body's label (never the headers').
		b := &cs.Body
		if b.Syntax != "" || b.Sem != "" || b.Mut == "valid" || strings.HasPrefix(b.Mut, "root-") {
			c.Inconclusive(fmt.Sprintf("C13 harness self-check: by-construction label of a body disagrees with the harness XML reader (fam=%s doc=%s mut=%s)", cs.Fam, b.Doc, b.Mut))
		}
		c.Observe("self-check", "root label of an unlabelled operator not confirmed, dropped: "+b.Mut, 1)
		var kept []reason
		for _, r := range rs {
			if r.Comp != "body" {
				kept = append(kept, r)
			}
		}
		rs = kept
	}
	e.observe(cs, rs, out)
	if out.Panicked {
		c.Report(entryPoint(cs)+" | "+parsedInput(cs)+" | panic "+out.Site,
			fmt.Sprintf("%s %s panicked: %s", cs.Target, cs.Method, out.PanicVal),
			witness{cs, bodyText(cs.Body.Data), rs, out})
		return
	}
	if out.Status < 100 || out.Status > 599 {
		c.Report(entryPoint(cs)+" | any | invalid status", fmt.Sprintf("handler produced status %d", out.Status), witness{cs, bodyText(cs.Body.Data), rs, out})
		return
	}
	if out.RespDefect != "" {
		e.reportResp(cs, rs, out)
		return
	}
	if q := questionable(cs); len(rs) == 0 && q != "" {
		c.Observe("left open (5xx would be a finding)", entryPoint(cs)+" | "+q+" | "+strconv.Itoa(out.Status), 1)
		if out.Status >= 500 {
			// Neither reading of such a request - malformed (4xx owed) or
			// acceptable (the backend double is healthy, nothing fails) -
			// makes it the server's error.
			c.Report(entryPoint(cs)+" | "+q+" | "+observedKey(out),
				fmt.Sprintf("%s %s %s: the request breaks a MUST of the RFC (%s); accepting it and refusing it with a 4xx are both left open, but it was answered %s", cs.Target, cs.Method, cs.Path, q, observedString(out)),
				witness{cs, bodyText(cs.Body.Data), rs, out})
			return
		}
	}
	if len(rs) == 0 || !violates2(cs, out) {
		return
	}
	// Obligation (2) is violated. Attribute it to single components so that
	// one defect has one key whatever else the request carried.
	if len(rs) > 1 {
		attributed := false
		for _, r := range rs {
			iso := neutralise(cs, rs, r)
			irs := reasons(iso)
			if len(irs) != 1 {
				continue
			}
			c.Journal(iso)
			iout := e.exec(iso)
			c.JournalDone()
			c.Observe("isolation", "re-executed", 1)
			if iout.BuildErr == "" && !iout.Panicked && violates2(iso, iout) {
				attributed = true
				e.report2(iso, irs, iout)
			}
		}
		if attributed {
			return
		}
	}
	e.report2(cs, rs, out)
}

// anomalyKind names what made request A fail.
func anomalyKind(a *Case) string {
	switch {
	case a.BodyPad > 0:
		return "oversized body"
	case a.BodyErr:
		return "body read error"
	case a.Cancelled:
		return "cancelled context"
	}
	return "request"
}

// labelledReasons is reasons() filtered by the self-check.
func (e *env) labelledReasons(cs *Case) []reason {
	rs := reasons(cs)
	if len(rs) > 0 && !selfCheck(cs, rs) {
		b := &cs.Body
		if b.Syntax != "" || b.Sem != "" || b.Mut == "valid" || strings.HasPrefix(b.Mut, "root-") {
			e.c.Inconclusive(fmt.Sprintf("C13 harness self-check: by-construction label of a body disagrees with the harness XML reader (fam=%s doc=%s mut=%s)", cs.Fam, b.Doc, b.Mut))
		}
		var kept []reason
		for _, r := range rs {
			if r.Comp != "body" {
				kept = append(kept, r)
			}
		}
		rs = kept
	}
	return rs
}

// runSeq executes B alone, then Repeat times the pair (A = cs.Prev, B = cs)
// back to back in this process. Handlers and backends are fresh per request:
// only process-wide state of the library links A and B. B is judged by the
// usual oracle; a violation that B alone does not show is keyed as a sequence.
func (e *env) runSeq(cs *Case) {
	c := e.c
	a := cs.Prev
	b := *cs
	b.Prev, b.Repeat = nil, 0
	c.Journal(cs)
	defer c.JournalDone()
	rs := e.labelledReasons(&b)
	judgeB := func(out outcome, seq bool) bool {
		c.Eval(1)
		e.observe(&b, rs, out)
		w := witness{cs, bodyText(b.Body.Data), rs, out}
		if !seq {
			bb := b
			w.Case = &bb
		}
		switch {
		case out.BuildErr != "":
			return false
		case out.Panicked:
			k := entryPoint(&b) + " | " + parsedInput(&b) + " | panic " + out.Site
			if seq {
				k = "sequence: " + anomalyKind(a) + " then " + k
			}
			c.Report(k, fmt.Sprintf("%s %s panicked: %s", b.Target, b.Method, out.PanicVal), w)
			return true
		case out.RespDefect != "":
			e.reportResp(&b, rs, out)
			return true
		case len(rs) > 0 && violates2(&b, out):
			if !seq {
				e.report2(&b, rs, out)
				return true
			}
			var classes []string
			for _, r := range rs {
				cl := r.Class
				if i := strings.IndexAny(cl, ": "); i > 0 {
					cl = cl[:i]
				}
				classes = append(classes, cl)
			}
			k := "sequence: " + anomalyKind(a) + " then " + entryPoint(&b) + " | " + strings.Join(classes, " + ") + " | " + observedKey(out)
			c.Report(k, fmt.Sprintf("after a request that failed (%s: %s %s %s), %s %s %s, malformed by construction (%s), was answered %s: state left by the failed request leaks into the next one",
				anomalyKind(a), a.Target, a.Method, a.Path, b.Target, b.Method, b.Path, strings.Join(classes, ", "), observedString(out)), w)
			return true
		}
		return false
	}
	if judgeB(e.exec(&b), false) {
		return
	}
	reps := cs.Repeat
	if reps <= 0 {
		reps = 3
	}
	for rep := 0; rep < reps; rep++ {
		aout := e.exec(a)
		if aout.BuildErr != "" {
			return
		}
		c.Eval(1)
		st := strconv.Itoa(aout.Status)
		if aout.Panicked {
			st = "panic"
			c.Report(entryPoint(a)+" | "+anomalyKind(a)+" | panic "+aout.Site, fmt.Sprintf("%s %s panicked: %s", a.Target, a.Method, aout.PanicVal),
				witness{a, bodyText(a.Body.Data), nil, aout})
		}
		c.Observe("sequence: first request", a.Target+" "+a.Method+" | "+anomalyKind(a)+" | "+st, 1)
		c.Observe("family", "sequence (first request)", 1)
		if judgeB(e.exec(&b), true) {
			return
		}
	}
}

// reportResp: obligation (1) asks for a complete response. The key names the
// entry point, the status class and the kind of incompleteness - not the
// input, which is whatever made the handler take that path.
func (e *env) reportResp(cs *Case, rs []reason, out outcome) {
	e.c.Report(entryPoint(cs)+" | response "+strconv.Itoa(out.Status/100)+"xx | "+out.RespDefect,
		fmt.Sprintf("%s %s %s was answered %d, but the answer is not a complete HTTP response: %s", cs.Target, cs.Method, cs.Path, out.Status, out.RespDefect),
		witness{cs, bodyText(cs.Body.Data), rs, out})
}

func (e *env) report2(cs *Case, rs []reason, out outcome) {
	var classes []string
	for _, r := range rs {
		classes = append(classes, r.Class)
	}
	key := entryPoint(cs) + " | " + strings.Join(classes, " + ") + " | " + observedKey(out)
	what := fmt.Sprintf("%s %s %s: request is malformed by construction (%s) but was answered %s", cs.Target, cs.Method, cs.Path, strings.Join(classes, ", "), observedString(out))
	if cs.BackendDown != "" && out.Status >= 500 {
		// What went wrong is the order - the backend was consulted before the
		// request had been validated - whatever the malformation and whatever
		// error the backend gave: one key per entry point.
		obs := fmt.Sprintf("status %dxx", out.Status/100)
		if len(out.Mutations) > 0 {
			obs += " + mutation"
		}
		key = entryPoint(cs) + " | malformed request, backend down | " + obs
		what = fmt.Sprintf("%s %s %s with every backend lookup failing (%s): request is malformed by construction (%s) but was answered %s", cs.Target, cs.Method, cs.Path, cs.BackendDown, strings.Join(classes, ", "), observedString(out))
	}
	e.c.Report(key, what, witness{cs, bodyText(cs.Body.Data), rs, out})
}

func (e *env) observe(cs *Case, rs []reason, out outcome) {
	c := e.c
	st := strconv.Itoa(out.Status)
	if out.Panicked {
		st = "panic"
	}
	mc := cs.Method
	c.Observe("status", cs.Target+" "+mc+" "+st, 1)
	c.Observe("family", cs.Fam, 1)
	c.Observe("level", cs.Target+" "+cs.Level, 1)
	if cs.Body.Mut != "" {
		m := cs.Body.Mut
		if i := strings.IndexByte(m, ':'); i > 0 && strings.HasPrefix(m, "deep-nest") {
			m = m[:i]
		}
		c.Observe("body operator", cs.Body.Doc+" "+m, 1)
	}
	for _, cl := range out.Calls {
		c.Observe("backend calls", cs.Target+" "+cl, 1)
	}
	if len(out.Mutations) > 0 {
		c.Observe("mutating requests", cs.Target+" "+mc, 1)
	}
	if cs.Wire == "" && !out.Panicked {
		c.Observe("response completeness", fmt.Sprintf("%s | WriteHeader calls %d | %s", st, out.WriteHeaders, map[bool]string{true: "complete", false: out.RespDefect}[out.RespDefect == ""]), 1)
	}
	var classes []string
	for _, r := range rs {
		classes = append(classes, r.Class)
		cls := r.Class
		c.Observe("definitely malformed", cs.Target+" "+methodClass(mc)+" | "+cls+" | "+st, 1)
	}
	if cs.BackendDown != "" {
		lab := "unlabelled"
		if len(rs) > 0 {
			lab = "malformed by construction"
		}
		c.Observe("backend down: answers", cs.Target+" "+methodClass(mc)+" | "+lab+" | "+st, 1)
	}
	if len(rs) == 0 && out.Status >= 500 && out.Status != 501 && cs.BackendDown == "" {
		m := cs.Body.Mut
		if strings.HasPrefix(m, "deep-nest") {
			m = "deep-nest"
		}
		c.Observe("5xx outside obligation 2 (informational)", cs.Target+" "+mc+" "+cs.Level+" | "+cs.Body.Doc+" "+m+" | "+st, 1)
	}
	if len(rs) == 0 {
		c.Observe("obligation", "(1) response without panic", 1)
	} else {
		c.Observe("obligation", "(1)+(2) 4xx and no mutation", 1)
	}
	c.Distinct(strings.Join([]string{cs.Target, mc, cs.Level, cs.Body.Doc, cs.Body.Mut, cs.Depth.Cls, cs.Overwrite.Cls, cs.Dest.Cls, cs.CT.Cls, strings.Join(classes, "+"), st}, "|"))
	if len(rs) > 0 && c.WantSample() && len(cs.Body.Data) < 1500 && cs.Fam != "truncate" {
		c.Sample(witness{cs, bodyText(cs.Body.Data), rs, out})
	}
}

func replay(c *fw.Ctx, w json.RawMessage) {
	var wr struct {
		Case *Case `json:"case"`
	}
	if err := json.Unmarshal(w, &wr); err != nil || wr.Case == nil {
		c.Inconclusive("C13 replay: witness has no case")
		return
	}
	e, err := newEnv(c)
	if err != nil {
		c.Inconclusive("C13 replay: " + err.Error())
		return
	}
	e.run(wr.Case)
	out := e.exec(wr.Case)
	b, _ := json.Marshal(struct {
		Reasons  []reason `json:"definitely_malformed_because"`
		Observed outcome  `json:"observed"`
	}{reasons(wr.Case), out})
	fmt.Printf("replayed %s %s %s: %s\n", wr.Case.Target, wr.Case.Method, wr.Case.Path, string(b))
}

func init() {
	fw.Register(&fw.Property{
		ID:     "C13",
		Run:    runAll,
		Replay: replay,
		Rule: "requests = method x hierarchy level x handler (webdav.Handler on LocalFileSystem, caldav.Handler, carddav.Handler on recording backends, webdav.ServePrincipal) " +
			"x header sets (Depth/Overwrite/Destination/Content-Type: valid, boundary, invalid) x bodies (valid seeds; truncation at every byte offset; one definite syntax error; wrong root; " +
			"mutually exclusive elements; invalid date (wrong shape; one field outside its range; every day 29-31 a month of a common, leap and century year lacks - in every start/end slot of time-range and expand, checked by the harness's own RFC 5545 reader)/enumeration/limit; iCalendar/vCard without BEGIN/END or with a line lacking its colon; random structural mutations, deep nesting, bodies up to 64 KiB, random bytes). " +
			"plus a pairwise family (every malformed operator x every unusual-but-valid feature of the same REPORT document: selection forms, limits 0/1/huge/absent, expand, empty lists, Depth, Content-Type spelling) and a sequence family (request A fails on a transport path: body breaks off after a complete valid document, body of 1 MiB+1..5 MiB beginning with one, cancelled context; request B, malformed by construction, follows in the same process, 3 times; B alone is judged first). " +
			"Every eleventh case is sent once more to a handler whose backend is down (every lookup fails with a plain error, a 503 or a 404; file system: every operation fails): obligations unchanged, a malformed request is owed its 4xx before the backend is asked. Sequences also for uploads (a PUT that fails on a transport path, then a PUT of an unparseable object). Header fields sent twice (Depth, Overwrite, Destination, Content-Type: valid+invalid in either order), CONNECT, asterisk-form and absolute-form request-targets: obligation (1) only. " +
			"Every answer not taken from a socket is recorded in full and must be a complete HTTP response: an announced Content-Length equals the bytes written; an answer that is XML by its own account (207, an XML Content-Type, a body opening with an XML declaration) is one well-formed document by the harness's XML reader; a 207 is a DAV:multistatus. " +
			"Each request is served by ServeHTTP under recover(); obligation (2) (4xx, no mutating backend call, served tree unchanged) applies only when a component is malformed BY CONSTRUCTION (label set by the operator, cross-checked by the harness XML reader, never by encoding/xml unmarshalling). " +
			"distinct_nontrivial counts distinct (handler, method, level, body family, operator, header classes, malformed classes, status) tuples.",
		Assumptions: []string{
			"requests are built the way net/http hands them to a handler (parsed request-target, canonical header keys, http.NoBody for empty bodies); request-targets net/http would refuse are not sent",
			"backends are well-behaved doubles: recording CalDAV/CardDAV backends with a fixed valid layout whose objects announce the length of their go-ical / go-vcard encoding (the handlers send the backend's ContentLength as Content-Length and write their own encoding), LocalFileSystem on a private tmpfs tree rebuilt after every change; in the backend-down family every lookup fails and nothing else",
			"left open, a server error being a finding all the same (table 'left open'): a range whose end is not after its start, more than one of allprop/propname/prop in a PROPFIND, a Depth value outside the grammar on a REPORT; HEAD answers, 1xx/204/304 and answers read from a socket are not checked for completeness",
			"don't-cares: trailing garbage after the root, allprop+propname, unknown elements/attributes, missing Content-Type on PROPFIND, other RFCs' REPORT roots, 501 for COPY/MOVE on CalDAV/CardDAV, case variants of Depth/Overwrite values, the /.well-known redirect, dates that are valid by the grammar but unusual (year 0000, second 60, the ends of the four-digit range) or that read to the same instant under a lenient reader (surrounding white space, lower-case t/z, a fraction of a second), nresults 0 or overflowing",
			"a process-fatal error (stack exhaustion) is attributed to the journalled case by the driver",
		},
		MinEvals:    func(t string) int64 { return 30000 },
		MinDistinct: func(t string) int64 { return 1500 },
		TimeoutS: func(t string) int {
			if t == "thorough" {
				return 3600
			}
			return 600
		},
	})
}

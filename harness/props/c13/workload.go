package c13

import (
	"math/rand"
	"strings"

	"github.com/emersion/go-webdav/verifharness/doubles"
	"github.com/emersion/go-webdav/verifharness/fw"
)

var allMethods = []string{"OPTIONS", "GET", "HEAD", "PUT", "DELETE", "MKCOL", "PROPFIND", "PROPPATCH", "COPY", "MOVE", "REPORT",
	"LOCK", "UNLOCK", "POST", "PATCH", "TRACE", "CONNECT", "MKCALENDAR", "ACL", "FOO", "get", "propfind", "report", "Put"}

var (
	depthValid    = []string{"0", "1", "infinity"}
	depthBoundary = []string{"", "Infinity", "INFINITY"}
	depthInvalid  = []string{"2", "-1", "infinite", "00", "01", "1.0", "0,1", "one", "∞", "0x0", "inf", "10", "1 1"}

	overwriteValid    = []string{"T", "F"}
	overwriteBoundary = []string{"", "t", "f"}
	overwriteInvalid  = []string{"true", "false", "yes", "no", "0", "1", "TF", "T,F", "X", "TT", "✓"}

	destInvalid  = []string{"http://[::1", "%zz", "/x%zz", "/%", "/a%2", "http://dav.example/%zz"}
	destBoundary = []string{"", "relative/path", "/../outside", "//other.example/path", "http://other.example/elsewhere", "/newdst?x=1",
		"/new%20dst", "/%00", "/", "/dir/sub/", "mailto:a@example.com", "/file.txt/below", "/missing/parent/child"}

	ctXML      = []string{"application/xml", "text/xml", "application/xml; charset=utf-8", "text/xml;charset=\"utf-8\"", "Application/XML"}
	ctICal     = []string{"text/calendar", "text/calendar; charset=utf-8", "TEXT/CALENDAR", "text/calendar;component=VEVENT"}
	ctVCard    = []string{"text/vcard", "text/vcard; charset=utf-8", "Text/VCard"}
	ctOther    = []string{"text/plain", "application/json", "application/octet-stream", "application/xmlx", "text/calendarx", "image/png", "multipart/form-data; boundary=x"}
	ctUnparse  = []string{"text/", "/xml", ";charset=utf-8", "application xml", "text/calendar/x", "application/xml/extra", "=", "\"text/xml\""}
	ctBoundary = []string{"", "text/x-vcard", "text/directory", "application/xhtml+xml", "application/calendar+xml"}
	// the right media type followed by a parameter section that breaks the
	// grammar of RFC 7231 3.1.1.1 (parameter = token "=" ( token / quoted-string )):
	// an invalid Content-Type value, whatever the type in front of it
	ctBadParams = []string{"application/xml; charset", "text/xml; =utf-8", "application/xml;;", "application/xml; charset=\"utf-8", "text/xml; charset=", "application/xml; charset=utf-8; charset=latin1",
		"text/calendar; charset", "text/calendar; =x", "text/calendar;;", "text/calendar; charset=\"utf-8", "text/calendar; charset=", "text/calendar; charset=utf-8 garbage",
		"text/vcard; charset", "text/vcard; =x", "text/vcard;;", "text/vcard; charset=\"utf-8", "text/vcard; charset=", "text/vcard; charset=utf-8; charset=latin1"}
)

func destValid(target, prefix string) []string {
	if target == "webdav" {
		return []string{"/newdst", "/dir/newfile", "http://dav.example/newdst", "/file.txt", "/empty/"}
	}
	l := layoutFor(target, prefix)
	return []string{l.Coll + "copied", "http://dav.example" + l.MissingObj, l.Obj}
}

func ctFor(cls string, i int) HV {
	pick := func(l []string) string { return l[i%len(l)] }
	switch cls {
	case "xml":
		return hv(pick(ctXML), "xml")
	case "ical":
		return hv(pick(ctICal), "ical")
	case "vcard":
		return hv(pick(ctVCard), "vcard")
	case "other":
		return hv(pick(ctOther), "other")
	case "unparsable":
		return hv(pick(ctUnparse), "unparsable")
	case "boundary":
		return hv(pick(ctBoundary), "boundary")
	case "badparams":
		return hv(pick(ctBadParams), "badparams")
	}
	return HV{}
}

// route is where a document family is normally sent.
type route struct {
	Target, Prefix, Method string
	lp
	CTCls string
}

func routesFor(fam string) []route {
	var rs []route
	addAll := func(target, prefix, method, ct string, paths []lp) {
		for _, p := range paths {
			rs = append(rs, route{target, prefix, method, p, ct})
		}
	}
	cal, card := calLayout(""), cardLayout("")
	calP, cardP := calLayout("/dav"), cardLayout("/dav")
	switch fam {
	case "propfind":
		addAll("webdav", "", "PROPFIND", "xml", []lp{{"root", "/"}, {"dir", "/dir/"}, {"file", "/file.txt"}, {"missing", "/missing"}})
		addAll("caldav", "", "PROPFIND", "xml", cal.mainPaths())
		addAll("carddav", "", "PROPFIND", "xml", card.mainPaths())
		addAll("principal", "", "PROPFIND", "xml", principalPaths()[:1])
		addAll("caldav", "/dav", "PROPFIND", "xml", []lp{{"collection", calP.Coll}})
		addAll("webdav", "", "PROPFIND", "", []lp{{"dir", "/dir/"}})
		addAll("caldav", "", "PROPFIND", "other", []lp{{"collection", cal.Coll}})
	case "propertyupdate":
		addAll("webdav", "", "PROPPATCH", "xml", []lp{{"file", "/file.txt"}, {"missing", "/missing"}, {"dir", "/dir/"}})
		addAll("caldav", "", "PROPPATCH", "xml", []lp{{"collection", cal.Coll}, {"object", cal.Obj}, {"root", cal.Root}})
		addAll("carddav", "", "PROPPATCH", "xml", []lp{{"home-set", card.Home}, {"collection", card.Coll}, {"object", card.Obj}})
	case "calendar-query", "calendar-multiget":
		addAll("caldav", "", "REPORT", "xml", []lp{{"collection", cal.Coll}, {"home-set", cal.Home}, {"object", cal.Obj}, {"root", cal.Root}, {"missing-collection", cal.MissingColl}})
		addAll("caldav", "/dav", "REPORT", "xml", []lp{{"collection", calP.Coll}})
		addAll("carddav", "", "REPORT", "xml", []lp{{"collection", card.Coll}})
	case "addressbook-query", "addressbook-multiget":
		addAll("carddav", "", "REPORT", "xml", []lp{{"collection", card.Coll}, {"home-set", card.Home}, {"object", card.Obj}, {"root", card.Root}, {"missing-collection", card.MissingColl}})
		addAll("carddav", "/dav", "REPORT", "xml", []lp{{"collection", cardP.Coll}})
		addAll("caldav", "", "REPORT", "xml", []lp{{"collection", cal.Coll}})
	case "mkcol-cal":
		addAll("caldav", "", "MKCOL", "xml", []lp{{"new-collection", cal.NewColl}, {"collection", cal.Coll}, {"home-set", cal.Home}, {"object", cal.MissingObj}})
		addAll("carddav", "", "MKCOL", "xml", []lp{{"new-collection", card.NewColl}})
	case "mkcol-card":
		addAll("carddav", "", "MKCOL", "xml", []lp{{"new-collection", card.NewColl}, {"collection", card.Coll}, {"home-set", card.Home}, {"object", card.MissingObj}})
		addAll("caldav", "", "MKCOL", "xml", []lp{{"new-collection", cal.NewColl}})
	case "ical":
		addAll("caldav", "", "PUT", "ical", []lp{{"missing-object", cal.MissingObj}, {"object", cal.Obj}, {"collection", cal.Coll}, {"deeper", cal.Deeper}})
		addAll("caldav", "/dav", "PUT", "ical", []lp{{"missing-object", calP.MissingObj}})
	case "vcard":
		addAll("carddav", "", "PUT", "vcard", []lp{{"missing-object", card.MissingObj}, {"object", card.Obj}, {"collection", card.Coll}, {"deeper", card.Deeper}})
		addAll("carddav", "/dav", "PUT", "vcard", []lp{{"missing-object", cardP.MissingObj}})
	}
	return rs
}

func (r route) mk(fam string, b Body, i int) *Case {
	return &Case{Fam: fam, Target: r.Target, Prefix: r.Prefix, Method: r.Method, Path: r.Path, Level: r.Level, CT: ctFor(r.CTCls, i), Body: b}
}

// defaultBodyFor returns the body a well-behaved client would send with the
// method (variant 0), or a plausible alternative (variant 1).
func bodyForMethod(target, method string) Body {
	switch method {
	case "PROPFIND", "PROPPATCH", "REPORT", "PUT":
		return defaultBody(target, method)
	case "MKCOL":
		return defaultBody(target, method)
	}
	return Body{}
}

type generator struct {
	c   *fw.Ctx
	e   *env
	idx int
}

// emit runs the case if it is dealt to this shard.
func (g *generator) emit(mk func() *Case) {
	i := g.idx
	g.idx++
	if !g.c.Mine(i) {
		return
	}
	cs := mk()
	if i%5 == 2 && cs.Shape == "" && cs.BodyPad == 0 && cs.fault() == "" && cs.Wire == "" && !cs.Cancelled && cs.Prev == nil {
		cs.Shape = doubles.BodyShapes[(i/5)%len(doubles.BodyShapes)]
		g.c.Observe("body_shape", cs.Shape, 1)
	}
	g.e.run(cs)
	// Every eleventh case that has no other anomaly is also sent to a
	// handler whose backend is down (see backdown.go).
	if i%11 == 7 && cs.Target != "principal" && cs.BodyPad == 0 && cs.fault() == "" && cs.Wire == "" && !cs.Cancelled && cs.Prev == nil {
		d := *cs
		d.Fam = "backend-down"
		d.BackendDown = backendDownModes[(i/11)%len(backendDownModes)]
		g.c.Observe("backend down", cs.Fam+" | "+d.BackendDown, 1)
		g.e.run(&d)
	}
}

func runAll(c *fw.Ctx) {
	e, err := newEnv(c)
	if err != nil {
		c.Inconclusive("C13: cannot set up: " + err.Error())
		return
	}
	g := &generator{c: c, e: e}
	xs := xmlSeeds()
	ts := textSeeds()

	c.Note("deep nesting", "decoding a calendar-data / address-data selection nested d levels deep (Prop.Decode over RawXMLValue.TokenReader) takes time quadratic in d on the pinned tree (about 4 s at d = 10 000): no C13 verdict, but the query/multiget families are therefore nested to 10 001 only, the other documents to 100 000 (thorough)")
	c.Note("labels", "a request carries obligation (2) only if the operator that built one of its parts marks that part malformed BY CONSTRUCTION; see the 'definitely malformed' table for entry point | class | observed status, and '5xx outside obligation 2' for server errors on requests the statement does not call malformed")
	g.matrix()
	g.truncate(xs)
	pool := g.definite(xs)
	pool = append(pool, g.texts(ts)...)
	g.headers()
	g.transport(xs)
	g.pairwise(xs)
	g.sequence(xs)
	g.deep(xs)
	g.big(xs, ts)
	g.random(xs, ts)
	g.chaos(xs, ts, pool)
	g.repeated()
}

// matrix: every method x every path x every handler, with no body, with the
// body a client would send, and with the usual headers.
func (g *generator) matrix() {
	type tp struct{ target, prefix string }
	for _, t := range []tp{{"webdav", ""}, {"caldav", ""}, {"carddav", ""}, {"principal", ""}, {"caldav", "/dav"}, {"carddav", "/dav/"}} {
		prefix := strings.TrimSuffix(t.prefix, "/")
		paths := pathsFor(t.target, prefix, true)
		if t.prefix != "" {
			paths = pathsFor(t.target, prefix, false)
			// also paths outside the prefix
			paths = append(paths, lp{"odd", "/"}, lp{"odd", "/u1/"})
		}
		for _, m := range allMethods {
			for _, p := range paths {
				for v := 0; v < 4; v++ {
					t, m, p, v := t, m, p, v
					g.emit(func() *Case {
						cs := &Case{Fam: "matrix", Target: t.target, Prefix: t.prefix, Method: m, Path: p.Path, Level: p.Level}
						um := strings.ToUpper(m)
						switch v {
						case 0: // bare
						case 1, 2: // body + content type as a client would send them
							cs.Body = bodyForMethod(t.target, um)
							if len(cs.Body.Data) > 0 {
								cs.CT = defaultCT(t.target, um)
								if cs.Target == "webdav" && um == "PUT" {
									cs.CT = hv("text/plain", "other")
								}
							}
							if v == 2 {
								cs.Depth = hv(depthValid[len(p.Path)%3], "valid")
								cs.Extra = map[string]string{"If-None-Match": "*", "User-Agent": "verif/c13"}
							}
						case 3:
							cs.Depth = hv("0", "valid")
							cs.Extra = map[string]string{"If-Match": "\"etag-e1\"", "Range": "bytes=1-2"}
						}
						if um == "COPY" || um == "MOVE" {
							dv := destValid(t.target, prefix)
							cs.Dest = hv(dv[v%len(dv)], "valid")
							if v >= 2 {
								cs.Overwrite = hv(overwriteValid[v%2], "valid")
							}
							if v == 3 {
								cs.Depth = hv("infinity", "valid")
							}
						}
						return cs
					})
				}
			}
		}
	}
}

// truncate: every byte offset of every XML seed document.
func (g *generator) truncate(xs []seedDoc) {
	for si, sd := range xs {
		rts := routesFor(sd.Fam)
		bodies := truncations(sd, si%3 == 0)
		for off, b := range bodies {
			if g.c.Thorough() {
				for ri, r := range rts {
					r, b, ri := r, b, ri
					g.emit(func() *Case { return r.mk("truncate", b, off+ri) })
				}
			} else {
				r, b := rts[off%len(rts)], b
				g.emit(func() *Case { return r.mk("truncate", b, off) })
			}
		}
	}
}

// definite: exactly one definite malformation per document (plus boundary
// documents that must NOT be treated as malformed), over all routes of the
// family. Returns the bodies for reuse by chaos.
func (g *generator) definite(xs []seedDoc) []Body {
	var pool []Body
	for _, sd := range xs {
		rts := routesFor(sd.Fam)
		var bodies []Body
		bodies = append(bodies, validXMLBody(sd, false), validXMLBody(sd, true))
		bodies = append(bodies, syntaxMutants(sd)...)
		bodies = append(bodies, wrongRootMutants(sd)...)
		bodies = append(bodies, semMutants(sd)...)
		bodies = append(bodies, dateMutants(sd)...)
		bodies = append(bodies, boundaryMutants(sd)...)
		bodies = append(bodies, structuralSingles(sd)...)
		bodies = append(bodies, noRootBodies(sd.Fam)...)
		pool = append(pool, bodies...)
		for bi, b := range bodies {
			n := len(rts)
			if !g.c.Thorough() && n > 3 {
				n = 3
			}
			for k := 0; k < n; k++ {
				r := rts[(bi+k*(len(rts)/n))%len(rts)]
				if k == 0 {
					r = rts[0]
				}
				b, bi := b, bi
				g.emit(func() *Case { return r.mk("single-mutation", b, bi) })
			}
		}
	}
	// documents sent with the wrong method / to the wrong handler
	for _, sd := range xs {
		b := validXMLBody(sd, false)
		for _, fam := range []string{"propfind", "propertyupdate", "calendar-query", "addressbook-query", "mkcol-cal", "mkcol-card"} {
			if fam == sd.Fam {
				continue
			}
			rts := routesFor(fam)
			for k, r := range rts {
				if !g.c.Thorough() && k%3 != 0 {
					continue
				}
				r, b, k := r, b, k
				g.emit(func() *Case { return r.mk("cross-document", b, k) })
			}
		}
	}
	// empty bodies where a document is needed or optional
	for _, fam := range []string{"propfind", "propertyupdate", "calendar-query", "addressbook-query", "mkcol-cal", "mkcol-card", "ical", "vcard"} {
		for k, r := range routesFor(fam) {
			r, k := r, k
			g.emit(func() *Case { return r.mk("empty-body", Body{Mut: "empty"}, k) })
			g.emit(func() *Case { cs := r.mk("empty-body", Body{Mut: "empty"}, k); cs.CT = HV{}; return cs })
		}
	}
	// one or two bytes that are no document, under every presentation of the
	// body, with and without a Content-Type: what tells them from "no body"
	// is their presence alone
	for _, fam := range []string{"propfind", "propertyupdate", "calendar-query", "addressbook-query", "mkcol-cal", "mkcol-card"} {
		for k, r := range routesFor(fam) {
			for ji, junk := range []string{"<", "x", "\x00", "<a", "]]"} {
				for si, sh := range append([]string{""}, doubles.BodyShapes...) {
					if !g.c.Thorough() && (k+ji+si)%3 != 0 {
						continue
					}
					r, k, junk, sh, noCT := r, k, junk, sh, (ji+si)%2 == 0
					g.emit(func() *Case {
						cs := r.mk("tiny-junk", Body{Data: []byte(junk), Doc: fam, Mut: "tiny-junk", Syntax: "xml-syntax:no-root"}, k)
						if noCT {
							cs.CT = HV{}
						}
						cs.Shape = sh
						return cs
					})
				}
			}
		}
	}
	return pool
}

// transport: the body breaks off - its reader fails, or the wire does - after
// a strict prefix of a valid document: nothing at all, one byte, half of it,
// everything but the end of the root element. What the server holds is
// unparseable by construction (label "body:unreadable"): never 2xx, never a
// mutation, whichever way the break-off shows (connection reset, unexpected
// EOF, cancelled context, a front-end's size limit, empty reads first, an
// invalid chunk size, fewer bytes than Content-Length announced).
func (g *generator) transport(xs []seedDoc) {
	faults := []string{"reset", "unexpected-eof", "canceled", "max-bytes", "zero-reads"}
	wires := []string{"chunked-bad-size", "short-content-length"}
	for si, sd := range xs {
		rts := routesFor(sd.Fam)
		doc := render(sd.Tree, si%2 == 0)
		_, re := rootSpan(doc)
		if re < 4 {
			continue
		}
		for oi, off := range []int{0, 1, re / 2, re - 1} {
			b := Body{Data: doc[:off:off], Doc: sd.Fam, Mut: "transport-prefix", Partial: true}
			for ri, r := range rts {
				if !g.c.Thorough() && (ri+oi+si)%3 != 0 {
					continue
				}
				for _, f := range faults {
					r, b, f, ri := r, b, f, ri
					g.emit(func() *Case { cs := r.mk("transport", b, ri); cs.Fault = f; return cs })
				}
				for _, w := range wires {
					r, b, w, ri := r, b, w, ri
					g.emit(func() *Case { cs := r.mk("transport", b, ri); cs.Wire = w; return cs })
				}
			}
		}
	}
}

// texts: iCalendar / vCard mutants.
func (g *generator) texts(ts []seedDoc) []Body {
	var pool []Body
	for _, sd := range ts {
		rts := routesFor(sd.Fam)
		bodies := append([]Body{validTextBody(sd)}, textMutants(sd)...)
		pool = append(pool, bodies...)
		for bi, b := range bodies {
			n := 1
			if g.c.Thorough() {
				n = len(rts)
			}
			for k := 0; k < n; k++ {
				r, b, bi := rts[(bi+k)%len(rts)], b, bi
				g.emit(func() *Case { return r.mk("text-mutation", b, bi) })
			}
		}
		// the other family's handler, with either content type
		other := "vcard"
		if sd.Fam == "vcard" {
			other = "ical"
		}
		for k, r := range routesFor(other)[:2] {
			for _, ct := range []string{"ical", "vcard"} {
				r, k, ct := r, k, ct
				g.emit(func() *Case { cs := r.mk("cross-document", validTextBody(sd), k); cs.CT = ctFor(ct, k); return cs })
			}
		}
	}
	return pool
}

// headers: every listed value of Depth, Overwrite, Destination and
// Content-Type on every entry point that interprets it.
func (g *generator) headers() {
	type ep struct {
		target, prefix string
		lp
	}
	cal, card := calLayout(""), cardLayout("")
	vals := func(valid, boundary, invalid []string) []HV {
		var l []HV
		for _, v := range valid {
			l = append(l, hv(v, "valid"))
		}
		for _, v := range boundary {
			l = append(l, hv(v, "boundary"))
		}
		for _, v := range invalid {
			l = append(l, hv(v, "invalid"))
		}
		return l
	}
	// Depth on PROPFIND
	pfEPs := []ep{{"webdav", "", lp{"dir", "/dir/"}}, {"webdav", "", lp{"file", "/file.txt"}}, {"webdav", "", lp{"missing", "/missing"}},
		{"caldav", "", lp{"collection", cal.Coll}}, {"caldav", "", lp{"principal", cal.Principal}}, {"caldav", "", lp{"object", cal.Obj}}, {"caldav", "", lp{"root", cal.Root}},
		{"carddav", "", lp{"collection", card.Coll}}, {"carddav", "", lp{"home-set", card.Home}}, {"carddav", "", lp{"object", card.Obj}},
		{"principal", "", lp{"principal", "/u1/"}}, {"caldav", "", lp{"well-known", cal.WellKnown}}}
	for _, d := range vals(depthValid, depthBoundary, depthInvalid) {
		for _, p := range pfEPs {
			for v := 0; v < 2; v++ {
				d, p, v := d, p, v
				g.emit(func() *Case {
					cs := &Case{Fam: "headers", Target: p.target, Prefix: p.prefix, Method: "PROPFIND", Path: p.Path, Level: p.Level, Depth: d}
					if v == 0 || p.target == "principal" {
						cs.Body = defaultBody(p.target, "PROPFIND")
						cs.CT = hv("application/xml", "xml")
					}
					return cs
				})
			}
		}
		// Depth on methods that ignore or do not define it
		for _, m := range []string{"GET", "DELETE", "OPTIONS", "REPORT"} {
			d, m := d, m
			g.emit(func() *Case {
				cs := &Case{Fam: "headers", Target: "caldav", Method: m, Path: cal.Obj, Level: "object", Depth: d}
				if m == "REPORT" {
					cs.Body, cs.CT = defaultBody("caldav", "REPORT"), hv("text/xml", "xml")
				}
				return cs
			})
		}
		// ... and on every REPORT entry point (left open: see questionable)
		for _, p := range []ep{{"caldav", "", lp{"collection", cal.Coll}}, {"caldav", "", lp{"home-set", cal.Home}}, {"carddav", "", lp{"collection", card.Coll}}, {"carddav", "", lp{"object", card.Obj}}, {"caldav", "/dav", lp{"collection", calLayout("/dav").Coll}}} {
			d, p := d, p
			g.emit(func() *Case {
				return &Case{Fam: "headers", Target: p.target, Prefix: p.prefix, Method: "REPORT", Path: p.Path, Level: p.Level, Depth: d,
					Body: defaultBody(p.target, "REPORT"), CT: hv("application/xml", "xml")}
			})
		}
	}
	// COPY / MOVE
	cmEPs := []ep{{"webdav", "", lp{"file", "/file.txt"}}, {"webdav", "", lp{"dir", "/dir/"}}, {"webdav", "", lp{"missing", "/missing"}}, {"webdav", "", lp{"deeper", "/dir/sub/b.txt"}},
		{"caldav", "", lp{"object", cal.Obj}}, {"caldav", "", lp{"collection", cal.Coll}}, {"carddav", "", lp{"object", card.Obj}}, {"carddav", "", lp{"collection", card.Coll}},
		{"principal", "", lp{"principal", "/u1/"}}}
	for _, m := range []string{"COPY", "MOVE"} {
		for _, p := range cmEPs {
			dv := destValid(p.target, p.prefix)
			for i, d := range vals(depthValid, depthBoundary, depthInvalid) {
				m, p, d, i := m, p, d, i
				g.emit(func() *Case {
					return &Case{Fam: "headers", Target: p.target, Method: m, Path: p.Path, Level: p.Level, Depth: d, Dest: hv(dv[i%len(dv)], "valid")}
				})
			}
			for i, o := range vals(overwriteValid, overwriteBoundary, overwriteInvalid) {
				for k := 0; k < 2; k++ {
					m, p, o, i, k := m, p, o, i, k
					g.emit(func() *Case {
						return &Case{Fam: "headers", Target: p.target, Method: m, Path: p.Path, Level: p.Level, Overwrite: o, Dest: hv(dv[(i+k)%len(dv)], "valid")}
					})
				}
			}
			dests := vals(dv, destBoundary, destInvalid)
			dests = append(dests, HV{})
			for i, d := range dests {
				m, p, d, i := m, p, d, i
				g.emit(func() *Case {
					cs := &Case{Fam: "headers", Target: p.target, Method: m, Path: p.Path, Level: p.Level, Dest: d}
					if i%3 == 1 {
						cs.Overwrite = hv("F", "valid")
					}
					if i%4 == 2 {
						cs.Depth = hv("infinity", "valid")
					}
					return cs
				})
			}
		}
	}
	// Content-Type
	type cte struct {
		target, method string
		lp
	}
	ctEPs := []cte{
		{"caldav", "PUT", lp{"missing-object", cal.MissingObj}}, {"caldav", "PUT", lp{"object", cal.Obj}},
		{"carddav", "PUT", lp{"missing-object", card.MissingObj}}, {"carddav", "PUT", lp{"object", card.Obj}},
		{"caldav", "REPORT", lp{"collection", cal.Coll}}, {"carddav", "REPORT", lp{"collection", card.Coll}},
		{"webdav", "PROPPATCH", lp{"file", "/file.txt"}}, {"caldav", "PROPPATCH", lp{"collection", cal.Coll}}, {"carddav", "PROPPATCH", lp{"home-set", card.Home}},
		{"webdav", "PROPFIND", lp{"dir", "/dir/"}}, {"caldav", "PROPFIND", lp{"collection", cal.Coll}}, {"carddav", "PROPFIND", lp{"collection", card.Coll}}, {"principal", "PROPFIND", lp{"principal", "/u1/"}},
		{"caldav", "MKCOL", lp{"new-collection", cal.NewColl}}, {"carddav", "MKCOL", lp{"new-collection", card.NewColl}},
		{"webdav", "MKCOL", lp{"missing", "/newdir"}}, {"webdav", "PUT", lp{"missing", "/newfile.txt"}},
	}
	var cts []HV
	cts = append(cts, HV{})
	for cls, l := range map[string][]string{"xml": ctXML, "ical": ctICal, "vcard": ctVCard, "other": ctOther, "unparsable": ctUnparse, "boundary": ctBoundary, "badparams": ctBadParams} {
		for _, v := range l {
			cts = append(cts, hv(v, cls))
		}
	}
	sortHV(cts)
	for _, p := range ctEPs {
		for _, ct := range cts {
			for v := 0; v < 2; v++ {
				p, ct, v := p, ct, v
				g.emit(func() *Case {
					cs := &Case{Fam: "headers", Target: p.target, Method: p.method, Path: p.Path, Level: p.Level, CT: ct}
					if v == 0 {
						cs.Body = defaultBody(p.target, p.method)
					}
					return cs
				})
			}
		}
	}
	// conditional headers (not part of obligation 2)
	for _, m := range []string{"PUT", "DELETE", "GET"} {
		for _, name := range []string{"If-Match", "If-None-Match"} {
			for _, v := range []string{"*", "\"etag-e1\"", "etag-e1", "\"", "W/\"x\"", "\"a\", \"b\"", "'a'", "`a`", "\"\\\"", ""} {
				for _, p := range []ep{{"webdav", "", lp{"file", "/file.txt"}}, {"webdav", "", lp{"missing", "/missing"}}, {"caldav", "", lp{"object", cal.Obj}}, {"carddav", "", lp{"object", card.Obj}}} {
					m, name, v, p := m, name, v, p
					g.emit(func() *Case {
						cs := &Case{Fam: "headers", Target: p.target, Method: m, Path: p.Path, Level: p.Level, Extra: map[string]string{name: v}}
						if m == "PUT" {
							cs.Body = defaultBody(p.target, "PUT")
							cs.CT = defaultCT(p.target, "PUT")
						}
						return cs
					})
				}
			}
		}
	}
}

// repeated: a header field that is interpreted, sent twice - a valid value
// and an invalid one in either order, two different valid ones. Obligation
// (1) only (and a complete response).
func (g *generator) repeated() {
	cal, card := calLayout(""), cardLayout("")
	type rq struct {
		target, method string
		lp
		name string
		vals [][]string
	}
	depthPairs := [][]string{{"0", "2"}, {"2", "0"}, {"0", "1"}, {"infinity", "0"}, {"1", ""}, {"", "infinite"}, {"0", "0", "0"}}
	overPairs := [][]string{{"T", "X"}, {"X", "T"}, {"T", "F"}, {"F", "T"}, {"F", ""}}
	ctXMLPairs := [][]string{{"application/xml", "text/plain"}, {"text/plain", "application/xml"}, {"application/xml", "text/"}, {"text/", "text/xml"}, {"text/xml", "application/xml"}}
	for _, q := range []rq{
		{"webdav", "PROPFIND", lp{"dir", "/dir/"}, "Depth", depthPairs},
		{"caldav", "PROPFIND", lp{"collection", cal.Coll}, "Depth", depthPairs},
		{"carddav", "PROPFIND", lp{"home-set", card.Home}, "Depth", depthPairs},
		{"principal", "PROPFIND", lp{"principal", "/u1/"}, "Depth", depthPairs},
		{"webdav", "COPY", lp{"dir", "/dir/"}, "Depth", depthPairs},
		{"webdav", "MOVE", lp{"file", "/file.txt"}, "Overwrite", overPairs},
		{"webdav", "COPY", lp{"file", "/file.txt"}, "Overwrite", overPairs},
		{"caldav", "MOVE", lp{"object", cal.Obj}, "Overwrite", overPairs},
		{"webdav", "COPY", lp{"file", "/file.txt"}, "Destination", [][]string{{"/newdst", "%zz"}, {"%zz", "/newdst"}, {"/newdst", "/dir/newfile"}, {"/newdst", ""}}},
		{"carddav", "COPY", lp{"object", card.Obj}, "Destination", [][]string{{card.Coll + "copied", "%zz"}, {"http://[::1", card.Coll + "copied"}}},
		{"caldav", "REPORT", lp{"collection", cal.Coll}, "Content-Type", ctXMLPairs},
		{"carddav", "REPORT", lp{"collection", card.Coll}, "Content-Type", ctXMLPairs},
		{"webdav", "PROPPATCH", lp{"file", "/file.txt"}, "Content-Type", ctXMLPairs},
		{"caldav", "PROPFIND", lp{"collection", cal.Coll}, "Content-Type", ctXMLPairs},
		{"caldav", "MKCOL", lp{"new-collection", cal.NewColl}, "Content-Type", ctXMLPairs},
		{"caldav", "PUT", lp{"missing-object", cal.MissingObj}, "Content-Type", [][]string{{"text/calendar", "text/plain"}, {"text/plain", "text/calendar"}, {"text/calendar", "text/"}, {"text/", "text/calendar"}, {"text/calendar", "text/vcard"}}},
		{"carddav", "PUT", lp{"missing-object", card.MissingObj}, "Content-Type", [][]string{{"text/vcard", "text/plain"}, {"text/plain", "text/vcard"}, {"text/vcard", "text/"}, {"text/", "text/vcard"}, {"text/vcard", "text/calendar"}}},
	} {
		for _, vs := range q.vals {
			q, vs := q, vs
			g.emit(func() *Case {
				cs := &Case{Fam: "repeated-header", Target: q.target, Method: q.method, Path: q.Path, Level: q.Level, Dup: map[string][]string{q.name: vs}}
				cs.Body = defaultBody(q.target, q.method)
				if q.name != "Content-Type" && len(cs.Body.Data) > 0 {
					cs.CT = defaultCT(q.target, q.method)
				}
				if (q.method == "COPY" || q.method == "MOVE") && q.name != "Destination" {
					cs.Dest = defaultDest(q.target, "")
				}
				g.c.Observe("repeated header", q.target+" "+q.method+" | "+q.name, 1)
				return cs
			})
		}
	}
}

func sortHV(l []HV) {
	for i := 1; i < len(l); i++ {
		for j := i; j > 0 && (l[j].Cls+"\x00"+l[j].V) < (l[j-1].Cls+"\x00"+l[j-1].V); j-- {
			l[j], l[j-1] = l[j-1], l[j]
		}
	}
}

// deep: nest one element inside many copies of itself. Decoding a deeply
// nested calendar-data / address-data selection takes time quadratic in the
// depth in the pinned tree (about 4 s at depth 10 000), so the query and
// multiget families stop at 10 001; the other families go to 100 000.
func (g *generator) deep(xs []seedDoc) {
	depths := []int{10, 100, 1000, 2000}
	if g.c.Thorough() {
		depths = append(depths, 5000, 9999, 10001, 20000, 50000, 100000)
	}
	for _, sd := range xs {
		rts := routesFor(sd.Fam)
		n := len(elems(sd.Tree))
		linear := sd.Fam == "propfind" || sd.Fam == "propertyupdate" || strings.HasPrefix(sd.Fam, "mkcol")
		for _, d := range depths {
			step := 1
			if d > 2000 || !g.c.Thorough() {
				step = 1 + n/4
			}
			for i := 0; i < n; i += step {
				if d > 10001 && !linear && i > 0 {
					break
				}
				for _, closed := range []bool{true, false} {
					sd, d, i, closed := sd, d, i, closed
					g.emit(func() *Case { return rts[0].mk("deep-nesting", deepNest(sd, i, d, closed), i) })
					if d <= 2000 && len(rts) > 1 {
						g.emit(func() *Case { return rts[1+i%(len(rts)-1)].mk("deep-nesting", deepNest(sd, i, d, closed), i) })
					}
				}
			}
		}
	}
}

// big: bodies up to 64 KiB.
func (g *generator) big(xs, ts []seedDoc) {
	sizes := []int{4 << 10, 64 << 10}
	if g.c.Thorough() {
		sizes = []int{1 << 10, 4 << 10, 16 << 10, 60 << 10, 64 << 10}
	}
	for _, sd := range xs {
		rts := routesFor(sd.Fam)
		for _, sz := range sizes {
			for kind := 0; kind < 4; kind++ {
				sd, sz, kind := sd, sz, kind
				g.emit(func() *Case { return rts[0].mk("big-body", padBody(sd, sz, kind), kind) })
				g.emit(func() *Case {
					b := padBody(sd, sz, kind)
					b.Data = b.Data[:len(b.Data)-3]
					b.Syntax, b.Mut = "xml-syntax:truncated", b.Mut+"+truncated"
					return rts[len(rts)/2].mk("big-body", b, kind)
				})
			}
		}
	}
	for _, sd := range ts {
		rts := routesFor(sd.Fam)
		for _, sz := range sizes {
			sd, sz := sd, sz
			g.emit(func() *Case {
				lines := splitLines(sd.Text)
				filler := strings.Repeat("X-PAD:"+strings.Repeat("p", 60)+"\r\n", sz/68)
				text := strings.Join(lines[:len(lines)-1], "") + filler + lines[len(lines)-1]
				return rts[0].mk("big-body", Body{Data: []byte(text), Doc: sd.Fam, Mut: "big:lines"}, 0)
			})
			g.emit(func() *Case {
				lines := splitLines(sd.Text)
				filler := "X-PAD:" + strings.Repeat("p", sz) + "\r\n"
				text := strings.Join(lines[:len(lines)-1], "") + filler
				return rts[0].mk("big-body", Body{Data: []byte(text), Doc: sd.Fam, Mut: "big:long-line+no-end", Text: sd.Fam + ":no-end"}, 0)
			})
		}
	}
}

// random: unlabelled structural mutations, random tokens, random bytes.
func (g *generator) random(xs, ts []seedDoc) {
	n := g.c.Pick(12000, 700000)
	for i := 0; i < n; i++ {
		i := i
		g.emit(func() *Case {
			r := g.c.Rand("c13-random", i)
			switch k := r.Intn(10); {
			case k < 7:
				sd := xs[r.Intn(len(xs))]
				rts := routesFor(sd.Fam)
				return rts[r.Intn(len(rts))].mk("random-structural", randomMutate(r, sd), r.Intn(8))
			case k < 9:
				sd := ts[r.Intn(len(ts))]
				rts := routesFor(sd.Fam)
				var b Body
				switch r.Intn(3) {
				case 0:
					b = randomText(r, sd.Fam)
				case 1: // splice random tokens into the seed
					off := r.Intn(len(sd.Text))
					b = randomText(r, sd.Fam)
					b.Data = []byte(sd.Text[:off] + string(b.Data) + sd.Text[off:])
					b.Mut = "random-splice"
				default: // one malformed-parameter line replacing a random line
					lines := splitLines(sd.Text)
					k := 1 + r.Intn(len(lines)-2)
					for isContinuation(lines[k]) || (k+1 < len(lines) && isContinuation(lines[k+1])) {
						k = 1 + r.Intn(len(lines)-2)
					}
					lines[k] = malformedParamLines[r.Intn(len(malformedParamLines))] + "\r\n"
					b = Body{Data: []byte(strings.Join(lines, "")), Doc: sd.Fam, Mut: "param-malformed"}
				}
				return rts[r.Intn(len(rts))].mk("random-text", b, r.Intn(8))
			default:
				fams := []string{"propfind", "propertyupdate", "calendar-query", "addressbook-query", "mkcol-cal", "mkcol-card", "ical", "vcard"}
				rts := routesFor(fams[r.Intn(len(fams))])
				max := 200
				if r.Intn(20) == 0 {
					max = 64 << 10
				}
				return rts[r.Intn(len(rts))].mk("random-bytes", randomBytes(r, max), r.Intn(8))
			}
		})
	}
}

func pickHV(r *rand.Rand, valid, boundary, invalid []string, pAbsent, pValid, pBoundary int) HV {
	k := r.Intn(100)
	switch {
	case k < pAbsent:
		return HV{}
	case k < pAbsent+pValid:
		return hv(valid[r.Intn(len(valid))], "valid")
	case k < pAbsent+pValid+pBoundary:
		return hv(boundary[r.Intn(len(boundary))], "boundary")
	}
	return hv(invalid[r.Intn(len(invalid))], "invalid")
}

// chaos: everything combined at random; labels are the union of what each
// component's operator knows.
func (g *generator) chaos(xs, ts []seedDoc, pool []Body) {
	n := g.c.Pick(14000, 900000)
	targets := []string{"webdav", "caldav", "carddav", "caldav", "carddav", "principal"}
	hot := []string{"PROPFIND", "PROPPATCH", "REPORT", "PUT", "MKCOL", "COPY", "MOVE", "DELETE", "GET"}
	ctClasses := []string{"", "xml", "xml", "xml", "ical", "vcard", "other", "unparsable", "boundary", "badparams"}
	for i := 0; i < n; i++ {
		i := i
		g.emit(func() *Case {
			r := g.c.Rand("c13-chaos", i)
			cs := &Case{Fam: "chaos", Target: targets[r.Intn(len(targets))]}
			if cs.Target != "webdav" && cs.Target != "principal" && r.Intn(5) == 0 {
				cs.Prefix = "/dav"
			}
			if r.Intn(6) == 0 {
				cs.Method = allMethods[r.Intn(len(allMethods))]
			} else {
				cs.Method = hot[r.Intn(len(hot))]
			}
			paths := pathsFor(cs.Target, cs.Prefix, r.Intn(4) == 0)
			p := paths[r.Intn(len(paths))]
			cs.Path, cs.Level = p.Path, p.Level
			isCM := cs.Method == "COPY" || cs.Method == "MOVE"
			if isCM || cs.Method == "PROPFIND" || r.Intn(10) == 0 {
				cs.Depth = pickHV(r, depthValid, depthBoundary, depthInvalid, 40, 35, 8)
			}
			if isCM || r.Intn(20) == 0 {
				cs.Overwrite = pickHV(r, overwriteValid, overwriteBoundary, overwriteInvalid, 50, 30, 6)
				cs.Dest = pickHV(r, destValid(cs.Target, cs.Prefix), destBoundary, destInvalid, 8, 60, 16)
			}
			// body
			switch k := r.Intn(10); {
			case k < 2:
				// none
			case k < 7:
				cs.Body = pool[r.Intn(len(pool))]
			case k < 8:
				cs.Body = randomMutate(r, xs[r.Intn(len(xs))])
			case k < 9:
				cs.Body = defaultBody(cs.Target, cs.Method)
			default:
				cs.Body = randomBytes(r, 300)
			}
			// content type: mostly the one that fits the body
			if r.Intn(3) == 0 {
				cs.CT = ctFor(ctClasses[r.Intn(len(ctClasses))], r.Intn(8))
			} else {
				switch {
				case cs.Body.Doc == "ical":
					cs.CT = ctFor("ical", r.Intn(8))
				case cs.Body.Doc == "vcard":
					cs.CT = ctFor("vcard", r.Intn(8))
				case len(cs.Body.Data) > 0:
					cs.CT = ctFor("xml", r.Intn(8))
				}
			}
			if r.Intn(8) == 0 {
				cs.Extra = map[string]string{[]string{"If-Match", "If-None-Match", "Range", "Content-Length", "Expect"}[r.Intn(5)]: garbageValues[r.Intn(len(garbageValues))]}
			}
			return cs
		})
	}
}

// pairwise: every by-construction malformed operator crossed with every
// unusual-but-valid feature of the same REPORT document (selection forms,
// limits 0/1/huge/absent, expand present/absent, empty lists...), with the
// Depth header and the Content-Type spelling rotating. The malformed part
// obliges 4xx whatever the rest of the document says.
func (g *generator) pairwise(xs []seedDoc) {
	depths := []HV{{}, hv("0", "valid"), hv("1", "valid"), hv("infinity", "valid"), hv("Infinity", "boundary"), hv("2", "invalid")}
	for _, sd := range xs {
		target := docTarget(sd.Fam)
		if target == "" || strings.HasPrefix(sd.Fam, "mkcol") {
			continue
		}
		var rts []route
		for _, r := range routesFor(sd.Fam) {
			if r.Target == target {
				rts = append(rts, r)
			}
		}
		for vi, v := range variants(sd) {
			var bodies []Body
			bodies = append(bodies, validXMLBody(v, false))
			bodies = append(bodies, semMutants(v)...)
			bodies = append(bodies, syntaxSubset(v)...)
			bodies = append(bodies, wrongRootMutants(v)[:2]...)
			feat := v.Name[strings.Index(v.Name, " & ")+3:]
			for bi, b := range bodies {
				b.Mut += " & " + feat
				n := 1
				if g.c.Thorough() {
					n = len(rts)
				}
				for k := 0; k < n; k++ {
					r, b, i := rts[(bi+vi+k)%len(rts)], b, bi+vi+k
					g.emit(func() *Case {
						cs := r.mk("pairwise", b, i)
						cs.Depth = depths[i%len(depths)]
						return cs
					})
				}
			}
		}
	}
}

// sequence: request A ends on a failure path (body that breaks off after a
// complete valid document, body of 1 MiB+1 .. 5 MiB that begins with a
// complete valid document, cancelled context) and is immediately followed, in
// this process, by request B = a malformed-by-construction request to an
// XML-decoding entry point. Only process-wide state of the library can link
// the two; B is judged by the usual oracle.
func (g *generator) sequence(xs []seedDoc) {
	type ent struct {
		target, method string
		lp
		fams []string // seed families whose documents this entry point accepts
	}
	cal, card := calLayout(""), cardLayout("")
	pf := []string{"propfind"}
	ents := []ent{
		{"webdav", "PROPFIND", lp{"dir", "/dir/"}, pf},
		{"caldav", "PROPFIND", lp{"collection", cal.Coll}, pf},
		{"carddav", "PROPFIND", lp{"object", card.Obj}, pf},
		{"principal", "PROPFIND", lp{"principal", "/u1/"}, pf},
		{"webdav", "PROPPATCH", lp{"file", "/file.txt"}, []string{"propertyupdate"}},
		{"caldav", "PROPPATCH", lp{"collection", cal.Coll}, []string{"propertyupdate"}},
		{"carddav", "PROPPATCH", lp{"home-set", card.Home}, []string{"propertyupdate"}},
		{"caldav", "REPORT", lp{"collection", cal.Coll}, []string{"calendar-query", "calendar-multiget"}},
		{"carddav", "REPORT", lp{"collection", card.Coll}, []string{"addressbook-query", "addressbook-multiget"}},
		{"caldav", "MKCOL", lp{"new-collection", cal.NewColl}, []string{"mkcol-cal"}},
		{"carddav", "MKCOL", lp{"new-collection", card.NewColl}, []string{"mkcol-card"}},
	}
	type anomaly struct {
		name string
		set  func(a *Case)
	}
	const mib = 1 << 20
	anomalies := []anomaly{
		{"read-error", func(a *Case) { a.BodyErr = true }},
		{"read-error-after-junk", func(a *Case) {
			a.Body.Data = append(append([]byte{}, a.Body.Data...), " trailing junk <"...)
			a.Body.Root, a.Body.Mut = "", "valid+junk"
			a.BodyErr = true
		}},
		{"1MiB+1", func(a *Case) { a.BodyPad = mib + 1 - len(a.Body.Data) }},
		{"2MiB-spaces", func(a *Case) { a.BodyPad, a.PadWith = 2*mib, " " }},
		{"5MiB", func(a *Case) { a.BodyPad = 5 * mib }},
		{"cancelled", func(a *Case) { a.Cancelled = true }},
		{"cancelled+read-error", func(a *Case) { a.Cancelled, a.BodyErr = true, true }},
	}
	inFams := func(f string, l []string) bool {
		for _, x := range l {
			if x == f {
				return true
			}
		}
		return false
	}
	other := seedByName["propfind-propname"]
	for ei, en := range ents {
		// B bodies: the malformed classes this entry point can meet
		home := seedByName[map[string]string{"propfind": "propfind-prop", "propertyupdate": "propertyupdate", "calendar-query": "calendar-query-rich",
			"addressbook-query": "addressbook-query-rich", "mkcol-cal": "mkcol-cal", "mkcol-card": "mkcol-card"}[en.fams[0]]]
		var bs []Body
		bs = append(bs, noRootBodies(home.Fam)[:4]...)
		bs = append(bs, syntaxSubset(home)[6:]...) // lt/entity/unclosed + three truncations
		bs = append(bs, Body{Mut: "empty"})
		wrong := other
		if en.fams[0] == "propfind" {
			wrong = seedByName["propertyupdate"]
		}
		bs = append(bs, validXMLBody(wrong, false))
		if en.method == "REPORT" {
			sm := semMutants(home)
			bs = append(bs, sm[0], sm[len(sm)/2], sm[len(sm)-1])
		}
		for _, sd := range xs {
			match := inFams(sd.Fam, en.fams)
			if !match && !g.c.Thorough() {
				continue
			}
			for ai, an := range anomalies {
				for bi, b := range bs {
					for ar := 0; ar < 3; ar++ {
						// A goes to the same entry point, to PROPFIND on the file
						// server, or to the principal helper.
						if ar > 0 && !g.c.Thorough() && (ai+bi+ar)%2 == 0 {
							continue
						}
						en, sd, an, b, ar, i := en, sd, an, b, ar, ei+ai+bi
						g.emit(func() *Case {
							a := &Case{Fam: "sequence", Target: en.target, Method: en.method, Path: en.Path, Level: en.Level,
								CT: ctFor("xml", i), Body: validXMLBody(sd, i%2 == 0)}
							switch ar {
							case 1:
								a.Target, a.Method, a.Path, a.Level = "webdav", "PROPFIND", "/dir/", "dir"
							case 2:
								a.Target, a.Method, a.Path, a.Level = "principal", "PROPFIND", "/u1/", "principal"
							}
							an.set(a)
							cs := &Case{Fam: "sequence", Target: en.target, Method: en.method, Path: en.Path, Level: en.Level,
								CT: ctFor("xml", i+1), Body: b, Prev: a, Repeat: 3}
							return cs
						})
					}
				}
			}
		}
	}
	// The same for uploads: A is a PUT of a valid iCalendar / vCard object
	// that fails on a transport path (or a broken XML request to the same
	// handler), B a PUT whose body is unparseable by construction.
	for ti, put := range []struct {
		target, fam string
		lp
	}{{"caldav", "ical", lp{"missing-object", cal.MissingObj}}, {"carddav", "vcard", lp{"missing-object", card.MissingObj}}} {
		var seeds []seedDoc
		for _, sd := range textSeeds() {
			if sd.Fam == put.fam {
				seeds = append(seeds, sd)
			}
		}
		for si, sd := range seeds {
			tm := textMutants(sd)
			var bs []Body
			step := len(tm) / 6
			if g.c.Thorough() {
				step = len(tm) / 40
			}
			if step < 1 {
				step = 1
			}
			for k := si % step; k < len(tm); k += step {
				if tm[k].Text != "" {
					bs = append(bs, tm[k])
				}
			}
			bs = append(bs, Body{Mut: "empty"})
			for ai, an := range anomalies {
				for bi, b := range bs {
					for ar := 0; ar < 2; ar++ {
						if ar > 0 && !g.c.Thorough() && (ai+bi)%2 == 0 {
							continue
						}
						put, sd, an, b, ar, i := put, sd, an, b, ar, ti+si+ai+bi
						g.emit(func() *Case {
							a := &Case{Fam: "sequence", Target: put.target, Method: "PUT", Path: put.Path, Level: put.Level,
								CT: ctFor(put.fam, i), Body: validTextBody(sd)}
							if ar == 1 {
								// an XML request to the same handler
								a.Method, a.CT = "PROPFIND", ctFor("xml", i)
								a.Body = validXMLBody(other, false)
							}
							an.set(a)
							return &Case{Fam: "sequence", Target: put.target, Method: "PUT", Path: put.Path, Level: put.Level,
								CT: ctFor(put.fam, i+1), Body: b, Prev: a, Repeat: 3}
						})
					}
				}
			}
		}
	}
}

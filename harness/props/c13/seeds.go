package c13

import (
	"strings"

	"github.com/emersion/go-webdav/verifharness/davx"
	"github.com/emersion/go-webdav/verifharness/xmltree"
)

const (
	nsD = "DAV:"
	nsC = "urn:ietf:params:xml:ns:caldav"
	nsR = "urn:ietf:params:xml:ns:carddav"
)

func plainLex() *xmltree.Lex {
	return &xmltree.Lex{Prefixes: map[string][]string{nsD: {"D"}, nsC: {"C"}, nsR: {"CR"}}}
}

func el(space, local string, ch ...*xmltree.Node) *xmltree.Node {
	return xmltree.El(space, local, ch...)
}
func txt(s string) *xmltree.Node { return xmltree.Txt(s) }

// seedDoc is one valid request document.
type seedDoc struct {
	Name string
	Fam  string // propfind, propertyupdate, calendar-query, calendar-multiget, addressbook-query, addressbook-multiget, mkcol-cal, mkcol-card, ical, vcard
	Tree *xmltree.Node
	Text string // iCalendar / vCard seeds
}

const (
	pathCalObj  = "/u1/cal/work/e1.ics"
	pathCardObj = "/u1/contacts/friends/c1.vcf"
)

func seedCalendarQueryRich() *xmltree.Node {
	calData := el(nsC, "calendar-data",
		el(nsC, "comp",
			el(nsC, "prop").With("name", "VERSION"),
			el(nsC, "comp",
				el(nsC, "prop").With("name", "SUMMARY"),
				el(nsC, "prop").With("name", "UID", "novalue", "no"),
				el(nsC, "prop").With("name", "DTSTART"),
			).With("name", "VEVENT"),
			el(nsC, "comp").With("name", "VTIMEZONE"),
		).With("name", "VCALENDAR"),
		el(nsC, "expand").With("start", "20240101T000000Z", "end", "20240201T000000Z"),
	)
	vevent := el(nsC, "comp-filter",
		el(nsC, "time-range").With("start", "20240101T000000Z", "end", "20240301T000000Z"),
		el(nsC, "prop-filter",
			el(nsC, "text-match", txt("meet")).With("collation", "i;ascii-casemap", "negate-condition", "no"),
		).With("name", "SUMMARY"),
		el(nsC, "prop-filter",
			el(nsC, "text-match", txt("mailto:bob@example.com")),
			el(nsC, "param-filter",
				el(nsC, "text-match", txt("NEEDS-ACTION")).With("negate-condition", "yes"),
			).With("name", "PARTSTAT"),
		).With("name", "ATTENDEE"),
		el(nsC, "prop-filter", el(nsC, "is-not-defined")).With("name", "X-GONE"),
		el(nsC, "prop-filter",
			el(nsC, "time-range").With("start", "20240105T000000Z"),
		).With("name", "DTSTART"),
		el(nsC, "prop-filter",
			el(nsC, "param-filter", el(nsC, "is-not-defined")).With("name", "CN"),
		).With("name", "ORGANIZER"),
		el(nsC, "comp-filter",
			el(nsC, "time-range").With("end", "20240401T000000Z"),
		).With("name", "VALARM"),
	).With("name", "VEVENT")
	return el(nsC, "calendar-query",
		el(nsD, "prop", el(nsD, "getetag"), calData),
		el(nsC, "filter",
			el(nsC, "comp-filter", vevent,
				el(nsC, "comp-filter", el(nsC, "is-not-defined")).With("name", "VJOURNAL"),
			).With("name", "VCALENDAR"),
		),
	)
}

func seedCalendarQuerySimple() *xmltree.Node {
	return el(nsC, "calendar-query",
		el(nsD, "prop",
			el(nsC, "calendar-data",
				el(nsC, "comp", el(nsC, "allprop"), el(nsC, "allcomp")).With("name", "VCALENDAR"),
			),
		),
		el(nsC, "filter",
			el(nsC, "comp-filter",
				el(nsC, "comp-filter").With("name", "VTODO"),
			).With("name", "VCALENDAR"),
		),
	)
}

func seedCalendarQueryAllprop() *xmltree.Node {
	return el(nsC, "calendar-query",
		el(nsD, "allprop"),
		el(nsC, "filter",
			el(nsC, "comp-filter",
				el(nsC, "comp-filter",
					el(nsC, "prop-filter", el(nsC, "text-match", txt("x"))).With("name", "UID"),
				).With("name", "VEVENT"),
			).With("name", "VCALENDAR"),
		),
	)
}

func seedCalendarMultiget() *xmltree.Node {
	return el(nsC, "calendar-multiget",
		el(nsD, "prop",
			el(nsD, "getetag"),
			el(nsC, "calendar-data",
				el(nsC, "comp",
					el(nsC, "allprop"),
					el(nsC, "comp", el(nsC, "prop").With("name", "SUMMARY"), el(nsC, "allcomp")).With("name", "VEVENT"),
				).With("name", "VCALENDAR"),
				el(nsC, "expand").With("start", "20240101T000000Z", "end", "20240201T000000Z"),
			),
		),
		el(nsD, "href", txt(pathCalObj)),
		el(nsD, "href", txt("/u1/cal/work/missing.ics")),
		el(nsD, "href", txt("/u2/cal/x/y.ics")),
	)
}

func seedCalendarMultigetAllprop() *xmltree.Node {
	return el(nsC, "calendar-multiget", el(nsD, "allprop"), el(nsD, "href", txt(pathCalObj)))
}

func seedAddressbookQueryRich() *xmltree.Node {
	return el(nsR, "addressbook-query",
		el(nsD, "prop",
			el(nsD, "getetag"),
			el(nsR, "address-data",
				el(nsR, "prop").With("name", "VERSION"),
				el(nsR, "prop").With("name", "FN"),
				el(nsR, "prop").With("name", "EMAIL", "novalue", "no"),
			),
		),
		el(nsR, "filter",
			el(nsR, "prop-filter",
				el(nsR, "text-match", txt("ali")).With("collation", "i;unicode-casemap", "match-type", "contains", "negate-condition", "no"),
				el(nsR, "text-match", txt("A")).With("match-type", "starts-with"),
			).With("name", "FN", "test", "allof"),
			el(nsR, "prop-filter",
				el(nsR, "text-match", txt("example.com")).With("match-type", "ends-with", "negate-condition", "yes"),
				el(nsR, "param-filter",
					el(nsR, "text-match", txt("work")).With("match-type", "equals"),
				).With("name", "TYPE"),
			).With("name", "EMAIL"),
			el(nsR, "prop-filter", el(nsR, "is-not-defined")).With("name", "NICKNAME"),
			el(nsR, "prop-filter",
				el(nsR, "param-filter", el(nsR, "is-not-defined")).With("name", "TYPE"),
			).With("name", "TEL", "test", "anyof"),
		).With("test", "anyof"),
		el(nsR, "limit", el(nsR, "nresults", txt("10"))),
	)
}

func seedAddressbookQuerySimple() *xmltree.Node {
	return el(nsR, "addressbook-query",
		el(nsD, "prop", el(nsR, "address-data", el(nsR, "allprop"))),
		el(nsR, "filter",
			el(nsR, "prop-filter", el(nsR, "text-match", txt("bob"))).With("name", "FN"),
		),
	)
}

func seedAddressbookMultiget() *xmltree.Node {
	return el(nsR, "addressbook-multiget",
		el(nsD, "prop",
			el(nsD, "getetag"),
			el(nsR, "address-data", el(nsR, "prop").With("name", "FN"), el(nsR, "prop").With("name", "UID")),
		),
		el(nsD, "href", txt(pathCardObj)),
		el(nsD, "href", txt("/u1/contacts/friends/missing.vcf")),
	)
}

func seedAddressbookMultigetPropname() *xmltree.Node {
	return el(nsR, "addressbook-multiget", el(nsD, "propname"), el(nsD, "href", txt(pathCardObj)))
}

func seedPropfindProp() *xmltree.Node {
	return davx.PropFindTree("prop", [][2]string{
		{nsD, "displayname"}, {nsD, "resourcetype"}, {nsD, "getetag"}, {nsD, "getcontentlength"},
		{nsD, "getlastmodified"}, {nsD, "getcontenttype"}, {nsD, "current-user-principal"},
		{nsC, "calendar-home-set"}, {nsR, "addressbook-home-set"}, {nsC, "calendar-data"}, {nsR, "address-data"},
		{nsC, "supported-calendar-component-set"}, {nsR, "supported-address-data"}, {"urn:example:custom", "colour"},
	})
}

func seedPropfindAllprop() *xmltree.Node {
	n := davx.PropFindTree("allprop", nil)
	n.Add(el(nsD, "include", el(nsD, "displayname"), el(nsC, "calendar-description")))
	return n
}

func seedPropertyUpdate() *xmltree.Node {
	return el(nsD, "propertyupdate",
		el(nsD, "set", el(nsD, "prop",
			el(nsD, "displayname", txt("New name")),
			el(nsC, "calendar-description", txt("A <described> & escaped calendar")),
			el(nsR, "addressbook-description", txt("desc")),
		)),
		el(nsD, "remove", el(nsD, "prop", el("urn:example:custom", "colour"))),
	)
}

func seedMkcolCal() *xmltree.Node {
	return el(nsD, "mkcol", el(nsD, "set", el(nsD, "prop",
		el(nsD, "resourcetype", el(nsD, "collection"), el(nsC, "calendar")),
		el(nsD, "displayname", txt("Work")),
	)))
}

func seedMkcolCard() *xmltree.Node {
	return el(nsD, "mkcol", el(nsD, "set", el(nsD, "prop",
		el(nsD, "resourcetype", el(nsD, "collection"), el(nsR, "addressbook")),
		el(nsD, "displayname", txt("Friends")),
		el(nsR, "addressbook-description", txt("My friends")),
	)))
}

const seedICalEvent = "BEGIN:VCALENDAR\r\n" +
	"VERSION:2.0\r\n" +
	"PRODID:-//verif//c13//EN\r\n" +
	"BEGIN:VEVENT\r\n" +
	"UID:e1@example.com\r\n" +
	"DTSTAMP:20240101T000000Z\r\n" +
	"DTSTART;TZID=Europe/Paris:20240110T100000\r\n" +
	"DTEND;TZID=Europe/Paris:20240110T110000\r\n" +
	"SUMMARY:Team meeting\r\n" +
	"ATTENDEE;CN=\"Bob, the builder\";PARTSTAT=NEEDS-ACTION;ROLE=REQ-PARTICIPANT:mailto:bob@example.com\r\n" +
	"ORGANIZER;CN=Alice:mailto:alice@example.com\r\n" +
	"DESCRIPTION:A long description that is folded over several lines because \r\n" +
	" it exceeds the seventy-five octets that RFC 5545 allows for one line.\r\n" +
	"RRULE:FREQ=WEEKLY;COUNT=4\r\n" +
	"BEGIN:VALARM\r\n" +
	"ACTION:DISPLAY\r\n" +
	"TRIGGER:-PT15M\r\n" +
	"DESCRIPTION:Reminder\r\n" +
	"END:VALARM\r\n" +
	"END:VEVENT\r\n" +
	"END:VCALENDAR\r\n"

const seedICalTodo = "BEGIN:VCALENDAR\r\n" +
	"VERSION:2.0\r\n" +
	"PRODID:-//verif//c13//EN\r\n" +
	"BEGIN:VTIMEZONE\r\n" +
	"TZID:Europe/Paris\r\n" +
	"BEGIN:STANDARD\r\n" +
	"DTSTART:19701025T030000\r\n" +
	"TZOFFSETFROM:+0200\r\n" +
	"TZOFFSETTO:+0100\r\n" +
	"END:STANDARD\r\n" +
	"END:VTIMEZONE\r\n" +
	"BEGIN:VTODO\r\n" +
	"UID:t1@example.com\r\n" +
	"DTSTAMP:20240101T000000Z\r\n" +
	"DUE;VALUE=DATE:20240301\r\n" +
	"SUMMARY:Buy milk\\, eggs\r\n" +
	"END:VTODO\r\n" +
	"END:VCALENDAR\r\n"

const seedVCard = "BEGIN:VCARD\r\n" +
	"VERSION:3.0\r\n" +
	"UID:urn:uuid:c1\r\n" +
	"FN:Alice Example\r\n" +
	"N:Example;Alice;;;\r\n" +
	"EMAIL;TYPE=work,internet:alice@example.com\r\n" +
	"item1.TEL;TYPE=\"cell\":+33 1 23 45 67 89\r\n" +
	"NOTE:A note that is folded over several lines because it exceeds the \r\n" +
	" seventy-five octets allowed.\r\n" +
	"END:VCARD\r\n"

const seedVCard4 = "BEGIN:VCARD\r\n" +
	"VERSION:4.0\r\n" +
	"FN:Bob\r\n" +
	"NICKNAME:bobby,rob\r\n" +
	"ADR;TYPE=home;LABEL=\"1 Main St\\nTown\":;;1 Main St;Town;;12345;Country\r\n" +
	"END:VCARD\r\n"

// xmlSeeds lists the valid XML seed documents.
func xmlSeeds() []seedDoc {
	return []seedDoc{
		{Name: "propfind-prop", Fam: "propfind", Tree: seedPropfindProp()},
		{Name: "propfind-allprop", Fam: "propfind", Tree: seedPropfindAllprop()},
		{Name: "propfind-propname", Fam: "propfind", Tree: davx.PropFindTree("propname", nil)},
		{Name: "propertyupdate", Fam: "propertyupdate", Tree: seedPropertyUpdate()},
		{Name: "calendar-query-rich", Fam: "calendar-query", Tree: seedCalendarQueryRich()},
		{Name: "calendar-query-simple", Fam: "calendar-query", Tree: seedCalendarQuerySimple()},
		{Name: "calendar-query-allprop", Fam: "calendar-query", Tree: seedCalendarQueryAllprop()},
		{Name: "calendar-multiget", Fam: "calendar-multiget", Tree: seedCalendarMultiget()},
		{Name: "calendar-multiget-allprop", Fam: "calendar-multiget", Tree: seedCalendarMultigetAllprop()},
		{Name: "addressbook-query-rich", Fam: "addressbook-query", Tree: seedAddressbookQueryRich()},
		{Name: "addressbook-query-simple", Fam: "addressbook-query", Tree: seedAddressbookQuerySimple()},
		{Name: "addressbook-multiget", Fam: "addressbook-multiget", Tree: seedAddressbookMultiget()},
		{Name: "addressbook-multiget-propname", Fam: "addressbook-multiget", Tree: seedAddressbookMultigetPropname()},
		{Name: "mkcol-cal", Fam: "mkcol-cal", Tree: seedMkcolCal()},
		{Name: "mkcol-card", Fam: "mkcol-card", Tree: seedMkcolCard()},
	}
}

// textSeeds lists the valid iCalendar / vCard seed objects.
func textSeeds() []seedDoc {
	return []seedDoc{
		{Name: "ical-event", Fam: "ical", Text: seedICalEvent},
		{Name: "ical-todo", Fam: "ical", Text: seedICalTodo},
		{Name: "vcard-3", Fam: "vcard", Text: seedVCard},
		{Name: "vcard-4", Fam: "vcard", Text: seedVCard4},
	}
}

// rootName returns "{ns}local" of a tree's root.
func rootName(n *xmltree.Node) string { return n.Name() }

// render renders a tree in the plain deterministic form, optionally with an
// XML declaration in front.
func render(n *xmltree.Node, prolog bool) []byte {
	b := xmltree.Render(n, plainLex())
	if prolog {
		return append([]byte("<?xml version=\"1.0\" encoding=\"utf-8\"?>\n"), b...)
	}
	return b
}

// rootSpan returns the byte offsets [start,end) of the root element in a
// document produced by render: start is the offset of the root's '<', end is
// one past the '>' closing the root.
func rootSpan(doc []byte) (int, int) {
	s := string(doc)
	start := 0
	for {
		i := strings.IndexByte(s[start:], '<')
		if i < 0 {
			return len(s), len(s)
		}
		start += i
		if start+1 < len(s) && (s[start+1] == '?' || s[start+1] == '!') {
			start++
			continue
		}
		break
	}
	end := strings.LastIndexByte(s, '>') + 1
	return start, end
}

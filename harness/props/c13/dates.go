package c13

import (
	"fmt"
	"strings"

	"github.com/emersion/go-webdav/verifharness/xmltree"
)

// The values of the start / end attributes of CALDAV:time-range and
// CALDAV:expand are "date with UTC time" values (RFC 4791 9.9, 9.6.5; RFC 5545
// 3.3.5 form 2, 3.3.4, 3.3.12):
//
//	date-time  = date "T" time          ; here always with the "Z"
//	date       = 4DIGIT 2DIGIT 2DIGIT   ; month 01-12; day 01-28, 01-29, 01-30,
//	                                    ; 01-31 "based on month/year"
//	time       = 2DIGIT 2DIGIT 2DIGIT   ; hour 00-23, minute 00-59, second 00-60
//
// validDateTimeUTC is the harness's own reader of that grammar. It shares
// nothing with package time.
func validDateTimeUTC(s string) bool {
	if len(s) != 16 || s[8] != 'T' || s[15] != 'Z' {
		return false
	}
	num := func(a, b int) int {
		n := 0
		for _, c := range []byte(s[a:b]) {
			if c < '0' || c > '9' {
				return -1
			}
			n = n*10 + int(c-'0')
		}
		return n
	}
	y, mo, d := num(0, 4), num(4, 6), num(6, 8)
	h, mi, sec := num(9, 11), num(11, 13), num(13, 15)
	if y < 0 || mo < 1 || mo > 12 || d < 1 || d > daysIn(y, mo) {
		return false
	}
	return h >= 0 && h <= 23 && mi >= 0 && mi <= 59 && sec >= 0 && sec <= 60
}

func leapYear(y int) bool { return y%4 == 0 && (y%100 != 0 || y%400 == 0) }

func daysIn(y, mo int) int {
	switch mo {
	case 4, 6, 9, 11:
		return 30
	case 2:
		if leapYear(y) {
			return 29
		}
		return 28
	}
	return 31
}

// dateValue is one attribute value together with what is known about it by
// construction.
type dateValue struct {
	Val string
	// Class: "date" (not of the shape YYYYMMDDTHHMMSSZ), "date-field" (of that
	// shape, one field outside its fixed range), "date-day" (of that shape,
	// every field within its fixed range, but the month of that year has no
	// such day), "" = valid or left open.
	Class string
	Mut   string
}

func dt(y, mo, d, h, mi, s int) string {
	return fmt.Sprintf("%04d%02d%02dT%02d%02d%02dZ", y, mo, d, h, mi, s)
}

// calendarDateValues lists, for a pure function of nothing, the values of the
// calendar family:
//
//   - every (month, day) with day in 29..31 that the month does not have, in
//     a common year, a leap year, a century common year and a century leap
//     year, at midnight and at the last second of the day (date-day);
//   - each of the six fields in turn just outside and far outside its fixed
//     range, all other fields valid (date-field);
//   - the last day every month does have in those years, the leap second, the
//     first and the last instant of the four-digit range (valid: unlabelled
//     controls, obligation 1 only).
func calendarDateValues() []dateValue {
	var l []dateValue
	for _, y := range []int{2023, 2024, 1900, 2000, 2100} {
		for mo := 1; mo <= 12; mo++ {
			last := daysIn(y, mo)
			for d := last + 1; d <= 31; d++ {
				l = append(l, dateValue{dt(y, mo, d, 0, 0, 0), "date-day", "day-the-month-lacks"})
				if y == 2023 || mo == 2 {
					l = append(l, dateValue{dt(y, mo, d, 23, 59, 59), "date-day", "day-the-month-lacks"})
				}
			}
			if y == 2023 || mo == 2 {
				l = append(l, dateValue{dt(y, mo, last, 23, 59, 59), "", "date-valid-last-day"})
			}
		}
	}
	type f struct{ mo, d, h, mi, s int }
	ok := f{6, 15, 12, 30, 30}
	for _, x := range []f{
		{0, ok.d, ok.h, ok.mi, ok.s}, {13, ok.d, ok.h, ok.mi, ok.s}, {20, ok.d, ok.h, ok.mi, ok.s}, {99, ok.d, ok.h, ok.mi, ok.s},
		{ok.mo, 0, ok.h, ok.mi, ok.s}, {ok.mo, 32, ok.h, ok.mi, ok.s}, {ok.mo, 40, ok.h, ok.mi, ok.s}, {ok.mo, 99, ok.h, ok.mi, ok.s},
		{1, 32, 0, 0, 0}, {12, 32, 0, 0, 0}, {2, 0, 0, 0, 0},
		{ok.mo, ok.d, 24, 0, 0}, {ok.mo, ok.d, 24, ok.mi, ok.s}, {ok.mo, ok.d, 25, ok.mi, ok.s}, {ok.mo, ok.d, 99, ok.mi, ok.s},
		{ok.mo, ok.d, ok.h, 60, ok.s}, {ok.mo, ok.d, ok.h, 61, ok.s}, {ok.mo, ok.d, ok.h, 99, ok.s},
		{ok.mo, ok.d, ok.h, ok.mi, 61}, {ok.mo, ok.d, ok.h, ok.mi, 62}, {ok.mo, ok.d, ok.h, ok.mi, 99},
		{12, 31, 23, 59, 61},
	} {
		for _, y := range []int{2024, 2023} {
			l = append(l, dateValue{dt(y, x.mo, x.d, x.h, x.mi, x.s), "date-field", "field-out-of-range"})
		}
	}
	// valid or open: unlabelled
	for _, v := range []string{
		dt(2016, 12, 31, 23, 59, 60), // a leap second that happened
		dt(2024, 6, 15, 12, 30, 60),  // one that did not: within the grammar all the same
		dt(0, 1, 1, 0, 0, 0), dt(1, 1, 1, 0, 0, 0), dt(9999, 12, 31, 23, 59, 59), dt(1970, 1, 1, 0, 0, 0), dt(1969, 12, 31, 23, 59, 59),
		" " + dt(2024, 1, 1, 0, 0, 0), dt(2024, 1, 1, 0, 0, 0) + " ", "\n" + dt(2024, 1, 1, 0, 0, 0) + "\t",
		// literal strings of an ABNF grammar match in either case
		"20240101t000000Z", "20240101T000000z", "20240101t000000z",
	} {
		l = append(l, dateValue{v, "", "date-boundary"})
	}
	// Of another shape than YYYYMMDDTHHMMSSZ, one step away from it: an extra
	// or a missing character, a character of the wrong kind in one position.
	for _, v := range []string{
		"20240101 000000Z", "20240101T000000", "20240101T000000ZZ", "20240101TT000000Z",
		"020240101T000000Z", "120240101T000000Z", "+20240101T000000Z", "-20240101T000000Z", "240101T000000Z",
		"2024+101T000000Z", "2024-101T000000Z", "2024 101T000000Z", "202401 1T000000Z", "20240101T+10000Z", "20240101T 10000Z", "20240101T0000 0Z",
		"2024010T1000000Z", "202401011T00000Z", "20240101T0000000Z", "20240101T00000Z", "2024011T000000Z",
		"20240101T000000+0000", "20240101T000000-0000", "20240101T000000+00:00", "20240101T000000UTC", "20240101T000000GMT",
		"20240101T00:00:00Z", "2024-01-01T000000Z", "2024/01/01T000000Z", "20240101T000000Z;x", "20240101T000000Z,20240102T000000Z", "20240101T000000Z/20240102T000000Z",
		"2O240101T000000Z", "20240l01T000000Z", "0x240101T000000Z", "2024٠101T000000Z", "２０２４０１０１T000000Z",
		"20240101T000000\u200bZ", "20240101 T000000Z", "TZ", "T000000Z", "20240101TZ", strings.Repeat("2", 400) + "T000000Z",
		"20240101", "2024", "Z", "0", "-1", "now", "today", "P1D", "20240101T000000Z20240101T000000Z",
	} {
		l = append(l, dateValue{v, "date", "bad-date-shape"})
	}
	// A fraction of a second behind the seconds field has no place in the
	// grammar (time-second is 2DIGIT and "Z" follows at once), but reading it
	// names the same instant to the second: a value-preserving leniency that
	// is left open (as it is for C16's decoder), like surrounding white space.
	for _, v := range []string{
		"20240101T000000.5Z", "20240101T000000,5Z", "20240101T000000.000Z", "20240101T000000.999999999Z", "20240101T000000.Z", "20240101T000000.0000000000001Z",
		"20240101T0000.5Z", "20240101T0000,5Z",
	} {
		l = append(l, dateValue{v, "", "date-fraction"})
	}
	// The harness's reader has the last word: a value it accepts - as it
	// stands or stripped of surrounding white space - is never labelled.
	for i := range l {
		if l[i].Class == "" {
			continue
		}
		if validDateTimeUTC(l[i].Val) || validDateTimeUTC(strings.TrimSpace(l[i].Val)) {
			l[i].Class, l[i].Mut = "", "date-boundary"
		}
	}
	return l
}

// dateSlot is one date-valued attribute of a document: element number and
// attribute name.
type dateSlot struct {
	Elem int
	Attr string
}

// dateSlots lists every date-valued attribute the CalDAV request grammar has
// and the statement's servers read: start and end of time-range and of expand.
func dateSlots(root *xmltree.Node) []dateSlot {
	var l []dateSlot
	for i, n := range elems(root) {
		if !(n.Is(nsC, "time-range") || n.Is(nsC, "expand")) {
			continue
		}
		for _, a := range []string{"start", "end"} {
			if _, ok := n.Attr(a); ok {
				l = append(l, dateSlot{i, a})
			}
		}
	}
	return l
}

// withBothBounds returns the seed with every time-range given both bounds (a
// range that is open at one end in the seed has no slot for the other).
func withBothBounds(root *xmltree.Node) *xmltree.Node {
	t := root.Clone()
	for _, n := range elems(t) {
		if n.Is(nsC, "time-range") {
			if _, ok := n.Attr("start"); !ok {
				setAttr(n, "start", "20230101T000000Z")
			}
			if _, ok := n.Attr("end"); !ok {
				setAttr(n, "end", "20250101T000000Z")
			}
		}
	}
	return t
}

// yearOf returns the year a value of the digit shape names (-1: none).
func yearOf(v string) int {
	if len(v) != 16 {
		return -1
	}
	y := 0
	for _, c := range []byte(v[:4]) {
		if c < '0' || c > '9' {
			return -1
		}
		y = y*10 + int(c-'0')
	}
	return y
}

// setDate gives one bound of a range element the value v. Where v is of the
// digit shape, the other bound (if the element has one) is moved two years to
// the far side of the year v names, so that the range ascends however v is
// read and nothing but v itself is at issue.
func setDate(m *xmltree.Node, attr, v string) {
	setAttr(m, attr, v)
	y := yearOf(v)
	if y < 1000 || y > 9000 {
		return
	}
	other, far := "end", dt(y+2, 1, 1, 0, 0, 0)
	if attr == "end" {
		other, far = "start", dt(y-2, 1, 1, 0, 0, 0)
	}
	if _, ok := m.Attr(other); ok {
		setAttr(m, other, far)
	}
}

// dateMutants puts every value of calendarDateValues into every date slot of
// the seed, one slot at a time (see setDate for the other bound). Labelled
// values make documents with exactly one definite violation of the date
// grammar.
func dateMutants(sd seedDoc) []Body {
	if sd.Fam != "calendar-query" && sd.Fam != "calendar-multiget" {
		return nil
	}
	var l []Body
	base := withBothBounds(sd.Tree)
	vals := calendarDateValues()
	for _, sl := range dateSlots(base) {
		for _, v := range vals {
			t := base.Clone()
			m := elems(t)[sl.Elem]
			setDate(m, sl.Attr, v.Val)
			b := Body{Data: render(t, false), Doc: sd.Fam, Mut: v.Mut, Root: rootName(t)}
			if v.Class != "" {
				b.Sem = v.Class + ":" + m.Local
			}
			l = append(l, b)
		}
	}
	return l
}

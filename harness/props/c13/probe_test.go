package c13

import (
	"fmt"
	"testing"
	"time"

	"github.com/emersion/go-webdav/verifharness/fw"
)

func TestProbeDeep(t *testing.T) {
	c := &fw.Ctx{WorkDir: "/dev/shm/c13/probe"}
	e, err := newEnv(c)
	if err != nil {
		t.Fatal(err)
	}
	for _, sd := range xmlSeeds() {
		rts := routesFor(sd.Fam)
		n := len(elems(sd.Tree))
		for _, d := range []int{2000, 5000, 10001} {
			worst := time.Duration(0)
			wi := 0
			for i := 0; i < n; i++ {
				for _, closed := range []bool{true, false} {
					cs := rts[0].mk("deep", deepNest(sd, i, d, closed), i)
					t0 := time.Now()
					out := e.exec(cs)
					el := time.Since(t0)
					_ = out
					if el > worst {
						worst, wi = el, i
					}
				}
			}
			fmt.Printf("%-30s depth=%6d worst=%v at elem %d (%s)\n", sd.Name, d, worst, wi, elems(sd.Tree)[wi].Local)
		}
	}
}

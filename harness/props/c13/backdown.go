package c13

import (
	"context"
	"errors"
	"io"

	"github.com/emersion/go-webdav"
	"github.com/emersion/go-webdav/caldav"
	"github.com/emersion/go-webdav/carddav"
	"github.com/emersion/go-webdav/verifharness/doubles"
)

// Backends that are down. Every lookup (principal, home set, collections,
// objects, queries; Stat / Open / ReadDir of the file system) is recorded and
// fails; creating, updating and deleting still go through to the recording
// double (the file system refuses them: nothing can change below a root that
// cannot be read), so that a mutation a malformed request gets through is
// seen all the same.
//
// What a request is owed does not depend on the state of the backend: one
// that is malformed by construction is the client's error whether or not the
// storage happens to be reachable, so obligation (2) stands; an unlabelled
// request keeps obligation (1) and may well be answered 5xx.

// backendDownModes: the error is a plain error, an HTTP error of the server
// class, or "not found".
var backendDownModes = []string{"error", "503", "404"}

func backendDownErr(mode string) error {
	switch mode {
	case "503":
		return webdav.NewHTTPError(503, errors.New("storage unavailable"))
	case "404":
		return webdav.NewHTTPError(404, errors.New("not found"))
	}
	return errors.New("storage unavailable")
}

type downCal struct {
	*doubles.CalBackend
	err error
}

func (b *downCal) CurrentUserPrincipal(ctx context.Context) (string, error) {
	b.CalBackend.CurrentUserPrincipal(ctx)
	return "", b.err
}

func (b *downCal) CalendarHomeSetPath(ctx context.Context) (string, error) {
	b.CalBackend.CalendarHomeSetPath(ctx)
	return "", b.err
}

func (b *downCal) ListCalendars(ctx context.Context) ([]caldav.Calendar, error) {
	b.CalBackend.ListCalendars(ctx)
	return nil, b.err
}

func (b *downCal) GetCalendar(ctx context.Context, path string) (*caldav.Calendar, error) {
	b.CalBackend.GetCalendar(ctx, path)
	return nil, b.err
}

func (b *downCal) GetCalendarObject(ctx context.Context, path string, req *caldav.CalendarCompRequest) (*caldav.CalendarObject, error) {
	b.CalBackend.GetCalendarObject(ctx, path, req)
	return nil, b.err
}

func (b *downCal) ListCalendarObjects(ctx context.Context, path string, req *caldav.CalendarCompRequest) ([]caldav.CalendarObject, error) {
	b.CalBackend.ListCalendarObjects(ctx, path, req)
	return nil, b.err
}

func (b *downCal) QueryCalendarObjects(ctx context.Context, path string, query *caldav.CalendarQuery) ([]caldav.CalendarObject, error) {
	b.CalBackend.QueryCalendarObjects(ctx, path, query)
	return nil, b.err
}

type downCard struct {
	*doubles.CardBackend
	err error
}

func (b *downCard) CurrentUserPrincipal(ctx context.Context) (string, error) {
	b.CardBackend.CurrentUserPrincipal(ctx)
	return "", b.err
}

func (b *downCard) AddressBookHomeSetPath(ctx context.Context) (string, error) {
	b.CardBackend.AddressBookHomeSetPath(ctx)
	return "", b.err
}

func (b *downCard) ListAddressBooks(ctx context.Context) ([]carddav.AddressBook, error) {
	b.CardBackend.ListAddressBooks(ctx)
	return nil, b.err
}

func (b *downCard) GetAddressBook(ctx context.Context, path string) (*carddav.AddressBook, error) {
	b.CardBackend.GetAddressBook(ctx, path)
	return nil, b.err
}

func (b *downCard) GetAddressObject(ctx context.Context, path string, req *carddav.AddressDataRequest) (*carddav.AddressObject, error) {
	b.CardBackend.GetAddressObject(ctx, path, req)
	return nil, b.err
}

func (b *downCard) ListAddressObjects(ctx context.Context, path string, req *carddav.AddressDataRequest) ([]carddav.AddressObject, error) {
	b.CardBackend.ListAddressObjects(ctx, path, req)
	return nil, b.err
}

func (b *downCard) QueryAddressObjects(ctx context.Context, path string, query *carddav.AddressBookQuery) ([]carddav.AddressObject, error) {
	b.CardBackend.QueryAddressObjects(ctx, path, query)
	return nil, b.err
}

// downFS is a file system none of whose operations succeeds.
type downFS struct{ err error }

func (f downFS) Open(ctx context.Context, name string) (io.ReadCloser, error) { return nil, f.err }
func (f downFS) Stat(ctx context.Context, name string) (*webdav.FileInfo, error) {
	return nil, f.err
}
func (f downFS) ReadDir(ctx context.Context, name string, recursive bool) ([]webdav.FileInfo, error) {
	return nil, f.err
}
func (f downFS) Create(ctx context.Context, name string, body io.ReadCloser, opts *webdav.CreateOptions) (*webdav.FileInfo, bool, error) {
	return nil, false, f.err
}
func (f downFS) RemoveAll(ctx context.Context, name string, opts *webdav.RemoveAllOptions) error {
	return f.err
}
func (f downFS) Mkdir(ctx context.Context, name string) error { return f.err }
func (f downFS) Copy(ctx context.Context, name, dest string, options *webdav.CopyOptions) (bool, error) {
	return false, f.err
}
func (f downFS) Move(ctx context.Context, name, dest string, options *webdav.MoveOptions) (bool, error) {
	return false, f.err
}

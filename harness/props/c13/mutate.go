package c13

import (
	"bytes"
	"fmt"
	"math/rand"
	"strings"
	"unicode/utf8"

	"github.com/emersion/go-webdav/verifharness/xmltree"
)

// Body is a request body together with the record of how it was made. The
// fields Root, Syntax, Sem and Text are set BY CONSTRUCTION by the operator
// that produced the bytes; they are never derived by parsing the bytes.
type Body struct {
	Data []byte `json:"data,omitempty"`
	// Doc is the seed family the body was derived from ("" = none).
	Doc string `json:"doc,omitempty"`
	// Mut names the operator (evidence only).
	Mut string `json:"mut,omitempty"`
	// Root is "{ns}local" of the root element when the operator knows the
	// body is an XML document with that root (possibly ill-formed further in).
	Root string `json:"root,omitempty"`
	// Syntax != "" : the body is certainly not well-formed XML, with an error
	// located strictly before the end of the root element.
	Syntax string `json:"syntax,omitempty"`
	// Sem != "" : the body is a well-formed document of family Doc that
	// certainly violates the named grammar rule (exclusive elements, date,
	// enumeration, limit).
	Sem string `json:"sem,omitempty"`
	// Quest != "" : the body is a well-formed document of family Doc that
	// breaks a MUST of the RFC which the statement's list of malformations
	// does not name (a range whose end is not after its start). Accepting it
	// and refusing it with a 4xx are both left open; a server error is
	// neither.
	Quest string `json:"quest,omitempty"`
	// Text != "" : the body is certainly not a parseable iCalendar / vCard
	// object (no BEGIN, no END, content line without colon, empty).
	Text string `json:"text,omitempty"`
	// Partial: Data is a strict prefix (possibly empty) of a document that
	// ends before the root element is complete.
	Partial bool `json:"partial,omitempty"`
}

func validXMLBody(sd seedDoc, prolog bool) Body {
	return Body{Data: render(sd.Tree, prolog), Doc: sd.Fam, Mut: "valid", Root: rootName(sd.Tree)}
}

func validTextBody(sd seedDoc) Body {
	return Body{Data: []byte(sd.Text), Doc: sd.Fam, Mut: "valid"}
}

// ---- string-level XML operators (definite syntax errors) -------------------

// truncations returns every strict prefix of the rendered seed plus the
// whole document.
func truncations(sd seedDoc, prolog bool) []Body {
	doc := render(sd.Tree, prolog)
	rs, re := rootSpan(doc)
	root := rootName(sd.Tree)
	var l []Body
	for off := 0; off <= len(doc); off++ {
		b := Body{Data: doc[:off:off], Doc: sd.Fam, Root: root}
		switch {
		case off == len(doc):
			b.Mut = "valid"
		case off == 0:
			b.Mut = "truncated:empty"
			b.Root = ""
		case off <= rs:
			b.Mut = "truncated:before-root"
			b.Root = ""
		case off < re:
			b.Mut = "truncated:in-root"
			b.Syntax = "xml-syntax:truncated"
		default:
			b.Mut = "valid"
		}
		l = append(l, b)
	}
	return l
}

// startTagEnds lists the offsets just after the '>' of every start tag that
// opens content (not self-closing, not an end tag, not a declaration).
func startTagEnds(doc []byte) []int {
	var l []int
	rs, _ := rootSpan(doc)
	i := rs
	for i < len(doc) {
		if doc[i] != '<' {
			i++
			continue
		}
		j := bytes.IndexByte(doc[i:], '>')
		if j < 0 {
			break
		}
		end := i + j
		if doc[i+1] != '/' && doc[i+1] != '?' && doc[i+1] != '!' && doc[end-1] != '/' {
			l = append(l, end+1)
		}
		i = end + 1
	}
	return l
}

func insertAt(doc []byte, off int, s string) []byte {
	out := make([]byte, 0, len(doc)+len(s))
	out = append(out, doc[:off]...)
	out = append(out, s...)
	out = append(out, doc[off:]...)
	return out
}

// syntaxMutants returns documents with exactly one definite syntax error
// inside the root element.
func syntaxMutants(sd seedDoc) []Body {
	doc := render(sd.Tree, false)
	root := rootName(sd.Tree)
	var l []Body
	mk := func(data []byte, mut, cls string) {
		l = append(l, Body{Data: data, Doc: sd.Fam, Mut: mut, Root: root, Syntax: cls})
	}
	// mismatched end tag: every end tag in turn gets another name.
	s := string(doc)
	for i := 0; i+2 < len(s); i++ {
		if s[i] == '<' && s[i+1] == '/' {
			j := strings.IndexByte(s[i:], '>')
			mk(insertAt(doc, i+j, "x"), "end-tag-renamed", "xml-syntax:end-tag")
		}
	}
	pos := startTagEnds(doc)
	for _, p := range pos {
		mk(insertAt(doc, p, "1 < 2 "), "lt-in-text", "xml-syntax:lt")
		mk(insertAt(doc, p, "a &nosuch; b"), "undefined-entity", "xml-syntax:entity")
	}
	if len(pos) > 0 {
		p := pos[len(pos)/2]
		mk(insertAt(doc, p, "<<"), "lt-in-text", "xml-syntax:lt")
		mk(insertAt(doc, p, "&#xZZ;"), "bad-char-ref", "xml-syntax:entity")
		mk(insertAt(doc, p, "AT&T "), "bare-ampersand", "xml-syntax:entity")
		// named entities that HTML knows and XML does not (a decoder set up
		// with an HTML entity table reads them)
		for _, ent := range []string{"&nbsp;", "caf&eacute;", "&copy; 2024", "&Auml;&ouml;", "&hellip;"} {
			mk(insertAt(doc, p, ent), "html-entity", "xml-syntax:entity")
		}
		mk(insertAt(doc, p, "<unclosed>"), "unclosed-element", "xml-syntax:end-tag")
		mk(insertAt(doc, p, "</D:stray>"), "stray-end-tag", "xml-syntax:end-tag")
	}
	// undefined entity inside an attribute value
	rs, _ := rootSpan(doc)
	if k := strings.Index(s[rs:], "=\""); k >= 0 {
		mk(insertAt(doc, rs+k+2, "&nosuch;"), "undefined-entity-in-attr", "xml-syntax:entity")
		mk(insertAt(doc, rs+k+2, "&nbsp;"), "html-entity-in-attr", "xml-syntax:entity")
		mk(insertAt(doc, rs+k+2, "<"), "lt-in-attr", "xml-syntax:lt")
	}
	return l
}

// ---- tree-level helpers ----------------------------------------------------

func elems(root *xmltree.Node) []*xmltree.Node {
	var l []*xmltree.Node
	var rec func(n *xmltree.Node)
	rec = func(n *xmltree.Node) {
		if n.Kind != xmltree.Element {
			return
		}
		l = append(l, n)
		for _, c := range n.Children {
			rec(c)
		}
	}
	rec(root)
	return l
}

func parentOf(root, target *xmltree.Node) (*xmltree.Node, int) {
	for _, n := range elems(root) {
		for i, c := range n.Children {
			if c == target {
				return n, i
			}
		}
	}
	return nil, -1
}

func setAttr(n *xmltree.Node, local, val string) {
	for i := range n.Attrs {
		if n.Attrs[i].Space == "" && n.Attrs[i].Local == local {
			n.Attrs[i].Value = val
			return
		}
	}
	n.Attrs = append(n.Attrs, xmltree.Attr{Local: local, Value: val})
}

func hasChild(n *xmltree.Node, space, local string) bool { return n.First(space, local) != nil }

func prepend(n *xmltree.Node, c *xmltree.Node) {
	n.Children = append([]*xmltree.Node{c}, n.Children...)
}

// wrongRootMutants returns well-formed documents whose root is certainly not
// the root any of the request grammars names.
func wrongRootMutants(sd seedDoc) []Body {
	var l []Body
	mk := func(t *xmltree.Node, mut string) {
		l = append(l, Body{Data: render(t, false), Doc: sd.Fam, Mut: mut, Root: rootName(t)})
	}
	t := sd.Tree.Clone()
	t.Local += "x"
	mk(t, "root-renamed")
	t = sd.Tree.Clone()
	t.Space = "urn:example:wrong"
	mk(t, "root-ns-swapped")
	t = sd.Tree.Clone()
	t.Space = ""
	mk(t, "root-no-namespace")
	t = sd.Tree.Clone()
	t.Local = strings.ToUpper(t.Local)
	mk(t, "root-uppercased")
	// wrapped one level down
	mk(el(nsD, "wrapper", sd.Tree.Clone()), "root-wrapped")
	return l
}

var badDates = []string{"", "garbage", "2024-01-01T00:00:00Z", "20240101", "20240101T000000", "20240101T000000+0100", "yesterday", "20240101T0000Z", "1704067200"}
var badTests = []string{"", "oneof", "ANYOF", "anyof allof", "all"}
var badMatchTypes = []string{"", "regex", "Equals", "starts_with", "contains,equals"}
var badNegates = []string{"", "true", "YES", "1", "n"}
var badLimits = []string{"abc", "-1", "1.5", "ten", "0x10", "1e3", "- 5", "-0"}

// semMutants returns well-formed documents of the seed's family with exactly
// one definite grammar violation of the classes named by the statement.
func semMutants(sd seedDoc) []Body {
	var l []Body
	// at applies f to element number i of a fresh clone.
	at := func(i int, mut, sem string, f func(n *xmltree.Node)) {
		t := sd.Tree.Clone()
		f(elems(t)[i])
		l = append(l, Body{Data: render(t, false), Doc: sd.Fam, Mut: mut, Root: rootName(t), Sem: sem})
	}
	both := func(i int, mut, sem string, mkc func() *xmltree.Node) {
		at(i, mut+"/first", sem, func(n *xmltree.Node) { prepend(n, mkc()) })
		at(i, mut+"/last", sem, func(n *xmltree.Node) { n.Add(mkc()) })
	}
	isCal := strings.HasPrefix(sd.Fam, "calendar-")
	isCard := strings.HasPrefix(sd.Fam, "addressbook-")
	if !isCal && !isCard {
		return nil
	}
	ns := nsC
	if isCard {
		ns = nsR
	}
	ind := func() *xmltree.Node { return el(ns, "is-not-defined") }
	tm := func() *xmltree.Node { return el(ns, "text-match", txt("x")) }
	tr := func() *xmltree.Node { return el(nsC, "time-range").With("start", "20240101T000000Z") }
	for i, n := range elems(sd.Tree) {
		kids := len(n.Elems()) > 0
		hasIND := hasChild(n, ns, "is-not-defined")
		switch {
		case isCal && n.Is(nsC, "comp-filter"):
			if kids && !hasIND {
				both(i, "add-is-not-defined", "exclusive:comp-filter", ind)
			}
			if hasIND {
				both(i, "add-time-range", "exclusive:comp-filter", tr)
				both(i, "add-prop-filter", "exclusive:comp-filter", func() *xmltree.Node { return el(nsC, "prop-filter").With("name", "UID") })
				both(i, "add-comp-filter", "exclusive:comp-filter", func() *xmltree.Node { return el(nsC, "comp-filter").With("name", "VALARM") })
			}
		case isCal && n.Is(nsC, "prop-filter"):
			if kids && !hasIND {
				both(i, "add-is-not-defined", "exclusive:prop-filter", ind)
			}
			if hasIND {
				both(i, "add-text-match", "exclusive:prop-filter", tm)
				both(i, "add-time-range", "exclusive:prop-filter", tr)
				both(i, "add-param-filter", "exclusive:prop-filter", func() *xmltree.Node { return el(nsC, "param-filter").With("name", "CN") })
			}
		case n.Is(ns, "param-filter"):
			if hasChild(n, ns, "text-match") && !hasIND {
				both(i, "add-is-not-defined", "exclusive:param-filter", ind)
			}
			if hasIND {
				both(i, "add-text-match", "exclusive:param-filter", tm)
			}
		case isCard && n.Is(nsR, "prop-filter"):
			if kids && !hasIND {
				both(i, "add-is-not-defined", "exclusive:prop-filter", ind)
			}
			if hasIND {
				both(i, "add-text-match", "exclusive:prop-filter", tm)
				both(i, "add-param-filter", "exclusive:prop-filter", func() *xmltree.Node { return el(nsR, "param-filter").With("name", "TYPE") })
			}
		case isCal && n.Is(nsC, "comp"):
			if hasChild(n, nsC, "prop") && !hasChild(n, nsC, "allprop") {
				both(i, "add-allprop", "exclusive:calendar-data allprop+prop", func() *xmltree.Node { return el(nsC, "allprop") })
			}
			if hasChild(n, nsC, "allprop") && !hasChild(n, nsC, "prop") {
				both(i, "add-prop", "exclusive:calendar-data allprop+prop", func() *xmltree.Node { return el(nsC, "prop").With("name", "UID") })
			}
			if hasChild(n, nsC, "comp") && !hasChild(n, nsC, "allcomp") {
				both(i, "add-allcomp", "exclusive:calendar-data allcomp+comp", func() *xmltree.Node { return el(nsC, "allcomp") })
			}
			if hasChild(n, nsC, "allcomp") && !hasChild(n, nsC, "comp") {
				both(i, "add-comp", "exclusive:calendar-data allcomp+comp", func() *xmltree.Node { return el(nsC, "comp").With("name", "VALARM") })
			}
		case isCard && n.Is(nsR, "address-data"):
			if hasChild(n, nsR, "prop") && !hasChild(n, nsR, "allprop") {
				both(i, "add-allprop", "exclusive:address-data allprop+prop", func() *xmltree.Node { return el(nsR, "allprop") })
			}
			if hasChild(n, nsR, "allprop") && !hasChild(n, nsR, "prop") {
				both(i, "add-prop", "exclusive:address-data allprop+prop", func() *xmltree.Node { return el(nsR, "prop").With("name", "FN") })
			}
		}
		// dates
		if isCal && (n.Is(nsC, "time-range") || n.Is(nsC, "expand")) {
			sem := "date:" + n.Local
			for _, a := range []string{"start", "end"} {
				if _, ok := n.Attr(a); !ok {
					continue
				}
				for _, v := range badDates {
					a, v := a, v
					at(i, "bad-date", sem, func(m *xmltree.Node) { setAttr(m, a, v) })
				}
				// representatives of the calendar family (dateMutants has all)
				for _, v := range []dateValue{
					{"20230230T000000Z", "date-day", "day-the-month-lacks"}, {"20230431T120000Z", "date-day", "day-the-month-lacks"}, {"21000229T235959Z", "date-day", "day-the-month-lacks"},
					{"20241301T000000Z", "date-field", "field-out-of-range"}, {"20240101T240000Z", "date-field", "field-out-of-range"}, {"20240100T000000Z", "date-field", "field-out-of-range"},
				} {
					a, v := a, v
					if validDateTimeUTC(v.Val) {
						continue
					}
					at(i, v.Mut, v.Class+":"+n.Local, func(m *xmltree.Node) { setDate(m, a, v.Val) })
				}
			}
		}
		// enumerations
		if n.Is(ns, "text-match") {
			for _, v := range badNegates {
				v := v
				at(i, "bad-enum", "enum:negate-condition", func(m *xmltree.Node) { setAttr(m, "negate-condition", v) })
			}
			if isCard {
				for _, v := range badMatchTypes {
					v := v
					at(i, "bad-enum", "enum:match-type", func(m *xmltree.Node) { setAttr(m, "match-type", v) })
				}
			}
		}
		if isCard && (n.Is(nsR, "filter") || n.Is(nsR, "prop-filter")) {
			for _, v := range badTests {
				v := v
				at(i, "bad-enum", "enum:test", func(m *xmltree.Node) { setAttr(m, "test", v) })
			}
		}
		// limit
		if isCard && n.Is(nsR, "nresults") {
			for _, v := range badLimits {
				v := v
				at(i, "bad-limit", "limit:nresults", func(m *xmltree.Node) {
					m.Children = nil
					if v != "" {
						m.Add(txt(v))
					}
				})
			}
		}
		if sd.Fam == "addressbook-query" && n.Is(nsR, "addressbook-query") && !hasChild(n, nsR, "limit") {
			for _, v := range badLimits {
				v := v
				at(i, "bad-limit-added", "limit:nresults", func(m *xmltree.Node) { m.Add(el(nsR, "limit", el(nsR, "nresults", txt(v)))) })
			}
		}
	}
	return l
}

// boundaryMutants returns documents that look suspicious but are NOT
// definitely malformed under the statement (obligation 1 only).
func boundaryMutants(sd seedDoc) []Body {
	var l []Body
	mk := func(t *xmltree.Node, mut string) {
		l = append(l, Body{Data: render(t, false), Doc: sd.Fam, Mut: mut, Root: rootName(t)})
	}
	doc := render(sd.Tree, false)
	for _, g := range []string{"garbage", "<D:extra xmlns:D=\"DAV:\"/>", "<", "\x00\x01", "</x>", "   \n"} {
		l = append(l, Body{Data: append(append([]byte{}, doc...), g...), Doc: sd.Fam, Mut: "trailing-garbage"})
	}
	// Prologs: XML declarations naming every kind of encoding / version /
	// standalone value, document type declarations, processing instructions,
	// comments and byte-order marks in front of the (valid) root. Whether a
	// server can read a declared encoding is its business: not labelled.
	for _, pl := range xmltree.Prologs {
		l = append(l, Body{Data: append([]byte(pl), doc...), Doc: sd.Fam, Mut: "prolog"})
	}
	// ... and long runs of bytes >= 0x80 behind a declaration of a single-byte
	// encoding, at every alignment modulo 4 (buffer boundaries of a transcoder)
	for ei, enc := range []string{"ISO-8859-1", "latin1", "iso-8859-15", "windows-1252", "US-ASCII", "UTF-8"} {
		for shift := 0; shift < 4; shift++ {
			if (ei+shift)%2 == 1 && sd.Fam != "propfind" {
				continue
			}
			var bb bytes.Buffer
			bb.WriteString(`<?xml version="1.0" encoding="` + enc + `"?><!-- ` + strings.Repeat("x", shift))
			bb.Write(bytes.Repeat([]byte{0xe9, 0xfc, 0xa4}, 3000))
			bb.WriteString(" -->")
			bb.Write(doc)
			l = append(l, Body{Data: bb.Bytes(), Doc: sd.Fam, Mut: "prolog-high-bytes"})
		}
	}
	switch sd.Fam {
	case "propfind":
		// more than one of allprop / propname / prop (RFC 4918 14.20 allows
		// one): the statement names exclusive "filter or selection elements"
		// without saying which; left open, a server error is a finding
		for _, sel := range [][]*xmltree.Node{
			{el(nsD, "allprop"), el(nsD, "propname")},
			{el(nsD, "propname"), el(nsD, "allprop")},
			{el(nsD, "prop", el(nsD, "getetag")), el(nsD, "allprop")},
			{el(nsD, "allprop"), el(nsD, "prop", el(nsD, "getetag"))},
			{el(nsD, "prop", el(nsD, "getetag")), el(nsD, "propname")},
			{el(nsD, "allprop"), el(nsD, "allprop")},
			{el(nsD, "propname"), el(nsD, "propname")},
			{el(nsD, "prop", el(nsD, "getetag")), el(nsD, "prop", el(nsD, "displayname"))},
			{el(nsD, "allprop"), el(nsD, "propname"), el(nsD, "prop", el(nsD, "getetag"))},
			{el(nsD, "include", el(nsD, "getetag")), el(nsD, "propname")},
		} {
			t := el(nsD, "propfind", sel...)
			l = append(l, Body{Data: render(t, false), Doc: sd.Fam, Mut: "selection-twice", Root: rootName(t), Quest: "exclusive:selection elements"})
		}
		t := sd.Tree.Clone()
		t.Add(el(nsD, "allprop"), el(nsD, "propname"))
		l = append(l, Body{Data: render(t, false), Doc: sd.Fam, Mut: "allprop+propname", Root: rootName(t), Quest: "exclusive:selection elements"})
		mk(el(nsD, "propfind"), "propfind-empty")
		mk(el(nsD, "propfind", el(nsD, "prop")), "propfind-empty-prop")
		mk(el(nsD, "propfind", el(nsD, "prop", txt("text only"))), "propfind-prop-text")
		mk(el(nsD, "propfind", el(nsD, "prop", el(nsD, "getetag"), el(nsD, "getetag"))), "propfind-dup-prop")
		mk(el(nsD, "propfind", el(nsD, "prop", el("", "nons"), el("xmlns", "x"), el("urn:a b", "sp ace"))), "propfind-odd-names")
	case "addressbook-query":
		for _, v := range []string{"", " ", "0", "00010", "+5", "99999999999999999999999999", " 5 ", "18446744073709551615", "9223372036854775808"} {
			t := sd.Tree.Clone()
			if lim := t.First(nsR, "limit"); lim != nil {
				lim.Children = []*xmltree.Node{el(nsR, "nresults", txt(v))}
			} else {
				t.Add(el(nsR, "limit", el(nsR, "nresults", txt(v))))
			}
			mk(t, "limit-boundary")
		}
		t := sd.Tree.Clone()
		if lim := t.First(nsR, "limit"); lim != nil {
			lim.Children = nil
		} else {
			t.Add(el(nsR, "limit"))
		}
		mk(t, "limit-empty")
	case "calendar-query", "calendar-multiget":
		// (values of the right shape that name no instant - month 13, 30
		// February, hour 25 - are invalid dates: see dateMutants)
		for _, v := range []string{"00000101T000000Z", "99991231T235959Z", " 20240101T000000Z", "20240229T235959Z", "20161231T235960Z"} {
			t := sd.Tree.Clone()
			for _, n := range elems(t) {
				if n.Is(nsC, "time-range") || n.Is(nsC, "expand") {
					setAttr(n, "start", v)
					break
				}
			}
			mk(t, "date-boundary")
		}
		// iCalendar text carried INSIDE the XML document (CALDAV:timezone of a
		// calendar-query, RFC 4791 9.7 / 9.8): a valid time zone definition
		// and objects broken in every way the text operators know. Whether a
		// server reads that text at all is its business: not labelled.
		if sd.Fam == "calendar-query" {
			for _, txtBody := range embeddedTexts() {
				t := sd.Tree.Clone()
				t.Add(el(nsC, "timezone", txt(string(txtBody.Data))))
				l = append(l, Body{Data: render(t, false), Doc: sd.Fam, Mut: "embedded-timezone " + txtBody.Mut, Root: rootName(t)})
			}
		}
		// ranges whose end is not after their start (RFC 4791 9.6.5, 9.6.6,
		// 9.9): in every element that carries a range, equal and inverted
		ranged := func(n *xmltree.Node) bool {
			return n.Is(nsC, "time-range") || n.Is(nsC, "expand") || n.Is(nsC, "limit-recurrence-set") || n.Is(nsC, "limit-freebusy-set")
		}
		withLimit := sd.Tree.Clone()
		if cd := findElem(withLimit, nsC, "calendar-data"); cd != nil && cd.First(nsC, "limit-recurrence-set") == nil {
			removeChildren(cd, nsC, "expand")
			cd.Add(el(nsC, "limit-recurrence-set").With("start", "20240101T000000Z", "end", "20240201T000000Z"))
		}
		for _, base := range []*xmltree.Node{sd.Tree, withLimit} {
			for i, n := range elems(base) {
				if !ranged(n) {
					continue
				}
				for _, se := range [][2]string{{"20240201T000000Z", "20240201T000000Z"}, {"20240201T000000Z", "20240101T000000Z"}, {"20240201T000000Z", "20240131T235959Z"}} {
					t := base.Clone()
					m := elems(t)[i]
					setAttr(m, "start", se[0])
					setAttr(m, "end", se[1])
					l = append(l, Body{Data: render(t, false), Doc: sd.Fam, Mut: "range-not-ascending", Root: rootName(t), Quest: "range:end-not-after-start " + n.Local})
				}
			}
		}
	}
	// other REPORT types a server may or may not know
	if sd.Fam == "calendar-query" || sd.Fam == "addressbook-query" {
		mk(el(nsC, "free-busy-query", el(nsC, "time-range").With("start", "20240101T000000Z", "end", "20240102T000000Z")), "other-report")
		mk(el(nsD, "sync-collection", el(nsD, "sync-token"), el(nsD, "sync-level", txt("1")), el(nsD, "prop", el(nsD, "getetag"))), "other-report")
		mk(el(nsD, "expand-property"), "other-report")
		mk(el(nsD, "principal-property-search"), "other-report")
	}
	return l
}

// structuralSingles applies every single structural operator at every
// element / attribute of the seed once (exhaustive at distance one). The
// results are NOT labelled, except that Root names the rendered root (so a
// renamed or re-namespaced root is a wrong root by construction).
func structuralSingles(sd seedDoc) []Body {
	var l []Body
	n := len(elems(sd.Tree))
	mk := func(t *xmltree.Node, mut string) {
		l = append(l, Body{Data: render(t, false), Doc: sd.Fam, Mut: mut, Root: rootName(t)})
	}
	for i := 0; i < n; i++ {
		if i > 0 {
			t := sd.Tree.Clone()
			e := elems(t)[i]
			p, k := parentOf(t, e)
			p.Children = append(p.Children[:k:k], p.Children[k+1:]...)
			mk(t, "single:delete")

			t = sd.Tree.Clone()
			e = elems(t)[i]
			p, k = parentOf(t, e)
			rest := append([]*xmltree.Node{e.Clone()}, p.Children[k:]...)
			p.Children = append(p.Children[:k:k], rest...)
			mk(t, "single:duplicate")

			t = sd.Tree.Clone()
			e = elems(t)[i]
			e.Local += "x"
			mk(t, "single:rename")

			t = sd.Tree.Clone()
			e = elems(t)[i]
			switch e.Space {
			case nsD:
				e.Space = nsC
			case nsC:
				e.Space = nsR
			default:
				e.Space = nsD
			}
			mk(t, "single:ns-swap")
		}
		t := sd.Tree.Clone()
		e := elems(t)[i]
		if len(e.Children) > 0 {
			e.Children = nil
			mk(t, "single:empty")
		}
		t = sd.Tree.Clone()
		e = elems(t)[i]
		e.Children = append([]*xmltree.Node{txt("stray text")}, e.Children...)
		mk(t, "single:text-add")

		for a := range elems(sd.Tree)[i].Attrs {
			t := sd.Tree.Clone()
			e := elems(t)[i]
			e.Attrs = append(e.Attrs[:a:a], e.Attrs[a+1:]...)
			mk(t, "single:attr-delete")
			for _, v := range []string{"", "x", "-1", "é€𝄞 <&>", "99999999999999999999"} {
				t := sd.Tree.Clone()
				elems(t)[i].Attrs[a].Value = v
				mk(t, "single:attr-corrupt")
			}
			t = sd.Tree.Clone()
			elems(t)[i].Attrs[a].Space = nsD
			mk(t, "single:attr-ns")
		}
	}
	return l
}

// otherReports are REPORT roots defined by other RFCs; a root from this set
// is never labelled "wrong root".
var otherReports = map[string]bool{
	"{" + nsC + "}free-busy-query":               true,
	"{" + nsD + "}sync-collection":               true,
	"{" + nsD + "}expand-property":               true,
	"{" + nsD + "}principal-property-search":     true,
	"{" + nsD + "}principal-search-property-set": true,
	"{" + nsD + "}principal-match":               true,
	"{" + nsD + "}acl-principal-prop-set":        true,
	"{" + nsD + "}version-tree":                  true,
}

var garbageValues = []string{"", " ", "x", "-1", "0", "99999999999999999999", "yes", "<&>\"'", "é€𝄞", "a\tb", strings.Repeat("A", 300), "%00", "../..", "20240101T000000Z", "anyof", "equals"}

// randomMutate applies 1..3 random structural operators to a clone of the
// seed. The result is NOT labelled (obligation 1 only) except that Root
// always names the root actually rendered.
func randomMutate(r *rand.Rand, sd seedDoc) Body {
	t := sd.Tree.Clone()
	var ops []string
	k := 1 + r.Intn(3)
	for j := 0; j < k; j++ {
		es := elems(t)
		n := es[r.Intn(len(es))]
		switch op := r.Intn(12); op {
		case 0: // delete element
			if p, i := parentOf(t, n); p != nil {
				p.Children = append(p.Children[:i:i], p.Children[i+1:]...)
				ops = append(ops, "delete")
			}
		case 1: // duplicate element
			if p, i := parentOf(t, n); p != nil {
				c := n.Clone()
				rest := append([]*xmltree.Node{c}, p.Children[i:]...)
				p.Children = append(p.Children[:i:i], rest...)
				ops = append(ops, "duplicate")
			}
		case 2: // rename element
			n.Local = []string{n.Local + "x", "unknown", strings.ToUpper(n.Local), "prop", "href", "filter", "comp-filter"}[r.Intn(7)]
			ops = append(ops, "rename")
		case 3: // swap namespace
			n.Space = []string{nsD, nsC, nsR, "", "urn:example:other"}[r.Intn(5)]
			ops = append(ops, "ns-swap")
		case 4: // corrupt attribute value
			if len(n.Attrs) > 0 {
				n.Attrs[r.Intn(len(n.Attrs))].Value = garbageValues[r.Intn(len(garbageValues))]
				ops = append(ops, "attr-corrupt")
			}
		case 5: // unknown attribute / namespaced attribute
			if r.Intn(2) == 0 {
				n.Attrs = append(n.Attrs, xmltree.Attr{Local: "unknown", Value: garbageValues[r.Intn(len(garbageValues))]})
			} else {
				n.Attrs = append(n.Attrs, xmltree.Attr{Space: nsD, Local: "name", Value: "X"})
			}
			ops = append(ops, "attr-add")
		case 6: // delete attribute
			if len(n.Attrs) > 0 {
				i := r.Intn(len(n.Attrs))
				n.Attrs = append(n.Attrs[:i:i], n.Attrs[i+1:]...)
				ops = append(ops, "attr-delete")
			}
		case 7: // unknown child
			n.Add(el([]string{nsD, nsC, nsR, "urn:example:other"}[r.Intn(4)], "unknown-element", txt("x")))
			ops = append(ops, "child-add")
		case 8: // text replaced / added
			n.Children = append(n.Children, txt(garbageValues[r.Intn(len(garbageValues))]))
			ops = append(ops, "text-add")
		case 9: // children shuffled
			r.Shuffle(len(n.Children), func(a, b int) { n.Children[a], n.Children[b] = n.Children[b], n.Children[a] })
			ops = append(ops, "shuffle")
		case 10: // children removed
			n.Children = nil
			ops = append(ops, "empty")
		case 11: // element moved under a sibling copy of itself (nest 1..40 deep)
			depth := 1 + r.Intn(40)
			inner := n.Clone()
			for d := 0; d < depth; d++ {
				w := &xmltree.Node{Kind: xmltree.Element, Space: n.Space, Local: n.Local, Attrs: append([]xmltree.Attr(nil), n.Attrs...)}
				w.Children = []*xmltree.Node{inner}
				inner = w
			}
			n.Children = append(n.Children, inner)
			ops = append(ops, "nest")
		}
	}
	var data []byte
	if r.Intn(3) == 0 {
		data = xmltree.Render(t, xmltree.FullLex(r))
	} else {
		data = render(t, r.Intn(4) == 0)
	}
	if len(ops) == 0 {
		ops = []string{"none"}
	}
	return Body{Data: data, Doc: sd.Fam, Mut: "random:" + ops[0], Root: rootName(t)}
}

// deepNest nests element number idx of the seed inside depth copies of
// itself (string level, so that the harness's own recursion stays out of the
// picture). With closed=false the copies are never closed, which makes the
// document certainly ill-formed inside the root.
func deepNest(sd seedDoc, idx, depth int, closed bool) Body {
	t := sd.Tree.Clone()
	es := elems(t)
	n := es[idx%len(es)]
	n.Children = append(n.Children, el("urn:example:marker", "m"))
	doc := string(render(t, false))
	i := strings.Index(doc, "<n:m")
	j := i + strings.IndexByte(doc[i:], '>') + 1
	open := "<" + qnameFor(n) + attrsFor(n) + ">"
	cl := "</" + qnameFor(n) + ">"
	var sb strings.Builder
	sb.Grow(len(doc) + depth*(len(open)+len(cl)))
	sb.WriteString(doc[:i])
	for d := 0; d < depth; d++ {
		sb.WriteString(open)
	}
	b := Body{Doc: sd.Fam, Mut: "deep-nest:" + n.Local, Root: rootName(t)}
	if closed {
		for d := 0; d < depth; d++ {
			sb.WriteString(cl)
		}
	} else {
		b.Mut = "deep-nest-unclosed:" + n.Local
		b.Syntax = "xml-syntax:unclosed"
	}
	sb.WriteString(doc[j:])
	b.Data = []byte(sb.String())
	return b
}

// qnameFor returns the qualified name render() gives an element of one of
// the three known namespaces (prefixes are declared on first use by an
// ancestor in every seed, see plainLex).
func qnameFor(n *xmltree.Node) string {
	switch n.Space {
	case nsD:
		return "D:" + n.Local
	case nsC:
		return "C:" + n.Local
	case nsR:
		return "CR:" + n.Local
	}
	return n.Local
}

func attrsFor(n *xmltree.Node) string {
	var sb strings.Builder
	for _, a := range n.Attrs {
		fmt.Fprintf(&sb, " %s=\"%s\"", a.Local, a.Value)
	}
	return sb.String()
}

// padBody grows a valid document to about size bytes with the given filler
// kind. Not labelled (still valid, or harmlessly odd).
func padBody(sd seedDoc, size int, kind int) Body {
	t := sd.Tree.Clone()
	mut := ""
	switch kind % 4 {
	case 0: // long text in an unknown child
		t.Add(el("urn:example:pad", "pad", txt(strings.Repeat("lorem ipsum ", size/12))))
		mut = "big:text"
	case 1: // many unknown children
		for i := 0; i < size/40; i++ {
			t.Add(el("urn:example:pad", "pad"))
		}
		mut = "big:children"
	case 2: // long attribute
		t.Attrs = append(t.Attrs, xmltree.Attr{Local: "pad", Value: strings.Repeat("a", size)})
		mut = "big:attr"
	case 3: // many repetitions of the last child (hrefs, filters, props)
		es := t.Elems()
		if len(es) > 0 {
			last := es[len(es)-1]
			unit := len(render(last, false)) + 1
			for i := 0; i < size/unit; i++ {
				t.Add(last.Clone())
			}
		}
		mut = "big:repeat-last"
	}
	return Body{Data: render(t, false), Doc: sd.Fam, Mut: mut, Root: rootName(t)}
}

// ---- iCalendar / vCard operators ------------------------------------------

func splitLines(text string) []string {
	ls := strings.SplitAfter(text, "\r\n")
	if ls[len(ls)-1] == "" {
		ls = ls[:len(ls)-1]
	}
	return ls
}

func isContinuation(line string) bool {
	return strings.HasPrefix(line, " ") || strings.HasPrefix(line, "\t")
}

var noColonLines = []string{"NOCOLONHERE", "X-NOCOLON;A=B", "X NO COLON", "X-NOCOLON;A=\"q\""}

// malformedParamLines carry a colon, so they are not labelled; they target
// the parameter grammar.
var malformedParamLines = []string{
	"ATTENDEE;CN=\"x\"y:mailto:a@example.com",
	"ATTENDEE;CN=a\"b:mailto:a@example.com",
	"ATTENDEE;CN=\"unterminated:mailto:a@example.com",
	"ATTENDEE;CN:mailto:a@example.com",
	"ATTENDEE;=x:mailto:a@example.com",
	"ATTENDEE;CN=x,:mailto:a@example.com",
	"ATTENDEE;CN=x;:mailto:a@example.com",
	"ATTENDEE;;CN=x:mailto:a@example.com",
	"ATTENDEE;CN=:mailto:a@example.com",
	";CN=x:y",
	":novalue",
	"ATTENDEE;CN=\"a\",\"b\"c:mailto:a@example.com",
	"X-A;B=\"c\"\"d\":e",
	"X-A;B=^'c:e",
	"X-A;" + strings.Repeat("P=v;", 50) + "Q=w:e",
}

// textMutants returns mutated iCalendar / vCard objects. Text is set only
// where the operator makes the object certainly unparseable.
func textMutants(sd seedDoc) []Body {
	var l []Body
	lines := splitLines(sd.Text)
	join := func(ls []string) []byte { return []byte(strings.Join(ls, "")) }
	fam := sd.Fam
	// delete each line
	for k := range lines {
		ls := append(append([]string{}, lines[:k]...), lines[k+1:]...)
		b := Body{Data: join(ls), Doc: fam, Mut: "line-deleted"}
		if k == 0 {
			b.Text, b.Mut = fam+":no-begin", "begin-deleted"
		} else if k == len(lines)-1 {
			b.Text, b.Mut = fam+":no-end", "end-deleted"
		}
		l = append(l, b)
	}
	// insert a line without colon / with malformed parameters at each boundary
	for k := 0; k <= len(lines); k++ {
		if k < len(lines) && isContinuation(lines[k]) {
			continue
		}
		ins := func(line string) []byte {
			ls := append(append(append([]string{}, lines[:k]...), line+"\r\n"), lines[k:]...)
			return join(ls)
		}
		if k < len(lines) { // a line after END is outside the object
			for _, nc := range noColonLines {
				l = append(l, Body{Data: ins(nc), Doc: fam, Mut: "line-without-colon", Text: fam + ":line-without-colon"})
			}
		}
		if k > 0 && k < len(lines) {
			for _, mp := range malformedParamLines {
				l = append(l, Body{Data: ins(mp), Doc: fam, Mut: "param-malformed"})
			}
		}
	}
	// every strict prefix
	endTok := "END:VCALENDAR"
	if fam == "vcard" {
		endTok = "END:VCARD"
	}
	lastEnd := strings.LastIndex(sd.Text, endTok)
	for off := 0; off < len(sd.Text); off++ {
		b := Body{Data: []byte(sd.Text[:off]), Doc: fam, Mut: "truncated"}
		if off == 0 {
			b.Text = fam + ":empty"
		} else if off < lastEnd+len(endTok) {
			b.Text = fam + ":no-end"
		}
		l = append(l, b)
	}
	// after the complete object (trailing content, unlabelled): lines of every
	// malformed kind with and without their line end, and a second object
	// that breaks off at every offset
	trailing := append(append([]string{"X-TRAILER;FOO=bar", "ATTENDEE;CN=\"A B\"", "DTSTART;TZID=Europe/Par", "X", ";", ":", "X;", "X;A", "X;A=", "X;A=\"", "BEGIN:" + strings.TrimPrefix(endTok, "END:")},
		noColonLines...), malformedParamLines...)
	for _, t := range trailing {
		l = append(l, Body{Data: []byte(sd.Text + t), Doc: fam, Mut: "trailing-line-unterminated"},
			Body{Data: []byte(sd.Text + t + "\r\n"), Doc: fam, Mut: "trailing-line"})
	}
	for off := 1; off < len(sd.Text); off++ {
		l = append(l, Body{Data: []byte(sd.Text + sd.Text[:off]), Doc: fam, Mut: "second-object-truncated"})
	}
	// odd but unlabelled
	l = append(l,
		Body{Data: []byte(strings.ReplaceAll(sd.Text, "\r\n", "\n")), Doc: fam, Mut: "lf-only"},
		Body{Data: []byte(sd.Text + sd.Text), Doc: fam, Mut: "doubled"},
		Body{Data: []byte("\r\n\r\n" + sd.Text), Doc: fam, Mut: "leading-blank-lines"},
		Body{Data: []byte(strings.ToLower(sd.Text)), Doc: fam, Mut: "lower-case"},
		Body{Data: []byte("\xef\xbb\xbf" + sd.Text), Doc: fam, Mut: "bom"},
		Body{Data: []byte(strings.Replace(sd.Text, "VERSION", "VERSION"+strings.Repeat("X", 70000), 1)), Doc: fam, Mut: "long-line"},
		Body{Data: []byte(strings.Replace(sd.Text, "\r\nEND:", "\r\nend:", -1)), Doc: fam, Mut: "end-lower"},
	)
	// objects that parse and hold nothing, or not what a calendar / address
	// book stores (unlabelled: the statement's list names unparseable bodies)
	if fam == "ical" {
		tz := "BEGIN:VTIMEZONE\r\nTZID:Europe/Paris\r\nBEGIN:STANDARD\r\nDTSTART:19701025T030000\r\nTZOFFSETFROM:+0200\r\nTZOFFSETTO:+0100\r\nEND:STANDARD\r\nEND:VTIMEZONE\r\n"
		head := "BEGIN:VCALENDAR\r\nVERSION:2.0\r\nPRODID:-//verif//c13//EN\r\n"
		for _, t := range []string{
			"BEGIN:VCALENDAR\r\nEND:VCALENDAR\r\n",
			head + "END:VCALENDAR\r\n",
			"BEGIN:VCALENDAR\r\nVERSION:2.0\r\nEND:VCALENDAR\r\n",
			head + tz + "END:VCALENDAR\r\n",
			head + "BEGIN:VJOURNAL\r\nUID:j1\r\nDTSTAMP:20240101T000000Z\r\nEND:VJOURNAL\r\n" + "END:VCALENDAR\r\n",
			head + "BEGIN:VFREEBUSY\r\nUID:f1\r\nDTSTAMP:20240101T000000Z\r\nEND:VFREEBUSY\r\n" + "END:VCALENDAR\r\n",
			head + "BEGIN:X-CUSTOM\r\nX-A:1\r\nEND:X-CUSTOM\r\n" + "END:VCALENDAR\r\n",
			head + "BEGIN:VEVENT\r\nEND:VEVENT\r\n" + "END:VCALENDAR\r\n",
			head + "BEGIN:VEVENT\r\nUID:e1\r\nDTSTAMP:20240101T000000Z\r\nDTSTART:20240101T000000Z\r\nBEGIN:VEVENT\r\nUID:e2\r\nEND:VEVENT\r\nEND:VEVENT\r\n" + "END:VCALENDAR\r\n",
			head + "METHOD:REQUEST\r\n" + "END:VCALENDAR\r\n",
			"BEGIN:VEVENT\r\nUID:bare\r\nDTSTAMP:20240101T000000Z\r\nEND:VEVENT\r\n",
		} {
			l = append(l, Body{Data: []byte(t), Doc: fam, Mut: "hollow-object"})
		}
	} else {
		for _, t := range []string{
			"BEGIN:VCARD\r\nEND:VCARD\r\n",
			"BEGIN:VCARD\r\nVERSION:3.0\r\nEND:VCARD\r\n",
			"BEGIN:VCARD\r\nVERSION:4.0\r\nEND:VCARD\r\n",
			"BEGIN:VCARD\r\nFN:No Version\r\nEND:VCARD\r\n",
			"BEGIN:VCARD\r\nVERSION:9.9\r\nFN:x\r\nEND:VCARD\r\n",
			"BEGIN:VCARD\r\nVERSION:3.0\r\nFN:a\r\nEND:VCARD\r\nBEGIN:VCARD\r\nVERSION:3.0\r\nFN:b\r\nEND:VCARD\r\n",
			"BEGIN:VCALENDAR\r\nVERSION:2.0\r\nEND:VCALENDAR\r\n",
		} {
			l = append(l, Body{Data: []byte(t), Doc: fam, Mut: "hollow-object"})
		}
	}
	return l
}

const seedTimezoneText = "BEGIN:VCALENDAR\r\nVERSION:2.0\r\nPRODID:-//verif//c13//EN\r\nBEGIN:VTIMEZONE\r\nTZID;X-SRC=olson:Europe/Paris\r\n" +
	"BEGIN:STANDARD\r\nDTSTART:19701025T030000\r\nTZOFFSETFROM:+0200\r\nTZOFFSETTO:+0100\r\nRRULE:FREQ=YEARLY;BYMONTH=10;BYDAY=-1SU\r\nEND:STANDARD\r\n" +
	"END:VTIMEZONE\r\nEND:VCALENDAR\r\n"

// embeddedTexts are the iCalendar texts placed inside XML elements: the valid
// time zone object, its line-level mutants and every prefix that ends inside
// a content line's name, parameters or value (sampled every third offset).
func embeddedTexts() []Body {
	sd := seedDoc{Name: "ical-timezone", Fam: "ical", Text: seedTimezoneText}
	l := []Body{{Data: []byte(sd.Text), Mut: "valid"}, {Data: nil, Mut: "empty"}, {Data: []byte("   "), Mut: "blank"}}
	for i, b := range textMutants(sd) {
		switch b.Mut {
		case "truncated", "second-object-truncated":
			if i%3 != 0 {
				continue
			}
		case "long-line":
			continue
		}
		if !utf8.Valid(b.Data) || bytes.IndexByte(b.Data, 0) >= 0 {
			continue
		}
		l = append(l, b)
	}
	return l
}

// randomText builds line-structured noise over the iCalendar alphabet.
func randomText(r *rand.Rand, fam string) Body {
	alphabet := []string{"BEGIN", "END", "VCALENDAR", "VCARD", "VEVENT", ":", ";", "=", ",", "\"", "\r\n", "\n", " ", "X", "a", "\\", "\t", "é", "\x00", "."}
	var sb strings.Builder
	n := 1 + r.Intn(60)
	for i := 0; i < n; i++ {
		sb.WriteString(alphabet[r.Intn(len(alphabet))])
	}
	return Body{Data: []byte(sb.String()), Doc: fam, Mut: "random-tokens"}
}

func randomBytes(r *rand.Rand, max int) Body {
	n := r.Intn(max + 1)
	b := make([]byte, n)
	r.Read(b)
	if r.Intn(3) == 0 { // printable-ish
		const tbl = " <>/=\"'&;:abcDAV\r\n?!-[]x"
		for i := range b {
			b[i] = tbl[int(b[i])%len(tbl)]
		}
	}
	return Body{Data: b, Doc: "bytes", Mut: "random-bytes"}
}

// noRootBodies are bodies that certainly are not XML documents: non-blank
// junk without any start tag (text, stray end tags, control bytes).
func noRootBodies(fam string) []Body {
	var l []Body
	for _, g := range []string{"garbage", "</D:mkcol>", "</a></b></c>", "]]>", "not <", "\x00\x01\x02", "</D:propfind></D:multistatus>"} {
		l = append(l, Body{Data: []byte(g), Doc: fam, Mut: "no-root-junk", Syntax: "xml-syntax:no-root"})
	}
	return l
}

// ---- features: well-formed, grammatical but unusual variants of a seed ------

type feature struct {
	Name  string
	Apply func(t *xmltree.Node) bool // false: not applicable to this seed
}

// replaceSelection replaces the D:prop / D:allprop / D:propname child of the
// root by repl (nil = remove).
func replaceSelection(t *xmltree.Node, repl *xmltree.Node) bool {
	for i, c := range t.Children {
		if c.Is(nsD, "prop") || c.Is(nsD, "allprop") || c.Is(nsD, "propname") {
			if repl == nil {
				t.Children = append(t.Children[:i:i], t.Children[i+1:]...)
			} else {
				t.Children[i] = repl
			}
			return true
		}
	}
	if repl != nil {
		prepend(t, repl)
		return true
	}
	return false
}

func findElem(t *xmltree.Node, space, local string) *xmltree.Node {
	for _, n := range elems(t) {
		if n.Is(space, local) {
			return n
		}
	}
	return nil
}

func removeChildren(n *xmltree.Node, space, local string) {
	var keep []*xmltree.Node
	for _, c := range n.Children {
		if !c.Is(space, local) {
			keep = append(keep, c)
		}
	}
	n.Children = keep
}

func setLimit(v *string) func(t *xmltree.Node) bool {
	return func(t *xmltree.Node) bool {
		removeChildren(t, nsR, "limit")
		if v != nil {
			t.Add(el(nsR, "limit", el(nsR, "nresults", txt(*v))))
		}
		return true
	}
}

// featuresFor lists the unusual-but-valid variations of a REPORT document.
func featuresFor(fam string) []feature {
	var fs []feature
	add := func(name string, f func(t *xmltree.Node) bool) { fs = append(fs, feature{name, f}) }
	add("selection=allprop", func(t *xmltree.Node) bool { return replaceSelection(t, el(nsD, "allprop")) })
	add("selection=propname", func(t *xmltree.Node) bool { return replaceSelection(t, el(nsD, "propname")) })
	add("selection=none", func(t *xmltree.Node) bool { return replaceSelection(t, nil) })
	add("selection=prop-without-data", func(t *xmltree.Node) bool {
		return replaceSelection(t, el(nsD, "prop", el(nsD, "getetag"), el(nsD, "getcontenttype")))
	})
	add("selection=empty-prop", func(t *xmltree.Node) bool { return replaceSelection(t, el(nsD, "prop")) })
	switch fam {
	case "addressbook-query":
		s := func(v string) *string { return &v }
		add("limit=absent", setLimit(nil))
		for _, v := range []string{"0", "1", "00", "9223372036854775807", "9223372036854775808", "18446744073709551615"} {
			add("limit="+v, setLimit(s(v)))
		}
		add("limit=empty-element", func(t *xmltree.Node) bool { removeChildren(t, nsR, "limit"); t.Add(el(nsR, "limit")); return true })
		add("address-data=allprop", func(t *xmltree.Node) bool {
			return replaceSelection(t, el(nsD, "prop", el(nsR, "address-data", el(nsR, "allprop"))))
		})
		add("address-data=empty", func(t *xmltree.Node) bool { return replaceSelection(t, el(nsD, "prop", el(nsR, "address-data"))) })
		add("test=absent", func(t *xmltree.Node) bool {
			f := t.First(nsR, "filter")
			if f == nil {
				return false
			}
			f.Attrs = nil
			return true
		})
		add("test=allof", func(t *xmltree.Node) bool {
			f := t.First(nsR, "filter")
			if f == nil {
				return false
			}
			setAttr(f, "test", "allof")
			return true
		})
		add("filter=first-only", func(t *xmltree.Node) bool {
			f := t.First(nsR, "filter")
			if f == nil || len(f.Elems()) < 2 {
				return false
			}
			f.Children = f.Children[:1]
			return true
		})
	case "calendar-query":
		add("calendar-data=empty", func(t *xmltree.Node) bool { return replaceSelection(t, el(nsD, "prop", el(nsC, "calendar-data"))) })
		add("calendar-data=no-expand", func(t *xmltree.Node) bool {
			cd := findElem(t, nsC, "calendar-data")
			if cd == nil || cd.First(nsC, "expand") == nil {
				return false
			}
			removeChildren(cd, nsC, "expand")
			return true
		})
		add("calendar-data=limit-recurrence-set", func(t *xmltree.Node) bool {
			cd := findElem(t, nsC, "calendar-data")
			if cd == nil {
				return false
			}
			removeChildren(cd, nsC, "expand")
			cd.Add(el(nsC, "limit-recurrence-set").With("start", "20240101T000000Z", "end", "20240201T000000Z"))
			return true
		})
		add("timezone=present", func(t *xmltree.Node) bool {
			t.Add(el(nsC, "timezone", txt("BEGIN:VCALENDAR\r\nVERSION:2.0\r\nPRODID:-//x//EN\r\nBEGIN:VTIMEZONE\r\nTZID:X\r\nEND:VTIMEZONE\r\nEND:VCALENDAR\r\n")))
			return true
		})
	case "calendar-multiget", "addressbook-multiget":
		add("hrefs=none", func(t *xmltree.Node) bool { removeChildren(t, nsD, "href"); return true })
		add("hrefs=one-missing", func(t *xmltree.Node) bool {
			removeChildren(t, nsD, "href")
			t.Add(el(nsD, "href", txt("/u1/nowhere/x")))
			return true
		})
		add("hrefs=many", func(t *xmltree.Node) bool {
			hs := t.All(nsD, "href")
			if len(hs) == 0 {
				return false
			}
			for i := 0; i < 40; i++ {
				t.Add(hs[0].Clone())
			}
			return true
		})
		add("hrefs=odd", func(t *xmltree.Node) bool {
			t.Add(el(nsD, "href", txt("http://other.example/abs")), el(nsD, "href", txt("relative")), el(nsD, "href"))
			return true
		})
		if fam == "calendar-multiget" {
			add("calendar-data=no-expand", func(t *xmltree.Node) bool {
				cd := findElem(t, nsC, "calendar-data")
				if cd == nil || cd.First(nsC, "expand") == nil {
					return false
				}
				removeChildren(cd, nsC, "expand")
				return true
			})
		} else {
			add("address-data=allprop", func(t *xmltree.Node) bool {
				return replaceSelection(t, el(nsD, "prop", el(nsR, "address-data", el(nsR, "allprop"))))
			})
		}
	}
	return fs
}

// variants returns the seed with each applicable feature applied (each is
// still a valid document of the family).
func variants(sd seedDoc) []seedDoc {
	var l []seedDoc
	for _, f := range featuresFor(sd.Fam) {
		t := sd.Tree.Clone()
		if !f.Apply(t) {
			continue
		}
		l = append(l, seedDoc{Name: sd.Name + " & " + f.Name, Fam: sd.Fam, Tree: t})
	}
	return l
}

// syntaxSubset is a handful of the seed's syntax mutants.
func syntaxSubset(sd seedDoc) []Body {
	all := syntaxMutants(sd)
	if len(all) <= 8 {
		return all
	}
	var l []Body
	for i := 0; i < 8; i++ {
		l = append(l, all[i*len(all)/8])
	}
	doc := render(sd.Tree, false)
	_, re := rootSpan(doc)
	for _, off := range []int{re / 3, 2 * re / 3, re - 1} {
		l = append(l, Body{Data: doc[:off:off], Doc: sd.Fam, Mut: "truncated:in-root", Root: rootName(sd.Tree), Syntax: "xml-syntax:truncated"})
	}
	return l
}

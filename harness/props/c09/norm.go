package c09

import (
	"fmt"
	"sort"
	"strings"

	"github.com/emersion/go-webdav/carddav"
	"github.com/emersion/go-webdav/verifharness/rfc6352"
)

// Normal form of a request: RFC defaults applied, wire-only details
// (collation, novalue, explicit-vs-absent defaults) removed. Both the value
// a caller hands to the client / a backend receives (carddav types) and the
// value the independent reader decodes / the independent writer encodes
// (rfc6352 types) are brought to this form and compared field by field.

type nTM struct {
	Text   string `json:"text"`
	Negate bool   `json:"negate"`
	Type   string `json:"type"`
}

type nParam struct {
	Name string `json:"name"`
	IsND bool   `json:"is_not_defined"`
	TM   *nTM   `json:"text_match,omitempty"`
}

type nPF struct {
	Name   string   `json:"name"`
	Test   string   `json:"test"`
	IsND   bool     `json:"is_not_defined"`
	TMs    []nTM    `json:"text_matches,omitempty"`
	Params []nParam `json:"params,omitempty"`
}

// nSel: All = whole cards (allprop, or no prop named: RFC 6352 10.4, "if
// address-data doesn't contain any prop elements, address objects are
// returned in their entirety"). Props is sorted and de-duplicated: order and
// multiplicity of a selection carry no meaning.
type nSel struct {
	All   bool     `json:"all"`
	Props []string `json:"props,omitempty"`
}

type nQuery struct {
	Test  string `json:"test"`
	PFs   []nPF  `json:"prop_filters,omitempty"`
	Limit int64  `json:"limit"` // 0 = none
	// LimitBeyond: a limit on the wire that is a positive integer above
	// 2^63-1 (digits, no leading zeros); Limit is 0 then
	LimitBeyond string `json:"limit_beyond,omitempty"`
	Sel         *nSel  `json:"sel,omitempty"`
}

func defTest(s string) string {
	if s == "" {
		return "anyof"
	}
	return s
}

func defType(s string) string {
	if s == "" {
		return "contains"
	}
	return s
}

func mkSel(all bool, props []string) *nSel {
	if all || len(props) == 0 {
		return &nSel{All: true}
	}
	m := map[string]bool{}
	var l []string
	for _, p := range props {
		if !m[p] {
			m[p] = true
			l = append(l, p)
		}
	}
	sort.Strings(l)
	return &nSel{Props: l}
}

func libSel(d *carddav.AddressDataRequest) *nSel { return mkSel(d.AllProp, d.Props) }

func libTM(t *carddav.TextMatch) nTM {
	return nTM{Text: t.Text, Negate: t.NegateCondition, Type: defType(string(t.MatchType))}
}

func libQuery(q *carddav.AddressBookQuery) nQuery {
	n := nQuery{Test: defTest(string(q.FilterTest)), Sel: libSel(&q.DataRequest)}
	if q.Limit > 0 {
		n.Limit = int64(q.Limit)
	}
	for _, pf := range q.PropFilters {
		p := nPF{Name: pf.Name, Test: defTest(string(pf.Test)), IsND: pf.IsNotDefined}
		for i := range pf.TextMatches {
			p.TMs = append(p.TMs, libTM(&pf.TextMatches[i]))
		}
		for _, pa := range pf.Params {
			np := nParam{Name: pa.Name, IsND: pa.IsNotDefined}
			if pa.TextMatch != nil {
				t := libTM(pa.TextMatch)
				np.TM = &t
			}
			p.Params = append(p.Params, np)
		}
		n.PFs = append(n.PFs, p)
	}
	return n
}

func wireSel(s *rfc6352.Selection) *nSel {
	if s.Form != "prop" || s.Data == nil {
		return nil
	}
	var names []string
	for _, p := range s.Data.Props {
		names = append(names, p.Name)
	}
	return mkSel(s.Data.AllProp, names)
}

func wireTM(t *rfc6352.TextMatch) nTM {
	return nTM{Text: t.Text, Negate: t.Negated(), Type: t.Type()}
}

func wireQuery(q *rfc6352.Query) nQuery {
	n := nQuery{Test: rfc6352.DefaultTest(q.Test), Sel: wireSel(&q.Sel)}
	if q.HasLimit {
		if v, ok := rfc6352.PositiveInt(q.NResults); ok {
			n.Limit = v
		} else if rfc6352.IsPositiveInteger(q.NResults) {
			n.LimitBeyond = strings.TrimLeft(q.NResults, "0")
		}
	}
	for _, pf := range q.PropFilters {
		p := nPF{Name: pf.Name, Test: rfc6352.DefaultTest(pf.Test), IsND: pf.IsNotDefined}
		for i := range pf.TextMatches {
			p.TMs = append(p.TMs, wireTM(&pf.TextMatches[i]))
		}
		for _, pa := range pf.Params {
			np := nParam{Name: pa.Name, IsND: pa.IsNotDefined}
			if pa.TextMatch != nil {
				t := wireTM(pa.TextMatch)
				np.TM = &t
			}
			p.Params = append(p.Params, np)
		}
		n.PFs = append(n.PFs, p)
	}
	return n
}

// delta is one field-level difference: Field and Trans make the abstract
// finding key, Detail is literal.
type delta struct {
	Field  string `json:"field"`
	Trans  string `json:"transformation"`
	Detail string `json:"detail"`
}

type differ struct{ l []delta }

func (d *differ) add(field, trans, detail string) {
	for _, x := range d.l {
		if x.Field == field && x.Trans == trans {
			return
		}
	}
	d.l = append(d.l, delta{field, trans, detail})
}

// enumDiff compares an enumerated value whose default is def.
func (d *differ) enumDiff(field, want, got, def string) {
	if want == got {
		return
	}
	trans := "altered"
	switch {
	case got == def:
		trans = "reset-to-default"
	case want == def:
		trans = "default-replaced"
	}
	d.add(field, trans, fmt.Sprintf("want %q got %q", want, got))
}

func (d *differ) boolDiff(field string, want, got bool) {
	if want == got {
		return
	}
	if want {
		d.add(field, "dropped", "want true got false")
	} else {
		d.add(field, "invented", "want false got true")
	}
}

// strDiff compares free text (names, match texts).
func (d *differ) strDiff(field, want, got string) {
	if want == got {
		return
	}
	trans := "altered"
	switch {
	case got == "":
		trans = "dropped"
	case strings.TrimSpace(want) == strings.TrimSpace(got):
		trans = "blanks-changed"
	case strings.EqualFold(want, got):
		trans = "case-changed"
	}
	d.add(field, trans, fmt.Sprintf("want %q got %q", want, got))
}

func (d *differ) countDiff(field string, want, got int) bool {
	if want == got {
		return false
	}
	trans := "fewer"
	if got > want {
		trans = "more"
	}
	if got == 0 {
		trans = "all-dropped"
	}
	d.add(field, trans, fmt.Sprintf("want %d got %d", want, got))
	return true
}

func (d *differ) tmDiff(prefix string, want, got *nTM) {
	d.strDiff(prefix+"text-match.text", want.Text, got.Text)
	d.boolDiff(prefix+"text-match.negate-condition", want.Negate, got.Negate)
	d.enumDiff(prefix+"text-match.match-type", want.Type, got.Type, "contains")
}

func (d *differ) selDiff(want, got *nSel) {
	switch {
	case want == nil:
		return // not compared
	case got == nil:
		d.add("address-data", "missing", "no address-data selection")
	case want.All && !got.All:
		d.add("address-data", "all-became-selection", fmt.Sprintf("got props %q", got.Props))
	case !want.All && got.All:
		d.add("address-data.prop", "selection-became-all", fmt.Sprintf("want props %q", want.Props))
	case !want.All:
		if strings.Join(want.Props, "\x00") != strings.Join(got.Props, "\x00") {
			trans := "altered"
			if len(got.Props) < len(want.Props) {
				trans = "fewer"
			} else if len(got.Props) > len(want.Props) {
				trans = "more"
			}
			d.add("address-data.prop", trans, fmt.Sprintf("want %q got %q", want.Props, got.Props))
		}
	}
}

func limStr(q *nQuery) string {
	switch {
	case q.LimitBeyond != "":
		return q.LimitBeyond + " (beyond 2^63-1)"
	case q.Limit == 0:
		return "none"
	}
	return fmt.Sprint(q.Limit)
}

func diffQuery(want, got *nQuery) []delta {
	d := &differ{}
	d.enumDiff("filter.test", want.Test, got.Test, "anyof")
	switch {
	case want.LimitBeyond != got.LimitBeyond:
		trans := "altered"
		if want.Limit == 0 && want.LimitBeyond == "" {
			trans = "invented"
		}
		d.add("limit", trans, fmt.Sprintf("want %s got %s", limStr(want), limStr(got)))
	case want.Limit == got.Limit:
	case got.Limit == 0:
		d.add("limit", "dropped", fmt.Sprintf("want %d got none", want.Limit))
	case want.Limit == 0:
		d.add("limit", "invented", fmt.Sprintf("want none got %d", got.Limit))
	default:
		d.add("limit", "altered", fmt.Sprintf("want %d got %d", want.Limit, got.Limit))
	}
	d.selDiff(want.Sel, got.Sel)
	if !d.countDiff("prop-filter.count", len(want.PFs), len(got.PFs)) {
		for i := range want.PFs {
			w, g := &want.PFs[i], &got.PFs[i]
			d.strDiff("prop-filter.name", w.Name, g.Name)
			d.enumDiff("prop-filter.test", w.Test, g.Test, "anyof")
			d.boolDiff("prop-filter.is-not-defined", w.IsND, g.IsND)
			if !d.countDiff("prop-filter.text-match.count", len(w.TMs), len(g.TMs)) {
				for j := range w.TMs {
					d.tmDiff("prop-filter.", &w.TMs[j], &g.TMs[j])
				}
			}
			if !d.countDiff("param-filter.count", len(w.Params), len(g.Params)) {
				for j := range w.Params {
					wp, gp := &w.Params[j], &g.Params[j]
					d.strDiff("param-filter.name", wp.Name, gp.Name)
					d.boolDiff("param-filter.is-not-defined", wp.IsND, gp.IsND)
					switch {
					case wp.TM != nil && gp.TM == nil:
						d.add("param-filter.text-match", "dropped", fmt.Sprintf("want %+v", *wp.TM))
					case wp.TM == nil && gp.TM != nil:
						d.add("param-filter.text-match", "invented", fmt.Sprintf("got %+v", *gp.TM))
					case wp.TM != nil:
						d.tmDiff("param-filter.", wp.TM, gp.TM)
					}
				}
			}
		}
	}
	return d.l
}

// diffPaths compares the href list.
func diffPaths(field string, want, got []string) []delta {
	d := &differ{}
	if d.countDiff(field+".count", len(want), len(got)) {
		return d.l
	}
	same := true
	for i := range want {
		if want[i] != got[i] {
			same = false
		}
	}
	if same {
		return nil
	}
	ws := append([]string(nil), want...)
	gs := append([]string(nil), got...)
	sort.Strings(ws)
	sort.Strings(gs)
	if strings.Join(ws, "\x00") == strings.Join(gs, "\x00") {
		d.add(field, "reordered", fmt.Sprintf("want %q got %q", want, got))
		return d.l
	}
	for i := range want {
		if want[i] != got[i] {
			d.add(field, "altered", fmt.Sprintf("#%d want %q got %q", i, want[i], got[i]))
			break
		}
	}
	return d.l
}

// Package c09 checks property C09: CardDAV queries cross the wire without
// loss, in RFC 6352 form.
//
// client→wire: the real carddav.Client is run against a capturing HTTP
// client; the captured request must be a REPORT on the given collection whose
// body the independent rfc6352 reader accepts and decodes to the caller's
// request. wire→backend: the independent rfc6352 writer emits a conformant
// document in a random lexical form, the real carddav.Handler serves it and
// the recording backend must receive the request the document denotes.
// Invalid enumeration values on the wire must be refused (4xx, no query).
package c09

import (
	"bytes"
	"encoding/json"
	"fmt"
	"math/rand"
	"net/http"
	"sort"
	"strings"

	"github.com/emersion/go-webdav/carddav"
	"github.com/emersion/go-webdav/verifharness/doubles"
	"github.com/emersion/go-webdav/verifharness/fw"
	"github.com/emersion/go-webdav/verifharness/rfc6352"
	"github.com/emersion/go-webdav/verifharness/xmltree"
)

const (
	dirCW = "client→wire"
	dirWB = "wire→backend"
)

// ---------------------------------------------------------------- client→wire

type cwCase struct {
	Dir      string                       `json:"dir"`
	Op       string                       `json:"op"` // query | multiget
	Book     string                       `json:"book"`
	Query    *carddav.AddressBookQuery    `json:"query,omitempty"`
	MultiGet *carddav.AddressBookMultiGet `json:"multiget,omitempty"`
}

func validTest(s carddav.FilterTest) bool {
	return s == "" || s == carddav.FilterAnyOf || s == carddav.FilterAllOf
}

func validType(s carddav.MatchType) bool {
	switch s {
	case "", carddav.MatchEquals, carddav.MatchContains, carddav.MatchStartsWith, carddav.MatchEndsWith:
		return true
	}
	return false
}

func validStrings(l ...string) bool {
	for _, s := range l {
		if !rfc6352.ValidChars(s) {
			return false
		}
	}
	return true
}

// inDomain reports whether the caller's value lies inside the documented
// domain of the public types; outside it the client's behaviour is
// don't-care.
func inDomain(cs *cwCase) (bool, string) {
	if !strings.HasPrefix(cs.Book, "/") || strings.HasPrefix(cs.Book, "//") {
		return false, "collection path not absolute"
	}
	if cs.Op == "multiget" {
		for _, p := range cs.MultiGet.Paths {
			// a name without a leading slash is relative (the client API
			// resolves every path argument against its endpoint) and judged;
			// "" and "//..." name no path
			if p == "" || strings.HasPrefix(p, "//") {
				return false, "object path empty or starting with //"
			}
		}
		return validStrings(cs.MultiGet.DataRequest.Props...), "invalid characters"
	}
	q := cs.Query
	if !validTest(q.FilterTest) {
		return false, "invalid FilterTest"
	}
	if !validStrings(q.DataRequest.Props...) {
		return false, "invalid characters"
	}
	for _, pf := range q.PropFilters {
		if !validTest(pf.Test) {
			return false, "invalid PropFilter.Test"
		}
		if pf.IsNotDefined && (len(pf.TextMatches) > 0 || len(pf.Params) > 0) {
			return false, "IsNotDefined with TextMatches/Params"
		}
		if !validStrings(pf.Name) {
			return false, "invalid characters"
		}
		for _, tm := range pf.TextMatches {
			if !validType(tm.MatchType) {
				return false, "invalid MatchType"
			}
			if !validStrings(tm.Text) {
				return false, "invalid characters"
			}
		}
		for _, pa := range pf.Params {
			if pa.IsNotDefined && pa.TextMatch != nil {
				return false, "ParamFilter.IsNotDefined with TextMatch"
			}
			if !validStrings(pa.Name) {
				return false, "invalid characters"
			}
			if pa.TextMatch != nil {
				if !validType(pa.TextMatch.MatchType) {
					return false, "invalid MatchType"
				}
				if !validStrings(pa.TextMatch.Text) {
					return false, "invalid characters"
				}
			}
		}
	}
	return true, ""
}

func cap3(n int) int {
	if n > 3 {
		return 3
	}
	return n
}

func bucket(n int) string {
	switch {
	case n == 0:
		return "0"
	case n == 1:
		return "1"
	case n <= 5:
		return "2-5"
	}
	return "6-20"
}

func hostileText(s string) string {
	f := ""
	if s != strings.TrimSpace(s) || (s != "" && strings.TrimSpace(s) == "") {
		f += "b"
	}
	if strings.ContainsAny(s, `<>&"'`) {
		f += "m"
	}
	for _, r := range s {
		if r > 127 {
			f += "u"
			break
		}
	}
	return f
}

// classOf is the abstract class of a normalised query (for distinct counts).
func classOf(n *nQuery) string {
	flags := map[string]bool{}
	maxTM, maxPa := 0, 0
	for _, pf := range n.PFs {
		if pf.IsND {
			flags["N"] = true
		}
		if pf.Test != "anyof" {
			flags["t"] = true
		}
		if len(pf.TMs) > maxTM {
			maxTM = len(pf.TMs)
		}
		if len(pf.Params) > maxPa {
			maxPa = len(pf.Params)
		}
		for _, c := range hostileText(pf.Name) {
			flags["n"+string(c)] = true
		}
		tms := append([]nTM(nil), pf.TMs...)
		for _, pa := range pf.Params {
			if pa.IsND {
				flags["P"] = true
			}
			if pa.TM != nil {
				flags["p"] = true
				tms = append(tms, *pa.TM)
			}
		}
		for _, tm := range tms {
			if tm.Negate {
				flags["G"] = true
			}
			if tm.Type != "contains" {
				flags["M"] = true
			}
			for _, c := range hostileText(tm.Text) {
				flags["x"+string(c)] = true
			}
		}
	}
	var fl []string
	for k := range flags {
		fl = append(fl, k)
	}
	sort.Strings(fl)
	lim := "none"
	switch {
	case n.Limit == 1:
		lim = "1"
	case n.Limit == 2:
		lim = "2"
	case n.Limit > 2:
		lim = "many"
	}
	sel := "uncompared"
	if n.Sel != nil {
		sel = "all"
		if !n.Sel.All {
			sel = "props"
		}
	}
	return fmt.Sprintf("test=%s|pf=%d|tm=%d|pa=%d|%s|lim=%s|sel=%s", n.Test, len(n.PFs), cap3(maxTM), maxPa, strings.Join(fl, ""), lim, sel)
}

func pathsClass(paths []string) string {
	h := map[string]bool{}
	for _, p := range paths {
		if strings.ContainsAny(p, " \t") {
			h["space"] = true
		}
		if strings.Contains(p, "%") {
			h["pct"] = true
		}
		if strings.ContainsAny(p, "#?") {
			h["delim"] = true
		}
		if !strings.HasPrefix(p, "/") {
			h["relative"] = true
			if seg, _, _ := strings.Cut(p, "/"); strings.Contains(seg, ":") {
				h["relative-colon"] = true
			}
		}
		if strings.ContainsAny(p, `<>&"'`) {
			h["meta"] = true
		}
		for _, r := range p {
			if r > 127 {
				h["utf8"] = true
				break
			}
		}
	}
	var l []string
	for k := range h {
		l = append(l, k)
	}
	sort.Strings(l)
	return "n=" + bucket(len(paths)) + "|" + strings.Join(l, ",")
}

func selClass(s *nSel) string {
	switch {
	case s == nil:
		return "sel=uncompared"
	case s.All:
		return "sel=all"
	}
	return "sel=props"
}

func limitClass(l int) string {
	switch {
	case l < 0:
		return "Limit<0"
	case l == 0:
		return "Limit=0"
	case l == 1:
		return "Limit=1"
	case l == 2:
		return "Limit=2"
	case l == 1<<31-1:
		return "Limit=2^31-1"
	case l == 1<<63-1:
		return "Limit=2^63-1"
	case l >= 1<<32:
		return "Limit>=2^32"
	}
	return "Limit>2"
}

func limitWire(q *rfc6352.Query) string {
	if !q.HasLimit {
		return "no limit element"
	}
	if _, ok := rfc6352.PositiveInt(q.NResults); ok {
		return "nresults positive"
	}
	return fmt.Sprintf("nresults %q", q.NResults)
}

// --------------------------------------------------------------- wire→backend

type wbCase struct {
	Dir         string           `json:"dir"`
	Op          string           `json:"op"`     // query | multiget
	Expect      string           `json:"expect"` // deliver | refuse | zero-limit | huge-limit
	Inject      string           `json:"inject,omitempty"`
	Path        string           `json:"path"`   // decoded request path
	Target      string           `json:"target"` // request target as sent
	ContentType string           `json:"content_type"`
	Depth       string           `json:"depth,omitempty"`
	Body        string           `json:"body"`
	Frame       string           `json:"frame,omitempty"` // what surrounds the root element (class, for the tables)
	Want        *rfc6352.Request `json:"want,omitempty"`
}

type wbWitness struct {
	Case    *wbCase     `json:"case"`
	Status  int         `json:"status"`
	Resp    string      `json:"response,omitempty"`
	Calls   interface{} `json:"backend_calls,omitempty"`
	Deltas  []delta     `json:"deltas,omitempty"`
	Comment string      `json:"comment,omitempty"`
}

func statusClass(st int) string { return fmt.Sprintf("%dxx", st/100) }

type callView struct {
	Op   string      `json:"op"`
	Path string      `json:"path"`
	Arg  interface{} `json:"arg,omitempty"`
}

func execWB(c *fw.Ctx, cs *wbCase) {
	cs.Dir = dirWB
	c.Journal(cs)
	defer c.JournalDone()
	be := &doubles.CardBackend{Principal: "/u/", HomeSet: "/u/contacts/"}
	h := &carddav.Handler{Backend: be}
	ip := &doubles.InProc{Handler: h}
	var resp *http.Response
	var doErr error
	var body []byte
	panicked, pv, stack := fw.Guard(func() {
		req, err := http.NewRequest("REPORT", "http://h"+cs.Target, bytes.NewReader([]byte(cs.Body)))
		if err != nil {
			doErr = err
			return
		}
		req.Header.Set("Content-Type", cs.ContentType)
		if cs.Depth != "" {
			req.Header.Set("Depth", cs.Depth)
		}
		resp, doErr = ip.Do(req)
		if doErr == nil {
			var buf bytes.Buffer
			buf.ReadFrom(resp.Body)
			resp.Body.Close()
			body = buf.Bytes()
		}
	})
	c.Eval(1)
	if panicked {
		c.Report("panic|"+fw.PanicSite(stack), fmt.Sprintf("carddav handler panicked: %v", pv), cs)
		return
	}
	if doErr != nil {
		c.Inconclusive(fmt.Sprintf("C09 harness: cannot send request %q: %v", cs.Target, doErr))
		return
	}
	calls := be.Calls()
	var views []callView
	var queries, gets []doubles.Call
	for _, k := range calls {
		views = append(views, callView{k.Op, k.Path, k.Arg})
		switch k.Op {
		case "QueryAddressObjects":
			queries = append(queries, k)
		case "GetAddressObject":
			gets = append(gets, k)
		}
	}
	w := &wbWitness{Case: cs, Status: resp.StatusCode, Calls: views}
	if resp.StatusCode >= 400 {
		w.Resp = string(body)
	}
	report := func(field, trans, what string) {
		c.Report(dirWB+" | "+field+" | "+trans, what, w)
	}
	c.Observe("wire→backend status", fmt.Sprintf("%s %s → %d", cs.Op, cs.Expect, resp.StatusCode), 1)
	if cs.Frame != "" {
		c.Observe("wire→backend document framing", fmt.Sprintf("%s, %s → %s", cs.Frame, cs.Expect, statusClass(resp.StatusCode)), 1)
	}

	switch cs.Expect {
	case "refuse":
		valClass := "non-empty"
		if strings.HasSuffix(cs.Inject, `=""`) {
			valClass = "empty"
		}
		// the key names the attribute, not the position it was injected at
		field := cs.Inject[:strings.Index(cs.Inject, "=")]
		field = strings.Replace(field, "[1]", "", 1)
		if i := strings.Index(field, "text-match."); i > 0 {
			field = field[i:]
		}
		field += "=<invalid:" + valClass + ">"
		c.Distinct(dirWB + "|refuse|" + cs.Inject)
		switch {
		case len(queries) > 0:
			c.Observe("wire→backend invalid enumeration", cs.Inject+" → backend queried", 1)
			report(field, "accepted", fmt.Sprintf("invalid value %s reached the backend as a query (status %d)", cs.Inject, resp.StatusCode))
		case resp.StatusCode/100 != 4:
			c.Observe("wire→backend invalid enumeration", cs.Inject+" → "+statusClass(resp.StatusCode)+", no query", 1)
			report(field, "answered-"+statusClass(resp.StatusCode), fmt.Sprintf("invalid value %s answered %d instead of a 4xx refusal", cs.Inject, resp.StatusCode))
		default:
			c.Observe("wire→backend invalid enumeration", cs.Inject+" → 4xx, no query", 1)
		}
		return
	case "zero-limit":
		// nresults denoting zero (or no nresults at all) is outside the
		// grammar but not one of the statement's enumerations: refusing,
		// answering an empty result without a query, or asking the backend
		// without a limit are all accepted; only a positive limit is not.
		c.Distinct(dirWB + "|zero-limit|" + cs.Inject)
		beh := fmt.Sprintf("%d, no query", resp.StatusCode)
		for _, k := range queries {
			q := k.Arg.(*carddav.AddressBookQuery)
			beh = fmt.Sprintf("%d, backend queried with Limit=%d", resp.StatusCode, q.Limit)
			if q.Limit > 0 {
				report("limit.nresults=<zero>", "positive-limit-invented", fmt.Sprintf("%s reached the backend as Limit=%d", cs.Inject, q.Limit))
			}
		}
		c.Observe("wire→backend zero limit (don't-care)", cs.Inject+" → "+beh, 1)
		return
	case "huge-limit":
		// a conformant nresults beyond what AddressBookQuery.Limit can hold:
		// the denoted request cannot be delivered as it is. Refusing, a
		// query with some positive limit and a query without limit (which
		// no real collection answers differently) are accepted; an answer
		// without asking the backend, or a negative limit, is not.
		c.Distinct(dirWB + "|huge-limit|" + cs.Inject)
		beh := fmt.Sprintf("%s, no query", statusClass(resp.StatusCode))
		if len(queries) == 0 && resp.StatusCode/100 != 4 {
			report("limit.nresults=<beyond-int64>", "answered-"+statusClass(resp.StatusCode)+"-without-query", fmt.Sprintf("%s: conformant query answered %d without a backend query", cs.Inject, resp.StatusCode))
		}
		for _, k := range queries {
			q := k.Arg.(*carddav.AddressBookQuery)
			switch {
			case q.Limit < 0:
				beh = "backend queried with a negative Limit"
				report("limit.nresults=<beyond-int64>", "negative-limit", fmt.Sprintf("%s reached the backend as Limit=%d", cs.Inject, q.Limit))
			case q.Limit == 0:
				beh = "backend queried without limit"
			default:
				beh = "backend queried with a positive Limit"
			}
		}
		c.Observe("wire→backend limit beyond int64 (refusal or a query accepted)", cs.Inject+" → "+beh, 1)
		return
	}

	// deliver
	if sel := cs.Want.Sel(); sel != nil && sel.Data != nil && (sel.Data.ContentType != nil || sel.Data.Version != nil) {
		mt := "address-data"
		if sel.Data.ContentType != nil {
			mt += " content-type=" + *sel.Data.ContentType
		}
		if sel.Data.Version != nil {
			mt += " version=" + *sel.Data.Version
		}
		c.Observe("wire→backend address-data media type (not compared)", fmt.Sprintf("%s → %s", mt, statusClass(resp.StatusCode)), 1)
	}
	switch cs.Op {
	case "query":
		want := wireQuery(cs.Want.Query)
		c.Distinct(dirWB + "|query|" + classOf(&want))
		if len(queries) == 0 {
			report("addressbook-query", "not-delivered-"+statusClass(resp.StatusCode), fmt.Sprintf("conformant query answered %d without a backend query", resp.StatusCode))
			return
		}
		if len(queries) > 1 {
			report("addressbook-query", "delivered-repeatedly", fmt.Sprintf("%d backend queries for one request", len(queries)))
		}
		if resp.StatusCode/100 != 2 {
			c.Observe("wire→backend anomalies", fmt.Sprintf("query delivered but answered %d", resp.StatusCode), 1)
		}
		k := queries[0]
		if k.Path != cs.Path {
			report("request-path", "altered", fmt.Sprintf("backend got path %q, want %q", k.Path, cs.Path))
		}
		got := libQuery(k.Arg.(*carddav.AddressBookQuery))
		ds := diffQuery(&want, &got)
		w.Deltas = ds
		for _, d := range ds {
			report(d.Field, d.Trans, "the backend did not receive the query the document denotes: "+d.Field+" "+d.Detail)
		}
		if c.WantSample() && len(cs.Want.Query.PropFilters) >= 2 && len(ds) == 0 && len(cs.Body) < 1500 {
			c.Sample(w)
		}
	case "multiget":
		wantPaths, err := cs.Want.MultiGet.Paths()
		if err != nil {
			c.Inconclusive("C09 harness: own hrefs undecodable: " + err.Error())
			return
		}
		wantSel := wireSel(&cs.Want.MultiGet.Sel)
		c.Distinct(dirWB + "|multiget|" + pathsClass(wantPaths) + "|" + selClass(wantSel))
		if len(gets) == 0 {
			report("addressbook-multiget", "not-delivered-"+statusClass(resp.StatusCode), fmt.Sprintf("conformant multiget answered %d without any GetAddressObject", resp.StatusCode))
			return
		}
		var gotPaths []string
		d := &differ{}
		for _, k := range gets {
			gotPaths = append(gotPaths, k.Path)
			if dr, ok := k.Arg.(*carddav.AddressDataRequest); ok && dr != nil {
				d.selDiff(wantSel, libSel(dr))
			} else if wantSel != nil {
				d.add("address-data", "missing", "nil AddressDataRequest")
			}
		}
		d.l = append(d.l, diffPaths("href", wantPaths, gotPaths)...)
		w.Deltas = d.l
		for _, x := range d.l {
			report(x.Field, x.Trans, "the backend did not receive the multiget the document denotes: "+x.Field+" "+x.Detail)
		}
	}
}

// selfCheck confirms, before a document is sent, that the harness's own
// reader accepts what its writer produced and reads the same request back
// (for documents meant to be refused: that the reader objects). A failure is
// a harness defect and makes the run inconclusive, never a finding.
func selfCheck(c *fw.Ctx, cs *wbCase) bool {
	// the byte order mark is the encoding signature in front of the document
	// (XML 1.0 appendix F), not a part of it
	req, viol, err := rfc6352.Read([]byte(unsigned(cs.Body)))
	if err != nil {
		c.Inconclusive("C09 harness self-check: own document unreadable: " + err.Error() + "\n" + cs.Body)
		return false
	}
	if cs.Expect == "huge-limit" {
		if len(viol) > 0 {
			c.Inconclusive("C09 harness self-check: reader objects to a document meant to be conformant: " + viol[0].String() + "\n" + cs.Body)
			return false
		}
		return true
	}
	if cs.Expect != "deliver" {
		if len(viol) == 0 {
			c.Inconclusive("C09 harness self-check: reader accepts a document meant to be invalid: " + cs.Inject + "\n" + cs.Body)
			return false
		}
		return true
	}
	if len(viol) > 0 {
		c.Inconclusive("C09 harness self-check: reader objects to the writer's document: " + viol[0].String() + "\n" + cs.Body)
		return false
	}
	a, _ := json.Marshal(req)
	b, _ := json.Marshal(cs.Want)
	if !bytes.Equal(a, b) {
		c.Inconclusive("C09 harness self-check: reader and writer disagree:\nwrote " + string(b) + "\nread  " + string(a) + "\n" + cs.Body)
		return false
	}
	return true
}

var contentTypes = []string{"application/xml", "text/xml", `application/xml; charset="utf-8"`, "text/xml; charset=utf-8"}

// renderRoot gives a tree a lexical form, framed by at most xmltree's own
// XML declaration and newlines.
func renderRoot(r *rand.Rand, tree *xmltree.Node) string {
	if r.Intn(12) == 0 {
		return string(xmltree.Render(tree, nil))
	}
	return string(xmltree.Render(tree, xmltree.FullLex(r)))
}

// render gives a tree a lexical form. One document in four is framed anew
// (frame.go): byte order mark, XML declaration, comments, processing
// instructions and blanks around the root element.
func render(r *rand.Rand, tree *xmltree.Node) (body, frameClass string) {
	body = renderRoot(r, tree)
	if r.Intn(4) == 0 {
		f := genFrame(r)
		return reframe(body, f), f.class()
	}
	return body, ""
}

func newWBQuery(r *rand.Rand, q *rfc6352.Query, book string) *wbCase {
	tree := rfc6352.QueryTree(q, &rfc6352.WriteOpts{R: r, SplitText: true})
	cs := &wbCase{Op: "query", Expect: "deliver", Path: book, Target: rfc6352.EscapeHref(book, r, ""),
		ContentType: pick(r, contentTypes), Depth: "1", Want: &rfc6352.Request{Query: q}}
	cs.Body, cs.Frame = render(r, tree)
	return cs
}

func newWBMultiGet(r *rand.Rand, book string, paths []string, sel rfc6352.Selection) *wbCase {
	m := &rfc6352.MultiGet{Sel: sel}
	for _, p := range paths {
		auth := ""
		if r.Intn(8) == 0 {
			auth = "h"
		}
		m.Hrefs = append(m.Hrefs, rfc6352.EscapeHref(p, r, auth))
	}
	tree := rfc6352.MultiGetTree(m, &rfc6352.WriteOpts{R: r, SplitText: true})
	cs := &wbCase{Op: "multiget", Expect: "deliver", Path: book, Target: rfc6352.EscapeHref(book, r, ""),
		ContentType: pick(r, contentTypes), Depth: pick(r, []string{"", "0", "1"}), Want: &rfc6352.Request{MultiGet: m}}
	cs.Body, cs.Frame = render(r, tree)
	return cs
}

// find returns the idx-th element {NS}local below n in document order.
func find(n *xmltree.Node, local string, idx *int) *xmltree.Node {
	if n.Is(rfc6352.NS, local) {
		if *idx == 0 {
			return n
		}
		*idx--
	}
	for _, ch := range n.Children {
		if ch.Kind == xmltree.Element {
			if f := find(ch, local, idx); f != nil {
				return f
			}
		}
	}
	return nil
}

func setAttr(n *xmltree.Node, name, value string) {
	for i := range n.Attrs {
		if n.Attrs[i].Space == "" && n.Attrs[i].Local == name {
			n.Attrs[i].Value = value
			return
		}
	}
	n.Attrs = append(n.Attrs, xmltree.Attr{Local: name, Value: value})
}

// baseQuery is the valid document into which one invalid value is injected:
// filter > prop-filter[0]{text-match, param-filter{text-match}}, prop-filter[1]{text-match}, limit.
func baseQuery() *rfc6352.Query {
	return &rfc6352.Query{
		Sel:  rfc6352.Selection{Form: "prop", Data: &rfc6352.AddressData{Props: []rfc6352.DataProp{{Name: "FN"}}}, Others: []rfc6352.QName{{Space: rfc6352.DAV, Local: "getetag"}}},
		Test: "allof",
		PropFilters: []rfc6352.PropFilter{
			{Name: "EMAIL", Test: "anyof",
				TextMatches: []rfc6352.TextMatch{{Text: "example", MatchType: "contains", Negate: "no"}},
				Params:      []rfc6352.ParamFilter{{Name: "TYPE", TextMatch: &rfc6352.TextMatch{Text: "home", MatchType: "equals", Negate: "yes"}}}},
			{Name: "FN", TextMatches: []rfc6352.TextMatch{{Text: "a"}}},
		},
		HasLimit: true, NResults: "5",
	}
}

type injection struct {
	Label   string // e.g. filter.test
	Element string // element local name
	Index   int    // which occurrence in document order
	Attr    string // "" = replace the text content
}

var (
	injTests = []injection{{"filter.test", "filter", 0, "test"}, {"prop-filter.test", "prop-filter", 0, "test"}, {"prop-filter[1].test", "prop-filter", 1, "test"}}
	injTypes = []injection{{"prop-filter.text-match.match-type", "text-match", 0, "match-type"}, {"param-filter.text-match.match-type", "text-match", 1, "match-type"}, {"prop-filter[1].text-match.match-type", "text-match", 2, "match-type"}}
	injNegs  = []injection{{"prop-filter.text-match.negate-condition", "text-match", 0, "negate-condition"}, {"param-filter.text-match.negate-condition", "text-match", 1, "negate-condition"}, {"prop-filter[1].text-match.negate-condition", "text-match", 2, "negate-condition"}}
	injLimit = injection{"limit.nresults", "nresults", 0, ""}
)

func newWBInjected(r *rand.Rand, inj injection, value, expect string) *wbCase {
	tree := rfc6352.QueryTree(baseQuery(), &rfc6352.WriteOpts{R: r})
	idx := inj.Index
	n := find(tree, inj.Element, &idx)
	if inj.Attr != "" {
		setAttr(n, inj.Attr, value)
	} else {
		n.Children = nil
		if value != "" {
			n.Children = []*xmltree.Node{xmltree.Txt(value)}
		}
	}
	book := "/u/ab/"
	cs := &wbCase{Op: "query", Expect: expect, Inject: fmt.Sprintf("%s=%q", inj.Label, value), Path: book, Target: book,
		ContentType: pick(r, contentTypes), Depth: "1"}
	cs.Body, cs.Frame = render(r, tree)
	return cs
}

// ------------------------------------------------------------------ workload

func run(c *fw.Ctx) {
	idx := 0
	next := func() (int, bool) { i := idx; idx++; return i, c.Mine(i) }

	// (1) client→wire, exhaustive enumeration grid.
	for _, ft := range testValues {
		for _, pt := range testValues {
			for _, mt := range typeValues {
				for _, neg := range []bool{false, true} {
					for _, atParam := range []bool{false, true} {
						for _, lim := range limitValues {
							if _, mine := next(); !mine {
								continue
							}
							tm := carddav.TextMatch{Text: "x", NegateCondition: neg, MatchType: carddav.MatchType(mt)}
							pf := carddav.PropFilter{Name: "EMAIL", Test: carddav.FilterTest(pt)}
							if atParam {
								pf.Params = []carddav.ParamFilter{{Name: "TYPE", TextMatch: &tm}}
							} else {
								pf.TextMatches = []carddav.TextMatch{tm}
							}
							execCW(c, &cwCase{Op: "query", Book: "/u/ab/", Query: &carddav.AddressBookQuery{
								FilterTest: carddav.FilterTest(ft), PropFilters: []carddav.PropFilter{pf}, Limit: lim}})
							c.Observe("universe", "client→wire enumeration grid (exhaustive)", 1)
						}
					}
				}
			}
		}
	}
	// is-not-defined at both levels, with every test value.
	for _, ft := range testValues {
		for _, pt := range testValues {
			for k := 0; k < 3; k++ {
				if _, mine := next(); !mine {
					continue
				}
				pf := carddav.PropFilter{Name: "NICKNAME", Test: carddav.FilterTest(pt)}
				switch k {
				case 0:
					pf.IsNotDefined = true
				case 1:
					pf.Params = []carddav.ParamFilter{{Name: "TYPE", IsNotDefined: true}}
				case 2:
					pf.Params = []carddav.ParamFilter{{Name: "TYPE"}}
				}
				execCW(c, &cwCase{Op: "query", Book: "/u/ab/", Query: &carddav.AddressBookQuery{FilterTest: carddav.FilterTest(ft), PropFilters: []carddav.PropFilter{pf}}})
				c.Observe("universe", "client→wire enumeration grid (exhaustive)", 1)
			}
		}
	}
	// Values outside the public domain: behaviour recorded, no verdict.
	for _, bad := range []string{"bogus", "ANYOF", "x"} {
		for k := 0; k < 5; k++ {
			if _, mine := next(); !mine {
				continue
			}
			tm := carddav.TextMatch{Text: "x"}
			pf := carddav.PropFilter{Name: "EMAIL", TextMatches: []carddav.TextMatch{tm}}
			q := &carddav.AddressBookQuery{}
			switch k {
			case 0:
				q.FilterTest = carddav.FilterTest(bad)
			case 1:
				pf.Test = carddav.FilterTest(bad)
			case 2:
				pf.TextMatches[0].MatchType = carddav.MatchType(bad)
			case 3:
				pf.IsNotDefined = true
			case 4:
				pf.TextMatches = nil
				pf.Params = []carddav.ParamFilter{{Name: "TYPE", IsNotDefined: true, TextMatch: &tm}}
			}
			q.PropFilters = []carddav.PropFilter{pf}
			execCW(c, &cwCase{Op: "query", Book: "/u/ab/", Query: q})
		}
	}

	// (2) wire→backend, exhaustive valid enumeration grid in several lexical forms.
	nLex := c.Pick(3, 12)
	for _, ft := range testValues {
		for _, pt := range testValues {
			for _, mt := range typeValues {
				for _, neg := range negateValues {
					for _, atParam := range []bool{false, true} {
						for l := 0; l < nLex; l++ {
							i, mine := next()
							if !mine {
								continue
							}
							r := c.Rand("wb-grid", i)
							tm := rfc6352.TextMatch{Text: "x", Negate: neg, MatchType: mt}
							pf := rfc6352.PropFilter{Name: "EMAIL", Test: pt}
							if atParam {
								pf.Params = []rfc6352.ParamFilter{{Name: "TYPE", TextMatch: &tm}}
							} else {
								pf.TextMatches = []rfc6352.TextMatch{tm}
							}
							q := &rfc6352.Query{Sel: rfc6352.Selection{Form: "prop", Data: &rfc6352.AddressData{AllProp: true}}, Test: ft, PropFilters: []rfc6352.PropFilter{pf}}
							cs := newWBQuery(r, q, "/u/ab/")
							if selfCheck(c, cs) {
								execWB(c, cs)
							}
							c.Observe("universe", "wire→backend valid enumeration grid (exhaustive)", 1)
						}
					}
				}
			}
		}
	}
	// (3) wire→backend, every invalid enumeration value at every position.
	nLex = c.Pick(4, 24)
	type invSet struct {
		injs   []injection
		values []string
		expect string
	}
	for _, s := range []invSet{
		{injTests, invalidTests, "refuse"}, {injTypes, invalidTypes, "refuse"}, {injNegs, invalidNegates, "refuse"},
		{[]injection{injLimit}, invalidLimits, "refuse"}, {[]injection{injLimit}, zeroLimits, "zero-limit"}, {[]injection{injLimit}, hugeLimits, "huge-limit"},
	} {
		for _, inj := range s.injs {
			for _, v := range s.values {
				for l := 0; l < nLex; l++ {
					i, mine := next()
					if !mine {
						continue
					}
					cs := newWBInjected(c.Rand("wb-inv", i), inj, v, s.expect)
					if selfCheck(c, cs) {
						execWB(c, cs)
					}
					c.Observe("universe", "wire→backend invalid values ("+s.expect+")", 1)
				}
			}
		}
	}
	// a limit element without nresults
	for l := 0; l < nLex; l++ {
		i, mine := next()
		if !mine {
			continue
		}
		r := c.Rand("wb-inv", i)
		tree := rfc6352.QueryTree(baseQuery(), nil)
		k := 0
		find(tree, "limit", &k).Children = nil
		cs := &wbCase{Op: "query", Expect: "zero-limit", Inject: `limit=<no nresults>`, Path: "/u/ab/", Target: "/u/ab/", ContentType: "application/xml", Depth: "1"}
		cs.Body, cs.Frame = render(r, tree)
		if selfCheck(c, cs) {
			execWB(c, cs)
		}
	}
	// valid limits at the boundary
	for _, v := range []string{"1", "2", "3", "2147483647", "2147483648", "4294967295", "4294967296", "4611686018427387904", "9223372036854775807"} {
		for l := 0; l < nLex; l++ {
			i, mine := next()
			if !mine {
				continue
			}
			r := c.Rand("wb-lim", i)
			q := baseQuery()
			q.NResults = v
			cs := newWBQuery(r, q, "/u/ab/")
			if selfCheck(c, cs) {
				execWB(c, cs)
			}
			c.Observe("universe", "wire→backend boundary limits", 1)
		}
	}

	// (4) random requests, both directions.
	n := c.Pick(12000, 300000)
	for j := 0; j < n; j++ {
		i, mine := next()
		if !mine {
			continue
		}
		r := c.Rand("cw", i)
		cs := genCWCase(r, genBook(r), r.Intn(4) == 0)
		execCW(c, cs)
		c.Observe("universe", "client→wire random "+cs.Op, 1)
	}
	// (5) one request value reused for successive calls on different collections.
	for j, m := 0, c.Pick(2000, 40000); j < m; j++ {
		i, mine := next()
		if !mine {
			continue
		}
		execReuse(c, genReuse(c.Rand("reuse", i)))
		c.Observe("universe", "client→wire reuse groups (2-3 calls each)", 1)
	}
	// (6) K calls in flight through one client, bodies read after all arrived.
	for j, m := 0, c.Pick(1500, 30000); j < m; j++ {
		i, mine := next()
		if !mine {
			continue
		}
		procs := 1
		if j%2 == 1 {
			procs = 4
		}
		execOverlap(c, genOverlap(c.Rand("overlap", i), procs))
		c.Observe("universe", "client→wire overlap groups (2-8 calls each)", 1)
	}
	for j := 0; j < n; j++ {
		i, mine := next()
		if !mine {
			continue
		}
		r := c.Rand("wb", i)
		book := genBook(r)
		var cs *wbCase
		if k := r.Intn(20); k == 0 {
			cs = newWBRelated(r, book, relations[r.Intn(len(relations))], positions[r.Intn(len(positions))], genSelection(r, true))
			c.Observe("universe", "wire→backend random multiget with an href related to the request target", 1)
		} else if k < 5 {
			cs = newWBMultiGet(r, book, genPaths(r, book, 1), genSelection(r, true))
			c.Observe("universe", "wire→backend random multiget", 1)
		} else {
			q, _ := genQuery(r, true)
			cs = newWBQuery(r, q, book)
			c.Observe("universe", "wire→backend random query", 1)
		}
		if selfCheck(c, cs) {
			execWB(c, cs)
		}
	}
	// (7) multiget hrefs related to the request target: every relation at every position.
	nLex = c.Pick(2, 8)
	for _, target := range relTargets {
		for _, rel := range relations {
			for _, pos := range positions {
				for l := 0; l < nLex; l++ {
					i, mine := next()
					if !mine {
						continue
					}
					r := c.Rand("wb-related", i)
					cs := newWBRelated(r, target, rel, pos, genSelection(r, true))
					if selfCheck(c, cs) {
						execWB(c, cs)
					}
					c.Observe("universe", "wire→backend multiget hrefs related to the request target (grid)", 1)
					c.Observe("wire→backend related hrefs", rel+", "+pos, 1)
				}
			}
		}
	}
	// (8) the library's client in front of the library's server.
	for j, m := 0, c.Pick(1500, 30000); j < m; j++ {
		i, mine := next()
		if !mine {
			continue
		}
		execE2E(c, genE2E(c.Rand("e2e", i)))
		c.Observe("universe", "client→server→backend multiget", 1)
	}
	// (9) call sequences with nearly colliding address-data requests: every
	// ordered pair of variants for every separator, then random sequences.
	k := 0
	for _, sep := range seqSeparators {
		vs := nearCollisions([]string{"FN", "EMAIL", "TEL"}, sep)
		for a := range vs {
			for b := range vs {
				if a == b {
					continue
				}
				k++
				if _, mine := next(); !mine {
					continue
				}
				execSeq(c, seqPair(vs[a], vs[b], seqOps[k%3], seqOps[(k/3)%2], k%2 == 0, k))
				c.Observe("universe", "client→wire call pairs with nearly colliding address-data (grid)", 1)
			}
		}
	}
	for j, m := 0, c.Pick(1500, 30000); j < m; j++ {
		i, mine := next()
		if !mine {
			continue
		}
		execSeq(c, genSeq(c.Rand("seq", i)))
		c.Observe("universe", "client→wire random call sequences (2-6 calls)", 1)
	}
	// (10) document framing: every XML declaration, byte order mark and run of
	// comments / processing instructions / blanks around the root element of
	// a query and of a multiget.
	nLex = c.Pick(1, 6)
	for _, f := range frameGrid() {
		for _, op := range []string{"query", "multiget"} {
			for l := 0; l < nLex; l++ {
				i, mine := next()
				if !mine {
					continue
				}
				r := c.Rand("wb-frame", i)
				book := genBook(r)
				var cs *wbCase
				if op == "query" {
					q, _ := genQuery(r, true)
					cs = newWBQuery(r, q, book)
				} else {
					cs = newWBMultiGet(r, book, genPaths(r, book, 1), genSelection(r, true))
				}
				// the same request in a lexical form of its own inside the grid's frame
				wo := &rfc6352.WriteOpts{R: r, SplitText: true}
				var tree *xmltree.Node
				if op == "query" {
					tree = rfc6352.QueryTree(cs.Want.Query, wo)
				} else {
					tree = rfc6352.MultiGetTree(cs.Want.MultiGet, wo)
				}
				cs.Body, cs.Frame = reframe(renderRoot(r, tree), f), f.class()
				if selfCheck(c, cs) {
					execWB(c, cs)
				}
				c.Observe("universe", "wire→backend document framing (grid)", 1)
			}
		}
	}
	c.Note("exhaustive_part", "client→wire: FilterTest{\"\",anyof,allof} x PropFilter.Test (same) x MatchType{\"\",equals,contains,starts-with,ends-with} x NegateCondition x {prop-level, param-level text match} x Limit{-1,0,1,2,2^31-1}, plus is-not-defined at both levels; "+
		"wire→backend: test{absent,anyof,allof} at both levels x match-type{absent + 4} x negate-condition{absent,no,yes} x position, each in several lexical forms; "+
		"every listed invalid value of test / match-type / negate-condition / nresults at every position of a fixed query; "+
		"document framing: {no BOM, UTF-8 BOM} x {no declaration, 9 XML declarations (version 1.0, UTF-8 in three spellings, standalone, quote kinds, blanks)} and x 13 runs of comments / processing instructions / blanks before and after the root element, for a query and a multiget.")
}

func replay(c *fw.Ctx, w json.RawMessage) {
	var probe struct {
		Case json.RawMessage `json:"case"`
		Dir  string          `json:"dir"`
	}
	if json.Unmarshal(w, &probe) != nil {
		return
	}
	raw := w
	if len(probe.Case) > 0 {
		raw = probe.Case
	}
	var d struct {
		Dir    string `json:"dir"`
		Family string `json:"family"`
	}
	json.Unmarshal(raw, &d)
	switch {
	case d.Family == "reuse":
		var rc reuseCase
		if json.Unmarshal(raw, &rc) == nil {
			execReuse(c, &rc)
		}
		return
	case d.Family == "sequence":
		var sq seqCase
		if json.Unmarshal(raw, &sq) == nil {
			execSeq(c, &sq)
		}
		return
	case d.Family == "client-to-backend":
		var ec e2eCase
		if json.Unmarshal(raw, &ec) == nil && ec.MultiGet != nil {
			execE2E(c, &ec)
		}
		return
	case d.Family == "overlap":
		var oc overlapCase
		if json.Unmarshal(raw, &oc) == nil {
			// pool and scheduler effects need repetitions to show again
			for i := 0; i < 200; i++ {
				cp := oc
				cp.Calls = nil
				for _, cs := range oc.Calls {
					cp.Calls = append(cp.Calls, cs.clone())
				}
				execOverlap(c, &cp)
			}
		}
		return
	}
	switch d.Dir {
	case dirCW:
		var cs cwCase
		if json.Unmarshal(raw, &cs) == nil && (cs.Query != nil || cs.MultiGet != nil) {
			execCW(c, &cs)
		}
	case dirWB:
		var cs wbCase
		if json.Unmarshal(raw, &cs) == nil {
			execWB(c, &cs)
		}
	}
}

func init() {
	fw.Register(&fw.Property{
		ID:     "C09",
		Run:    run,
		Replay: replay,
		Rule: "client→wire: carddav.Client.QueryAddressBook/MultiGetAddressBook against a capturing HTTP client; the independent rfc6352 reader must accept the body (namespaces, names, child order, enumerations, positive nresults) and decode the caller's request (defaults normalised). " +
			"wire→backend: the independent rfc6352 writer + xmltree.Render(FullLex) produce conformant documents served by the real carddav.Handler; the recording backend must receive the denoted request; invalid enumeration values must be answered 4xx without a backend query. " +
			"Around every client call the caller's argument is deep-compared (slices up to capacity, marked spare elements): it must be unchanged. Reuse family: one request value passed to 2-3 successive calls on different collections, each captured request checked against the pristine value on that call's collection. Overlap family: 2-8 goroutines call through one client whose HTTP client parks all requests until everyone arrived, then reads the bodies in a seeded order (GOMAXPROCS 1 and 4); each body must denote its own caller's request; reuse/overlap findings are reported only when the same call alone is clean. " +
			"Document framing (XML 1.0 productions 1, 22, 27; section 4.3.3 / appendix F): one document in four of every wire→backend family, plus a grid, carries a UTF-8 byte order mark, an XML declaration, comments, processing instructions and blanks before and after the root element; the request it denotes is the root element's. " +
			"Related-href family: multiget hrefs equal to the request target, equal modulo trailing slash, parent, child, sibling, absolute-URI and fully percent-encoded spellings, at every position (only/first/middle/last/duplicated) for collection and object targets; client-to-backend family: MultiGetAddressBook (Paths nil/empty/self-listing/ordinary) through the real handler, backend hrefs compared with the wire document and the caller's value. " +
			"Sequence family: every ordered pair (per separator , ; space empty | :) and random 2-6 call sequences of nearly colliding address-data requests (re-splits of one concatenation, reorderings, duplicates, prefixes, case variants, AllProp vs literal *, nil vs empty, key look-alikes) across query/multiget/sync-collection and across clients in one process; each request checked against its own call's argument. " +
			"Generators: 0-4 prop-filters x 0-3 text-matches x 0-2 param-filters, all flags, hostile names/texts, limits -1/0/1/2/large, prop selections, href lists 0-20 with hostile names. " +
			"distinct_nontrivial counts abstract classes: direction, operation, filter test, #prop-filters, max #text-matches, max #param-filters, flag set (is-not-defined, negate, non-default test/match type, blank-edged/metacharacter/non-ASCII names and texts), limit class, selection class; for multiget: href count bucket and hostile character classes.",
		Assumptions: []string{
			"values outside the public types' domain (invalid FilterTest/MatchType strings, IsNotDefined together with TextMatches/Params/TextMatch, non-absolute paths, characters XML cannot carry) are don't-care on the client side: refusing and sending verbatim are both accepted",
			"AllProp, an empty property selection and an empty address-data element all denote 'whole cards' (RFC 6352 10.4) and compare equal; a property selection is compared as a set",
			"when the request carries no address-data element (D:allprop, D:propname, no selection, D:prop without address-data) the AddressDataRequest the backend sees is not compared",
			"collation and novalue are varied on the wire but not compared (the public API cannot express them)",
			"a conformant nresults beyond the range of AddressBookQuery.Limit (2^63 and above): refusal, a query with a positive limit and a query without limit are accepted; an answer without a backend query or a negative limit is a finding",
			"nresults denoting zero, an empty nresults and a limit without nresults are outside the grammar but not an enumeration of the statement: refusal, an empty answer without query and an unlimited query are all accepted",
			"multiget with an empty Paths list: the client names the collection itself (documented behaviour, accepted)",
			"Depth is required to be 1 or infinity on addressbook-query only; it is not checked on multiget (RFC 6352 8.7: ignored by the server)",
			"framing is limited to UTF-8 documents of XML 1.0 without a document type declaration: other encodings, XML 1.1 and DTDs are not sent (a server may refuse them)",
			"elements and attributes in foreign namespaces are extensions and ignored by the reader; anything unknown in the DAV: or CardDAV namespace, or un-namespaced, is a grammar violation",
		},
		MinEvals: func(t string) int64 {
			if t == "thorough" {
				return 500000
			}
			return 20000
		},
		MinDistinct: func(t string) int64 {
			if t == "thorough" {
				return 10000
			}
			return 1000
		},
	})
}

package c09

import (
	"context"
	"encoding/json"
	"fmt"
	"math/rand"
	"strconv"
	"strings"

	"github.com/emersion/go-webdav/carddav"
	"github.com/emersion/go-webdav/verifharness/doubles"
	"github.com/emersion/go-webdav/verifharness/fw"
	"github.com/emersion/go-webdav/verifharness/rfc6352"
)

// ---------------------------------------------------------------------------
// wire→backend: multiget hrefs related to the request target.
//
// The href list of an addressbook-multiget may name anything: the request
// target itself, the same path with or without its trailing slash, its
// parent, a child, the absolute-URI form on the same host, another
// percent-encoded spelling of the same path. The oracle is the one of every
// multiget: the backend sees every href, decoded, in order.

var relations = []string{"equal", "toggle-slash", "parent", "child", "abs-uri", "abs-uri-toggle-slash", "pct-spelling", "pct-spelling-toggle-slash", "grandchild", "sibling"}
var positions = []string{"only", "first", "middle", "last", "duplicated", "twice-adjacent"}
var relTargets = []string{"/u/ab/", "/u/ab", "/u/ab/card1.vcf", "/u/a b/é.vcf", "/"}

func toggleSlash(p string) string {
	if strings.HasSuffix(p, "/") && p != "/" {
		return strings.TrimSuffix(p, "/")
	}
	if p == "/" {
		return "/"
	}
	return p + "/"
}

// escapeAll percent-encodes every byte except "/" (a legal spelling of the
// same path).
func escapeAll(p string, lower bool) string {
	var sb strings.Builder
	for i := 0; i < len(p); i++ {
		if p[i] == '/' {
			sb.WriteByte('/')
			continue
		}
		if lower {
			fmt.Fprintf(&sb, "%%%02x", p[i])
		} else {
			fmt.Fprintf(&sb, "%%%02X", p[i])
		}
	}
	return sb.String()
}

// relatedHref returns the raw href text for a relation to target.
func relatedHref(r *rand.Rand, target, rel string) string {
	plain := func(p string) string { return rfc6352.EscapeHref(p, nil, "") }
	switch rel {
	case "equal":
		return plain(target)
	case "toggle-slash":
		return plain(toggleSlash(target))
	case "parent":
		t := strings.TrimSuffix(target, "/")
		i := strings.LastIndex(t, "/")
		if i < 0 {
			return "/"
		}
		return plain(t[:i+1])
	case "child":
		return plain(strings.TrimSuffix(target, "/") + "/c.vcf")
	case "grandchild":
		return plain(strings.TrimSuffix(target, "/") + "/sub/c.vcf")
	case "sibling":
		return plain(strings.TrimSuffix(target, "/") + "x")
	case "abs-uri":
		return rfc6352.EscapeHref(target, nil, "h")
	case "abs-uri-toggle-slash":
		return rfc6352.EscapeHref(toggleSlash(target), nil, "h")
	case "pct-spelling":
		return escapeAll(target, r.Intn(2) == 0)
	case "pct-spelling-toggle-slash":
		return escapeAll(toggleSlash(target), r.Intn(2) == 0)
	}
	return plain(target)
}

// newWBRelated builds a multiget addressed to target whose href list carries
// related at the given position among ordinary members.
func newWBRelated(r *rand.Rand, target, rel, pos string, sel rfc6352.Selection) *wbCase {
	related := relatedHref(r, target, rel)
	base := strings.TrimSuffix(target, "/") + "/"
	member := func() string { return rfc6352.EscapeHref(base+genSeg(r), r, "") }
	m := &rfc6352.MultiGet{Sel: sel}
	switch pos {
	case "only":
		m.Hrefs = []string{related}
	case "first":
		m.Hrefs = []string{related, member(), member()}
	case "middle":
		m.Hrefs = []string{member(), related, member()}
	case "last":
		m.Hrefs = []string{member(), member(), related}
	case "duplicated":
		m.Hrefs = []string{related, member(), related}
	case "twice-adjacent":
		m.Hrefs = []string{member(), related, related}
	}
	tree := rfc6352.MultiGetTree(m, &rfc6352.WriteOpts{R: r, SplitText: true})
	cs := &wbCase{Op: "multiget", Expect: "deliver", Inject: "href " + rel + " to the request target, " + pos, Path: target,
		Target: rfc6352.EscapeHref(target, nil, ""), ContentType: pick(r, contentTypes), Depth: pick(r, []string{"", "0", "1"}),
		Want: &rfc6352.Request{MultiGet: m}}
	cs.Body, cs.Frame = render(r, tree)
	return cs
}

// ---------------------------------------------------------------------------
// client→wire→backend: the library's own client in front of the library's
// own server. What the client put on the wire (read by the independent
// reader) must be what the backend receives, and it must denote the caller's
// request. Covers MultiGetAddressBook with Paths nil / empty (the client
// names the collection itself) and with paths related to the collection.

type e2eCase struct {
	Dir      string                       `json:"dir"`
	Family   string                       `json:"family"`
	Book     string                       `json:"book"`
	MultiGet *carddav.AddressBookMultiGet `json:"multiget"`
}

func execE2E(c *fw.Ctx, ec *e2eCase) {
	ec.Dir, ec.Family = dirWB, "client-to-backend"
	c.Journal(ec)
	defer c.JournalDone()
	pristine := (&cwCase{Op: "multiget", Book: ec.Book, MultiGet: ec.MultiGet}).clone()
	be := &doubles.CardBackend{Principal: "/u/", HomeSet: "/u/contacts/"}
	ip := &doubles.InProc{Handler: &carddav.Handler{Backend: be}, Record: true}
	cl, err := carddav.NewClient(ip, "http://h/")
	if err != nil {
		c.Inconclusive("C09 harness: cannot construct client: " + err.Error())
		return
	}
	var callErr error
	panicked, pv, stack := fw.Guard(func() {
		_, callErr = cl.MultiGetAddressBook(context.Background(), ec.Book, ec.MultiGet)
	})
	c.Eval(1)
	if panicked {
		c.Report("panic|"+fw.PanicSite(stack), fmt.Sprintf("carddav client/handler panicked: %v", pv), ec)
		return
	}
	exs := ip.Exchanges()
	var gets []string
	for _, k := range be.Calls() {
		if k.Op == "GetAddressObject" {
			gets = append(gets, k.Path)
		}
	}
	w := map[string]interface{}{"family": "client-to-backend", "case": &e2eCase{Dir: dirWB, Family: "client-to-backend", Book: pristine.Book, MultiGet: pristine.MultiGet},
		"client_err": fw.ErrString(callErr), "backend_get_paths": gets}
	kind := "non-empty Paths"
	if len(pristine.MultiGet.Paths) == 0 {
		kind = "empty Paths"
	}
	c.Observe("client→server→backend multiget", kind, 1)
	c.Distinct(dirWB + "|client-to-backend|" + kind + "|" + pathsClass(pristine.MultiGet.Paths))
	if len(exs) != 1 {
		c.Observe("client→server→backend anomalies", fmt.Sprintf("%d requests sent", len(exs)), 1)
		return // the solo family decides about what is (not) sent
	}
	w["body"], w["status"] = string(exs[0].Body), exs[0].Status
	req, _, err := rfc6352.Read(exs[0].Body)
	if err != nil || req.MultiGet == nil {
		return // the solo family reports unreadable bodies
	}
	wire, err := req.MultiGet.Paths()
	if err != nil {
		return
	}
	// wire→backend on the client's own document
	ds := diffPaths("href", wire, gets)
	// and the whole way: caller → backend
	want := pristine.MultiGet.Paths
	if len(want) == 0 {
		want = []string{pristine.Book}
	}
	if len(ds) == 0 {
		ds = diffPaths("href", want, gets)
	}
	for _, d := range ds {
		c.Report(dirWB+" | "+d.Field+" | "+d.Trans, "a multiget sent by the library's client did not reach the backend as the hrefs it lists: "+d.Detail, w)
	}
}

func genE2E(r *rand.Rand) *e2eCase {
	book := genBook(r)
	ec := &e2eCase{Book: book, MultiGet: &carddav.AddressBookMultiGet{DataRequest: toLibData(&rfc6352.Selection{Data: genAddressData(r, false)})}}
	switch r.Intn(6) {
	case 0:
		ec.MultiGet.Paths = nil
	case 1:
		ec.MultiGet.Paths = []string{}
	case 2:
		// the collection itself among its members
		ec.MultiGet.Paths = genPaths(r, book, 1)
		self := book
		if r.Intn(2) == 0 {
			self = toggleSlash(book)
		}
		i := r.Intn(len(ec.MultiGet.Paths) + 1)
		ec.MultiGet.Paths = append(ec.MultiGet.Paths[:i], append([]string{self}, ec.MultiGet.Paths[i:]...)...)
	case 3:
		// a REPORT addressed to one object, listing that object
		ec.Book = strings.TrimSuffix(book, "/") + "/" + genSeg(r)
		ec.MultiGet.Paths = []string{ec.Book}
	default:
		ec.MultiGet.Paths = genPaths(r, book, 1)
	}
	return ec
}

// ---------------------------------------------------------------------------
// client→wire: sequences of calls in one process whose arguments nearly
// collide. Every call's wire request must denote THAT call's argument,
// never an earlier call's — whatever was sent before through this or
// another client, by a query, a multiget or a sync-collection.

type seqCall struct {
	Op        string                     `json:"op"` // query | multiget | sync (sync only primes; it is not one of C09's requests)
	Book      string                     `json:"book"`
	NewClient bool                       `json:"new_client,omitempty"`
	Data      carddav.AddressDataRequest `json:"data"`
	Variant   string                     `json:"variant"`
}

type seqCase struct {
	Dir    string    `json:"dir"`
	Family string    `json:"family"`
	Calls  []seqCall `json:"calls"`
}

func copyData(d carddav.AddressDataRequest) carddav.AddressDataRequest {
	c := d
	if d.Props != nil {
		c.Props = append([]string{}, d.Props...)
	}
	return c
}

func (sc *seqCall) toCase() *cwCase {
	if sc.Op == "multiget" {
		return &cwCase{Dir: dirCW, Op: "multiget", Book: sc.Book, MultiGet: &carddav.AddressBookMultiGet{
			Paths: []string{strings.TrimSuffix(sc.Book, "/") + "/a.vcf"}, DataRequest: copyData(sc.Data)}}
	}
	return &cwCase{Dir: dirCW, Op: "query", Book: sc.Book, Query: &carddav.AddressBookQuery{DataRequest: copyData(sc.Data),
		PropFilters: []carddav.PropFilter{{Name: "FN", TextMatches: []carddav.TextMatch{{Text: "a"}}}}}}
}

func hasSeparator(names []string) bool {
	for _, n := range names {
		if strings.ContainsAny(n, ",;| :*") || n == "" {
			return true
		}
	}
	return false
}

func selJSON(s *nSel) string {
	b, _ := json.Marshal(s)
	return string(b)
}

// seenSel remembers every address-data selection a sequence call of this
// worker process has asked for (the suspected state is per process).
var seenSel = map[string]bool{}

func execSeq(c *fw.Ctx, sq *seqCase) {
	sq.Dir, sq.Family = dirCW, "sequence"
	c.Journal(sq)
	defer c.JournalDone()
	cp := &doubles.Capture{}
	cl, err := carddav.NewClient(cp, endpoint)
	if err != nil {
		c.Inconclusive("C09 harness: cannot construct client: " + err.Error())
		return
	}
	var earlier []string // normal-form selections of the earlier calls
	for i := range sq.Calls {
		call := &sq.Calls[i]
		if call.NewClient {
			cp = &doubles.Capture{}
			if cl, err = carddav.NewClient(cp, endpoint); err != nil {
				c.Inconclusive("C09 harness: cannot construct client: " + err.Error())
				return
			}
		}
		own := selJSON(libSel(&call.Data))
		if call.Op == "sync" {
			d := copyData(call.Data)
			panicked, pv, stack := fw.Guard(func() {
				cl.SyncCollection(context.Background(), call.Book, &carddav.SyncQuery{DataRequest: d})
			})
			if panicked {
				c.Report("panic|"+fw.PanicSite(stack), fmt.Sprintf("carddav client panicked: %v", pv), sq)
				return
			}
			c.Observe("client→wire sequences", "sync-collection priming call (not checked)", 1)
			earlier = append(earlier, own)
			continue
		}
		cs := call.toCase()
		pristine := cs.clone()
		sent := len(cp.Reqs)
		o := doCall(cl, cs, cs.Book)
		c.Eval(1)
		if !reportOutcome(c, &o, "sequence", sq) {
			return
		}
		var ex *doubles.Exchange
		if len(cp.Reqs) > sent {
			ex = cp.Last()
		}
		c.Observe("client→wire sequences", fmt.Sprintf("%s after %d earlier call(s)", call.Op, i), 1)
		c.Distinct(fmt.Sprintf("%s|sequence|%s|%s|pos=%d", dirCW, call.Op, call.Variant, i))
		if ex == nil && hasSeparator(call.Data.Props) {
			// a name carrying a separator: refusing is accepted
			c.Observe("client→wire sequences", "name with separator refused (don't-care)", 1)
			earlier = append(earlier, own)
			continue
		}
		w := &cwWitness{Family: "sequence", Case: sq, Call: i}
		probs := analyseCW(nil, pristine, ex, o.err, w)
		if len(probs) > 0 {
			w.Problems = probs
			// Does the request denote an earlier call's selection instead?
			stale := false
			if ex != nil {
				if req, _, err := rfc6352.Read(ex.Body); err == nil {
					var got *nSel
					if req.Query != nil {
						got = wireSel(&req.Query.Sel)
					} else if req.MultiGet != nil {
						got = wireSel(&req.MultiGet.Sel)
					}
					g := selJSON(got)
					for _, e := range earlier {
						seenSel[e] = true
					}
					stale = g != own && seenSel[g]
				}
			}
			if stale {
				c.Report(dirCW+" | call sequence in one process | request-denotes-an-earlier-call's-address-data",
					fmt.Sprintf("call #%d (%s) sent the address-data selection of an earlier call, not its own: %s", i+1, call.Op, probs[0].What), w)
			} else {
				for _, p := range probs {
					c.Report(dirCW+" | "+p.Key, p.What, w)
				}
			}
		}
		earlier = append(earlier, own)
	}
	for _, e := range earlier {
		seenSel[e] = true
	}
}

var seqSeparators = []string{",", ";", " ", "", "|", ":"}
var seqTokens = []string{"FN", "EMAIL", "TEL", "N", "ORG", "X-A", "fn", "a", "b", "ab", "*", "1", "2"}

type dataVariant struct {
	name string
	data carddav.AddressDataRequest
}

// nearCollisions derives, from a token list and a separator, address-data
// requests that collide under plausible cache keys: same length and same
// concatenation, same set in another order, same multiset, prefix, case
// variants, AllProp vs a literal "*", nil vs empty, key look-alikes.
func nearCollisions(tokens []string, sep string) []dataVariant {
	props := func(l ...string) carddav.AddressDataRequest { return carddav.AddressDataRequest{Props: l} }
	n := len(tokens)
	join := strings.Join(tokens, sep)
	rev := make([]string, n)
	for i, t := range tokens {
		rev[n-1-i] = t
	}
	flip := func(s string) string {
		if s == strings.ToUpper(s) {
			return strings.ToLower(s)
		}
		return strings.ToUpper(s)
	}
	cased := append([]string{}, tokens...)
	cased[0] = flip(cased[0])
	l := []dataVariant{
		{"tokens", props(tokens...)},
		{"merge-first-pair", props(append([]string{tokens[0] + sep + tokens[1]}, tokens[2:]...)...)},
		{"merge-last-pair", props(append(append([]string{}, tokens[:n-2]...), tokens[n-2]+sep+tokens[n-1])...)},
		{"all-joined", props(join)},
		{"reversed", props(rev...)},
		{"first-duplicated", props(append(append([]string{}, tokens...), tokens[0])...)},
		{"prefix", props(tokens[:n-1]...)},
		{"case-variant", props(cased...)},
		{"last-replaced", props(append(append([]string{}, tokens[:n-1]...), "NOTE")...)},
		{"allprop", carddav.AddressDataRequest{AllProp: true}},
		{"allprop-with-props", carddav.AddressDataRequest{AllProp: true, Props: append([]string{}, tokens...)}},
		{"literal-star", props("*")},
		{"nil", carddav.AddressDataRequest{}},
		{"empty", carddav.AddressDataRequest{Props: []string{}}},
		{"key-lookalike", props(strconv.Itoa(n) + ":" + strings.Join(tokens, ","))},
		{"joined-plus-sep", props(join+sep, tokens[n-1])},
		{"shifted-split", props(tokens[0], strings.Join(tokens[1:], sep))},
		{"shifted-split-2", props(strings.Join(tokens[:n-1], sep), tokens[n-1])},
	}
	return l
}

var seqOps = []string{"query", "multiget", "sync"}

// seqPair builds the two-call sequence a then b.
func seqPair(a, b dataVariant, opA, opB string, newClient bool, k int) *seqCase {
	return &seqCase{Calls: []seqCall{
		{Op: opA, Book: fmt.Sprintf("/u/seq-%d-a/", k), Data: a.data, Variant: a.name},
		{Op: opB, Book: fmt.Sprintf("/u/seq-%d-b/", k), Data: b.data, Variant: b.name, NewClient: newClient},
	}}
}

func genSeq(r *rand.Rand) *seqCase {
	n := 3 + r.Intn(2)
	perm := r.Perm(len(seqTokens))
	var tokens []string
	for i := 0; i < n; i++ {
		tokens = append(tokens, seqTokens[perm[i]])
	}
	if r.Intn(6) == 0 {
		tokens[r.Intn(n)] = genName(r)
	}
	vs := nearCollisions(tokens, seqSeparators[r.Intn(len(seqSeparators))])
	sq := &seqCase{}
	for i, k := 0, 2+r.Intn(5); i < k; i++ {
		v := vs[r.Intn(len(vs))]
		op := seqOps[r.Intn(2)]
		if i < k-1 && r.Intn(6) == 0 {
			op = "sync"
		}
		sq.Calls = append(sq.Calls, seqCall{Op: op, Book: fmt.Sprintf("/u/seq-%d/", i), NewClient: i > 0 && r.Intn(3) == 0, Data: copyData(v.data), Variant: v.name})
	}
	return sq
}

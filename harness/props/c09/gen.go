package c09

import (
	"math/rand"
	"strings"

	"github.com/emersion/go-webdav/carddav"
	"github.com/emersion/go-webdav/verifharness/rfc6352"
)

// Generators. Everything is a pure function of the *rand.Rand handed in.

var namePool = []string{
	"FN", "EMAIL", "TEL", "N", "NICKNAME", "ADR", "ORG", "UID", "X-ABC", "fn", "Email",
	"TYPE", "PREF", "VALUE", "LANGUAGE",
	" FN", "FN ", " F N ", "  ", "", "a<b", "x&y", `q"uo'te`, "a>b]]>", "é", "名前", "tab\tname", "nl\nname",
	"&amp;", "&#65;", "X-ÀÉ😀",
}

var textPool = []string{
	"", " ", "  ", "a", "ab", " lead", "trail ", "  both  ", "\tx\t", "\n", "line\nbreak", "cr\rlf\r\n",
	`<&>"'`, "<", ">", "&", `"`, "'", "]]>", "&amp;", "&lt;b&gt;", "&#65;", "<!-- c -->", "<![CDATA[x]]>", "<?pi x?>",
	"é€😀", "ẞ", " nbsp ", " ", "\u0085", "名前", "a  b", "%41", "+", "a+b@example.org", "http://x/?a=1&b=2#f",
	"O'Brien & \"Sons\" <info@x>", "yes", "anyof", "0",
}

var alphabet = []rune("abcXYZ019 \t\n<>&\"'%#?;:/+=-_.,()[]{}|\\^`~@!$*éÀß€名前😀 ")

func pick(r *rand.Rand, l []string) string { return l[r.Intn(len(l))] }

func genFree(r *rand.Rand, pool []string) string {
	switch r.Intn(4) {
	case 0, 1:
		return pick(r, pool)
	case 2:
		return pick(r, pool) + pick(r, pool)
	}
	n := 1 + r.Intn(12)
	if r.Intn(10) == 0 {
		n = 50 + r.Intn(400)
	}
	var sb strings.Builder
	for i := 0; i < n; i++ {
		sb.WriteRune(alphabet[r.Intn(len(alphabet))])
	}
	return sb.String()
}

func genName(r *rand.Rand) string {
	if r.Intn(3) != 0 {
		return namePool[r.Intn(15)] // plain names
	}
	return genFree(r, namePool)
}

func genText(r *rand.Rand) string { return genFree(r, textPool) }

var (
	testValues   = []string{"", "anyof", "allof"}
	typeValues   = []string{"", "equals", "contains", "starts-with", "ends-with"}
	negateValues = []string{"", "no", "yes"}
	collations   = []string{"", "", "i;unicode-casemap", "i;ascii-casemap"}
	noValues     = []string{"", "", "yes", "no"}
)

func genTextMatch(r *rand.Rand, wire bool) rfc6352.TextMatch {
	tm := rfc6352.TextMatch{Text: genText(r), MatchType: pick(r, typeValues), Negate: pick(r, negateValues)}
	if wire {
		tm.Collation = pick(r, collations)
	}
	return tm
}

func genPropFilter(r *rand.Rand, wire bool) rfc6352.PropFilter {
	pf := rfc6352.PropFilter{Name: genName(r), Test: pick(r, testValues)}
	if r.Intn(6) == 0 {
		pf.IsNotDefined = true
		return pf
	}
	for i, n := 0, r.Intn(4); i < n; i++ {
		pf.TextMatches = append(pf.TextMatches, genTextMatch(r, wire))
	}
	for i, n := 0, r.Intn(3); i < n; i++ {
		pa := rfc6352.ParamFilter{Name: genName(r)}
		switch r.Intn(3) {
		case 0:
			pa.IsNotDefined = true
		case 1:
			tm := genTextMatch(r, wire)
			pa.TextMatch = &tm
		}
		pf.Params = append(pf.Params, pa)
	}
	return pf
}

var otherProps = []rfc6352.QName{
	{Space: rfc6352.DAV, Local: "getetag"}, {Space: rfc6352.DAV, Local: "getlastmodified"},
	{Space: rfc6352.DAV, Local: "getcontentlength"}, {Space: rfc6352.DAV, Local: "displayname"},
	{Space: rfc6352.DAV, Local: "resourcetype"}, {Space: "urn:example:x", Local: "custom"},
	{Space: rfc6352.NS, Local: "max-resource-size"}, {Space: "http://calendarserver.org/ns/", Local: "getctag"},
}

func genAddressData(r *rand.Rand, wire bool) *rfc6352.AddressData {
	ad := &rfc6352.AddressData{}
	switch r.Intn(5) {
	case 0:
		ad.AllProp = true
	case 1:
		// empty: whole cards
	default:
		for i, n := 0, 1+r.Intn(5); i < n; i++ {
			p := rfc6352.DataProp{Name: genName(r)}
			if wire {
				p.NoValue = pick(r, noValues)
			}
			ad.Props = append(ad.Props, p)
		}
	}
	if wire && r.Intn(3) == 0 {
		// the media type of the returned data (RFC 6352 section 10.4), in the
		// values every go-webdav server advertises as supported-address-data;
		// not part of the request the backend sees, hence not compared
		if r.Intn(3) != 0 {
			v := "text/vcard"
			ad.ContentType = &v
		}
		if r.Intn(3) != 0 {
			v := pick(r, []string{"3.0", "4.0"})
			ad.Version = &v
		}
	}
	return ad
}

func genSelection(r *rand.Rand, wire bool) rfc6352.Selection {
	if !wire {
		return rfc6352.Selection{Form: "prop", Data: genAddressData(r, false)}
	}
	var s rfc6352.Selection
	switch k := r.Intn(20); {
	case k < 14:
		s.Form = "prop"
	case k < 16:
		s.Form = "allprop"
		return s
	case k < 17:
		s.Form = "propname"
		return s
	default:
		return s
	}
	if r.Intn(8) != 0 {
		s.Data = genAddressData(r, true)
	}
	perm := r.Perm(len(otherProps))
	for i, n := 0, r.Intn(4); i < n; i++ {
		s.Others = append(s.Others, otherProps[perm[i]])
	}
	if s.Data == nil && len(s.Others) == 0 {
		s.Others = append(s.Others, otherProps[0])
	}
	if s.Data != nil {
		s.DataPos = r.Intn(len(s.Others) + 1)
	}
	return s
}

var limitValues = []int{-1, 0, 1, 2, 1<<31 - 1, 1 << 32, 1 << 62, 1<<63 - 1}

func genLimit(r *rand.Rand) int {
	switch r.Intn(3) {
	case 0:
		return 0
	case 1:
		return limitValues[r.Intn(len(limitValues))]
	}
	if r.Intn(2) == 0 {
		return 3 + r.Intn(500)
	}
	return 1000 + r.Intn(1<<30)
}

// genQuery builds a neutral query. limit is the caller-side limit (<= 0: none).
func genQuery(r *rand.Rand, wire bool) (*rfc6352.Query, int) {
	q := &rfc6352.Query{Sel: genSelection(r, wire), Test: pick(r, testValues)}
	for i, n := 0, r.Intn(5); i < n; i++ {
		q.PropFilters = append(q.PropFilters, genPropFilter(r, wire))
	}
	limit := genLimit(r)
	if limit > 0 {
		q.HasLimit = true
		q.NResults = itoa(limit)
	}
	return q, limit
}

func itoa(v int) string {
	if v == 0 {
		return "0"
	}
	neg := v < 0
	if neg {
		v = -v
	}
	var b []byte
	for v > 0 {
		b = append([]byte{byte('0' + v%10)}, b...)
		v /= 10
	}
	if neg {
		b = append([]byte{'-'}, b...)
	}
	return string(b)
}

// Hostile resource names (single path segments unless they contain "/").
var segPool = []string{
	"a.vcf", "card1.vcf", "B", "a b.vcf", " lead.vcf", "trail ", "100%.vcf", "%41.vcf", "%2F.vcf", "a%20b", "%", "%zz",
	"a#b.vcf", "#", "a?b=c.vcf", "?", "é.vcf", "名前.vcf", "😀", "a+b.vcf", "a&b<c>.vcf", `q"'.vcf`, "a;b.vcf", "a:b.vcf",
	"a@b", "~tilde", "a\\b", "[x]", "{y}", "|", "^", "`", "a\tb", "sub/dir/c.vcf", "a//b", "x=y,z", "(p)", "*", "!$'",
	" ", "a b", "İ", "é",
}

func genSeg(r *rand.Rand) string {
	if r.Intn(4) == 0 {
		return pick(r, segPool) + pick(r, segPool)
	}
	return pick(r, segPool)
}

var bookPool = []string{"/u/ab/", "/u/ab", "/dav/addressbooks/user/default/", "/a/b/c/d/"}

func genBook(r *rand.Rand) string {
	if r.Intn(4) == 0 {
		b := "/u/" + genSeg(r)
		if r.Intn(2) == 0 {
			b += "/"
		}
		return b
	}
	return pick(r, bookPool)
}

func genPaths(r *rand.Rand, book string, min int) []string {
	n := min + r.Intn(21-min)
	if r.Intn(25) == 0 {
		// sizes around the round numbers at which an implementation might batch
		n = []int{99, 100, 101, 128, 150, 200, 201, 257, 513}[r.Intn(9)]
	}
	switch r.Intn(4) {
	case 0:
		n = min + r.Intn(3-min+1)
	}
	base := strings.TrimSuffix(book, "/") + "/"
	var l []string
	for i := 0; i < n; i++ {
		switch {
		case len(l) > 0 && r.Intn(12) == 0:
			l = append(l, l[r.Intn(len(l))]) // duplicate
		case r.Intn(10) == 0:
			l = append(l, "/other/"+genSeg(r)) // outside the collection
		default:
			l = append(l, base+genSeg(r))
		}
	}
	return l
}

// toLibTM etc. convert the neutral value to what a caller would write.
func toLibTM(t *rfc6352.TextMatch) carddav.TextMatch {
	return carddav.TextMatch{Text: t.Text, NegateCondition: t.Negate == "yes", MatchType: carddav.MatchType(t.MatchType)}
}

func toLibData(s *rfc6352.Selection) carddav.AddressDataRequest {
	var d carddav.AddressDataRequest
	if s.Data != nil {
		d.AllProp = s.Data.AllProp
		for _, p := range s.Data.Props {
			d.Props = append(d.Props, p.Name)
		}
	}
	return d
}

func toLibQuery(q *rfc6352.Query, limit int) *carddav.AddressBookQuery {
	lq := &carddav.AddressBookQuery{DataRequest: toLibData(&q.Sel), FilterTest: carddav.FilterTest(q.Test), Limit: limit}
	for _, pf := range q.PropFilters {
		lp := carddav.PropFilter{Name: pf.Name, Test: carddav.FilterTest(pf.Test), IsNotDefined: pf.IsNotDefined}
		for i := range pf.TextMatches {
			lp.TextMatches = append(lp.TextMatches, toLibTM(&pf.TextMatches[i]))
		}
		for _, pa := range pf.Params {
			lpa := carddav.ParamFilter{Name: pa.Name, IsNotDefined: pa.IsNotDefined}
			if pa.TextMatch != nil {
				t := toLibTM(pa.TextMatch)
				lpa.TextMatch = &t
			}
			lp.Params = append(lp.Params, lpa)
		}
		lq.PropFilters = append(lq.PropFilters, lp)
	}
	return lq
}

// Enumeration universes.
var (
	invalidTests   = []string{"", "bogus", "ANYOF", "AnyOf", "Allof", "any", "all", "oneof", "noneof", "or", "and", "anyof,allof", "anyof allof", "yes", "1"}
	invalidTypes   = []string{"", "x", "EQUALS", "Contains", "starts_with", "startswith", "begins-with", "ends", "regex", "equal", "is", "contains,equals", "starts-with ends-with"}
	invalidNegates = []string{"", "maybe", "true", "false", "1", "0", "YES", "Yes", "NO", "No", "y", "n", "on", "yesno"}
	invalidLimits  = []string{"-1", "-5", "abc", "1.5", "1e3", "0x10", "１２", "1 2", "+-1", "−1", "1,000", "1_000", "٣", "one", "1a"}
	zeroLimits     = []string{"0", "00", ""}
	// conformant nresults values no AddressBookQuery.Limit (an int) can hold
	hugeLimits = []string{"9223372036854775808", "18446744073709551615", "18446744073709551616", "99999999999999999999999999"}
)

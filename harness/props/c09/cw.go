package c09

import (
	"bytes"
	"context"
	"fmt"
	"io/ioutil"
	"math/rand"
	"net/http"
	"reflect"
	"regexp"
	"runtime"
	"strings"
	"sync"

	"github.com/emersion/go-webdav/carddav"
	"github.com/emersion/go-webdav/verifharness/davx"
	"github.com/emersion/go-webdav/verifharness/doubles"
	"github.com/emersion/go-webdav/verifharness/fw"
	"github.com/emersion/go-webdav/verifharness/rfc6352"
)

// client→wire monitors.
//
// Three families share one analysis (analyseCW):
//   solo     one request value, one call, one fresh client;
//   reuse    ONE request value handed to 2-3 successive calls on different
//            collections: every call must denote the same (pristine) value;
//   overlap  K goroutines call through ONE client whose HTTP client parks
//            every request until all K have arrived and only then reads the
//            bodies: every body must denote its own caller's request.
// Around every call the caller's argument is deep-compared (slices up to
// their capacity): a client call must not modify what it was given.

type cwWitness struct {
	Family     string              `json:"family,omitempty"`
	Case       interface{}         `json:"case"`
	Call       int                 `json:"call,omitempty"`
	Sent       bool                `json:"sent"`
	Method     string              `json:"method,omitempty"`
	Target     string              `json:"target,omitempty"`
	Depth      string              `json:"depth,omitempty"`
	Body       string              `json:"body,omitempty"`
	ClientErr  string              `json:"client_err,omitempty"`
	Violations []rfc6352.Violation `json:"violations,omitempty"`
	Deltas     []delta             `json:"deltas,omitempty"`
	Problems   []problem           `json:"problems,omitempty"`
	Note       string              `json:"note,omitempty"`
}

// problem is one way in which a captured request fails to denote the
// caller's request. Key is "field | transformation".
type problem struct {
	Key  string `json:"key"`
	What string `json:"what"`
}

func (cs *cwCase) clone() *cwCase {
	c := *cs
	if cs.Query != nil {
		c.Query = doubles.CopyAddressBookQuery(cs.Query)
	}
	if cs.MultiGet != nil {
		m := *cs.MultiGet
		if cs.MultiGet.Paths != nil {
			m.Paths = append([]string{}, cs.MultiGet.Paths...)
		}
		m.DataRequest.Props = append([]string(nil), cs.MultiGet.DataRequest.Props...)
		c.MultiGet = &m
	}
	return &c
}

func (cs *cwCase) arg() interface{} {
	if cs.Op == "query" {
		return cs.Query
	}
	return cs.MultiGet
}

// ---- deep snapshot of a caller argument

type snapLine struct{ path, val string }

func snapshot(v interface{}) []snapLine {
	var l []snapLine
	rv := reflect.ValueOf(v)
	snapWalk(rv.Type().Elem().Name(), rv.Elem(), &l)
	return l
}

func snapWalk(path string, v reflect.Value, out *[]snapLine) {
	switch v.Kind() {
	case reflect.Ptr:
		if v.IsNil() {
			*out = append(*out, snapLine{path, "nil"})
			return
		}
		*out = append(*out, snapLine{path, "non-nil"})
		snapWalk(path, v.Elem(), out)
	case reflect.Struct:
		for i := 0; i < v.NumField(); i++ {
			snapWalk(path+"."+v.Type().Field(i).Name, v.Field(i), out)
		}
	case reflect.Slice:
		*out = append(*out, snapLine{path, fmt.Sprintf("len=%d cap=%d nil=%v", v.Len(), v.Cap(), v.IsNil())})
		if v.IsNil() {
			return
		}
		full := v.Slice(0, v.Cap()) // the backing array beyond len as well
		for i := 0; i < full.Len(); i++ {
			snapWalk(fmt.Sprintf("%s[%d]", path, i), full.Index(i), out)
		}
	default:
		*out = append(*out, snapLine{path, fmt.Sprintf("%#v", v.Interface())})
	}
}

var indexRE = regexp.MustCompile(`\[\d+\]`)

// snapDiff returns the abstract field path and a literal description of the
// first difference.
func snapDiff(a, b []snapLine) (field, detail string, differs bool) {
	for i := 0; i < len(a) || i < len(b); i++ {
		switch {
		case i >= len(a):
			return indexRE.ReplaceAllString(b[i].path, "[]"), "appeared: " + b[i].path + " = " + b[i].val, true
		case i >= len(b):
			return indexRE.ReplaceAllString(a[i].path, "[]"), "disappeared: " + a[i].path + " = " + a[i].val, true
		case a[i] != b[i]:
			return indexRE.ReplaceAllString(a[i].path, "[]"), fmt.Sprintf("%s: %s → %s: %s", a[i].path, a[i].val, b[i].path, b[i].val), true
		}
	}
	return "", "", false
}

// doCall runs one client call under Guard and compares the argument before
// and after.
type callOutcome struct {
	err      error
	panicked bool
	pv       interface{}
	stack    string
	modField string
	modWhat  string
	modified bool
}

func doCall(cl *carddav.Client, cs *cwCase, book string) callOutcome {
	var o callOutcome
	before := snapshot(cs.arg())
	o.panicked, o.pv, o.stack = fw.Guard(func() {
		if cs.Op == "query" {
			_, o.err = cl.QueryAddressBook(context.Background(), book, cs.Query)
		} else {
			_, o.err = cl.MultiGetAddressBook(context.Background(), book, cs.MultiGet)
		}
	})
	o.modField, o.modWhat, o.modified = snapDiff(before, snapshot(cs.arg()))
	return o
}

func reportOutcome(c *fw.Ctx, o *callOutcome, family string, pristine interface{}) bool {
	if o.panicked {
		c.Report("panic|"+fw.PanicSite(o.stack), fmt.Sprintf("carddav client panicked: %v", o.pv), pristine)
		return false
	}
	if o.modified {
		c.Observe("client→wire caller argument", "modified by the call: "+o.modField, 1)
		c.Report(dirCW+" | argument "+o.modField+" | modified-by-call",
			"the client call modified the value the caller passed: "+o.modWhat,
			&cwWitness{Family: family, Case: pristine, Note: o.modWhat})
	} else {
		c.Observe("client→wire caller argument", "unchanged by the call (deep, up to capacity)", 1)
	}
	return true
}

// analyseCW checks one captured exchange against the request cs denotes.
// With c == nil nothing is recorded (quiet).
func analyseCW(c *fw.Ctx, cs *cwCase, ex *doubles.Exchange, callErr error, w *cwWitness) []problem {
	var probs []problem
	add := func(field, trans, what string) {
		probs = append(probs, problem{field + " | " + trans, what})
	}
	observe := func(table, key string) {
		if c != nil {
			c.Observe(table, key, 1)
		}
	}
	w.Sent, w.ClientErr = ex != nil, fw.ErrString(callErr)
	if ex == nil {
		observe("client→wire outcome", cs.Op+": nothing sent")
		add(cs.Op, "not-sent", fmt.Sprintf("the client sent nothing for an expressible %s: %v", cs.Op, callErr))
		return probs
	}
	w.Method, w.Target, w.Depth, w.Body = ex.Method, ex.Target, ex.Header.Get("Depth"), string(ex.Body)
	observe("client→wire request line", fmt.Sprintf("%s %s Depth=%q Content-Type=%q", cs.Op, ex.Method, w.Depth, ex.Header.Get("Content-Type")))
	if callErr != nil {
		observe("client→wire outcome", cs.Op+": sent, then client error")
	} else {
		observe("client→wire outcome", cs.Op+": sent")
	}
	if ex.Method != "REPORT" {
		add("method", "altered", fmt.Sprintf("method %q, want REPORT", ex.Method))
	}
	if p, err := davx.HrefPath(ex.Target); err != nil || p != cs.Book {
		add("request-target", "altered", fmt.Sprintf("request target %q denotes %q (%v), want %q", ex.Target, p, err, cs.Book))
	}
	if cs.Op == "query" && w.Depth != "1" && w.Depth != "infinity" {
		// RFC 6352 8.6: without Depth the query applies to the collection
		// resource only (Depth 0).
		add("depth", "not-1-or-infinity", fmt.Sprintf("Depth %q on an addressbook-query", w.Depth))
	}
	if ct := strings.ToLower(ex.Header.Get("Content-Type")); !(strings.HasPrefix(ct, "application/xml") || strings.HasPrefix(ct, "text/xml")) {
		add("content-type", "not-xml", fmt.Sprintf("Content-Type %q", ex.Header.Get("Content-Type")))
	}
	req, viol, err := rfc6352.Read(ex.Body)
	if err != nil {
		add("body", "unreadable", "independent reader cannot read the body: "+err.Error())
		return probs
	}
	w.Violations = viol
	for _, v := range viol {
		probs = append(probs, problem{v.Key(), "the document departs from the RFC 6352 grammar: " + v.String()})
	}
	switch cs.Op {
	case "query":
		if req.Query == nil {
			add("root", "altered", "addressbook-multiget sent for a query")
			return probs
		}
		want, got := libQuery(cs.Query), wireQuery(req.Query)
		if c != nil {
			c.Distinct(dirCW + "|query|" + classOf(&want))
		}
		observe("client→wire limit", limitClass(cs.Query.Limit)+" → "+limitWire(req.Query))
		ds := diffQuery(&want, &got)
		w.Deltas = ds
		for _, d := range ds {
			add(d.Field, d.Trans, "the wire document does not denote the caller's query: "+d.Field+" "+d.Detail)
		}
		if c != nil && c.WantSample() && len(cs.Query.PropFilters) >= 2 && len(probs) == 0 {
			c.Sample(w)
		}
	case "multiget":
		if req.MultiGet == nil {
			add("root", "altered", "addressbook-query sent for a multiget")
			return probs
		}
		got, err := req.MultiGet.Paths()
		if err != nil {
			add("href", "undecodable", err.Error())
			return probs
		}
		want := cs.MultiGet.Paths
		if len(want) == 0 {
			// documented: no path given → the collection itself is named
			want = []string{cs.Book}
			observe("client→wire multiget", "empty Paths → href of the collection")
		}
		if c != nil {
			c.Distinct(dirCW + "|multiget|" + pathsClass(cs.MultiGet.Paths) + "|" + selClass(libSel(&cs.MultiGet.DataRequest)))
		}
		// A relative name may be written with "./" in front (RFC 3986 section
		// 4.2: it must be when its first segment holds a colon); both spellings
		// are the same reference. What it may not become is a URI with a scheme.
		want = append([]string(nil), want...)
		d := &differ{}
		for i := range want {
			if i >= len(got) || strings.HasPrefix(want[i], "/") {
				continue
			}
			want[i] = strings.TrimPrefix(want[i], "./")
			got[i] = strings.TrimPrefix(got[i], "./")
			// a client that resolves the name itself - against the collection
			// it addresses or against its endpoint - names the same resource
			if dir := cs.Book[:strings.LastIndex(cs.Book, "/")+1]; got[i] == dir+want[i] || got[i] == endpointPath+want[i] {
				got[i] = want[i]
			}
			raw := strings.TrimSpace(req.MultiGet.Hrefs[i])
			observe("client→wire multiget", "relative name → "+relSpelling(raw))
			if j := strings.IndexAny(raw, ":/?#"); j > 0 && raw[j] == ':' && isSchemeName(raw[:j]) {
				d.add("href", "relative-name-reads-as-uri-with-scheme", fmt.Sprintf("href %q (for the relative name %q) is a URI of scheme %q, not a relative reference", raw, want[i], raw[:j]))
			}
		}
		d.l = append(d.l, diffPaths("href", want, got)...)
		d.selDiff(libSel(&cs.MultiGet.DataRequest), wireSel(&req.MultiGet.Sel))
		w.Deltas = d.l
		for _, x := range d.l {
			add(x.Field, x.Trans, "the wire document does not denote the caller's multiget: "+x.Field+" "+x.Detail)
		}
	}
	return probs
}

// endpointPath is the path of the endpoint every client of this check is
// constructed with.
const (
	endpoint     = "http://h/base/"
	endpointPath = "/base/"
)

// isSchemeName: ALPHA *( ALPHA / DIGIT / "+" / "-" / "." ) (RFC 3986 section 3.1).
func isSchemeName(s string) bool {
	for i, c := range s {
		switch {
		case c >= 'a' && c <= 'z', c >= 'A' && c <= 'Z':
		case i > 0 && (c >= '0' && c <= '9' || c == '+' || c == '-' || c == '.'):
		default:
			return false
		}
	}
	return s != ""
}

// relSpelling abstracts how a relative name was written as an href.
func relSpelling(raw string) string {
	switch {
	case strings.HasPrefix(raw, "./"):
		return "href with ./ in front"
	case strings.HasPrefix(raw, "/"), strings.Contains(raw, "://"):
		return "href resolved to an absolute one"
	}
	return "href verbatim (escaped)"
}

// relNames: member names relative to the collection, some with a colon in
// their first segment (as a reference they need "./" in front, or they read
// as a URI with a scheme).
var relNames = []string{"a.vcf", "urn:uuid:1f0b5c3e.vcf", "Doe, John 09:30.vcf", "a:b", "sub/a:b.vcf", "x:y/z.vcf", "mailto:a@b", "1:2", "é:ü.vcf", "tel:+1-201-555-0123", "c++:x", "./a:b"}

func genRelName(r *rand.Rand) string {
	if r.Intn(3) == 0 {
		return genSeg(r)
	}
	return pick(r, relNames)
}

// soloProblems sends a fresh copy of cs alone through a fresh client and
// returns what is wrong with that request (quietly).
func soloProblems(cs *cwCase) []problem {
	cp := &doubles.Capture{}
	cl, err := carddav.NewClient(cp, endpoint)
	if err != nil {
		return []problem{{"client | not-constructed", err.Error()}}
	}
	fresh := cs.clone()
	o := doCall(cl, fresh, cs.Book)
	if o.panicked {
		return []problem{{"panic", fmt.Sprint(o.pv)}}
	}
	return analyseCW(nil, cs, cp.Last(), o.err, &cwWitness{})
}

// execCW is the solo family.
func execCW(c *fw.Ctx, cs *cwCase) {
	cs.Dir = dirCW
	c.Journal(cs)
	defer c.JournalDone()
	pristine := cs.clone()
	cp := &doubles.Capture{}
	cl, err := carddav.NewClient(cp, endpoint)
	if err != nil {
		c.Inconclusive("C09 harness: cannot construct client: " + err.Error())
		return
	}
	o := doCall(cl, cs, cs.Book)
	c.Eval(1)
	ex := cp.Last()
	if ok, why := inDomain(pristine); !ok {
		if o.panicked {
			c.Report("panic|"+fw.PanicSite(o.stack), fmt.Sprintf("carddav client panicked: %v", o.pv), pristine)
			return
		}
		// outside the public type's domain: refusing and sending verbatim
		// are both accepted
		beh := "sent"
		if ex == nil {
			beh = "refused"
		}
		c.Observe("client out-of-domain (don't-care)", why+" → "+beh, 1)
		return
	}
	if !reportOutcome(c, &o, "solo", pristine) {
		return
	}
	w := &cwWitness{Case: pristine}
	for _, p := range analyseCW(c, pristine, ex, o.err, w) {
		c.Report(dirCW+" | "+p.Key, p.What, w)
	}
}

// ---- reuse family

type reuseCase struct {
	Dir      string                       `json:"dir"`
	Family   string                       `json:"family"`
	Op       string                       `json:"op"`
	Books    []string                     `json:"books"`
	Query    *carddav.AddressBookQuery    `json:"query,omitempty"`
	MultiGet *carddav.AddressBookMultiGet `json:"multiget,omitempty"`
}

func execReuse(c *fw.Ctx, rc *reuseCase) {
	rc.Dir, rc.Family = dirCW, "reuse"
	c.Journal(rc)
	defer c.JournalDone()
	shared := &cwCase{Dir: dirCW, Op: rc.Op, Query: rc.Query, MultiGet: rc.MultiGet}
	pristine := shared.clone()
	pristineRC := &reuseCase{Dir: dirCW, Family: "reuse", Op: rc.Op, Books: rc.Books, Query: pristine.Query, MultiGet: pristine.MultiGet}
	cp := &doubles.Capture{}
	cl, err := carddav.NewClient(cp, endpoint)
	if err != nil {
		c.Inconclusive("C09 harness: cannot construct client: " + err.Error())
		return
	}
	kind := rc.Op
	if rc.Op == "multiget" {
		if len(pristine.MultiGet.Paths) == 0 {
			kind += ", empty Paths"
		} else {
			kind += ", non-empty Paths"
		}
	}
	for i, book := range rc.Books {
		sent := len(cp.Reqs)
		o := doCall(cl, shared, book)
		c.Eval(1)
		if !reportOutcome(c, &o, "reuse", pristineRC) {
			return
		}
		var ex *doubles.Exchange
		if len(cp.Reqs) > sent {
			ex = cp.Last()
		}
		// what call i denotes: the value as the caller wrote it, on this collection
		want := pristine.clone()
		want.Book = book
		w := &cwWitness{Family: "reuse", Case: pristineRC, Call: i}
		probs := analyseCW(nil, want, ex, o.err, w)
		c.Observe("client→wire reuse", fmt.Sprintf("%s: call #%d of %d with one request value", kind, i+1, len(rc.Books)), 1)
		c.Distinct(fmt.Sprintf("%s|reuse|%s|call=%d", dirCW, kind, i))
		if len(probs) == 0 {
			continue
		}
		// Only what is specific to reusing the value is reported here;
		// anything a fresh call shows as well belongs to the solo family.
		if solo := soloProblems(want); len(solo) == 0 {
			w.Problems = probs
			which := "first-call"
			if i > 0 {
				which = "later-call"
			}
			c.Report(dirCW+" | reused request value: "+rc.Op+" | "+which+"-differs-from-fresh-call",
				fmt.Sprintf("call #%d with a reused request value does not denote the caller's request although a fresh call does: %s", i+1, probs[0].What), w)
		}
	}
}

// ---- overlap family

type overlapCase struct {
	Dir    string    `json:"dir"`
	Family string    `json:"family"`
	Procs  int       `json:"gomaxprocs"`
	Order  []int     `json:"read_order"` // order in which the parked bodies are read (indices into arrival order)
	Calls  []*cwCase `json:"calls"`      // unique collection path each
}

// gate is an HTTP client that parks every request until n callers have
// arrived (or given up), then reads the bodies in the seeded order and
// answers 207 to all of them.
type gate struct {
	mu      sync.Mutex
	n       int
	gone    int
	order   []int
	arrived []*parked
	open    chan struct{}
	opened  bool
}

type parked struct {
	req  *http.Request
	ex   doubles.Exchange
	read bool
}

func newGate(n int, order []int) *gate {
	return &gate{n: n, order: order, open: make(chan struct{})}
}

// release is called with mu held once everybody has arrived or left.
func (g *gate) release() {
	if g.opened {
		return
	}
	g.opened = true
	read := func(p *parked) {
		if p.read {
			return
		}
		p.read = true
		if p.req.Body != nil {
			p.ex.Body, _ = ioutil.ReadAll(p.req.Body)
			p.req.Body.Close()
		}
	}
	for _, j := range g.order {
		if j < len(g.arrived) {
			read(g.arrived[j])
		}
	}
	for _, p := range g.arrived {
		read(p)
	}
	close(g.open)
}

func (g *gate) Do(req *http.Request) (*http.Response, error) {
	p := &parked{req: req, ex: doubles.Exchange{Method: req.Method, Target: req.URL.RequestURI(), Path: req.URL.Path, Header: req.Header.Clone()}}
	g.mu.Lock()
	late := g.opened
	if !late {
		g.arrived = append(g.arrived, p)
		if len(g.arrived)+g.gone >= g.n {
			g.release()
		}
	}
	g.mu.Unlock()
	if late {
		// more requests than callers: answer at once, not recorded
		if req.Body != nil {
			req.Body.Close()
		}
	} else {
		<-g.open
	}
	b := []byte(`<?xml version="1.0"?><multistatus xmlns="DAV:"/>`)
	return &http.Response{StatusCode: 207, Status: "207 Multi-Status", Proto: "HTTP/1.1", ProtoMajor: 1, ProtoMinor: 1,
		Header: http.Header{"Content-Type": {"application/xml; charset=utf-8"}}, Body: ioutil.NopCloser(bytes.NewReader(b)),
		ContentLength: int64(len(b)), Request: req}, nil
}

// left tells the gate that a caller returned; if it never arrived it will
// not, and the others must not wait for it.
func (g *gate) left(arrivedBefore func() bool) {
	g.mu.Lock()
	if !g.opened && !arrivedBefore() {
		g.gone++
		if len(g.arrived)+g.gone >= g.n {
			g.release()
		}
	}
	g.mu.Unlock()
}

func (g *gate) byPath(path string) *doubles.Exchange {
	g.mu.Lock()
	defer g.mu.Unlock()
	for _, p := range g.arrived {
		if p.ex.Path == path {
			ex := p.ex
			return &ex
		}
	}
	return nil
}

func execOverlap(c *fw.Ctx, oc *overlapCase) {
	oc.Dir, oc.Family = dirCW, "overlap"
	c.Journal(oc)
	defer c.JournalDone()
	k := len(oc.Calls)
	pristine := &overlapCase{Dir: dirCW, Family: "overlap", Procs: oc.Procs, Order: oc.Order}
	for _, cs := range oc.Calls {
		cs.Dir = dirCW
		pristine.Calls = append(pristine.Calls, cs.clone())
	}
	if oc.Procs > 0 {
		prev := runtime.GOMAXPROCS(oc.Procs)
		defer runtime.GOMAXPROCS(prev)
	}
	g := newGate(k, oc.Order)
	cl, err := carddav.NewClient(g, endpoint)
	if err != nil {
		c.Inconclusive("C09 harness: cannot construct client: " + err.Error())
		return
	}
	outcomes := make([]callOutcome, k)
	var wg sync.WaitGroup
	for i := range oc.Calls {
		wg.Add(1)
		go func(i int) {
			defer wg.Done()
			cs := oc.Calls[i]
			outcomes[i] = doCall(cl, cs, cs.Book)
			g.left(func() bool {
				for _, p := range g.arrived {
					if p.ex.Path == cs.Book {
						return true
					}
				}
				return false
			})
		}(i)
	}
	wg.Wait()
	c.Eval(k)
	c.Observe("client→wire overlap", fmt.Sprintf("K=%d requests in flight through one client, GOMAXPROCS=%d", k, runtime.GOMAXPROCS(0)), 1)
	c.Distinct(fmt.Sprintf("%s|overlap|K=%d|procs=%d", dirCW, k, oc.Procs))
	for i := range oc.Calls {
		if !reportOutcome(c, &outcomes[i], "overlap", pristine) {
			return
		}
	}
	for i, want := range pristine.Calls {
		w := &cwWitness{Family: "overlap", Case: pristine, Call: i}
		probs := analyseCW(nil, want, g.byPath(want.Book), outcomes[i].err, w)
		if len(probs) == 0 {
			c.Observe("client→wire overlap bodies", "body read after all callers arrived denotes its own caller's request", 1)
			continue
		}
		if solo := soloProblems(want); len(solo) == 0 {
			w.Problems = probs
			c.Observe("client→wire overlap bodies", "body does NOT denote its own caller's request", 1)
			c.Report(dirCW+" | overlapping calls through one client | request-differs-from-solo-call",
				fmt.Sprintf("with %d calls in flight, call #%d's request does not denote its caller's request although the same call alone does: %s", k, i+1, probs[0].What), w)
			return
		}
	}
}

// ---- generators of the two families

func genCWCase(r *rand.Rand, book string, multiget bool) *cwCase {
	if multiget {
		mg := &carddav.AddressBookMultiGet{Paths: genPaths(r, book, 0), DataRequest: toLibData(&rfc6352.Selection{Data: genAddressData(r, false)})}
		if r.Intn(10) == 0 {
			mg.DataRequest.AllProp = true // AllProp together with Props
		}
		if r.Intn(8) == 0 {
			for i := range mg.Paths {
				if r.Intn(2) == 0 {
					mg.Paths[i] = genRelName(r)
				}
			}
		}
		cs := &cwCase{Op: "multiget", Book: book, MultiGet: mg}
		addSpare(r, cs)
		return cs
	}
	q, limit := genQuery(r, false)
	lq := toLibQuery(q, limit)
	if r.Intn(10) == 0 {
		lq.DataRequest.AllProp = true
	}
	cs := &cwCase{Op: "query", Book: book, Query: lq}
	addSpare(r, cs)
	return cs
}

const spareMark = "\x7fspare-capacity"

// addSpare gives some slices of the argument spare capacity holding marked
// elements, so that a write beyond len is visible to the snapshot.
func addSpare(r *rand.Rand, cs *cwCase) {
	strs := func(l []string) []string {
		if r.Intn(3) != 0 {
			return l
		}
		n := make([]string, len(l), len(l)+1+r.Intn(3))
		copy(n, l)
		full := n[:cap(n)]
		for i := len(l); i < len(full); i++ {
			full[i] = spareMark
		}
		return n
	}
	if cs.MultiGet != nil {
		cs.MultiGet.Paths = strs(cs.MultiGet.Paths)
		cs.MultiGet.DataRequest.Props = strs(cs.MultiGet.DataRequest.Props)
		return
	}
	q := cs.Query
	q.DataRequest.Props = strs(q.DataRequest.Props)
	if r.Intn(3) == 0 {
		n := make([]carddav.PropFilter, len(q.PropFilters), len(q.PropFilters)+2)
		copy(n, q.PropFilters)
		full := n[:cap(n)]
		for i := len(q.PropFilters); i < len(full); i++ {
			full[i] = carddav.PropFilter{Name: spareMark}
		}
		q.PropFilters = n
	}
	for i := range q.PropFilters {
		pf := &q.PropFilters[i]
		if r.Intn(3) == 0 {
			n := make([]carddav.TextMatch, len(pf.TextMatches), len(pf.TextMatches)+2)
			copy(n, pf.TextMatches)
			full := n[:cap(n)]
			for j := len(pf.TextMatches); j < len(full); j++ {
				full[j] = carddav.TextMatch{Text: spareMark}
			}
			pf.TextMatches = n
		}
		if r.Intn(3) == 0 {
			n := make([]carddav.ParamFilter, len(pf.Params), len(pf.Params)+2)
			copy(n, pf.Params)
			full := n[:cap(n)]
			for j := len(pf.Params); j < len(full); j++ {
				full[j] = carddav.ParamFilter{Name: spareMark}
			}
			pf.Params = n
		}
	}
}

func distinctBooks(r *rand.Rand, n int) []string {
	seen := map[string]bool{}
	var l []string
	for len(l) < n {
		b := genBook(r)
		if seen[b] {
			b = fmt.Sprintf("/u/book-%d/", len(l))
			if seen[b] {
				continue
			}
		}
		seen[b] = true
		l = append(l, b)
	}
	return l
}

func genReuse(r *rand.Rand) *reuseCase {
	rc := &reuseCase{Books: distinctBooks(r, 2+r.Intn(2))}
	cs := genCWCase(r, rc.Books[0], r.Intn(3) != 0)
	if cs.Op == "multiget" && r.Intn(2) == 0 {
		// empty Paths: nil, or empty with or without spare capacity
		switch r.Intn(3) {
		case 0:
			cs.MultiGet.Paths = nil
		case 1:
			cs.MultiGet.Paths = []string{}
		default:
			cs.MultiGet.Paths = append(make([]string, 0, 3), spareMark, spareMark, spareMark)[:0]
		}
	}
	rc.Op, rc.Query, rc.MultiGet = cs.Op, cs.Query, cs.MultiGet
	return rc
}

func genOverlap(r *rand.Rand, procs int) *overlapCase {
	k := 2 + r.Intn(7)
	oc := &overlapCase{Procs: procs, Order: r.Perm(k)}
	for _, b := range distinctBooks(r, k) {
		oc.Calls = append(oc.Calls, genCWCase(r, b, r.Intn(3) == 0))
	}
	return oc
}

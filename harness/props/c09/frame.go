package c09

// Document framing: what XML 1.0 allows around the root element of a UTF-8
// document, and in front of the document as its encoding signature. A request
// document stays the same RFC 6352 request whatever its framing:
//
//	document ::= BOM? XMLDecl? Misc* root Misc*      Misc ::= Comment | PI | S
//
// (XML 1.0 section 2.8 production 1/22/27; section 4.3.3 and appendix F: a
// UTF-8 entity MAY begin with the byte order mark EF BB BF, which is an
// encoding signature and not part of the markup or character data.)
//
// Left out on purpose, because the statement does not oblige a server to
// them: encodings other than UTF-8 (an XML processor need not know them, and
// go-webdav's documents are UTF-8), XML 1.1, and document type declarations
// (a server may refuse DTDs wholesale, RFC 4918 section 20.6).

import (
	"math/rand"
	"strings"
)

const bom = "\xef\xbb\xbf"

// xmlDecls: every shape of production 23 for version 1.0 and UTF-8: with and
// without encoding / standalone, both quote kinds, encoding name in any case
// (section 4.3.3: names are matched case-insensitively), blanks where S is
// allowed (around '=' too: production 25).
var xmlDecls = []string{
	`<?xml version="1.0"?>`,
	`<?xml version="1.0" encoding="UTF-8"?>`,
	`<?xml version='1.0' encoding='utf-8'?>`,
	`<?xml version="1.0" encoding="Utf-8" ?>`,
	`<?xml version="1.0" encoding="UTF-8" standalone="yes"?>`,
	`<?xml version="1.0" encoding='UTF-8' standalone='no'?>`,
	`<?xml version="1.0" standalone="no"?>`,
	"<?xml\tversion=\"1.0\"\n  encoding=\"UTF-8\"\r\n?>",
	`<?xml version = "1.0" encoding = "UTF-8"?>`,
}

// miscs: runs of Misc (comments, processing instructions, white space).
var miscs = []string{
	"\n", " ", "\r\n", "\t \n\n", "<!-- c -->", "<!---->", "<?pi?>", "<?pi x y='z'?>", "\n<!-- a <b> &amp; ]]> -->\n", "<!-- c --><?pi x?><!-- d -->\n\t ",
	"<?xml-stylesheet href=\"a.xsl\"?>\n", "<!-- <?xml version=\"1.0\"?> -->", strings.Repeat(" ", 600) + "\n",
}

// frame is one framing of a document.
type frame struct {
	BOM   bool
	Decl  string // "" = no XML declaration
	Lead  string // Misc* between the declaration (or the start) and the root
	Trail string // Misc* behind the root
}

// class abstracts a framing for observation tables.
func (f *frame) class() string {
	var l []string
	if f.BOM {
		l = append(l, "BOM")
	}
	if f.Decl != "" {
		l = append(l, "XML declaration")
	}
	if f.Lead != "" {
		l = append(l, miscClass(f.Lead)+" before the root")
	}
	if f.Trail != "" {
		l = append(l, "Misc behind the root")
	}
	if len(l) == 0 {
		return "bare root"
	}
	return strings.Join(l, " + ")
}

func miscClass(s string) string {
	c, p := strings.Contains(s, "<!--"), strings.Contains(s, "<?")
	switch {
	case c || p:
		return "comments/PIs"
	}
	return "blanks"
}

// apply frames a rendered root element (doc must start with '<' of the root:
// no declaration of its own).
func (f *frame) apply(doc string) string {
	var sb strings.Builder
	if f.BOM {
		sb.WriteString(bom)
	}
	sb.WriteString(f.Decl)
	sb.WriteString(f.Lead)
	sb.WriteString(doc)
	sb.WriteString(f.Trail)
	return sb.String()
}

// frameGrid is the deterministic part: every declaration with and without
// BOM, every Misc run in front of and behind the root with and without BOM and
// declaration.
func frameGrid() []frame {
	var l []frame
	for _, b := range []bool{false, true} {
		l = append(l, frame{BOM: b})
		for _, d := range xmlDecls {
			l = append(l, frame{BOM: b, Decl: d})
		}
		for _, m := range miscs {
			l = append(l, frame{BOM: b, Lead: m}, frame{BOM: b, Trail: m},
				frame{BOM: b, Decl: xmlDecls[1], Lead: m}, frame{BOM: b, Decl: xmlDecls[0], Lead: m, Trail: m})
		}
	}
	return l
}

// genFrame draws a random framing.
func genFrame(r *rand.Rand) frame {
	var f frame
	f.BOM = r.Intn(3) == 0
	if r.Intn(2) == 0 {
		f.Decl = xmlDecls[r.Intn(len(xmlDecls))]
	}
	for k := r.Intn(3); k > 0; k-- {
		f.Lead += miscs[r.Intn(len(miscs))]
	}
	for k := r.Intn(3); k > 0; k-- {
		f.Trail += miscs[r.Intn(len(miscs))]
	}
	return f
}

// ownDecl is the only declaration xmltree.Render writes by itself.
const ownDecl = `<?xml version="1.0" encoding="utf-8"?>`

// reframe replaces the framing xmltree.Render gave a document (at most its
// own declaration, a newline behind it and one behind the root).
func reframe(doc string, f frame) string {
	doc = strings.TrimPrefix(doc, ownDecl)
	doc = strings.TrimPrefix(doc, "\n")
	return f.apply(doc)
}

// unsigned removes the encoding signature: what is left is the document an
// XML reader sees (appendix F).
func unsigned(body string) string { return strings.TrimPrefix(body, bom) }

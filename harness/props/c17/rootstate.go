package c17

import (
	"encoding/json"
	"errors"
	"fmt"
	"io/ioutil"
	"math/rand"
	"os"
	"path/filepath"
	"strings"
	"syscall"

	"github.com/emersion/go-webdav"
	"github.com/emersion/go-webdav/verifharness/fw"
	"github.com/emersion/go-webdav/verifharness/model/davtree"
	"github.com/emersion/go-webdav/verifharness/props/fsx"
)

// The root-state family: the statement quantifies over request histories, and
// a history may destroy the served directory itself (DELETE / is an ordinary
// request) or meet a served directory that the host has taken away, replaced
// by a file or by a link that leads nowhere - and go on with further requests.
// The other slices rebuild the served directory before every case, so every
// failure they see is a failure of an entry BELOW an intact root. Here the
// root itself is the variable: every method on the root and below it, in every
// state of the root, under every spelling of the configured directory; and
// random histories in which requests and host events change the root's state
// while the history continues. Only the leak scan judges: the statement says
// nothing about which status a request gets when the served directory is gone.

// rootStep is one step of a root-state history: a host-side event or a request.
type rootStep struct {
	Host string       `json:"host,omitempty"`
	Req  *davtree.Req `json:"request,omitempty"`
}

// host-side events: what the host (or an earlier request) may do to the served
// directory between two requests.
var rootEvents = []string{
	"present",          // a directory holding /a/, /a/b, /f
	"empty",            // an empty directory
	"remove-root",      // the served directory is removed
	"remove-parent",    // the directory that holds it is removed
	"root-is-a-file",   // a regular file has its name
	"root-dangling",    // a symbolic link to a missing name has its name
	"root-link-loop",   // a symbolic link to itself has its name
	"root-link-to-dir", // a symbolic link to a directory elsewhere in the sandbox
}

type rootEnv struct {
	c *fw.Ctx
	e *fsx.Env
}

func (re *rootEnv) sandbox() string { return filepath.Dir(re.e.Root) }

// reset rebuilds the sandbox from nothing and configures the handler.
func (re *rootEnv) reset(spelling int) string {
	re.e.UseRootSpelling(-1) // back to the worker's own working directory
	os.RemoveAll(re.sandbox())
	re.host("present")
	return re.e.UseRootSpelling(spelling)
}

func (re *rootEnv) host(ev string) {
	root := re.e.Root
	clear := func() {
		os.RemoveAll(root)
		os.MkdirAll(re.sandbox(), 0755)
	}
	switch ev {
	case "present":
		clear()
		os.MkdirAll(filepath.Join(root, "a"), 0755)
		ioutil.WriteFile(filepath.Join(root, "a", "b"), []byte("content of b"), 0644)
		ioutil.WriteFile(filepath.Join(root, "f"), []byte("content of f"), 0644)
	case "empty":
		clear()
		os.Mkdir(root, 0755)
	case "remove-root":
		os.RemoveAll(root)
	case "remove-parent":
		os.RemoveAll(re.sandbox())
	case "root-is-a-file":
		clear()
		ioutil.WriteFile(root, []byte("a file where the served directory was"), 0644)
	case "root-dangling":
		clear()
		os.Symlink("no-such-target", root)
	case "root-link-loop":
		clear()
		os.Symlink(filepath.Base(root), root)
	case "root-link-to-dir":
		clear()
		other := filepath.Join(re.sandbox(), "elsewhere")
		os.MkdirAll(filepath.Join(other, "a"), 0755)
		ioutil.WriteFile(filepath.Join(other, "f"), []byte("content of f"), 0644)
		os.Symlink("elsewhere", root)
	}
}

// configured is the directory string the handler was given (it may be
// relative to the working directory).
func (re *rootEnv) configured() string {
	if h, ok := re.e.H.(*webdav.Handler); ok {
		if l, ok := h.FileSystem.(webdav.LocalFileSystem); ok {
			return string(l)
		}
	}
	return re.e.Root
}

// rootClass is the state of the served directory as the serving process sees
// it just before a request: dir, missing, file, link-dangling, link-loop,
// link-to-dir.
func (re *rootEnv) rootClass() string {
	p := strings.TrimRight(re.configured(), "/")
	li, err := os.Lstat(p)
	if err != nil {
		return "missing"
	}
	if li.Mode()&os.ModeSymlink != 0 {
		fi, err := os.Stat(p)
		switch {
		case errors.Is(err, syscall.ELOOP):
			return "link-loop"
		case err != nil:
			return "link-dangling"
		case fi.IsDir():
			return "link-to-dir"
		}
		return "link-to-file"
	}
	if li.IsDir() {
		return "dir"
	}
	return "file"
}

// rootKeyClass is the root state at the granularity of finding keys: what the
// operating system answers for the root (ENOENT, ENOTDIR, ELOOP, a directory).
func rootKeyClass(cls string) string {
	switch cls {
	case "missing", "link-dangling":
		return "gone"
	case "file", "link-to-file":
		return "not-a-directory"
	}
	return cls
}

// disclosed scans one response. The absolute paths first ("body", "header");
// then - a separate class of keys, "body(directory-name-only)" - the names of
// the served directory and of its parent alone: a root configured relative to
// the working directory can only ever be disclosed in that form, and no
// request of this package's own families carries these names, so in a response
// they can only come from the host.
func disclosed(e *fsx.Env, resp fsx.Resp) (in, where string) {
	sandbox := filepath.Dir(e.Root)
	classes := [][]string{
		{e.Root, e.Resolved, e.Base, sandbox},
		{filepath.Base(e.Root), filepath.Base(sandbox)},
	}
	for ci, needles := range classes {
		hit := func(s string) bool {
			for _, n := range needles {
				if n != "" && strings.Contains(s, n) {
					return true
				}
			}
			return false
		}
		if hit(string(resp.Body)) {
			where = "body"
		}
		for k, vs := range resp.Header {
			for _, v := range vs {
				if hit(v) {
					where = "header " + k
				}
			}
		}
		if where == "" {
			continue
		}
		in = strings.SplitN(where, " ", 2)[0]
		if ci == 1 {
			in += "(directory-name-only)"
			where += " (the directory's name, not its absolute path)"
		}
		return in, where
	}
	return "", ""
}

func rootLeakOp(body string) string {
	for _, op := range []string{"rename", "mkdir", "open", "stat", "lstat", "unlinkat", "remove", "readdirent", "readlink", "symlink", "link", "openat", "fdopendir", "chdir", "getwd", "chmod", "Rel"} {
		if strings.Contains(body, op+" ") || strings.Contains(body, op+":") {
			return "op=" + op
		}
	}
	return "op=?"
}

// serve executes one request of a history and scans the answer.
func (re *rootEnv) serve(what string, spelling int, spellName string, trace []rootStep, r davtree.Req) fsx.Resp {
	c, e := re.c, re.e
	req, err := fsx.BuildRequest(r)
	if err != nil {
		return fsx.Resp{Code: -1}
	}
	cls := re.rootClass()
	c.Journal(map[string]interface{}{"slice": "root-state", "root_spelling": spelling, "root_history": trace})
	resp := e.Serve(req)
	c.JournalDone()
	c.Eval(1)
	c.Observe("root_state_status", fmt.Sprintf("root=%s %s %d", cls, r.Method, resp.Code), 1)
	c.Distinct(fmt.Sprintf("rootstate|%s|%s|%v|%d", cls, r.Method, r.Path == "/", resp.Code))
	if resp.Panicked {
		// not a disclosure; counted so that the evidence shows it
		c.Observe("root_state", "handler panicked (root="+cls+")", 1)
		return resp
	}
	if in, where := disclosed(e, resp); in != "" {
		body := string(resp.Body)
		if len(body) > 600 {
			body = body[:600] + "…"
		}
		key := fmt.Sprintf("%s|root=%s|status=%d|in=%s|%s", r.Method, rootKeyClass(cls), resp.Code, in, rootLeakOp(string(resp.Body)))
		c.Report(key, fmt.Sprintf("%s (served directory configured %s, state %s): response discloses the served directory's host path (%s): %.200q", what, spellName, cls, where, string(resp.Body)),
			map[string]interface{}{"root_history": trace, "root_spelling": spelling, "root_state": cls, "status": resp.Code, "body": body})
	}
	return resp
}

// rootRequests: every method on the root, on a member, on a member of a
// member and on a new name; COPY and MOVE from and onto each of them.
func rootRequests() []davtree.Req {
	var l []davtree.Req
	for _, p := range []string{"/", "/a", "/a/b", "/f", "/new"} {
		l = append(l,
			davtree.Req{Method: "OPTIONS", Path: p},
			davtree.Req{Method: "GET", Path: p},
			davtree.Req{Method: "HEAD", Path: p},
			davtree.Req{Method: "PUT", Path: p, HasBody: true, Body: "new content"},
			davtree.Req{Method: "DELETE", Path: p},
			davtree.Req{Method: "MKCOL", Path: p},
			davtree.Req{Method: "PROPFIND", Path: p, Depth: "0", PropBody: "five"},
			davtree.Req{Method: "PROPFIND", Path: p, Depth: "1"},
			davtree.Req{Method: "PROPFIND", Path: p, Depth: "infinity", PropBody: "five"},
			davtree.Req{Method: "POST", Path: p},
			davtree.Req{Method: "PROPPATCH", Path: p},
		)
		for _, d := range []string{"/", "/a", "/f", "/x", "/a/y"} {
			if d == p {
				continue
			}
			for _, m := range []string{"COPY", "MOVE"} {
				l = append(l, davtree.Req{Method: m, Path: p, Dest: d, DestForm: "path"})
				l = append(l, davtree.Req{Method: m, Path: p, Dest: d, DestForm: "url", Overwrite: "F"})
			}
		}
	}
	return l
}

// rootStates is the enumerated part: (state of the root) x (spelling of the
// configured directory) x (request), each on a sandbox built from nothing.
// The state "deleted-by-request" is reached through the protocol alone.
func rootStates(c *fw.Ctx) {
	e, err := fsx.NewEnv(c, mon, "rootstate")
	if err != nil {
		c.Inconclusive(err.Error())
		return
	}
	defer e.Close()
	re := &rootEnv{c: c, e: e}
	reqs := rootRequests()
	setters := []rootStep{{Req: &davtree.Req{Method: "DELETE", Path: "/"}}}
	for _, ev := range rootEvents {
		setters = append(setters, rootStep{Host: ev})
	}
	idx := 0
	for si, set := range setters {
		for spelling := -1; spelling < 6; spelling++ {
			for ri, r := range reqs {
				idx++
				if !c.Mine(idx) {
					continue
				}
				// quick tier: every (state, request) pair under two of the
				// seven spellings, which two rotates with the pair and the seed
				if !c.Thorough() {
					k := (si + ri + int(c.Seed)) % 7
					if (spelling+1) != k && (spelling+1) != (k+3)%7 {
						continue
					}
				}
				name := re.reset(spelling)
				trace := []rootStep{set}
				if set.Req != nil {
					re.serve("root-state setter", spelling, name, trace, *set.Req)
				} else {
					re.host(set.Host)
				}
				r := r
				trace = append(trace, rootStep{Req: &r})
				re.serve("root-state single request", spelling, name, trace, r)
				c.Observe("root_state", "cases (state x spelling x request)", 1)
			}
		}
	}
	re.e.UseRootSpelling(-1)
}

func randRootReq(r *rand.Rand) davtree.Req {
	paths := []string{"/", "/", "/a", "/a/b", "/f", "/new", "/a/new", "/new/deeper", "/f/below"}
	p := paths[r.Intn(len(paths))]
	switch r.Intn(16) {
	case 0:
		return davtree.Req{Method: "OPTIONS", Path: p}
	case 1, 2:
		return davtree.Req{Method: "GET", Path: p}
	case 3:
		return davtree.Req{Method: "HEAD", Path: p}
	case 4, 5:
		return davtree.Req{Method: "PUT", Path: p, HasBody: true, Body: []string{"", "x", "some content\n"}[r.Intn(3)]}
	case 6, 7:
		return davtree.Req{Method: "DELETE", Path: p, TrailingSlash: r.Intn(4) == 0}
	case 8, 9:
		return davtree.Req{Method: "MKCOL", Path: p}
	case 10, 11, 12:
		return davtree.Req{Method: "PROPFIND", Path: p, Depth: []string{"", "0", "1", "infinity"}[r.Intn(4)], PropBody: []string{"", "five"}[r.Intn(2)]}
	}
	m := "COPY"
	if r.Intn(2) == 0 {
		m = "MOVE"
	}
	req := davtree.Req{Method: m, Path: p, Dest: paths[r.Intn(len(paths))], DestForm: []string{"path", "path", "url", "dotseg", "slash"}[r.Intn(5)]}
	if r.Intn(3) == 0 {
		req.Overwrite = []string{"T", "F"}[r.Intn(2)]
	}
	if m == "COPY" && r.Intn(4) == 0 {
		req.Depth = "0"
	}
	return req
}

// rootHistories: random histories that never rebuild the served directory
// between steps. Requests (half of them aimed at the root itself: DELETE /,
// MKCOL /, PUT /, MOVE and COPY from and onto /) and host events change the
// state of the root; the history goes on whatever the state.
func rootHistories(c *fw.Ctx, n, steps int) {
	e, err := fsx.NewEnv(c, mon, "roothist")
	if err != nil {
		c.Inconclusive(err.Error())
		return
	}
	defer e.Close()
	re := &rootEnv{c: c, e: e}
	for hi := 0; hi < n; hi++ {
		if !c.Mine(hi) {
			continue
		}
		r := c.Rand("root-history", hi)
		spelling := hi%7 - 1
		name := re.reset(spelling)
		var trace []rootStep
		seen := map[string]bool{}
		before := c.FindingCount()
		for s := 0; s < steps; s++ {
			if r.Intn(7) == 0 {
				ev := rootEvents[r.Intn(len(rootEvents))]
				re.host(ev)
				trace = append(trace, rootStep{Host: ev})
				continue
			}
			req := randRootReq(r)
			trace = append(trace, rootStep{Req: &req})
			cls := re.rootClass()
			if !seen[cls] {
				seen[cls] = true
				c.Observe("root_state", "histories that met root="+cls, 1)
			}
			re.serve(fmt.Sprintf("root-state history %d step %d", hi, s), spelling, name, append([]rootStep(nil), trace...), req)
			if c.FindingCount() != before {
				break // reported: the rest of the history would repeat it
			}
		}
		c.Observe("root_state", "histories", 1)
	}
	re.e.UseRootSpelling(-1)
}

// replayRootHistory re-executes a root-state witness and prints every step.
func replayRootHistory(c *fw.Ctx, w json.RawMessage) bool {
	var wit struct {
		History  []rootStep `json:"root_history"`
		Spelling int        `json:"root_spelling"`
	}
	if err := json.Unmarshal(w, &wit); err != nil || len(wit.History) == 0 {
		return false
	}
	e, err := fsx.NewEnv(c, mon, "replay-root")
	if err != nil {
		fmt.Println(err)
		return true
	}
	defer e.Close()
	re := &rootEnv{c: c, e: e}
	name := re.reset(wit.Spelling)
	fmt.Printf("served directory %s configured as %q (%s)\n", e.Root, re.configured(), name)
	for i, st := range wit.History {
		if st.Req == nil {
			re.host(st.Host)
			fmt.Printf("step %d: host event %s -> root is %s\n", i, st.Host, re.rootClass())
			continue
		}
		cls := re.rootClass()
		resp := re.serve("replay", wit.Spelling, name, wit.History[:i+1], *st.Req)
		fmt.Printf("step %d: root=%s %s %s dest=%q -> %d %.300q\n", i, cls, st.Req.Method, st.Req.Path, st.Req.Dest, resp.Code, string(resp.Body))
	}
	re.e.UseRootSpelling(-1)
	return true
}

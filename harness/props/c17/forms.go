package c17

import (
	"fmt"
	"strings"

	"github.com/emersion/go-webdav/verifharness/doubles"
	"github.com/emersion/go-webdav/verifharness/fw"
	"github.com/emersion/go-webdav/verifharness/model/davtree"
	"github.com/emersion/go-webdav/verifharness/props/fsx"
)

// targetForms: request paths and Destination values outside the clean
// absolute paths of the model universe - the inputs the file system refuses
// itself (NUL, no leading slash, empty), dot-dot chains that clean to
// something inside the root, backslashes, bytes that are not UTF-8, percent
// signs that survive decoding, paths of 4 KiB and more. They reach the
// handler as decoded paths (URL.Path set directly, as a front end or mux
// that rewrites paths would), and as literal Destination header text. The
// refusal texts quote what the client sent; none of the forms contains a name
// of the sandbox, so a needle in the answer comes from the host.
func targetForms() [][2]string {
	long := strings.Repeat("p", 200)
	l := [][2]string{
		{"nul", "/\x00x"}, {"nul", "/a\x00/b"}, {"nul", "\x00"}, {"nul", "/../\x00"},
		{"not-absolute", ""}, {"not-absolute", "."}, {"not-absolute", ".."}, {"not-absolute", "a"}, {"not-absolute", "a/b"}, {"not-absolute", "../../x"},
		{"dotdot", "/.."}, {"dotdot", "/../"}, {"dotdot", "/../../../x"}, {"dotdot", "/a/../../x"}, {"dotdot", "/missing/../../../f"}, {"dotdot", "/f/.."}, {"dotdot", "/f/../.."}, {"dotdot", "//..//..//a"}, {"dotdot", "/./.././a/b"},
		{"backslash", "/..\\..\\x"}, {"backslash", "/a\\b"}, {"backslash", "\\"}, {"backslash", "/a\\..\\../x"},
		{"bytes", "/\xff\xfe"}, {"bytes", "/\xc0\xae\xc0\xae/x"}, {"bytes", "/a/\xff"}, {"bytes", "/line\nbreak"}, {"bytes", "/cr\r\nlf"},
		{"percent", "/%2e%2e/x"}, {"percent", "/a%2Fb"}, {"percent", "/%00"}, {"percent", "/%"}, {"percent", "/%zz"},
		{"long", "/" + strings.Repeat(long+"/", 21) + "x"}, {"long", "/" + strings.Repeat("L", 4200)}, {"long", "/a/" + strings.Repeat("../", 1500) + "x"},
		{"odd", "*"}, {"odd", "/..."}, {"odd", "/.. /x"}, {"odd", "/..;/x"}, {"odd", "/a/b/"}, {"odd", "//"}, {"odd", "/a//b"}, {"odd", "/ "},
	}
	return l
}

// formKeyClass is the class of a form at the granularity of finding keys:
// what the file system's own path check makes of it.
func formKeyClass(s string) string {
	switch {
	case strings.Contains(s, "\x00"):
		return "nul"
	case !strings.HasPrefix(s, "/"):
		return "not-absolute"
	case len(s) > 255:
		return "long"
	}
	return "absolute"
}

func targetFormSlice(c *fw.Ctx) {
	e, err := fsx.NewEnv(c, mon, "forms")
	if err != nil {
		c.Inconclusive(err.Error())
		return
	}
	defer e.Close()
	tree := davtree.Tree{"/f": {Data: "c"}, "/a": {Dir: true}, "/a/b": {Data: "g"}}
	methods := []string{"OPTIONS", "GET", "HEAD", "PUT", "DELETE", "MKCOL", "PROPFIND", "COPY", "MOVE", "PROPPATCH", "FOO"}
	idx := 0
	for _, f := range targetForms() {
		for _, channel := range []string{"target", "destination"} {
			for _, m := range methods {
				if channel == "destination" && m != "COPY" && m != "MOVE" {
					continue
				}
				for _, src := range []string{"/f", "/a"} {
					if channel == "target" && src != "/f" {
						continue
					}
					idx++
					if !c.Mine(idx) {
						continue
					}
					if err := e.Materialise(tree); err != nil {
						c.Inconclusive(err.Error())
						return
					}
					base := davtree.Req{Method: m, Path: src}
					switch m {
					case "PUT":
						base.HasBody, base.Body = true, "data"
					case "COPY", "MOVE":
						base.DestForm, base.Dest = "path", "/a/target"
					}
					req, err := fsx.BuildRequest(base)
					if err != nil {
						continue
					}
					sreq, err := doubles.ServerRequest(req)
					if err != nil {
						continue
					}
					if channel == "target" {
						sreq.URL.Path, sreq.URL.RawPath = f[1], ""
					} else {
						sreq.Header = sreq.Header.Clone()
						sreq.Header["Destination"] = []string{f[1]}
					}
					short := f[1]
					if len(short) > 60 {
						short = fmt.Sprintf("%s…(%d bytes)", short[:40], len(f[1]))
					}
					wit := map[string]interface{}{"tree": tree.Shape(), "method": m, "channel": channel, "form_class": f[0], "form": short, "source": src}
					c.Journal(wit)
					resp := e.ServeServerSide(sreq)
					c.JournalDone()
					c.Eval(1)
					c.Observe("target_form_status", fmt.Sprintf("%s %s %d", channel, f[0], resp.Code), 1)
					c.Distinct(fmt.Sprintf("form|%s|%s|%s|%d", channel, f[0], m, resp.Code))
					if resp.Panicked {
						c.Observe("target_form_status", "handler panicked", 1)
						continue
					}
					if in, where := disclosed(e, resp); in != "" {
						wit["status"], wit["body"] = resp.Code, fmt.Sprintf("%.600s", string(resp.Body))
						c.Report(fmt.Sprintf("%s|%s-form=%s|status=%d|in=%s|%s", m, channel, formKeyClass(f[1]), resp.Code, in, rootLeakOp(string(resp.Body))),
							fmt.Sprintf("%s with %s %q: response discloses the served directory's host path (%s): %.200q", m, channel, short, where, string(resp.Body)), wit)
					}
				}
			}
		}
	}
}

package c17

import (
	"bufio"
	"bytes"
	"fmt"
	"io/ioutil"
	"net/http"
	"os"
	"os/exec"
	"path/filepath"
	"strings"
	"time"

	"github.com/emersion/go-webdav/verifharness/fw"
)

func straceUsable() bool {
	if _, err := exec.LookPath("strace"); err != nil {
		return false
	}
	out, err := exec.Command("strace", "-f", "-qq", "-e", "trace=%file", "-o", "/dev/null", "/bin/true").CombinedOutput()
	return err == nil && !bytes.Contains(out, []byte("Operation not permitted"))
}

type faultCfg struct {
	Syscalls string `json:"syscalls"`
	Errno    string `json:"errno"`
	// Attach: strace is attached to the server once it listens and injects on
	// every path (no -P), so that the entries the server itself names - the
	// staging files and directories of PUT, COPY and MOVE next to their
	// targets - fail too. When: which invocations fail ("" = all, "2+2" =
	// every second, "3+3" = every third), so that an operation gets past its
	// first system call and fails at a later one.
	Attach bool   `json:"attach,omitempty"`
	When   string `json:"when,omitempty"`
}

// faultSlice makes the operating system report failure modes the API cannot
// provoke by itself: a davserver child runs under strace with fault injection
// (`-e inject=<syscalls>:error=<errno>`, restricted with -P to the paths of
// the served tree), every method is issued, and every response is scanned.
// A server that dies (panic) is reported too.
func faultSlice(c *fw.Ctx) {
	bin := os.Getenv("VHARNESS_DAVSERVER")
	if bin == "" || !straceUsable() {
		if c.Shard == 0 {
			c.Note("os_fault_slice", "skipped: needs strace (ptrace) and the davserver binary")
		}
		return
	}
	errnos := []string{"EIO", "ENOSPC", "EMFILE", "EROFS", "EXDEV", "ELOOP", "ENOMEM", "EDQUOT", "EBUSY", "ENFILE", "EACCES", "EPERM", "ENAMETOOLONG", "ENOTEMPTY", "EINVAL", "ESTALE"}
	groups := []string{"openat", "mkdirat", "renameat,renameat2", "unlinkat", "newfstatat", "openat,mkdirat,renameat,renameat2,unlinkat", "getdents64", "write,pwrite64", "read,pread64"}
	if !c.Thorough() {
		errnos = []string{"EIO", "ENOSPC", "EMFILE", "EROFS", "EXDEV", "ELOOP", "EACCES", "ENOTEMPTY"}
	}
	idx := 0
	for _, g := range groups {
		for _, e := range errnos {
			idx++
			if !c.Mine(idx) {
				continue
			}
			runFaultServer(c, bin, faultCfg{Syscalls: g, Errno: e}, idx)
		}
	}
	// the same with strace attached to the running server and no path filter
	// (the idle server makes none of these calls between requests)
	agroups := []string{"openat", "mkdirat", "renameat,renameat2", "unlinkat", "fchmodat", "newfstatat", "openat,mkdirat,renameat,renameat2,unlinkat,fchmodat"}
	whens := []string{"", "2+2", "3+3"}
	for gi, g := range agroups {
		for wi, w := range whens {
			for ei, e := range errnos {
				// quick tier: one errno per (group, when) pair, rotating
				if !c.Thorough() && ei != (gi+2*wi+int(c.Seed))%len(errnos) {
					continue
				}
				idx++
				if !c.Mine(idx) {
					continue
				}
				runFaultServer(c, bin, faultCfg{Syscalls: g, Errno: e, Attach: true, When: w}, idx)
			}
		}
	}
	if c.Shard == 0 {
		c.Note("os_fault_slice", fmt.Sprintf("active: %d syscall groups x %d errno values injected by strace into a davserver child on the named paths of the tree; %d groups x %d invocation patterns injected on every path by an strace attached to the running server", len(groups), len(errnos), len(agroups), len(whens)))
	}
}

// allThreadsTraced: every task of the process has a tracer.
func allThreadsTraced(pid int) bool {
	tasks, err := ioutil.ReadDir(fmt.Sprintf("/proc/%d/task", pid))
	if err != nil || len(tasks) == 0 {
		return false
	}
	for _, t := range tasks {
		b, err := ioutil.ReadFile(fmt.Sprintf("/proc/%d/task/%s/status", pid, t.Name()))
		if err != nil {
			continue // the thread has just ended
		}
		i := bytes.Index(b, []byte("TracerPid:"))
		if i < 0 {
			return false
		}
		f := strings.Fields(string(b[i+len("TracerPid:"):]))
		if len(f) == 0 || f[0] == "0" {
			return false
		}
	}
	return true
}

func runFaultServer(c *fw.Ctx, bin string, cfg faultCfg, idx int) {
	base := filepath.Join(c.WorkDir, fmt.Sprintf("fault-sandbox-q7x9z-%d", idx))
	root := filepath.Join(base, "served-root-k3j5h7")
	defer os.RemoveAll(base)
	rebuild := func() {
		os.RemoveAll(root)
		os.MkdirAll(filepath.Join(root, "d"), 0755)
		os.MkdirAll(filepath.Join(root, "e"), 0755)
		ioutil.WriteFile(filepath.Join(root, "f"), []byte("content of f"), 0644)
		ioutil.WriteFile(filepath.Join(root, "d", "g"), []byte("content of g"), 0644)
	}
	rebuild()
	inject := "inject=" + cfg.Syscalls + ":error=" + cfg.Errno
	if cfg.When != "" {
		inject += ":when=" + cfg.When
	}
	args := []string{"-f", "-qq", "-o", "/dev/null", "-e", "trace=" + cfg.Syscalls, "-e", inject}
	var cmd *exec.Cmd
	if cfg.Attach {
		cmd = exec.Command(bin, root)
	} else {
		for _, p := range []string{"", "f", "d", "d/g", "e", "new", "d/new", "newdir", "d/sub", "newdir/g", "e/f"} {
			args = append(args, "-P", filepath.Join(root, p))
		}
		args = append(args, bin, root)
		cmd = exec.Command("strace", args...)
	}
	cmd.Dir = "/"
	out, _ := cmd.StdoutPipe()
	if err := cmd.Start(); err != nil {
		c.Inconclusive("fault slice: cannot start the server: " + err.Error())
		return
	}
	exited := make(chan struct{})
	go func() { cmd.Wait(); close(exited) }()
	defer func() {
		select {
		case <-exited:
		default:
			cmd.Process.Kill()
			<-exited
		}
	}()
	lineCh := make(chan string, 1)
	go func() {
		sc := bufio.NewScanner(out)
		if sc.Scan() {
			lineCh <- sc.Text()
		} else {
			lineCh <- ""
		}
	}()
	addr := ""
	select {
	case l := <-lineCh:
		addr = strings.TrimPrefix(l, "LISTEN ")
	case <-time.After(60 * time.Second):
	}
	if addr == "" {
		// the injected fault may have hit the server's own start-up; not a verdict
		c.Observe("os_fault_slice", "server-did-not-start "+cfg.Syscalls+"/"+cfg.Errno, 1)
		return
	}
	if cfg.Attach {
		tracer := exec.Command("strace", append(args, "-p", fmt.Sprint(cmd.Process.Pid))...)
		tracer.Dir = "/"
		if err := tracer.Start(); err != nil {
			c.Inconclusive("fault slice: cannot start strace: " + err.Error())
			return
		}
		tdone := make(chan struct{})
		go func() { tracer.Wait(); close(tdone) }()
		defer func() {
			select {
			case <-tdone:
			default:
				tracer.Process.Kill()
				<-tdone
			}
		}()
		// wait until every thread of the server is traced (synchronisation
		// only; nothing is judged by time)
		attached := false
		for i := 0; i < 600 && !attached; i++ {
			select {
			case <-tdone:
				i = 600
				continue
			default:
			}
			if allThreadsTraced(cmd.Process.Pid) {
				attached = true
				break
			}
			time.Sleep(50 * time.Millisecond)
		}
		if !attached {
			c.Observe("os_fault_slice", "strace-did-not-attach "+cfg.Syscalls+"/"+cfg.Errno, 1)
			return
		}
		c.Observe("os_fault_slice", "servers with strace attached (faults on every path)", 1)
	}
	type rq struct{ m, p, dest, depth, ow string }
	reqs := []rq{
		{"OPTIONS", "/f", "", "", ""}, {"GET", "/f", "", "", ""}, {"HEAD", "/f", "", "", ""}, {"GET", "/d/g", "", "", ""},
		{"PUT", "/f", "", "", ""}, {"PUT", "/new", "", "", ""}, {"PUT", "/d/new", "", "", ""},
		{"DELETE", "/f", "", "", ""}, {"DELETE", "/d", "", "", ""}, {"DELETE", "/e", "", "", ""},
		{"MKCOL", "/newdir", "", "", ""}, {"MKCOL", "/d/sub", "", "", ""}, {"MKCOL", "/d", "", "", ""},
		{"PROPFIND", "/", "", "1", ""}, {"PROPFIND", "/d", "", "infinity", ""}, {"PROPFIND", "/f", "", "0", ""}, {"PROPFIND", "/", "", "infinity", ""},
		{"COPY", "/f", "/new", "", ""}, {"COPY", "/d", "/newdir", "", ""}, {"COPY", "/f", "/d/g", "", ""}, {"COPY", "/d", "/e", "", ""},
		{"MOVE", "/f", "/new", "", ""}, {"MOVE", "/d", "/newdir", "", ""}, {"MOVE", "/f", "/d/g", "", ""}, {"MOVE", "/f", "/e/f", "", ""},
		{"MOVE", "/d", "/e", "", ""}, {"COPY", "/d", "/e", "0", "T"}, {"COPY", "/f", "/d/g", "", "F"}, {"MOVE", "/f", "/new", "", "F"}, {"MOVE", "/d", "/f", "infinity", "T"},
	}
	needles := []string{root, base}
	hc := &http.Client{Timeout: 60 * time.Second}
	for _, r := range reqs {
		rebuild()
		var body *strings.Reader
		var req *http.Request
		if r.m == "PUT" {
			body = strings.NewReader(strings.Repeat("new data ", 2000))
			req, _ = http.NewRequest(r.m, "http://"+addr+r.p, body)
		} else {
			req, _ = http.NewRequest(r.m, "http://"+addr+r.p, nil)
		}
		if r.dest != "" {
			req.Header.Set("Destination", r.dest)
		}
		if r.depth != "" {
			req.Header.Set("Depth", r.depth)
		}
		if r.ow != "" {
			req.Header.Set("Overwrite", r.ow)
		}
		c.Journal(map[string]interface{}{"fault": cfg, "request": r.m + " " + r.p})
		resp, err := hc.Do(req)
		c.JournalDone()
		if err != nil {
			select {
			case <-exited:
				c.Report(fmt.Sprintf("os-fault-slice|%s|%s|server-died", r.m, cfg.Syscalls),
					fmt.Sprintf("the server process died while answering %s %s under injected %s on %s", r.m, r.p, cfg.Errno, cfg.Syscalls),
					map[string]interface{}{"fault": cfg, "method": r.m, "path": r.p, "dest": r.dest})
				return
			default:
			}
			// the connection itself may be hit by read/write injection: not a verdict
			c.Observe("os_fault_slice", "transport-error", 1)
			continue
		}
		b, _ := ioutil.ReadAll(resp.Body)
		resp.Body.Close()
		c.Eval(1)
		c.Observe("os_fault_status", fmt.Sprintf("%s %d", r.m, resp.StatusCode), 1)
		if resp.StatusCode >= 500 {
			c.Observe("os_fault_injected_failures", cfg.Syscalls+" "+cfg.Errno, 1)
		}
		c.Distinct(fmt.Sprintf("osfault|%s|%s|%s|%d", r.m, cfg.Syscalls, cfg.Errno, resp.StatusCode))
		hay := string(b)
		for k, vs := range resp.Header {
			hay += "\n" + k + ": " + strings.Join(vs, ",")
		}
		for _, n := range needles {
			if strings.Contains(hay, n) {
				c.Report(fmt.Sprintf("os-fault-slice|%s|%s|status=%d|host-path-in-response", r.m, cfg.Syscalls, resp.StatusCode),
					fmt.Sprintf("%s %s under injected %s on %s: response discloses the host path: %.200q", r.m, r.p, cfg.Errno, cfg.Syscalls, string(b)),
					map[string]interface{}{"fault": cfg, "method": r.m, "path": r.p, "dest": r.dest, "status": resp.StatusCode, "body": string(b)})
				break
			}
		}
	}
	http.Get("http://" + addr + "/__quit")
	select {
	case <-exited:
	case <-time.After(20 * time.Second):
	}
}

// Package c17: no response of the file server discloses the host path of the
// served directory. Scans every header value and body of the C01/C02
// exploration, of a hostile-name slice (ENAMETOOLONG, odd bytes) and of a
// permission-failure slice served by a davserver process running as an
// unprivileged user (EACCES/EPERM).
package c17

import (
	"bufio"
	"encoding/json"
	"fmt"
	"io/ioutil"
	"net/http"
	"os"
	"os/exec"
	"path/filepath"
	"strings"
	"syscall"
	"time"

	"github.com/emersion/go-webdav/verifharness/fw"
	"github.com/emersion/go-webdav/verifharness/model/davtree"
	"github.com/emersion/go-webdav/verifharness/props/fsx"
)

var mon = fsx.Monitors{Leak: true}

func run(c *fw.Ctx) {
	fsx.Explore(c, mon)
	fsx.Containment(c, mon)
	fsx.Histories(c, mon, c.Pick(64, 2000), c.Pick(80, 200))
	hostileNames(c)
	targetFormSlice(c)
	permissionSlice(c)
	faultSlice(c)
	fsx.Interference(c, mon)
	fsx.LinkSlice(c, mon)
	rootStates(c)
	rootHistories(c, c.Pick(96, 1200), c.Pick(40, 60))
}

// hostileNames drives OS failure modes the bounded universe cannot reach:
// over-long names (ENAMETOOLONG), names with control characters.
func hostileNames(c *fw.Ctx) {
	e, err := fsx.NewEnv(c, mon, "names")
	if err != nil {
		c.Inconclusive(err.Error())
		return
	}
	defer e.Close()
	long := strings.Repeat("L", 300)
	names := []string{"/" + long, "/d/" + long, "/f/" + long, "/new\nline", "/tab\tname", "/d/" + strings.Repeat("sub/", 1200) + "x"}
	tree := davtree.Tree{"/f": {Data: "c"}, "/d": {Dir: true}, "/d/g": {Data: "g"}}
	idx := 0
	for _, n := range names {
		for _, m := range []string{"OPTIONS", "GET", "HEAD", "PUT", "DELETE", "MKCOL", "PROPFIND", "COPY", "MOVE", "COPY-TO", "MOVE-TO"} {
			idx++
			if !c.Mine(idx) {
				continue
			}
			r := davtree.Req{Method: m, Path: n}
			switch m {
			case "PUT":
				r.HasBody, r.Body = true, "data"
			case "COPY", "MOVE":
				r.DestForm, r.Dest = "path", "/d/target"
			case "COPY-TO", "MOVE-TO":
				r = davtree.Req{Method: strings.TrimSuffix(m, "-TO"), Path: "/d/g", DestForm: "path", Dest: n}
			}
			if err := e.Materialise(tree); err != nil {
				c.Inconclusive(err.Error())
				return
			}
			req, err := fsx.BuildRequest(r)
			if err != nil {
				continue
			}
			c.Journal(r)
			resp := e.Serve(req)
			c.JournalDone()
			c.Eval(1)
			c.Observe("hostile_name_status", fmt.Sprintf("%s %d", r.Method, resp.Code), 1)
			c.Distinct(fmt.Sprintf("name|%s|%v|%d", m, len(n) > 255, resp.Code))
			short := r
			if len(short.Path) > 40 {
				short.Path = short.Path[:20] + fmt.Sprintf("…(%d bytes)", len(r.Path))
			}
			if len(short.Dest) > 40 {
				short.Dest = short.Dest[:20] + fmt.Sprintf("…(%d bytes)", len(r.Dest))
			}
			e.LeakScan("hostile-name", short, tree, resp)
		}
	}
}

// permissionSlice serves a tree with unreadable and read-only entries from a
// davserver child that has dropped to uid/gid 65534.
func permissionSlice(c *fw.Ctx) {
	if c.Shard != 0 {
		return
	}
	bin := os.Getenv("VHARNESS_DAVSERVER")
	if os.Geteuid() != 0 || bin == "" {
		c.Note("permission_slice", "skipped: needs root (to drop to an unprivileged uid) and the davserver binary")
		return
	}
	base := filepath.Join(c.WorkDir, "perm-sandbox-q7x9z")
	root := filepath.Join(base, "served-root-k3j5h7")
	defer func() {
		filepath.Walk(base, func(p string, fi os.FileInfo, err error) error {
			if err == nil {
				os.Chmod(p, 0755)
			}
			return nil
		})
		os.RemoveAll(base)
	}()
	// every ancestor must be traversable by the unprivileged user
	for p := root; p != "/" && p != "."; p = filepath.Dir(p) {
		os.MkdirAll(p, 0755)
		if p == base || p == root || strings.HasPrefix(p, c.WorkDir) || filepath.Dir(c.WorkDir) == p {
			os.Chmod(p, 0755)
		}
	}
	mk := func(rel string, dir bool, mode os.FileMode, own bool) {
		p := filepath.Join(root, rel)
		if dir {
			os.MkdirAll(p, 0755)
		} else {
			os.MkdirAll(filepath.Dir(p), 0755)
			ioutil.WriteFile(p, []byte("content of "+rel), 0644)
		}
		if own {
			os.Chown(p, 65534, 65534)
		}
		os.Chmod(p, mode)
	}
	os.Chown(root, 65534, 65534)
	mk("open", true, 0755, true)
	mk("open/file", false, 0644, true)
	mk("open/dirfull", true, 0755, true)
	mk("open/dirfull/x", false, 0644, true)
	mk("ro/file", false, 0644, false)
	mk("ro/sub/y", false, 0644, false)
	mk("ro", true, 0555, false) // owned by root, not writable by nobody
	mk("locked/inner", false, 0644, false)
	mk("locked", true, 0000, false)
	mk("secret", false, 0000, false)
	mk("rofile", false, 0444, false)
	// a collection of the server's own with members it may not read: copying
	// or listing it fails half-way, after the first members went through
	mk("open/mixed", true, 0755, true)
	mk("open/mixed/a-readable", false, 0644, true)
	mk("open/mixed/m-unreadable", false, 0000, false)
	mk("open/mixed/n-lockeddir/inner", false, 0644, false)
	mk("open/mixed/n-lockeddir", true, 0000, false)
	mk("open/mixed/z-readable", false, 0644, true)

	// the unprivileged user must be able to execute the binary wherever the
	// harness was built: run a world-readable copy from the sandbox
	if b, err := ioutil.ReadFile(bin); err == nil {
		cp := filepath.Join(base, "davserver-copy")
		if ioutil.WriteFile(cp, b, 0755) == nil && os.Chmod(cp, 0755) == nil {
			bin = cp
		}
	}
	cmd := exec.Command(bin, root)
	cmd.SysProcAttr = &syscall.SysProcAttr{Credential: &syscall.Credential{Uid: 65534, Gid: 65534}}
	out, _ := cmd.StdoutPipe()
	cmd.Stderr = nil
	if err := cmd.Start(); err != nil {
		c.Note("permission_slice", "skipped: cannot start davserver as uid 65534: "+err.Error())
		return
	}
	defer func() { cmd.Process.Kill(); cmd.Wait() }()
	addr := ""
	lineCh := make(chan string, 1)
	go func() {
		sc := bufio.NewScanner(out)
		if sc.Scan() {
			lineCh <- sc.Text()
		} else {
			lineCh <- ""
		}
	}()
	select {
	case l := <-lineCh:
		addr = strings.TrimPrefix(l, "LISTEN ")
	case <-time.After(20 * time.Second):
	}
	if addr == "" {
		c.Note("permission_slice", "skipped: davserver did not report its address")
		return
	}
	type rq struct{ m, p, dest, ow, depth string }
	var reqs []rq
	targets := []string{"/secret", "/rofile", "/locked", "/locked/inner", "/locked/new", "/ro", "/ro/file", "/ro/new", "/ro/sub", "/ro/sub/y", "/open/file", "/open/dirfull", "/open/mixed/m-unreadable", "/open/mixed/n-lockeddir", "/open/mixed", "/"}
	for _, t := range targets {
		for _, m := range []string{"OPTIONS", "GET", "HEAD", "PUT", "DELETE", "MKCOL", "PROPFIND"} {
			if t == "/" && (m == "DELETE" || m == "PUT" || m == "MKCOL") {
				continue
			}
			reqs = append(reqs, rq{m, t, "", "", ""})
			if m == "PROPFIND" {
				reqs = append(reqs, rq{m, t, "", "", "1"}, rq{m, t, "", "", "infinity"})
			}
		}
		for _, d := range []string{"/open/new", "/ro/new2", "/locked/new2", "/open/file", "/ro/file", "/secret"} {
			if t == "/" || d == t {
				continue
			}
			reqs = append(reqs, rq{"COPY", t, d, "", ""}, rq{"MOVE", t, d, "", ""})
			if (len(t)+len(d))%3 == 0 {
				reqs = append(reqs, rq{"COPY", t, d, "F", ""}, rq{"COPY", t, d, "T", "0"}, rq{"MOVE", t, d, "F", ""})
			}
		}
	}
	needles := []string{root, base}
	if res, err := filepath.EvalSymlinks(root); err == nil {
		needles = append(needles, res)
	}
	hc := &http.Client{Timeout: 30 * time.Second}
	statuses := map[int]int{}
	for _, r := range reqs {
		var body *strings.Reader
		if r.m == "PUT" {
			body = strings.NewReader("new data")
		}
		var req *http.Request
		if body != nil {
			req, _ = http.NewRequest(r.m, "http://"+addr+r.p, body)
		} else {
			req, _ = http.NewRequest(r.m, "http://"+addr+r.p, nil)
		}
		if r.dest != "" {
			req.Header.Set("Destination", r.dest)
		}
		if r.ow != "" {
			req.Header.Set("Overwrite", r.ow)
		}
		if r.depth != "" {
			req.Header.Set("Depth", r.depth)
		}
		c.Journal(map[string]string{"slice": "permission", "method": r.m, "path": r.p, "dest": r.dest, "overwrite": r.ow, "depth": r.depth})
		resp, err := hc.Do(req)
		c.JournalDone()
		if err != nil {
			c.Inconclusive("permission slice: request failed: " + err.Error())
			return
		}
		b, _ := ioutil.ReadAll(resp.Body)
		resp.Body.Close()
		c.Eval(1)
		statuses[resp.StatusCode]++
		c.Observe("permission_slice_status", fmt.Sprintf("%s %d", r.m, resp.StatusCode), 1)
		c.Distinct(fmt.Sprintf("perm|%s|%s|%d", r.m, r.p, resp.StatusCode))
		hay := string(b)
		for k, vs := range resp.Header {
			hay += "\n" + k + ": " + strings.Join(vs, ",")
		}
		for _, n := range needles {
			if strings.Contains(hay, n) {
				op := "op=?"
				for _, o := range []string{"rename", "mkdir", "openat", "open", "lstat", "stat", "unlinkat", "remove", "readdirent", "fdopendir"} {
					if strings.Contains(string(b), o+" ") {
						op = "op=" + o
						break
					}
				}
				c.Report(fmt.Sprintf("%s|permission-denied-slice|status=%d|%s", r.m, resp.StatusCode, op),
					fmt.Sprintf("%s %s (dest %q) as unprivileged server: response discloses the host path: %.200q", r.m, r.p, r.dest, string(b)),
					map[string]interface{}{"method": r.m, "path": r.p, "dest": r.dest, "overwrite": r.ow, "depth": r.depth, "status": resp.StatusCode, "body": string(b)})
				break
			}
		}
	}
	c.Note("permission_slice", fmt.Sprintf("active: %d requests to a davserver running as uid 65534 over trees with mode-000 and read-only entries; statuses %v", len(reqs), statuses))
}

func init() {
	fw.Register(&fw.Property{
		ID:  "C17",
		Run: run,
		Replay: func(c *fw.Ctx, w json.RawMessage) {
			if replayRootHistory(c, w) {
				return
			}
			fsx.ReplayWitness(c, mon, w)
		},
		Rule: "every header value and body of every response of the C01 exploration (385 trees x all single requests + random histories) is scanned for the absolute path of the served directory (a long unique name), its symlink-resolved form and the sandbox path; plus a hostile-name slice (300-byte names, 1200-level paths, control characters: ENAMETOOLONG etc.; decoded request paths and Destination texts the file system refuses or cleans itself: NUL, not absolute, dot-dot chains, backslashes, non-UTF-8 bytes, 4 KiB paths - every method) and a permission slice (davserver child running as uid 65534 over mode-000 / read-only entries: EACCES for open, readdir, create, unlink, mkdir, rename) and an OS-fault slice (davserver child under strace fault injection: 9 syscall groups x 8 (thorough 16) errno values such as EIO, ENOSPC, EMFILE, EXDEV, ELOOP x 30 requests on the named paths of the tree; and, with strace attached to the running server and no path filter, 7 syscall groups x every / every second / every third invocation, which reaches the staging entries of PUT, COPY and MOVE) and a link slice (every method on, below, from and onto symbolic links placed in the served directory: to a directory, to a file, absolute, dangling, dangling below a missing directory, looping, to a Unix socket, into procfs, out of the root; ~900 requests, each on a fresh tree) and a root-state family (the served directory itself is the variable: removed by DELETE /, removed by the host together with or without its parent, replaced by a file, by a dangling, looping or directory link, emptied; every method on the root and below it and COPY/MOVE from and onto them in each state under seven spellings of the configured directory, each on a sandbox built from nothing; plus random histories that are never rebuilt between steps, in which requests aimed at the root and host events change the root's state while the history goes on). " +
			"distinct_nontrivial counts distinct (method, abstract request/tree class, status) observations.",
		Assumptions: []string{
			"the root directory name is long and unique, so a substring match is a disclosure",
			"root-state and target-form families: the bare names of the served directory and of its parent are needles too (keys marked directory-name-only): no request of these families carries them, and a root configured relative to the working directory can only be disclosed in that form",
			"the permission slice needs root to drop privileges; when unavailable it is skipped and the evidence says so",
		},
		MinEvals:    func(t string) int64 { return 100000 },
		MinDistinct: func(t string) int64 { return 200 },
	})
}

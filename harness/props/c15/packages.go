package c15

import (
	"context"
	"fmt"

	"github.com/emersion/go-webdav/caldav"
	"github.com/emersion/go-webdav/carddav"
	"github.com/emersion/go-webdav/verifharness/doubles"
	"github.com/emersion/go-webdav/verifharness/fw"
)

// The "packages" family. The typed property structures of caldav and carddav
// are unexported; they are reached through the public clients, which decode
// them from the raw values of a multi-status. Both packages have structures
// of the SAME NAME for DIFFERENT elements (max-resource-size in either
// namespace, the home sets, the descriptions), and one process uses both
// packages, in either order: each must decode its own element whatever the
// other package decoded before.

func pkgCalDoc(i int) string {
	return fmt.Sprintf(`<?xml version="1.0"?><D:multistatus xmlns:D="DAV:" xmlns:C="urn:ietf:params:xml:ns:caldav"><D:response><D:href>/u/cal/c%d/</D:href><D:propstat><D:prop>`+
		`<D:resourcetype><D:collection/><C:calendar/></D:resourcetype><D:displayname>cal %d</D:displayname><C:calendar-description>cal desc %d</C:calendar-description>`+
		`<C:max-resource-size>%d</C:max-resource-size><C:supported-calendar-component-set><C:comp name="VEVENT"/><C:comp name="VTODO"/></C:supported-calendar-component-set>`+
		`</D:prop><D:status>HTTP/1.1 200 OK</D:status></D:propstat></D:response></D:multistatus>`, i, i, i, 100000+i)
}

func pkgCardDoc(i int) string {
	return fmt.Sprintf(`<?xml version="1.0"?><D:multistatus xmlns:D="DAV:" xmlns:A="urn:ietf:params:xml:ns:carddav"><D:response><D:href>/u/contacts/b%d/</D:href><D:propstat><D:prop>`+
		`<D:resourcetype><D:collection/><A:addressbook/></D:resourcetype><D:displayname>book %d</D:displayname><A:addressbook-description>book desc %d</A:addressbook-description>`+
		`<A:max-resource-size>%d</A:max-resource-size><A:supported-address-data><A:address-data-type content-type="text/vcard" version="4.0"/></A:supported-address-data>`+
		`</D:prop><D:status>HTTP/1.1 200 OK</D:status></D:propstat></D:response></D:multistatus>`, i, i, i, 200000+i)
}

func pkgHomeDoc(ns, local, principal, home string) string {
	return fmt.Sprintf(`<?xml version="1.0"?><D:multistatus xmlns:D="DAV:"><D:response><D:href>%s</D:href><D:propstat><D:prop><X:%s xmlns:X="%s"><D:href>%s</D:href></X:%s></D:prop>`+
		`<D:status>HTTP/1.1 200 OK</D:status></D:propstat></D:response></D:multistatus>`, principal, local, ns, home, local)
}

func runPackages(c *fw.Ctx) {
	ctx := context.Background()
	report := func(pkg, what, want, got string, i int, order string) {
		c.Report(fmt.Sprintf("packages | %s | %s decoded differently from the document", pkg, what),
			fmt.Sprintf("%s: %s is %q in the document, the typed decode through the raw value gives %q (both packages used in one process, order %s)", pkg, what, want, got, order),
			map[string]interface{}{"package": pkg, "what": what, "want": want, "got": got, "iteration": i, "order": order})
	}
	cal := func(i int, order string) {
		cl, err := caldav.NewClient(&doubles.Capture{Status: 207, Body: []byte(pkgCalDoc(i))}, "http://dav.test/")
		if err != nil {
			c.Inconclusive(err.Error())
			return
		}
		l, err := cl.FindCalendars(ctx, "/u/cal/")
		c.Eval(1)
		if err != nil || len(l) != 1 {
			report("caldav", "calendar list", "1 calendar", fmt.Sprintf("%d calendars, err %v", len(l), err), i, order)
			return
		}
		if want := int64(100000 + i); l[0].MaxResourceSize != want {
			report("caldav", "max-resource-size", fmt.Sprint(want), fmt.Sprint(l[0].MaxResourceSize), i, order)
		}
		if want := fmt.Sprintf("cal desc %d", i); l[0].Description != want {
			report("caldav", "calendar-description", want, l[0].Description, i, order)
		}
		if fmt.Sprint(l[0].SupportedComponentSet) != "[VEVENT VTODO]" {
			report("caldav", "supported-calendar-component-set", "[VEVENT VTODO]", fmt.Sprint(l[0].SupportedComponentSet), i, order)
		}
		hc, _ := caldav.NewClient(&doubles.Capture{Status: 207, Body: []byte(pkgHomeDoc("urn:ietf:params:xml:ns:caldav", "calendar-home-set", "/u/", "/u/cal/"))}, "http://dav.test/")
		if hs, err := hc.FindCalendarHomeSet(ctx, "/u/"); err != nil || hs != "/u/cal/" {
			report("caldav", "calendar-home-set", "/u/cal/", fmt.Sprintf("%s (err %v)", hs, err), i, order)
		}
		c.Observe("universe", "packages family: caldav typed structures through the client", 1)
	}
	card := func(i int, order string) {
		cl, err := carddav.NewClient(&doubles.Capture{Status: 207, Body: []byte(pkgCardDoc(i))}, "http://dav.test/")
		if err != nil {
			c.Inconclusive(err.Error())
			return
		}
		l, err := cl.FindAddressBooks(ctx, "/u/contacts/")
		c.Eval(1)
		if err != nil || len(l) != 1 {
			report("carddav", "address book list", "1 address book", fmt.Sprintf("%d address books, err %v", len(l), err), i, order)
			return
		}
		if want := int64(200000 + i); l[0].MaxResourceSize != want {
			report("carddav", "max-resource-size", fmt.Sprint(want), fmt.Sprint(l[0].MaxResourceSize), i, order)
		}
		if want := fmt.Sprintf("book desc %d", i); l[0].Description != want {
			report("carddav", "addressbook-description", want, l[0].Description, i, order)
		}
		hc, _ := carddav.NewClient(&doubles.Capture{Status: 207, Body: []byte(pkgHomeDoc("urn:ietf:params:xml:ns:carddav", "addressbook-home-set", "/u/", "/u/contacts/"))}, "http://dav.test/")
		if hs, err := hc.FindAddressBookHomeSet(ctx, "/u/"); err != nil || hs != "/u/contacts/" {
			report("carddav", "addressbook-home-set", "/u/contacts/", fmt.Sprintf("%s (err %v)", hs, err), i, order)
		}
		c.Observe("universe", "packages family: carddav typed structures through the client", 1)
	}
	// Which package goes first in this process depends on the shard, so that
	// both orders are met by a run.
	for i := 0; i < 6; i++ {
		if (i+c.Shard)%2 == 0 {
			cal(i, "caldav first")
			card(i, "caldav first")
		} else {
			card(i, "carddav first")
			cal(i, "carddav first")
		}
	}
}

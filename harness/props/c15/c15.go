// Package c15 checks property C15: raw XML values preserve the element tree
// they captured (internal.RawXMLValue and its use as a property container).
package c15

import (
	"bytes"
	"encoding/json"
	"encoding/xml"
	"fmt"
	"reflect"
	"strings"

	"github.com/emersion/go-webdav/internal"
	"github.com/emersion/go-webdav/verifharness/fw"
	"github.com/emersion/go-webdav/verifharness/xmltree"
)

type c15Case struct {
	Kind string `json:"kind"` // tree | typed | prop | response | reuse
	Doc  string `json:"doc,omitempty"`
	Type string `json:"type,omitempty"` // typed: name of the typed element
	// reuse: documents captured in sequence into one variable, and how
	Docs    []string `json:"docs,omitempty"`
	Variant string   `json:"variant,omitempty"`
}

type c15Witness struct {
	c15Case
	Op       string `json:"op"`
	Capture  string `json:"capture,omitempty"`
	Observed string `json:"observed,omitempty"`
	Detail   string `json:"detail,omitempty"`
}

// anyWrap captures the child elements of an arbitrary root as raw values.
type anyWrap struct {
	XMLName xml.Name
	Raw     []internal.RawXMLValue `xml:",any"`
}

// genericTyped is a typed value for arbitrary documents using only the field
// kinds the three packages use (XMLName, chardata, any-raw).
type genericTyped struct {
	XMLName xml.Name
	Text    string                 `xml:",chardata"`
	Kids    []internal.RawXMLValue `xml:",any"`
}

type run struct {
	c   *fw.Ctx
	cs  c15Case
	t0  *xmltree.Node
	ld  *lexDoc
	idx map[*xmltree.Node]int
	// nonterm: a token stream of this case did not end within its bound (already
	// reported); readers without a bound of their own (Decode) are not run on
	// the case any more, they would not return
	nonterm bool
	// normGot, when set, is applied to the tree read back from an output or a
	// token stream before it is compared (parts the statement does not cover)
	normGot func(*xmltree.Node) *xmltree.Node
}

func (r *run) report(op, feature, what, capture, observed, detail string) {
	r.c.Report(op+" | "+feature, what, c15Witness{c15Case: r.cs, Op: op, Capture: capture, Observed: clip(observed, 4000), Detail: detail})
}

// prepare parses the original strictly and leniently (the two readers must
// agree on a well-formed document: a self-check of the monitor) and runs the
// lexical pass. ok=false: harness-side problem, recorded as inconclusive.
func prepare(c *fw.Ctx, cs c15Case, abstract *xmltree.Node) (*run, bool) {
	doc := []byte(cs.Doc)
	t0, err := xmltree.Parse(doc)
	if err != nil {
		c.Inconclusive(fmt.Sprintf("C15 harness: generated document is not well-formed (%v): %s", err, clip(cs.Doc, 300)))
		return nil, false
	}
	if abstract != nil && abstract.Canon(cmp) != t0.Canon(cmp) {
		c.Inconclusive(fmt.Sprintf("C15 harness: serialiser does not denote the abstract tree: %s", clip(cs.Doc, 300)))
		return nil, false
	}
	l0, err := lenientParse(doc)
	if err != nil || l0.Canon(cmp) != t0.Canon(cmp) {
		c.Inconclusive(fmt.Sprintf("C15 harness: strict and encoding/xml readers disagree on the original (%v): %s", err, clip(cs.Doc, 300)))
		return nil, false
	}
	ld, err := lexPass(doc)
	if err != nil {
		c.Inconclusive(fmt.Sprintf("C15 harness: lexical pass failed (%v)", err))
		return nil, false
	}
	return &run{c: c, cs: cs, t0: t0, ld: ld, idx: docIndex(t0)}, true
}

func strictClass(err error) string {
	m := err.Error()
	switch {
	case strings.Contains(m, "duplicate xmlns"):
		return "duplicate xmlns declaration"
	case strings.Contains(m, "duplicate attribute"):
		return "duplicate attribute"
	case strings.Contains(m, "undeclared"):
		return "undeclared prefix"
	default:
		return "other: " + clip(m, 40)
	}
}

// checkMarshal writes v out with xml.Marshal, re-reads the output with
// encoding/xml and compares with want.
func (r *run) checkMarshal(op, capture string, v interface{}, want *xmltree.Node) {
	var out []byte
	var err error
	if p, pv, st := fw.Guard(func() { out, err = xml.Marshal(v) }); p {
		r.report(op, "panic "+fw.PanicSite(st), fmt.Sprintf("xml.Marshal panicked: %v", pv), capture, "", st)
		return
	}
	if err != nil {
		r.c.Observe("marshal_outcome", op+": error", 1)
		r.report(op, "marshal error", fmt.Sprintf("xml.Marshal of a captured value failed: %v", err), capture, "", err.Error())
		return
	}
	got, lerr := lenientParse(out)
	if lerr != nil {
		r.c.Observe("marshal_outcome", op+": output unreadable", 1)
		r.report(op, "output not re-readable by encoding/xml", fmt.Sprintf("encoding/xml cannot re-read the output: %v", lerr), capture, string(out), lerr.Error())
		return
	}
	if strict, serr := xmltree.Parse(out); serr != nil {
		r.c.Observe("outputs_not_strictly_wellformed", strictClass(serr), 1)
	} else {
		r.c.Observe("outputs_not_strictly_wellformed", "(strictly well-formed)", 1)
		if k := stripPseudoDecls(strict); k > 0 {
			r.c.Observe("outputs_with_pseudo_declaration_attrs", "outputs carrying _xmlns:p attributes (namespace \"xmlns\")", 1)
		}
		if strict.Canon(cmp) != got.Canon(cmp) {
			r.c.Observe("strict_vs_encodingxml_reader", "disagree on output", 1)
			r.c.Note("strict_vs_encodingxml_example", clip(string(out), 500))
		} else {
			r.c.Observe("strict_vs_encodingxml_reader", "agree on output", 1)
		}
	}
	if r.normGot != nil {
		got = r.normGot(got)
	}
	if d := firstDiff(want, got); d != nil {
		r.c.Observe("marshal_outcome", op+": tree differs", 1)
		f := d.feature(r.ld, r.idx)
		r.report(op, f, fmt.Sprintf("written-out value denotes another tree: %s %s", d.Kind, d.Detail), capture, string(out), d.Kind+": "+d.Detail)
		return
	}
	if want.Canon(cmp) != got.Canon(cmp) {
		r.c.Inconclusive("C15 harness: firstDiff and Canon disagree on " + clip(string(out), 300))
		return
	}
	r.c.Observe("marshal_outcome", op+": same tree", 1)
}

func (r *run) checkTokens(capture string, raw *internal.RawXMLValue, want *xmltree.Node) {
	bound := 2*r.ld.Tokens + 2
	var o streamObs
	if p, pv, st := fw.Guard(func() { o = readStream(raw.TokenReader(), bound) }); p {
		r.report("tokens", "panic "+fw.PanicSite(st), fmt.Sprintf("TokenReader panicked: %v", pv), capture, "", st)
		return
	}
	if o.Problem != "" {
		if o.Problem == "not-finite-within-bound" {
			r.nonterm = true
		}
		r.c.Observe("token_stream", o.Problem, 1)
		r.report("tokens", o.Problem, "token stream of a raw value: "+o.Problem+" ("+o.Detail+")", capture, "", o.Detail)
		return
	}
	if r.normGot != nil {
		o.Tree = r.normGot(o.Tree)
	}
	if d := firstDiff(want, o.Tree); d != nil {
		r.c.Observe("token_stream", "tree differs", 1)
		r.report("tokens", d.feature(r.ld, r.idx), fmt.Sprintf("token stream denotes another tree: %s %s", d.Kind, d.Detail), capture, o.Tree.Canon(cmp), d.Kind+": "+d.Detail)
		return
	}
	r.c.Observe("token_stream", "balanced, well nested, finite, EOF sticky, same tree", 1)
	if o.Tree.Canon(xmltree.CmpOpts{}) == want.Canon(xmltree.CmpOpts{}) {
		r.c.Observe("processing_instructions (not compared)", "preserved or absent", 1)
	} else {
		r.c.Observe("processing_instructions (not compared)", "changed", 1)
	}
}

func (r *run) checkXMLName(capture string, raw *internal.RawXMLValue, want *xmltree.Node) {
	name, ok := raw.XMLName()
	if !ok || name.Space != want.Space || name.Local != want.Local {
		r.report("xmlname", "name mismatch", fmt.Sprintf("XMLName() = (%v, %v), captured element is %s", name, ok, want.Name()), capture, "", "")
		return
	}
	r.c.Observe("xmlname", "matches captured element", 1)
}

func (r *run) checkRaw(capture string, raw *internal.RawXMLValue, want *xmltree.Node) {
	r.checkXMLName(capture, raw, want)
	r.checkTokens(capture, raw, want)
	r.checkMarshal("marshal", capture, raw, want)
	r.checkInterleaved(capture, raw, want)
}

// hookReader runs hook once, just before delivering token number k.
type hookReader struct {
	tr   xml.TokenReader
	k, n int
	hook func()
}

func (h *hookReader) Token() (xml.Token, error) {
	if h.n == h.k && h.hook != nil {
		f := h.hook
		h.hook = nil
		f()
	}
	h.n++
	return h.tr.Token()
}

// checkInterleaved: a raw value is read-only, so traversals of one value may
// overlap. A first walk is paused before its k-th token (k = 0, 1, middle,
// last), a second complete walk over a NEW TokenReader(), an xml.Marshal and
// a Decode of the same value run, then the first walk goes on: both walks
// must denote the captured tree.
func (r *run) checkInterleaved(capture string, raw *internal.RawXMLValue, want *xmltree.Node) {
	total := r.ld.Tokens
	if total > 400 || r.nonterm {
		return
	}
	bound := 2*total + 2
	for _, k := range []int{0, 1, total / 2, total - 1} {
		if k < 0 {
			continue
		}
		var inner streamObs
		var o streamObs
		hook := func() {
			inner = readStream(raw.TokenReader(), bound)
			xml.Marshal(raw)
			var g genericTyped
			raw.Decode(&g)
		}
		if p, pv, st := fw.Guard(func() { o = readStream(&hookReader{tr: raw.TokenReader(), k: k, hook: hook}, bound) }); p {
			r.report("tokens-interleaved", "panic "+fw.PanicSite(st), fmt.Sprintf("overlapping traversals panicked: %v", pv), capture, "", st)
			return
		}
		for wi, w := range []streamObs{o, inner} {
			which := []string{"the paused walk", "the walk started while another was paused"}[wi]
			if wi == 1 && k >= bound {
				continue
			}
			if w.Problem != "" {
				r.report("tokens-interleaved", w.Problem, fmt.Sprintf("overlapping traversals of one raw value (first paused before token %d of %d): %s: %s (%s)", k, total, which, w.Problem, w.Detail), capture, "", w.Detail)
				return
			}
			if w.Tree == nil {
				continue // the hook position was never reached (shorter stream than counted)
			}
			if d := firstDiff(want, w.Tree); d != nil {
				r.report("tokens-interleaved", d.feature(r.ld, r.idx), fmt.Sprintf("overlapping traversals of one raw value (first paused before token %d of %d): %s denotes another tree: %s %s", k, total, which, d.Kind, d.Detail), capture, w.Tree.Canon(cmp), d.Kind+": "+d.Detail)
				return
			}
		}
		r.c.Observe("token_stream", "overlapping traversals: both walks denote the captured tree", 1)
	}
}

// sameDecode compares Decode-from-raw with direct decoding.
func (r *run) sameDecode(op, shape, capture string, errR, errD error, viaRaw, direct interface{}) (same bool) {
	switch {
	case errR != nil && errD != nil:
		r.c.Observe("decode_outcome", shape+": both fail", 1)
		return true
	case errR != nil:
		r.c.Observe("decode_outcome", shape+": only raw fails", 1)
		r.report(op, shape+" | error only via raw value", fmt.Sprintf("decoding via the raw value failed (%v), directly it succeeds", errR), capture, "", errR.Error())
	case errD != nil:
		r.c.Observe("decode_outcome", shape+": only direct fails", 1)
		r.report(op, shape+" | error only directly", fmt.Sprintf("decoding directly failed (%v), via the raw value it succeeds", errD), capture, "", errD.Error())
	default:
		if reflect.DeepEqual(viaRaw, direct) {
			r.c.Observe("decode_deepequal", "reflect.DeepEqual", 1)
		} else {
			r.c.Observe("decode_deepequal", "not DeepEqual (raw fields compared as trees)", 1)
		}
		if d := eqValue(reflect.ValueOf(viaRaw), reflect.ValueOf(direct), ""); d != "" {
			r.c.Observe("decode_outcome", shape+": values differ", 1)
			r.report(op, shape+" | value differs", "value decoded via the raw value differs from the directly decoded one at "+d, capture,
				fmt.Sprintf("via raw: %+v\ndirect: %+v", viaRaw, direct), d)
			return
		}
		r.c.Observe("decode_outcome", shape+": both succeed, equal", 1)
		return true
	}
	return false
}

func (r *run) decodeRaw(op, capture string, raw *internal.RawXMLValue, v interface{}) (err error, ok bool) {
	if r.nonterm {
		return nil, false
	}
	if p, pv, st := fw.Guard(func() { err = raw.Decode(v) }); p {
		r.report(op, "panic "+fw.PanicSite(st), fmt.Sprintf("Decode panicked: %v", pv), capture, "", st)
		return nil, false
	}
	return err, true
}

func (r *run) captureFailed(capture string, err error) {
	r.c.Observe("capture", capture+": error", 1)
	r.report("capture", "error on well-formed input", fmt.Sprintf("capturing a well-formed element failed: %v", err), capture, "", err.Error())
}

// syntheticRoot is the tree a container denotes: its element, no attributes,
// the captured child elements in order.
func syntheticRoot(space, local string, kids []*xmltree.Node) *xmltree.Node {
	return &xmltree.Node{Kind: xmltree.Element, Space: space, Local: local, Children: kids}
}

// checkConstructed: captured values written out again as the children of a
// value built with NewRawXMLElement (given the name and attributes of the
// original root): a constructed parent over captured children, in the token
// stream and written out. Judged: the child elements are the captured trees,
// in order. Not judged: the name and attributes of the constructed element
// itself (it was not captured; constructed elements belong to C11). Building
// a value must not change what was captured.
func (r *run) checkConstructed(captured []internal.RawXMLValue, kids []*xmltree.Node) {
	if r.nonterm {
		return
	}
	const capture = "constructed over any-children"
	want := syntheticRoot("", "constructed", kids)
	var attrs []xml.Attr
	for _, a := range r.t0.Attrs {
		attrs = append(attrs, xml.Attr{Name: xml.Name{Space: a.Space, Local: a.Local}, Value: a.Value})
	}
	children := append([]internal.RawXMLValue(nil), captured...)
	var built *internal.RawXMLValue
	if p, pv, st := fw.Guard(func() {
		built = internal.NewRawXMLElement(xml.Name{Space: r.t0.Space, Local: r.t0.Local}, attrs, children)
	}); p {
		r.report("construct", "panic "+fw.PanicSite(st), fmt.Sprintf("NewRawXMLElement panicked: %v", pv), capture, "", st)
		return
	}
	if built == nil {
		r.c.Observe("capture", capture+": nil (not judged)", 1)
		return
	}
	r.c.Observe("capture", capture, 1)
	r.normGot = func(n *xmltree.Node) *xmltree.Node { return syntheticRoot("", "constructed", n.Elems()) }
	r.checkTokens(capture, built, want)
	r.checkMarshal("marshal-in-container", capture, built, want)
	r.normGot = nil
	// the captured values are what they were
	for i := range captured {
		if wideSample(i, len(kids)) {
			r.checkTokens("any-child after use in a constructed value", &captured[i], kids[i])
		}
	}
}

func execTree(c *fw.Ctx, cs c15Case, abstract *xmltree.Node) {
	r, ok := prepare(c, cs, abstract)
	if !ok {
		return
	}
	c.Eval(1)
	doc := []byte(cs.Doc)
	feats := r.ld.features()
	for _, f := range feats {
		c.Observe("features_seen (documents)", f, 1)
	}
	c.Observe("depth (documents)", fmt.Sprintf("%d", r.ld.MaxDepth), 1)
	c.Observe("max_fanout (documents)", fmt.Sprintf("%d", r.ld.MaxFan), 1)
	c.Distinct(fmt.Sprintf("tree|%s|d=%d", strings.Join(feats, ","), r.ld.MaxDepth))

	// (1) the root captured by xml.Unmarshal
	var raw internal.RawXMLValue
	var err error
	if p, pv, st := fw.Guard(func() { err = xml.Unmarshal(doc, &raw) }); p {
		r.report("capture", "panic "+fw.PanicSite(st), fmt.Sprintf("capture panicked: %v", pv), "unmarshal-root", "", st)
		return
	}
	if err != nil {
		r.captureFailed("unmarshal-root", err)
		return
	}
	c.Observe("capture", "unmarshal-root", 1)
	r.checkRaw("unmarshal-root", &raw, r.t0)

	// (2) the root captured by a stream decoder
	var raw2 internal.RawXMLValue
	if err := xml.NewDecoder(bytes.NewReader(doc)).Decode(&raw2); err != nil {
		r.captureFailed("decoder-root", err)
	} else {
		c.Observe("capture", "decoder-root", 1)
		r.checkTokens("decoder-root", &raw2, r.t0)
		r.checkMarshal("marshal", "decoder-root", &raw2, r.t0)
	}

	// (3) child elements captured through an ",any" field
	var w anyWrap
	if err := xml.Unmarshal(doc, &w); err != nil {
		r.captureFailed("any-children", err)
	} else {
		kids := r.t0.Elems()
		if len(w.Raw) != len(kids) {
			r.report("capture", "child count", fmt.Sprintf("%d child elements captured, document has %d", len(w.Raw), len(kids)), "any-children", "", "")
		} else {
			for i := range w.Raw {
				if !wideSample(i, len(kids)) {
					// very wide elements: the children in between are covered by
					// the checks of the root and of the container only
					r.checkXMLName("any-child", &w.Raw[i], kids[i])
					continue
				}
				c.Observe("capture", "any-child", 1)
				r.checkRaw("any-child", &w.Raw[i], kids[i])
			}
			if len(kids) > 0 {
				r.checkMarshal("marshal-in-container", "any-children", &w, syntheticRoot(r.t0.Space, r.t0.Local, kids))
				r.checkConstructed(w.Raw, kids)
			}
		}
	}

	// (4) a typed value decoded from the raw value vs. directly
	var viaRaw, direct genericTyped
	errD := xml.Unmarshal(doc, &direct)
	if errR, ok := r.decodeRaw("decode", "unmarshal-root", &raw, &viaRaw); ok {
		r.sameDecode("decode", "generic", "unmarshal-root", errR, errD, &viaRaw, &direct)
		// Decode is a reader of the value: what it captured is still there
		r.checkTokens("tokens-after-decode", &raw, r.t0)
	}
	if c.WantSample() && abstract != nil && len(feats) >= 6 && len(cs.Doc) < 600 {
		out, _ := xml.Marshal(&raw)
		c.Sample(map[string]interface{}{"kind": "tree", "doc": cs.Doc, "features": feats, "marshalled": string(out)})
	}
}

// propPaths collects the DAV:prop containers reachable through the typed
// skeleton, keyed by a path that is stable under the sibling reordering a
// typed marshal performs.
func propPaths(n *xmltree.Node, path string, out map[string]*xmltree.Node) {
	skeleton := map[string]bool{"multistatus": true, "response": true, "propstat": true, "propertyupdate": true,
		"set": true, "remove": true, "propfind": true, "sync-collection": true}
	count := map[string]int{}
	for _, ch := range n.Elems() {
		if ch.Space != davNS {
			continue
		}
		p := fmt.Sprintf("%s/%s[%d]", path, ch.Local, count[ch.Local])
		count[ch.Local]++
		switch {
		case ch.Local == "prop" || ch.Local == "include":
			out[p] = ch
		case skeleton[ch.Local]:
			propPaths(ch, p, out)
		}
	}
}

func execTyped(c *fw.Ctx, cs c15Case, abstract *xmltree.Node) {
	sp := specByName[cs.Type]
	if sp == nil {
		c.Inconclusive("C15 harness: unknown typed element " + cs.Type)
		return
	}
	r, ok := prepare(c, cs, abstract)
	if !ok {
		return
	}
	c.Eval(1)
	doc := []byte(cs.Doc)
	feats := r.ld.features()
	c.Observe("typed_elements", sp.Name, 1)
	c.Distinct(fmt.Sprintf("typed|%s|%s", sp.Name, strings.Join(feats, ",")))
	var raw internal.RawXMLValue
	if err := xml.Unmarshal(doc, &raw); err != nil {
		r.captureFailed("unmarshal-root", err)
		return
	}
	r.checkTokens("unmarshal-root", &raw, r.t0)
	direct := sp.New()
	errD := xml.Unmarshal(doc, direct)
	viaRaw := sp.New()
	errR, ok := r.decodeRaw("decode", "unmarshal-root", &raw, viaRaw)
	if !ok {
		return
	}
	if r.sameDecode("decode", sp.Shape, "unmarshal-root", errR, errD, viaRaw, direct) {
		// a second Decode of the same raw value must yield the same again
		again := sp.New()
		if errA, ok := r.decodeRaw("decode", "unmarshal-root (second Decode)", &raw, again); ok {
			r.sameDecode("decode-again", sp.Shape, "unmarshal-root (second Decode)", errA, errD, again, direct)
		}
	}
	if c.WantSample() && errD == nil && len(cs.Doc) < 500 {
		c.Sample(map[string]interface{}{"kind": "typed", "type": sp.Name, "doc": cs.Doc, "decoded": fmt.Sprintf("%+v", direct)})
	}
	if errD != nil {
		return
	}
	// The typed value as a container of raw values, written out again.
	root := r.t0
	switch {
	case sp.Shape == "raw-container" && root.Space == sp.Space && root.Local == sp.Local:
		if kids := root.Elems(); len(kids) > 0 {
			r.checkMarshal("marshal-in-container", "typed "+sp.Name, direct, syntheticRoot(root.Space, root.Local, kids))
			// ... and the value obtained through the raw value: its nested raw
			// values were captured a second time, from the replayed tokens,
			// and must still write out the same tree.
			if errR == nil {
				r.c.Observe("marshal_outcome", "marshal-in-container: value decoded via a raw value written out", 1)
				r.checkMarshal("marshal-in-container", "typed "+sp.Name+" (decoded via the raw value)", viaRaw, syntheticRoot(root.Space, root.Local, kids))
			}
		}
	case sp.Shape == "struct":
		want := map[string]*xmltree.Node{}
		propPaths(root, "", want)
		if len(want) == 0 {
			return
		}
		var out []byte
		var err error
		if p, pv, st := fw.Guard(func() { out, err = xml.Marshal(direct) }); p {
			r.report("marshal-in-container", "panic "+fw.PanicSite(st), fmt.Sprintf("xml.Marshal panicked: %v", pv), "typed "+sp.Name, "", st)
			return
		}
		if err != nil {
			// typed parts (hrefs, statuses) may legitimately refuse to marshal
			c.Observe("marshal_outcome", "typed skeleton: marshal error (not judged)", 1)
			return
		}
		gotRoot, lerr := lenientParse(out)
		if lerr != nil {
			r.report("marshal-in-container", "output not re-readable by encoding/xml", fmt.Sprintf("encoding/xml cannot re-read the output: %v", lerr), "typed "+sp.Name, string(out), lerr.Error())
			return
		}
		got := map[string]*xmltree.Node{}
		propPaths(gotRoot, "", got)
		for p, w := range want {
			g := got[p]
			if g == nil {
				if len(w.Elems()) == 0 {
					continue // an empty container may be omitted by the typed layer
				}
				r.report("marshal-in-container", "container lost", "property container "+p+" missing from the output", "typed "+sp.Name, string(out), p)
				continue
			}
			wantT := syntheticRoot(w.Space, w.Local, w.Elems())
			gotT := syntheticRoot(g.Space, g.Local, g.Elems())
			if d := firstDiff(wantT, gotT); d != nil {
				c.Observe("marshal_outcome", "marshal-in-container: tree differs", 1)
				r.report("marshal-in-container", d.feature(r.ld, r.idx), fmt.Sprintf("property written out inside %s denotes another tree: %s %s", p, d.Kind, d.Detail), "typed "+sp.Name, string(out), d.Kind+": "+d.Detail)
			} else {
				c.Observe("marshal_outcome", "marshal-in-container: same tree", 1)
			}
		}
	}
}

func firstNamed(kids []*xmltree.Node, space, local string) *xmltree.Node {
	for _, k := range kids {
		if k.Space == space && k.Local == local {
			return k
		}
	}
	return nil
}

// decodeVsStandalone compares a typed value obtained through the container
// API with the one decoded directly from the property element on its own.
func (r *run) decodeVsStandalone(op string, sp *typeSpec, sub *xmltree.Node, dec func(v interface{}) error) {
	if r.nonterm {
		return
	}
	viaRaw := sp.New()
	var errR error
	if p, pv, st := fw.Guard(func() { errR = dec(viaRaw) }); p {
		r.report(op, "panic "+fw.PanicSite(st), fmt.Sprintf("%s panicked: %v", op, pv), sp.Name, "", st)
		return
	}
	direct := sp.New()
	errD := xml.Unmarshal(renderPlain(sub), direct)
	r.sameDecode(op, sp.Shape, sp.Name, errR, errD, viaRaw, direct)
}

func execProp(c *fw.Ctx, cs c15Case, abstract *xmltree.Node) {
	r, ok := prepare(c, cs, abstract)
	if !ok {
		return
	}
	if !r.t0.Is(davNS, "prop") {
		c.Inconclusive("C15 harness: prop case whose root is not DAV:prop")
		return
	}
	c.Eval(1)
	doc := []byte(cs.Doc)
	feats := r.ld.features()
	var p internal.Prop
	if err := xml.Unmarshal(doc, &p); err != nil {
		r.captureFailed("Prop", err)
		return
	}
	kids := r.t0.Elems()
	c.Distinct(fmt.Sprintf("prop|n=%d|%s", len(kids), strings.Join(feats, ",")))
	if len(p.Raw) != len(kids) {
		r.report("capture", "child count", fmt.Sprintf("%d properties captured, document has %d", len(p.Raw), len(kids)), "Prop", "", "")
		return
	}
	for i := range p.Raw {
		r.checkXMLName("Prop child", &p.Raw[i], kids[i])
		r.checkTokens("Prop child", &p.Raw[i], kids[i])
	}
	// Prop.Get: the first property of that name, or nil
	names := [][2]string{{davNS, "no-such-property"}, {"urn:none:1", "prop"}}
	seen := map[[2]string]bool{}
	for _, k := range kids {
		n := [2]string{k.Space, k.Local}
		if !seen[n] {
			seen[n] = true
			names = append(names, n)
			names = append(names, [2]string{k.Space + "x", k.Local}) // same local name, other namespace
		}
	}
	for _, n := range names {
		want := firstNamed(kids, n[0], n[1])
		got := p.Get(xml.Name{Space: n[0], Local: n[1]})
		switch {
		case want == nil && got == nil:
			c.Observe("prop_get", "absent -> nil", 1)
		case want == nil:
			r.report("prop-get", "value for absent name", fmt.Sprintf("Get({%s}%s) returned a value, no such property", n[0], n[1]), "Prop", "", "")
		case got == nil:
			r.report("prop-get", "nil for present name", fmt.Sprintf("Get({%s}%s) returned nil", n[0], n[1]), "Prop", "", "")
		default:
			if g := rawCanon(got); g != want.Canon(cmp) {
				r.report("prop-get", "wrong property", fmt.Sprintf("Get({%s}%s) returned another element than the first of that name", n[0], n[1]), "Prop", g, "")
			} else {
				c.Observe("prop_get", "present -> first of that name", 1)
			}
		}
	}
	// Prop.Decode for every typed property present
	done := map[string]bool{}
	for _, sp := range propSpecs {
		if done[sp.Name] {
			continue
		}
		done[sp.Name] = true
		sub := firstNamed(kids, sp.Space, sp.Local)
		if sub == nil {
			var err error
			fw.Guard(func() { err = p.Decode(sp.New()) })
			if err != nil {
				c.Observe("prop_decode_absent (not judged)", "error", 1)
			} else {
				c.Observe("prop_decode_absent (not judged)", "nil", 1)
			}
			continue
		}
		r.decodeVsStandalone("prop-decode", sp, sub, func(v interface{}) error { return p.Decode(v) })
	}
	if len(kids) > 0 {
		r.checkMarshal("marshal-in-container", "Prop", &p, syntheticRoot(davNS, "prop", kids))
	}
}

func execResponse(c *fw.Ctx, cs c15Case, abstract *xmltree.Node) {
	r, ok := prepare(c, cs, abstract)
	if !ok {
		return
	}
	if !r.t0.Is(davNS, "response") {
		c.Inconclusive("C15 harness: response case whose root is not DAV:response")
		return
	}
	c.Eval(1)
	doc := []byte(cs.Doc)
	var resp internal.Response
	if err := xml.Unmarshal(doc, &resp); err != nil {
		// hrefs / statuses are typed; a document they reject is not this property's business
		c.Observe("response_docs", "rejected by the typed layer (skipped)", 1)
		return
	}
	c.Observe("response_docs", "decoded", 1)
	if r.t0.First(davNS, "status") != nil {
		c.Observe("response_docs", "response-level status (skipped)", 1)
		return
	}
	propstats := r.t0.All(davNS, "propstat")
	c.Distinct(fmt.Sprintf("response|ps=%d|%s", len(propstats), strings.Join(r.ld.features(), ",")))
	done := map[string]bool{}
	var present []presentProp
	for _, sp := range propSpecs {
		if done[sp.Name] {
			continue
		}
		done[sp.Name] = true
		// the first propstat holding the name decides
		var sub *xmltree.Node
		status := ""
		for _, ps := range propstats {
			pr := ps.First(davNS, "prop")
			if pr == nil {
				continue
			}
			if sub = firstNamed(pr.Elems(), sp.Space, sp.Local); sub != nil {
				if st := ps.First(davNS, "status"); st != nil {
					status = st.TextContent()
				}
				break
			}
		}
		if sub == nil {
			continue
		}
		if status != "HTTP/1.1 200 OK" {
			c.Observe("decodeprop", "property under a non-200 propstat (status semantics belong to C14; skipped)", 1)
			continue
		}
		c.Observe("decodeprop", "compared", 1)
		r.decodeVsStandalone("decodeprop", sp, sub, func(v interface{}) error { return resp.DecodeProp(v) })
		present = append(present, presentProp{sp, sub})
	}
	r.checkDecodePropMulti(&resp, present)
}

type presentProp struct {
	sp  *typeSpec
	sub *xmltree.Node
}

// checkDecodePropMulti: DecodeProp takes any number of typed values. Every
// one of them is a typed value decoded from a captured raw value, so each
// must come out as the property element decoded on its own does, up to and
// including the first one whose direct decoding fails (DecodeProp must then
// fail too; what it leaves in that value and in later ones is not compared).
// Sequences: every pair of neighbours in both orders, and all typed
// properties present at once.
func (r *run) checkDecodePropMulti(resp *internal.Response, present []presentProp) {
	if len(present) < 2 || r.nonterm {
		return
	}
	var seqs [][]presentProp
	for i := 0; i+1 < len(present); i++ {
		seqs = append(seqs, []presentProp{present[i], present[i+1]}, []presentProp{present[i+1], present[i]})
	}
	if len(present) > 2 {
		seqs = append(seqs, present)
	}
	for _, seq := range seqs {
		vals := make([]interface{}, len(seq))
		names := make([]string, len(seq))
		for i, pp := range seq {
			vals[i] = pp.sp.New()
			names[i] = pp.sp.Name
		}
		capture := "DecodeProp(" + strings.Join(names, ", ") + ")"
		var errR error
		if p, pv, st := fw.Guard(func() { errR = resp.DecodeProp(vals...) }); p {
			r.report("decodeprop-multi", "panic "+fw.PanicSite(st), fmt.Sprintf("DecodeProp with %d values panicked: %v", len(vals), pv), capture, "", st)
			return
		}
		var errD error
		bad := false
		for i, pp := range seq {
			direct := pp.sp.New()
			if errD = xml.Unmarshal(renderPlain(pp.sub), direct); errD != nil {
				break
			}
			if d := eqValue(reflect.ValueOf(vals[i]), reflect.ValueOf(direct), ""); d != "" {
				pos := "first value"
				if i > 0 {
					pos = "later value"
				}
				if errR != nil {
					// DecodeProp failed although everything up to here decodes
					// directly: reported below as an error-ness difference
					break
				}
				r.c.Observe("decodeprop_multi", "value differs", 1)
				r.report("decodeprop-multi", pos+" differs", fmt.Sprintf("value %d of %d (%s) obtained through one DecodeProp call differs from the property decoded on its own at %s", i+1, len(seq), pp.sp.Name, d), capture,
					fmt.Sprintf("via DecodeProp: %+v\ndirect: %+v", vals[i], direct), d)
				bad = true
				break
			}
		}
		switch {
		case bad:
		case errR != nil && errD == nil:
			r.c.Observe("decodeprop_multi", "only DecodeProp fails", 1)
			r.report("decodeprop-multi", "error only via DecodeProp", fmt.Sprintf("DecodeProp with %d values failed (%v), each property decodes on its own", len(seq), errR), capture, "", errR.Error())
		case errR == nil && errD != nil:
			r.c.Observe("decodeprop_multi", "only direct decoding fails", 1)
			r.report("decodeprop-multi", "error only directly", fmt.Sprintf("DecodeProp with %d values succeeded, decoding one of the properties on its own fails (%v)", len(seq), errD), capture, "", errD.Error())
		case errR != nil:
			r.c.Observe("decodeprop_multi", fmt.Sprintf("%d values: both fail", len(seq)), 1)
		default:
			r.c.Observe("decodeprop_multi", fmt.Sprintf("%d values: all equal to the properties decoded on their own", len(seq)), 1)
		}
	}
}

func exec(c *fw.Ctx, cs c15Case, abstract *xmltree.Node) {
	c.Journal(cs)
	switch cs.Kind {
	case "tree":
		execTree(c, cs, abstract)
	case "typed":
		execTyped(c, cs, abstract)
	case "prop":
		execProp(c, cs, abstract)
	case "response":
		execResponse(c, cs, abstract)
	}
	c.JournalDone()
}

// fixed documents: one per namespace construction the statement names.
var fixedDocs = []string{
	`<a/>`,
	`<p:a xmlns:p="urn:p"><b/></p:a>`,
	`<p:a xmlns:p="urn:p" xmlns="urn:d"/>`,
	`<r><p:a xmlns:p="urn:p" xmlns="urn:d"/></r>`,
	`<a xmlns="urn:a"><b/><c xmlns="urn:c"><d/></c></a>`,
	`<a xmlns="urn:a"><b xmlns=""><c/></b></a>`,
	`<p:a xmlns:p="urn:p"><p:b><p:c/></p:b></p:a>`,
	`<p:a xmlns:p="urn:p"><p:b xmlns:p="urn:q"><p:c/></p:b><p:d/></p:a>`,
	`<a xmlns:p="urn:p" p:x="1" xml:lang="en" y="2"><!-- c -->t<![CDATA[<&>]]>&amp;&#65;<?pi x?></a>`,
	`<D:prop xmlns:D="DAV:"><D:resourcetype><D:collection/></D:resourcetype><x:dead xmlns:x="urn:x" x:a="1">v<x:in/>w</x:dead></D:prop>`,
	`<a xmlns:unused="urn:u"><b xmlns:unused="urn:v"/></a>`,
	`<a><b><c><d><e><f><g><h>deep</h></g></f></e></d></c></b></a>`,
	// namespace names that are spelled like prefixes in use
	`<a:x xmlns:a="b" xmlns:b="c"><a:y a:k="1"/><b:z/></a:x>`,
	`<x xmlns="b" xmlns:b="c"><y/></x>`,
	`<a:x xmlns:a="b"><q xmlns:b="c"><a:y/></q></a:x>`,
	`<a:x xmlns:a="b" xmlns:b="b"><a:y b:k="1"/></a:x>`,
}

// fixedTyped: small container documents, run by every shard first.
var fixedTyped = []c15Case{
	{Kind: "response", Doc: `<D:response xmlns:D="DAV:"><D:href>/a</D:href><D:propstat><D:prop><D:displayname>n</D:displayname><D:getetag>"e"</D:getetag></D:prop><D:status>HTTP/1.1 200 OK</D:status></D:propstat></D:response>`},
	{Kind: "response", Doc: `<response xmlns="DAV:"><href>/a</href><propstat><prop><getcontentlength>7</getcontentlength><resourcetype><collection/></resourcetype><getetag>"e"</getetag></prop><status>HTTP/1.1 200 OK</status></propstat></response>`},
}

func c15Run(c *fw.Ctx) {
	// first of all: the first typed decode of this process decides what a
	// process-wide table keyed too coarsely would remember
	runPackages(c)
	// The fixed documents are executed by every shard, first, so that the
	// witness kept for a key is a small one whenever a fixed document shows it.
	for _, d := range fixedDocs {
		exec(c, c15Case{Kind: "tree", Doc: d}, nil)
		c.Observe("universe", "fixed documents (run by every shard)", 1)
	}
	for _, cs := range fixedTyped {
		exec(c, cs, nil)
		c.Observe("universe", "fixed documents (run by every shard)", 1)
	}
	for _, cs := range fixedReuse {
		execReuse(c, cs, nil)
	}
	runDeep(c)
	runWide(c)
	n := c.Pick(20000, 1000000)
	for i := 0; i < n; i++ {
		if !c.Mine(i) {
			continue
		}
		r := c.Rand("c15", i)
		switch k := r.Intn(23); {
		case k == 22:
			t := genDeepRandom(r)
			exec(c, c15Case{Kind: "tree", Doc: string(renderDoc(r, t))}, t)
			c.Observe("universe", "deep family: random deep trees (depth 10..300, random side subtrees)", 1)
		case k >= 20:
			cs, trees := genReuse(r)
			execReuse(c, cs, trees)
		case k < 11:
			t := genTree(r)
			if r.Intn(8) == 0 {
				spellLikePrefixes(r, t)
				c.Observe("universe", "random trees whose namespace names are spelled like the prefixes the serialiser uses", 1)
			}
			exec(c, c15Case{Kind: "tree", Doc: string(renderDoc(r, t))}, t)
			c.Observe("universe", "random trees", 1)
		case k < 16:
			sp := specs[r.Intn(len(specs))]
			t := genTyped(r, sp)
			exec(c, c15Case{Kind: "typed", Type: sp.Name, Doc: string(renderDoc(r, t))}, t)
			c.Observe("universe", "typed documents", 1)
		case k < 18:
			g := &tgen{r: r}
			t := g.prop()
			exec(c, c15Case{Kind: "prop", Doc: string(renderDoc(r, t))}, t)
			c.Observe("universe", "prop containers", 1)
		default:
			g := &tgen{r: r}
			t := xmltree.El(davNS, "response", g.leaf(davNS, "href", "/a/b"))
			ps := g.propstat("HTTP/1.1 200 OK")
			t.Add(ps)
			if r.Intn(2) == 0 {
				t.Add(g.propstat(g.pick([]string{"HTTP/1.1 404 Not Found", "HTTP/1.1 200 OK"})))
			}
			if r.Intn(3) == 0 {
				decorateTyped(r, t)
			}
			exec(c, c15Case{Kind: "response", Doc: string(renderDoc(r, t))}, t)
			c.Observe("universe", "response documents", 1)
		}
	}
}

func init() {
	fw.Register(&fw.Property{
		ID:  "C15",
		Run: c15Run,
		Replay: func(c *fw.Ctx, w json.RawMessage) {
			var cs c15Case
			if json.Unmarshal(w, &cs) != nil {
				return
			}
			if cs.Kind == "reuse" {
				execReuse(c, cs, nil)
			} else if cs.Doc != "" {
				exec(c, cs, nil)
			}
		},
		Rule: "random element trees (depth <= 8, fan-out <= 5, up to 4 namespaces + unqualified names, namespaced/xml:/plain attributes, mixed content, comments, PIs) " +
			"serialised with random lexical choices (default vs prefixed namespaces, prefix redeclaration, default undeclaration and redeclaration, unused declarations, " +
			"a default declaration on a prefixed element, CDATA, character references, predefined entities, quoting, white space in tags, prolog); every document is first parsed by the " +
			"strict harness reader and must denote the generated tree. Each document is captured as internal.RawXMLValue (xml.Unmarshal, Decoder.Decode, every child through an ',any' field), " +
			"then XMLName(), TokenReader() and xml.Marshal are observed; outputs are re-read with encoding/xml's namespace-translating tokenizer and compared as namespace-expanded trees. " +
			"Typed documents for every exported element type of package internal and mirrors of the caldav/carddav property shapes: raw.Decode vs xml.Unmarshal; Prop.Get / Prop.Decode / Response.DecodeProp vs the property element decoded on its own. " +
			"Deep family (the statement says 'for every nesting depth'): chains, chains with siblings before and after the deep child at every level, nested caldav comp-in-comp and DAV prop/resourcetype/response/multistatus/propertyupdate containers holding a deep property, " +
			"at EVERY depth 1..72 and at 96, 127-130, 255-258, 511, 513, 1000, in a plain and in random lexical forms, plus random deep trees (depth 10..300); the small fixed ones are run by every shard first. " +
			"Wide family (no clause of the statement bounds breadth): 6..5000 sibling elements around every power of two (with text and comments between them, a prefix redeclaration in the middle, a default undeclaration at a third, a default-namespace child last), " +
			"Prop / ResourceType / Response / MultiStatus / component-set containers with that many members (typed properties first, in the middle and last), elements with 4..1000 attributes, character data / comment / attribute-value runs up to 200000 bytes; " +
			"children of elements with more than 300 child elements are checked one by one at sampled positions (first, last, around the powers of two), all of them through the root and the container. " +
			"Response.DecodeProp is also called with several values at once (neighbouring typed properties in both orders, all present ones): each must equal the property decoded on its own up to the first one whose direct decoding fails. " +
			"Reuse sequences: 2 or 3 documents captured one after the other into ONE variable (xml.Unmarshal, Decoder.Decode, DecodeElement, a struct field, a single ',any' field of a wrapper decoded repeatedly), a value copy kept after each capture " +
			"(assignment, slice append, pointer dereference) with the next document having fewer, as many and more children; every kept copy is observed at copy time and again at the end (token stream, Marshal output, Decode results must not change). " +
			"distinct_nontrivial counts distinct (case kind, typed element or child count, set of namespace/lexical features present, depth).",
		Assumptions: []string{
			"namespace names contain ':' except in one family, whose namespace names are spelled like the prefixes the documents declare (feature namespace-spelled-like-bound-prefix); the namespace names \"xml\" and \"xmlns\" are never used",
			"the re-reader is encoding/xml (as the property prescribes): attributes it reports in the pseudo-namespace \"xmlns\" (the encoder writes captured declarations as _xmlns:p=…) and repeated xmlns attributes are namespace-declaration artefacts, counted in the evidence, not compared",
			"processing instructions are not named by the statement: present in the workload, not compared",
			"DecodeProp is compared only for properties under a 200 propstat of a response without response-level status (status semantics belong to C14)",
			"the decoded value after a decoding error is not compared (only that both ways fail)",
		},
		MinEvals:    func(t string) int64 { return 10000 },
		MinDistinct: func(t string) int64 { return 300 },
		TimeoutS: func(t string) int {
			if t == "thorough" {
				return 3600
			}
			return 600
		},
	})
}

package c15

import (
	"fmt"
	"math/rand"

	"github.com/emersion/go-webdav/verifharness/fw"
	"github.com/emersion/go-webdav/verifharness/xmltree"
)

// The "deep" family: the statement says "for every nesting depth". Chains and
// chains with side branches at EVERY depth from 1 to deepEvery, a few much
// deeper ones, and typed documents that nest (caldav comp in comp, DAV prop
// containers holding a deep property). Siblings before and after the deep
// child make a repeated or skipped child visible in the token stream, in the
// Marshal output and in every Decode result.

const deepEvery = 72

var deepExtra = []int{96, 127, 128, 129, 130, 255, 256, 257, 258, 511, 513, 1000}

const deepNS = "urn:verif:deep"

// deepChain: l1 > l2 > … > ld > "leaf".
func deepChain(d int, ns string) *xmltree.Node {
	leaf := xmltree.El(ns, fmt.Sprintf("l%d", d), xmltree.Txt("leaf"))
	n := leaf
	for i := d - 1; i >= 1; i-- {
		n = xmltree.El(ns, fmt.Sprintf("l%d", i), n)
	}
	return n
}

// deepBranches: like deepChain, but at the levels chosen by every (all levels
// when every == 1) the deep child has siblings before and after it: an
// element with text, character data, a comment, an attribute.
func deepBranches(d int, ns string, every int) *xmltree.Node {
	n := xmltree.El(ns, fmt.Sprintf("l%d", d), xmltree.Txt("leaf"), xmltree.El(ns, "bottom"), xmltree.Txt("tail"))
	for i := d - 1; i >= 1; i-- {
		p := xmltree.El(ns, fmt.Sprintf("l%d", i))
		if i%every == 0 {
			p.With("level", fmt.Sprint(i))
			p.Add(xmltree.El(ns, "before", xmltree.Txt(fmt.Sprintf("b%d", i))))
			if i%2 == 0 {
				p.Add(xmltree.Txt(fmt.Sprintf("t%d", i)))
			}
			p.Add(n)
			if i%3 == 0 {
				p.Add(&xmltree.Node{Kind: xmltree.Comment, Data: fmt.Sprintf(" c%d ", i)})
			}
			p.Add(xmltree.El(ns, "after", xmltree.Txt(fmt.Sprintf("a%d", i))))
		} else {
			p.Add(n)
		}
		n = p
	}
	return n
}

// deepComp: caldav comp nested d deep, each level with prop siblings before
// and a sibling comp after the nested one.
func deepComp(d int) *xmltree.Node {
	var n *xmltree.Node
	for i := d; i >= 1; i-- {
		c := xmltree.El(calNS, "comp").With("name", fmt.Sprintf("C%d", i))
		c.Add(xmltree.El(calNS, "prop").With("name", fmt.Sprintf("P%d", i)))
		if n != nil {
			c.Add(n)
		} else {
			c.Add(xmltree.El(calNS, "allcomp"))
		}
		if i%2 == 0 {
			c.Add(xmltree.El(calNS, "comp").With("name", fmt.Sprintf("S%d", i)))
		}
		n = c
	}
	return n
}

type deepCase struct {
	cs   c15Case
	tree *xmltree.Node
}

func mk(kind, typ string, t *xmltree.Node, r *rand.Rand) deepCase {
	var doc []byte
	if r == nil {
		doc = renderPlain(t)
	} else {
		doc = renderDoc(r, t)
	}
	return deepCase{cs: c15Case{Kind: kind, Type: typ, Doc: string(doc)}, tree: t}
}

// deepCasesAt lists the cases of nesting depth d (depth of the raw value
// captured, counted in elements). r == nil: plain lexical form.
func deepCasesAt(d int, r *rand.Rand) []deepCase {
	every := 1
	if d > 2*deepEvery {
		every = 7
	}
	var l []deepCase
	// untyped trees
	l = append(l, mk("tree", "", deepChain(d, ""), r))
	l = append(l, mk("tree", "", deepChain(d, deepNS), r))
	l = append(l, mk("tree", "", deepBranches(d, deepNS, every), r))
	// a DAV prop container holding a deep dead property next to live ones
	deadProp := func() *xmltree.Node {
		if d < 2 {
			return xmltree.El(deepNS, "l1", xmltree.Txt("leaf"))
		}
		return deepBranches(d, deepNS, every)
	}
	propWith := func(kids ...*xmltree.Node) *xmltree.Node {
		p := xmltree.El(davNS, "prop", xmltree.El(davNS, "displayname", xmltree.Txt("before")))
		p.Add(kids...)
		p.Add(xmltree.El(davNS, "getetag", xmltree.Txt(`"after"`)))
		return p
	}
	calData := xmltree.El(calNS, "calendar-data", deepComp(d))
	resType := xmltree.El(davNS, "resourcetype", xmltree.El(davNS, "collection"), deadProp(), xmltree.El(calNS, "calendar"))
	l = append(l, mk("typed", "mirror:calendar-data-request", calData.Clone(), r))
	l = append(l, mk("typed", "mirror:supported-calendar-component-set", xmltree.El(calNS, "supported-calendar-component-set", deepComp(d), xmltree.El(calNS, "comp").With("name", "LAST")), r))
	l = append(l, mk("typed", "ResourceType", resType.Clone(), r))
	l = append(l, mk("typed", "Prop", propWith(deadProp()), r))
	l = append(l, mk("prop", "", propWith(deadProp(), calData.Clone(), resType.Clone()), r))
	resp := xmltree.El(davNS, "response", xmltree.El(davNS, "href", xmltree.Txt("/a/b")),
		xmltree.El(davNS, "propstat", propWith(calData.Clone(), deadProp(), resType.Clone()), xmltree.El(davNS, "status", xmltree.Txt("HTTP/1.1 200 OK"))))
	l = append(l, mk("response", "", resp, r))
	ms := xmltree.El(davNS, "multistatus", resp.Clone(), xmltree.El(davNS, "response", xmltree.El(davNS, "href", xmltree.Txt("/c")),
		xmltree.El(davNS, "propstat", propWith(deadProp()), xmltree.El(davNS, "status", xmltree.Txt("HTTP/1.1 200 OK")))))
	l = append(l, mk("typed", "MultiStatus", ms, r))
	pu := xmltree.El(davNS, "propertyupdate", xmltree.El(davNS, "set", propWith(deadProp())), xmltree.El(davNS, "remove", propWith(xmltree.El(deepNS, "gone"))))
	l = append(l, mk("typed", "PropertyUpdate", pu, r))
	return l
}

func runDeepCase(c *fw.Ctx, dc deepCase, d int, label string) {
	exec(c, dc.cs, dc.tree)
	c.Observe("universe", label, 1)
	what := dc.cs.Kind
	if dc.cs.Type != "" {
		what += " " + dc.cs.Type
	}
	c.Observe("deep_family (cases per kind)", what, 1)
	b := "1-15"
	switch {
	case d >= 1000:
		b = "1000"
	case d >= 256:
		b = "256-513"
	case d >= 96:
		b = "96-130"
	case d >= 65:
		b = "65-72"
	case d >= 33:
		b = "33-64"
	case d >= 17:
		b = "17-32"
	case d == 16:
		b = "16"
	}
	c.Observe("deep_family (nesting depth of the raw value)", b, 1)
	c.Distinct(fmt.Sprintf("deep|%s|d=%d", what, d))
}

// deepFixedDepths are run by every shard first, smallest first, so that the
// witness kept for a key is a small one.
var deepFixedDepths = []int{9, 15, 16, 17, 18, 33}

func runDeep(c *fw.Ctx) {
	for _, d := range deepFixedDepths {
		for i, dc := range deepCasesAt(d, nil) {
			if i >= 3 && d != 17 {
				break // untyped chains at every fixed depth, the typed ones at 17 only
			}
			runDeepCase(c, dc, d, "deep family: fixed (run by every shard)")
		}
	}
	idx := 0
	depths := make([]int, 0, deepEvery+len(deepExtra))
	for d := 1; d <= deepEvery; d++ {
		depths = append(depths, d)
	}
	depths = append(depths, deepExtra...)
	for _, d := range depths {
		// plain lexical form, then one (thorough: four) random lexical forms
		forms := 1 + c.Pick(1, 4)
		if d > 300 {
			forms = 1 + c.Pick(0, 1)
		}
		for f := 0; f < forms; f++ {
			if !c.Mine(idx) {
				idx++
				continue
			}
			idx++
			var r *rand.Rand
			if f > 0 {
				r = c.Rand("c15-deep", d*16+f)
			}
			for _, dc := range deepCasesAt(d, r) {
				if d > 300 && dc.cs.Kind != "tree" && dc.cs.Type != "mirror:calendar-data-request" && dc.cs.Kind != "prop" {
					continue
				}
				runDeepCase(c, dc, d, "deep family: every depth 1.."+fmt.Sprint(deepEvery)+" and "+fmt.Sprint(deepExtra))
			}
		}
	}
}

// genDeepRandom: a chain of random depth whose levels carry random subtrees
// before and after the deep child.
func genDeepRandom(r *rand.Rand) *xmltree.Node {
	d := 10 + r.Intn(70)
	if r.Intn(10) == 0 {
		d = 80 + r.Intn(220)
	}
	nss := []string{"", deepNS, "urn:a", davNS}
	ns := nss[r.Intn(len(nss))]
	n := xmltree.El(ns, "bottom", xmltree.Txt("leaf"))
	side := func() *xmltree.Node {
		g := newTreeGen(r)
		if g.budget > 6 {
			g.budget = 6
		}
		if g.maxDepth > 3 {
			g.maxDepth = 3
		}
		return g.element(2, ns)
	}
	for i := d - 1; i >= 1; i-- {
		if r.Intn(6) == 0 {
			ns = nss[r.Intn(len(nss))]
		}
		p := xmltree.El(ns, localPool[r.Intn(len(localPool))])
		if r.Intn(4) == 0 {
			p.Add(side())
		}
		if r.Intn(6) == 0 {
			p.Add(xmltree.Txt(fmt.Sprintf("t%d", i)))
		}
		p.Add(n)
		if r.Intn(4) == 0 {
			p.Add(side())
		}
		n = p
	}
	return n
}

package c15

import (
	"fmt"
	"math/rand"
	"strings"

	"github.com/emersion/go-webdav/verifharness/fw"
	"github.com/emersion/go-webdav/verifharness/xmltree"
)

// The "wide" family: breadth as a dimension of its own, mirroring the deep
// family. The statement says "same ... child order" and "attribute values,
// character data, comments" without any bound on how many siblings or
// attributes an element has or how long a run of character data is: sibling
// counts around every power of two up to 4096 (and 100, 1000, 5000), with a
// prefix redeclaration, a default undeclaration and a default-namespace child
// at fixed fractions of the way; elements with many attributes; long text,
// CDATA and comment runs; and the property containers (Prop, ResourceType,
// Response, MultiStatus) holding that many members.

var wideCounts = []int{6, 7, 8, 9, 15, 16, 17, 31, 32, 33, 63, 64, 65, 100, 127, 128, 129, 255, 256, 257, 511, 512, 513,
	1000, 1023, 1024, 1025, 2047, 2048, 2049, 4095, 4096, 4097, 5000}

var wideAttrCounts = []int{4, 7, 8, 9, 15, 16, 17, 31, 32, 33, 50, 63, 64, 65, 100, 255, 256, 257, 1000}

var wideTextSizes = []int{1023, 1024, 1025, 4095, 4096, 4097, 8192, 65535, 65536, 65537, 200000}

const (
	wideNS  = "urn:verif:wide"
	wideNS2 = "urn:verif:wide2"
	wideNSd = "urn:verif:wide:d"
)

// wideSampleAbove: elements with more child elements than this have their
// children checked one by one at sampled positions only (the checks of the
// parent and of the container cover every child and the order anyway).
const wideSampleAbove = 300

// wideSample tells whether child i of n is checked on its own.
func wideSample(i, n int) bool {
	if n <= wideSampleAbove || i < 4 || i >= n-4 || i == n/2 || i == n/3 {
		return true
	}
	for p := 8; p <= n; p *= 2 {
		if i >= p-2 && i <= p+1 {
			return true
		}
	}
	return i%97 == 0
}

// wideTree: n child elements, each told apart by an attribute and its text,
// with character data and comments between some of them; the child in the
// middle lives in another namespace and has a child of its own, the one at a
// third is unqualified, the last one is in a third namespace.
func wideTree(n int, ns string) *xmltree.Node {
	root := xmltree.El(ns, "wide").With("n", fmt.Sprint(n))
	for k := 0; k < n; k++ {
		var ch *xmltree.Node
		switch {
		case k == n/2:
			ch = xmltree.El(wideNS2, "c", xmltree.El(wideNS2, "in"), xmltree.Txt(fmt.Sprintf("m%d", k))).With("i", fmt.Sprint(k))
		case k == n/3:
			ch = xmltree.El("", "c", xmltree.Txt(fmt.Sprintf("u%d", k))).With("i", fmt.Sprint(k))
		case k == n-1:
			ch = xmltree.El(wideNSd, "c").With("i", fmt.Sprint(k))
		default:
			ch = xmltree.El(ns, "c", xmltree.Txt(fmt.Sprintf("t%d", k))).With("i", fmt.Sprint(k))
		}
		root.Add(ch)
		if k%5 == 4 {
			root.Add(xmltree.Txt(fmt.Sprintf("x%d", k)))
		}
		if k%11 == 10 {
			root.Add(&xmltree.Node{Kind: xmltree.Comment, Data: fmt.Sprintf(" c%d ", k)})
		}
	}
	return root
}

// wideLexDoc: the same idea written by hand, so that the namespace
// constructions are certain to occur: every child uses the prefix of the
// root, child n/2 REDECLARES that prefix, child n/3 undeclares the default
// namespace, the last child relies on the default namespace of the root.
func wideLexDoc(n int) string {
	var sb strings.Builder
	sb.WriteString(`<p:wide xmlns:p="` + wideNS + `" xmlns="` + wideNSd + `" n="` + fmt.Sprint(n) + `">`)
	for k := 0; k < n; k++ {
		switch {
		case k == n/2:
			fmt.Fprintf(&sb, `<p:c xmlns:p="%s" i="%d" p:j="%d"><p:in/>m%d</p:c>`, wideNS2, k, k, k)
		case k == n/3:
			fmt.Fprintf(&sb, `<c xmlns="" i="%d">u%d</c>`, k, k)
		case k == n-1:
			fmt.Fprintf(&sb, `<c i="%d"/>`, k)
		default:
			fmt.Fprintf(&sb, `<p:c i="%d">t%d</p:c>`, k, k)
		}
		if k%7 == 6 {
			fmt.Fprintf(&sb, "x%d", k)
		}
		if k%13 == 12 {
			fmt.Fprintf(&sb, "<!-- c%d -->", k)
		}
	}
	sb.WriteString(`</p:wide>`)
	return sb.String()
}

// wideAttrs: one element with m attributes (unqualified, namespaced in two
// namespaces, xml:lang) and a child with as many.
func wideAttrs(m int) *xmltree.Node {
	mk := func(local string) *xmltree.Node {
		e := xmltree.El(wideNS, local)
		for k := 0; k < m; k++ {
			a := xmltree.Attr{Local: fmt.Sprintf("a%d", k), Value: fmt.Sprintf("v%d", k)}
			switch {
			case k == m/2:
				a.Space, a.Local = xmlNS, "lang"
			case k%3 == 1:
				a.Space = wideNS
			case k%7 == 3:
				a.Space = wideNS2
			}
			e.Attrs = append(e.Attrs, a)
		}
		return e
	}
	root := mk("attrs")
	root.Add(xmltree.Txt("before"), mk("inner"), xmltree.Txt("after"))
	return root
}

// wideRun builds a run of sz bytes in which every position is recognisable.
func wideRun(sz int, tag string) string {
	var sb strings.Builder
	for i := 0; sb.Len() < sz; i++ {
		fmt.Fprintf(&sb, "%s%d<&>é ", tag, i)
	}
	s := sb.String()
	for sz > 0 && sz < len(s) && s[sz]&0xC0 == 0x80 {
		sz-- // not in the middle of a character
	}
	return s[:sz]
}

// wideText: long character data before and after a child, a long comment,
// a long attribute value.
func wideText(sz int) *xmltree.Node {
	cm := wideRun(sz, "c")
	return xmltree.El(wideNS, "text", xmltree.Txt(wideRun(sz, "a")), xmltree.El(wideNS, "mid", xmltree.Txt("m")), xmltree.Txt(wideRun(sz/2+1, "b")),
		&xmltree.Node{Kind: xmltree.Comment, Data: cm + " "}, xmltree.El("", "tail", xmltree.Txt("z"))).With("long", wideRun(sz/4+1, "v"))
}

// widePropKids: n properties. Typed ones first, in the middle and last, dead
// ones (distinct names, a repeated name every 50th) in between.
func widePropKids(n int) []*xmltree.Node {
	var l []*xmltree.Node
	for k := 0; k < n; k++ {
		switch {
		case k == 0:
			l = append(l, xmltree.El(davNS, "displayname", xmltree.Txt("first")))
		case k == n/2:
			l = append(l, xmltree.El(davNS, "resourcetype", xmltree.El(davNS, "collection"), xmltree.El(calNS, "calendar")))
		case k == n-2:
			l = append(l, xmltree.El(davNS, "getcontentlength", xmltree.Txt(fmt.Sprint(k))))
		case k == n-1:
			l = append(l, xmltree.El(davNS, "getetag", xmltree.Txt(`"last"`)))
		case k%50 == 49:
			l = append(l, xmltree.El(wideNS, "p1", xmltree.Txt(fmt.Sprintf("again%d", k))))
		case k%2 == 0:
			l = append(l, xmltree.El(wideNS, fmt.Sprintf("p%d", k), xmltree.Txt(fmt.Sprintf("d%d", k))))
		default:
			l = append(l, xmltree.El("", fmt.Sprintf("p%d", k), xmltree.El(wideNS2, "v").With("i", fmt.Sprint(k))))
		}
	}
	return l
}

func ok200() *xmltree.Node { return xmltree.El(davNS, "status", xmltree.Txt("HTTP/1.1 200 OK")) }

// wideCasesAt lists the cases with n siblings. r == nil: plain lexical form.
func wideCasesAt(n int, r *rand.Rand, containers bool) []deepCase {
	var l []deepCase
	if r == nil {
		l = append(l, deepCase{cs: c15Case{Kind: "tree", Doc: wideLexDoc(n)}})
	}
	l = append(l, mk("tree", "", wideTree(n, wideNS), r))
	if !containers {
		return l
	}
	l = append(l, mk("tree", "", wideTree(n, ""), r))
	prop := func() *xmltree.Node { return xmltree.El(davNS, "prop", widePropKids(n)...) }
	l = append(l, mk("prop", "", prop(), r))
	l = append(l, mk("typed", "Prop", prop(), r))
	rt := xmltree.El(davNS, "resourcetype")
	for k := 0; k < n; k++ {
		ns := []string{davNS, calNS, wideNS, ""}[k%4]
		rt.Add(xmltree.El(ns, fmt.Sprintf("t%d", k)))
	}
	l = append(l, mk("typed", "ResourceType", rt, r))
	l = append(l, mk("response", "", xmltree.El(davNS, "response", xmltree.El(davNS, "href", xmltree.Txt("/a/b")),
		xmltree.El(davNS, "propstat", prop(), ok200())), r))
	ms := xmltree.El(davNS, "multistatus")
	for k := 0; k < n; k++ {
		ms.Add(xmltree.El(davNS, "response", xmltree.El(davNS, "href", xmltree.Txt(fmt.Sprintf("/r/%d", k))),
			xmltree.El(davNS, "propstat", xmltree.El(davNS, "prop", xmltree.El(davNS, "displayname", xmltree.Txt(fmt.Sprintf("n%d", k))),
				xmltree.El(wideNS, "dead", xmltree.Txt(fmt.Sprint(k)))), ok200())))
	}
	l = append(l, mk("typed", "MultiStatus", ms, r))
	comps := xmltree.El(calNS, "supported-calendar-component-set")
	for k := 0; k < n; k++ {
		comps.Add(xmltree.El(calNS, "comp").With("name", fmt.Sprintf("C%d", k)))
	}
	l = append(l, mk("typed", "mirror:supported-calendar-component-set", comps, r))
	return l
}

func wideBucket(dim string, n int) string {
	switch {
	case dim == "run length" && n >= 65535:
		return "65535-200000"
	case dim == "run length" && n >= 4095:
		return "4095-8192"
	case dim == "run length":
		return "1023-1025"
	case n >= 2047:
		return "2047-5000"
	case n >= 1000:
		return "1000-1025"
	case n >= 255:
		return "255-513"
	case n >= 63:
		return "63-129"
	case n >= 17:
		return "17-33"
	}
	return "4-16"
}

func runWideCase(c *fw.Ctx, dc deepCase, dim string, n int, label string) {
	exec(c, dc.cs, dc.tree)
	c.Observe("universe", label, 1)
	what := dc.cs.Kind
	if dc.cs.Type != "" {
		what += " " + dc.cs.Type
	}
	c.Observe("wide_family (cases per kind)", dim+": "+what, 1)
	c.Observe("wide_family ("+dim+")", wideBucket(dim, n), 1)
	c.Distinct(fmt.Sprintf("wide|%s|%s|n=%d", dim, what, n))
}

// wideFixed are run by every shard first, smallest first, so that the witness
// kept for a key is a small one.
var wideFixed = []int{6, 9, 17, 33}

func runWide(c *fw.Ctx) {
	for _, n := range wideFixed {
		for _, dc := range wideCasesAt(n, nil, false) {
			runWideCase(c, dc, "siblings", n, "wide family: fixed (run by every shard)")
		}
	}
	const label = "wide family: sibling counts 6..5000 around the powers of two, attribute counts 4..1000, character data / comment / attribute-value runs up to 200000 bytes"
	idx := 0
	mine := func() bool {
		idx++
		return c.Mine(idx - 1)
	}
	for _, n := range wideCounts {
		// plain lexical form, then one (thorough: three) random lexical forms;
		// the property containers up to 1025 members (thorough: all)
		forms := 1 + c.Pick(1, 3)
		containers := n <= c.Pick(1025, 5000)
		if n > 1025 {
			forms = 1 + c.Pick(0, 1)
		}
		for f := 0; f < forms; f++ {
			if !mine() {
				continue
			}
			var r *rand.Rand
			if f > 0 {
				r = c.Rand("c15-wide", n*16+f)
			}
			for _, dc := range wideCasesAt(n, r, containers) {
				runWideCase(c, dc, "siblings", n, label)
			}
		}
	}
	for _, m := range wideAttrCounts {
		for f := 0; f < 2+c.Pick(0, 2); f++ {
			if !mine() {
				continue
			}
			var r *rand.Rand
			if f > 0 {
				r = c.Rand("c15-wide-attr", m*16+f)
			}
			runWideCase(c, mk("tree", "", wideAttrs(m), r), "attributes", m, label)
		}
	}
	for _, sz := range wideTextSizes {
		for f := 0; f < 2+c.Pick(0, 2); f++ {
			if !mine() {
				continue
			}
			var r *rand.Rand
			if f > 0 {
				r = c.Rand("c15-wide-text", sz*16+f)
			}
			runWideCase(c, mk("tree", "", wideText(sz), r), "run length", sz, label)
		}
	}
}

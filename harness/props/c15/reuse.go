package c15

import (
	"bytes"
	"encoding/xml"
	"fmt"
	"math/rand"
	"reflect"
	"strings"

	"github.com/emersion/go-webdav/internal"
	"github.com/emersion/go-webdav/verifharness/fw"
	"github.com/emersion/go-webdav/verifharness/xmltree"
)

// The "reuse" family: a raw value is a value. go-webdav copies RawXMLValue by
// value everywhere (Prop.Raw elements, *raw dereferences), so a copy taken
// after a capture must keep denoting what was captured, whatever is captured
// next into the variable it was copied from.
//
// Documents D1..Dn (n = 2 or 3) are captured in sequence into ONE variable; a
// value copy is kept after each capture and observed at once (token stream,
// xml.Marshal output, Decode result). After the last capture every kept copy
// is observed again: nothing may have changed and the token stream must still
// denote the copy's own source document.

const reuseKey = "kept copy changed after the variable captured another document"

var reuseVariants = []string{"value-copy", "slice-append", "pointer-deref", "struct-field", "decoder-decode", "decode-element", "any-field"}

// reuseWrapNS is the root of the wrapper documents of the "any-field" variant.
const reuseWrapNS = "urn:verif:wrap"

type reuseHolder struct {
	Pad string
	V   internal.RawXMLValue
}

// reuseAnyWrap has ONE raw value filled through ",any": decoding wrapper
// documents repeatedly into the same struct re-captures into the same field.
type reuseAnyWrap struct {
	XMLName xml.Name             `xml:"urn:verif:wrap w"`
	Inner   internal.RawXMLValue `xml:",any"`
}

type reuseSnap struct {
	canon   string // tree denoted by the token stream
	nKids   int    // child tokens of the root
	marshal string // xml.Marshal output ("!err" on error)
	generic string // signature of the generic typed decode
	typed   interface{}
	typedE  bool
}

func genericSig(raw *internal.RawXMLValue) string {
	var g genericTyped
	var err error
	if p, pv, _ := fw.Guard(func() { err = raw.Decode(&g) }); p {
		return fmt.Sprintf("!panic %v", pv)
	}
	if err != nil {
		return "!err " + err.Error()
	}
	var sb strings.Builder
	fmt.Fprintf(&sb, "{%s}%s|%q|%d", g.XMLName.Space, g.XMLName.Local, g.Text, len(g.Kids))
	for i := range g.Kids {
		sb.WriteString("|" + rawCanon(&g.Kids[i]))
	}
	return sb.String()
}

func reuseObserve(raw *internal.RawXMLValue, sp *typeSpec) reuseSnap {
	var s reuseSnap
	o := readStream(raw.TokenReader(), 1<<20)
	if o.Problem != "" || o.Tree == nil {
		s.canon = "!" + o.Problem + ":" + o.Detail
	} else {
		s.canon = o.Tree.Canon(cmp)
		s.nKids = len(o.Tree.Children)
	}
	var out []byte
	var err error
	if p, pv, _ := fw.Guard(func() { out, err = xml.Marshal(raw) }); p {
		s.marshal = fmt.Sprintf("!panic %v", pv)
	} else if err != nil {
		s.marshal = "!err " + err.Error()
	} else {
		s.marshal = string(out)
	}
	s.generic = genericSig(raw)
	if sp != nil {
		v := sp.New()
		var derr error
		fw.Guard(func() { derr = raw.Decode(v) })
		s.typed, s.typedE = v, derr != nil
	}
	return s
}

// capture captures doc into the reused variable the way the variant says and
// returns a value copy of it.
type reuseState struct {
	variant string
	v       internal.RawXMLValue
	h       reuseHolder
	w       reuseAnyWrap
	list    []internal.RawXMLValue
}

func (st *reuseState) capture(doc []byte) (kept *internal.RawXMLValue, err error) {
	switch st.variant {
	case "value-copy":
		if err = xml.Unmarshal(doc, &st.v); err != nil {
			return nil, err
		}
		k := st.v
		return &k, nil
	case "slice-append":
		if err = xml.Unmarshal(doc, &st.v); err != nil {
			return nil, err
		}
		st.list = append(st.list, st.v)
		k := st.list[len(st.list)-1]
		return &k, nil
	case "pointer-deref":
		p := &st.v
		if err = xml.Unmarshal(doc, p); err != nil {
			return nil, err
		}
		k := *p
		return &k, nil
	case "struct-field":
		if err = xml.Unmarshal(doc, &st.h.V); err != nil {
			return nil, err
		}
		k := st.h.V
		return &k, nil
	case "decoder-decode":
		if err = xml.NewDecoder(bytes.NewReader(doc)).Decode(&st.v); err != nil {
			return nil, err
		}
		k := st.v
		return &k, nil
	case "decode-element":
		d := xml.NewDecoder(bytes.NewReader(doc))
		for {
			tok, terr := d.Token()
			if terr != nil {
				return nil, terr
			}
			if se, ok := tok.(xml.StartElement); ok {
				if err = d.DecodeElement(&st.v, &se); err != nil {
					return nil, err
				}
				break
			}
		}
		k := st.v
		return &k, nil
	case "any-field":
		if err = xml.Unmarshal(doc, &st.w); err != nil {
			return nil, err
		}
		k := st.w.Inner
		return &k, nil
	}
	return nil, fmt.Errorf("unknown variant %q", st.variant)
}

func rel(a, b int) string {
	switch {
	case b == 0:
		return "next has no children"
	case b < a:
		return "next has fewer children"
	case b == a:
		return "next has as many children"
	default:
		return "next has more children"
	}
}

func execReuse(c *fw.Ctx, cs c15Case, abstracts []*xmltree.Node) {
	c.Journal(cs)
	defer c.JournalDone()
	if len(cs.Docs) < 2 {
		c.Inconclusive("C15 harness: reuse case with fewer than two documents")
		return
	}
	var sp *typeSpec
	if cs.Type != "" {
		sp = specByName[cs.Type]
	}
	st := &reuseState{variant: cs.Variant}
	type keptT struct {
		raw    *internal.RawXMLValue
		src    *xmltree.Node
		run    *run
		snap   reuseSnap
		usable bool
	}
	var kept []*keptT
	for i, doc := range cs.Docs {
		var abs *xmltree.Node
		if i < len(abstracts) {
			abs = abstracts[i]
		}
		r, ok := prepare(c, c15Case{Kind: "reuse", Doc: doc}, abs)
		if !ok {
			return
		}
		r.cs = cs
		src := r.t0
		if cs.Variant == "any-field" {
			el := r.t0.Elems()
			if !r.t0.Is(reuseWrapNS, "w") || len(el) != 1 {
				c.Inconclusive("C15 harness: any-field wrapper document without exactly one child element")
				return
			}
			src = el[0]
		}
		var k *internal.RawXMLValue
		var err error
		if p, pv, stk := fw.Guard(func() { k, err = st.capture([]byte(doc)) }); p {
			r.report("capture", "panic "+fw.PanicSite(stk), fmt.Sprintf("capture into a reused variable panicked: %v", pv), "reuse "+cs.Variant, "", stk)
			return
		}
		if err != nil {
			r.captureFailed("reuse "+cs.Variant, err)
			return
		}
		kt := &keptT{raw: k, src: src, run: r}
		kt.snap = reuseObserve(k, sp)
		// at capture time the copy must denote its source (ordinary check)
		kt.usable = kt.snap.canon == src.Canon(cmp)
		if !kt.usable {
			r.checkTokens(fmt.Sprintf("reuse %s (capture %d into a used variable)", cs.Variant, i+1), k, src)
		}
		kept = append(kept, kt)
	}
	c.Eval(1)
	c.Observe("universe", "reuse sequences", 1)
	c.Observe("reuse_variant", cs.Variant, 1)
	var rels []string
	for i := 1; i < len(kept); i++ {
		rl := rel(kept[i-1].snap.nKids, kept[i].snap.nKids)
		rels = append(rels, rl)
		c.Observe("reuse_child_count_relation", rl, 1)
	}
	typed := "untyped"
	if sp != nil {
		typed = sp.Name
	}
	c.Distinct(fmt.Sprintf("reuse|%s|%s|%s|n=%d", cs.Variant, strings.Join(rels, ","), typed, len(kept)))
	// every kept copy, observed again after all captures
	for i, kt := range kept {
		if !kt.usable {
			continue
		}
		now := reuseObserve(kt.raw, sp)
		var what, detail, observed string
		switch {
		case now.canon != kt.snap.canon:
			what = "token stream"
			observed = now.canon
			if now.canon != "" && now.canon[0] != '!' {
				o := readStream(kt.raw.TokenReader(), 1<<20)
				if o.Tree != nil {
					if d := firstDiff(kt.src, o.Tree); d != nil {
						detail = d.Kind + ": " + d.Detail
					}
				}
			}
		case now.marshal != kt.snap.marshal:
			what = "xml.Marshal output"
			observed = now.marshal
			detail = "at copy time: " + clip(kt.snap.marshal, 1500)
		case now.generic != kt.snap.generic:
			what = "Decode result (generic typed value)"
			observed = now.generic
		case sp != nil && (now.typedE != kt.snap.typedE || (!now.typedE && eqValue(reflect.ValueOf(now.typed), reflect.ValueOf(kt.snap.typed), "") != "")):
			what = "Decode result (" + sp.Name + ")"
			detail = eqValue(reflect.ValueOf(now.typed), reflect.ValueOf(kt.snap.typed), "")
			observed = fmt.Sprintf("%+v", now.typed)
		}
		if what == "" {
			c.Observe("reuse_kept_copies", "unchanged (token stream, Marshal output, Decode results)", 1)
			continue
		}
		c.Observe("reuse_kept_copies", "changed: "+what, 1)
		c.Observe("reuse_changed_by_variant", cs.Variant, 1)
		kt.run.report("reuse", reuseKey,
			fmt.Sprintf("copy kept after capture %d of %d (%s): its %s changed once the variable captured the next document; it no longer denotes its source", i+1, len(kept), cs.Variant, what),
			"reuse "+cs.Variant, observed, detail)
	}
}

// setChildren gives n exactly m children, recycling its own (or fresh leaf
// elements when it has none).
func setChildren(r *rand.Rand, n *xmltree.Node, m int) {
	old := n.Children
	n.Children = nil
	for i := 0; i < m; i++ {
		if len(old) > 0 && r.Intn(4) != 0 {
			n.Children = append(n.Children, old[i%len(old)].Clone())
		} else {
			n.Children = append(n.Children, xmltree.El(n.Space, fmt.Sprintf("k%d", i)))
		}
	}
}

func lexKids(n *xmltree.Node) int { return len(n.Children) }

// genReuse builds one reuse case.
func genReuse(r *rand.Rand) (c15Case, []*xmltree.Node) {
	cs := c15Case{Kind: "reuse", Variant: reuseVariants[r.Intn(len(reuseVariants))]}
	n := 2 + r.Intn(2)
	var trees []*xmltree.Node
	if r.Intn(5) < 2 {
		// typed documents of one element type with child elements
		names := []string{"Prop", "ResourceType", "PropFind", "MultiStatus", "Error", "PropStat", "PropertyUpdate",
			"mirror:supported-calendar-component-set", "mirror:calendar-home-set", "SyncCollectionQuery"}
		sp := specByName[names[r.Intn(len(names))]]
		cs.Type = sp.Name
		for i := 0; i < n; i++ {
			trees = append(trees, sp.Gen(&tgen{r: r}))
		}
	} else {
		first := genTree(r)
		if len(first.Children) == 0 || r.Intn(3) == 0 {
			setChildren(r, first, 1+r.Intn(5))
		}
		trees = append(trees, first)
		for i := 1; i < n; i++ {
			t := genTree(r)
			a := lexKids(trees[i-1])
			var m int
			switch r.Intn(7) {
			case 0:
				m = 1
			case 1:
				m = a - 1
			case 2, 3:
				m = a
			case 4:
				m = a + 1
			case 5:
				m = 2*a + 1
			default:
				m = -1 // as generated
			}
			if m == 0 && r.Intn(3) != 0 {
				m = 1
			}
			if m >= 0 {
				setChildren(r, t, m)
			}
			trees = append(trees, t)
		}
	}
	if cs.Variant == "any-field" {
		for i, t := range trees {
			trees[i] = xmltree.El(reuseWrapNS, "w", t)
		}
	}
	for _, t := range trees {
		// plain or varied lexical form; a plain form keeps the number of
		// child tokens equal to the number of abstract children
		if r.Intn(2) == 0 {
			cs.Docs = append(cs.Docs, string(renderPlain(t)))
		} else {
			cs.Docs = append(cs.Docs, string(renderDoc(r, t)))
		}
	}
	return cs, trees
}

// fixed reuse sequences, run by every shard first (small witnesses).
var fixedReuse = []c15Case{
	{Kind: "reuse", Variant: "value-copy", Docs: []string{`<a><b/><c/></a>`, `<x><y/></x>`}},
	{Kind: "reuse", Variant: "slice-append", Docs: []string{`<a><b/><c/></a>`, `<x><y/><z/></x>`, `<q>t</q>`}},
	{Kind: "reuse", Variant: "struct-field", Docs: []string{`<a>one<b/>two</a>`, `<x><y/></x>`}},
	{Kind: "reuse", Variant: "decoder-decode", Docs: []string{`<a><b/><c/></a>`, `<x><y/></x>`}},
	{Kind: "reuse", Variant: "decode-element", Docs: []string{`<a><b/><c/></a>`, `<x><y/></x>`}},
	{Kind: "reuse", Variant: "any-field", Docs: []string{`<w xmlns="urn:verif:wrap"><a xmlns=""><b/><c/></a></w>`, `<w xmlns="urn:verif:wrap"><x xmlns=""><y/></x></w>`}},
	{Kind: "reuse", Variant: "value-copy", Type: "ResourceType", Docs: []string{
		`<resourcetype xmlns="DAV:"><collection/><calendar xmlns="urn:ietf:params:xml:ns:caldav"/></resourcetype>`,
		`<resourcetype xmlns="DAV:"><principal/></resourcetype>`}},
}
